(* Proofs/Ssz.v : lemmas about the combinators of Base/Ssz.v (C14). *)
From Shisui Require Import Base.Bytes Base.Ssz.
From Coq Require Import ZifyBool ZifyN ZifyNat.
Ltac Zify.zify_post_hook ::= Z.div_mod_to_equations.

Local Arguments N.modulo : simpl never.
Local Arguments N.div : simpl never.
Local Arguments N.pow : simpl never.
Local Arguments N.mul : simpl never.
Local Arguments N.add : simpl never.
Local Arguments N.sub : simpl never.
Local Arguments N.ltb : simpl never.
Local Arguments N.leb : simpl never.
Local Arguments N.eqb : simpl never.
Local Arguments N.of_nat : simpl never.
Local Arguments N.to_nat : simpl never.

(* ---------- lists, slices ---------- *)

Lemma nlen_app {A} (a b : list A) : nlen (a ++ b) = nlen a + nlen b.
Proof. unfold nlen. rewrite app_length. lia. Qed.
Lemma nlen_nil {A} : nlen (@nil A) = 0.
Proof. reflexivity. Qed.
Lemma nlen_cons {A} (x : A) l : nlen (x :: l) = 1 + nlen l.
Proof. unfold nlen. simpl length. lia. Qed.
Lemma nlen_le_enc n v : nlen (le_enc n v) = N.of_nat n.
Proof. unfold nlen. now rewrite le_enc_length. Qed.

Lemma slice_full {A} (l : list A) : slice l 0 (length l) = Ok l.
Proof.
  unfold slice. simpl Nat.leb. rewrite Nat.leb_refl. simpl. rewrite Nat.sub_0_r. now rewrite firstn_all.
Qed.

Lemma slice_app {A} (a b r : list A) lo hi :
  length a = lo -> (lo + length b = hi)%nat -> slice (a ++ b ++ r) lo hi = Ok b.
Proof.
  intros Ha Hb. unfold slice.
  replace (Nat.leb lo hi) with true by (symmetry; apply Nat.leb_le; lia).
  replace (Nat.leb hi (length (a ++ b ++ r))) with true
    by (symmetry; apply Nat.leb_le; rewrite !app_length; lia).
  simpl. subst lo. rewrite skipn_app, skipn_all, Nat.sub_diag. simpl.
  replace (hi - length a)%nat with (length b + 0)%nat by lia.
  rewrite firstn_app_2. simpl. now rewrite app_nil_r.
Qed.

Lemma slice_app0 {A} (b r : list A) hi : length b = hi -> slice (b ++ r) 0 hi = Ok b.
Proof. intros H. apply (slice_app [] b r 0 hi); simpl; lia. Qed.

Lemma slice_tail {A} (a t : list A) lo : length a = lo -> slice (a ++ t) lo (length (a ++ t)) = Ok t.
Proof.
  intros H. replace (a ++ t) with (a ++ t ++ []) at 1 by now rewrite app_nil_r.
  apply slice_app; [assumption|]. rewrite app_length. lia.
Qed.

Lemma slice_inv {A} (l s : list A) lo hi :
  slice l lo hi = Ok s -> (lo <= hi <= length l)%nat /\ s = firstn (hi - lo) (skipn lo l).
Proof.
  unfold slice. destruct (Nat.leb lo hi) eqn:E1; [|discriminate].
  destruct (Nat.leb hi (length l)) eqn:E2; [|discriminate]. simpl.
  intros H; inversion H. apply Nat.leb_le in E1, E2. auto.
Qed.

Lemma slice_not_err {A} (l : list A) lo hi e : slice l lo hi <> Err e.
Proof. unfold slice. destruct (_ && _); discriminate. Qed.

Lemma tail_from_app (p t : bytes) o : o = nlen p -> tail_from (p ++ t) o = Ok t.
Proof.
  intros ->. unfold tail_from. rewrite nlen_app.
  replace (nlen p + nlen t <? nlen p) with false by lia.
  unfold nlen at 1. rewrite Nat2N.id. now apply slice_tail.
Qed.

Lemma between_app (a b r : bytes) lo hi :
  lo = nlen a -> hi = nlen a + nlen b -> between (a ++ b ++ r) lo hi = Ok b.
Proof.
  intros -> ->. unfold between. rewrite !nlen_app.
  replace (nlen a + (nlen b + nlen r) <? nlen a + nlen b) with false by lia.
  replace (nlen a + nlen b <? nlen a) with false by lia. simpl.
  apply slice_app; unfold nlen; lia.
Qed.

Lemma between_inv (l s : bytes) a b :
  between l a b = Ok s -> a <= b /\ b <= nlen l /\ s = firstn (N.to_nat (b - a)) (skipn (N.to_nat a) l).
Proof.
  unfold between. destruct ((nlen l <? b) || (b <? a)) eqn:E; [discriminate|].
  intros H. apply slice_inv in H as [_ ->]. unfold nlen in *.
  split; [lia|]. split; [lia|]. f_equal. lia.
Qed.

Lemma skipn_add {A} (a b : nat) (l : list A) : skipn a (skipn b l) = skipn (a + b) l.
Proof.
  revert l; induction b as [|b IH]; intros l; [now rewrite Nat.add_0_r|].
  rewrite Nat.add_succ_r. destruct l; [now rewrite !skipn_nil|]. simpl. apply IH.
Qed.

(* splitting a long-enough list into an explicit prefix and a tail *)
Lemma split_at {A} (n : nat) (l : list A) : (n <= length l)%nat -> exists p t, l = p ++ t /\ length p = n.
Proof.
  intros H. exists (firstn n l), (skipn n l). split; [now rewrite firstn_skipn|].
  rewrite firstn_length. lia.
Qed.

(* ---------- little endian reads ---------- *)

Lemma le_dec_firstn_app n v r : v < 256 ^ N.of_nat n -> le_dec (firstn n (le_enc n v ++ r)) = v.
Proof.
  intros H. replace n with (length (le_enc n v) + 0)%nat at 1 by (rewrite le_enc_length; lia).
  rewrite firstn_app_2. simpl. rewrite app_nil_r. now apply le_dec_enc.
Qed.

Lemma read_u32_enc v r : v < two32 -> read_u32 (u32_enc v ++ r) = Ok v.
Proof.
  intros H. unfold read_u32, u32_enc. rewrite app_length, le_enc_length.
  replace (4 + length r <? 4)%nat with false by (symmetry; apply Nat.ltb_ge; lia).
  now rewrite le_dec_firstn_app.
Qed.
Lemma read_u32_exact v : v < two32 -> read_u32 (u32_enc v) = Ok v.
Proof. intros H. rewrite <- (app_nil_r (u32_enc v)). now apply read_u32_enc. Qed.
Lemma read_u16_exact v : v < two16 -> read_u16 (u16_enc v) = Ok v.
Proof.
  intros H. unfold read_u16, u16_enc. rewrite le_enc_length. simpl Nat.ltb. cbv iota.
  rewrite <- (app_nil_r (le_enc 2 v)). now rewrite le_dec_firstn_app.
Qed.
Lemma read_u64_exact v : v < two64 -> read_u64 (u64_enc v) = Ok v.
Proof.
  intros H. unfold read_u64, u64_enc. rewrite le_enc_length. simpl Nat.ltb. cbv iota.
  rewrite <- (app_nil_r (le_enc 8 v)). now rewrite le_dec_firstn_app.
Qed.
Lemma read_u8_exact v : v < two8 -> read_u8 (u8_enc v) = Ok v.
Proof.
  intros H. unfold read_u8, u8_enc. cbn [le_enc]. rewrite b2n_n2b, N.mod_mod by lia.
  unfold two8 in H. now rewrite N.mod_small.
Qed.

(* reading back n bytes as a number and re-encoding them gives the same bytes *)
Lemma le_enc_of_dec n (s : bytes) : length s = n -> le_enc n (le_dec s) = s.
Proof. intros <-. apply le_enc_dec. Qed.

Lemma read_u32_inv s v : read_u32 s = Ok v -> v < two32 /\ firstn 4 s = u32_enc v /\ (4 <= length s)%nat.
Proof.
  unfold read_u32. destruct (length s <? 4)%nat eqn:E; [discriminate|].
  apply Nat.ltb_ge in E. intros H; inversion H; subst v.
  assert (L : length (firstn 4 s) = 4%nat) by (rewrite firstn_length; lia).
  split; [|split; [|assumption]].
  - pose proof (le_dec_lt (firstn 4 s)) as B. rewrite L in B. exact B.
  - unfold u32_enc. symmetry. now apply le_enc_of_dec.
Qed.

(* ---------- offsets_from / items_checked / enc_dyn_list ---------- *)

Lemma offsets_from_length off l : length (offsets_from off l) = (4 * length l)%nat.
Proof.
  revert off; induction l as [|x r IH]; intros off; [reflexivity|].
  cbn [offsets_from]. rewrite app_length. unfold u32_enc at 1. rewrite le_enc_length, IH. simpl length. lia.
Qed.

Lemma items_checked_ok mxb l : forallb (fun b => nlen b <=? mxb) l = true -> items_checked mxb l = Ok (concat l).
Proof.
  induction l as [|x r IH]; [reflexivity|]. cbn [forallb items_checked concat].
  intros H. apply andb_true_iff in H as [H1 H2].
  replace (mxb <? nlen x) with false by lia. rewrite IH by assumption. reflexivity.
Qed.

Lemma items_checked_inv mxb l body :
  items_checked mxb l = Ok body -> body = concat l /\ forallb (fun b => nlen b <=? mxb) l = true.
Proof.
  revert body; induction l as [|x r IH]; intros body; cbn [items_checked concat forallb].
  - intros H; inversion H; auto.
  - destruct (mxb <? nlen x) eqn:E; [discriminate|].
    destruct (items_checked mxb r) as [t| |] eqn:Et; cbn [bind]; try discriminate.
    intros H; inversion H. destruct (IH t eq_refl) as [-> ->].
    split; [reflexivity|]. apply andb_true_iff; split; [lia|reflexivity].
Qed.

Definition dyn_ok (mxn mxb : N) (l : list bytes) : bool :=
  (nlen l <=? mxn) && forallb (fun b => nlen b <=? mxb) l.
Definition dyn_layout (l : list bytes) : bytes := offsets_from (4 * nlen l) l ++ concat l.

Lemma enc_dyn_list_spec mxn mxb l :
  enc_dyn_list mxn mxb l = if dyn_ok mxn mxb l then Ok (dyn_layout l) else
                           if mxn <? nlen l then Err E_LISTBIG else Err E_BYTESLEN.
Proof.
  unfold enc_dyn_list, dyn_ok, dyn_layout.
  destruct (mxn <? nlen l) eqn:E.
  - replace (nlen l <=? mxn) with false by lia. reflexivity.
  - replace (nlen l <=? mxn) with true by lia. cbn [andb].
    destruct (forallb (fun b => nlen b <=? mxb) l) eqn:F.
    + rewrite items_checked_ok by assumption. reflexivity.
    + destruct (items_checked mxb l) as [t|e|] eqn:Et.
      * apply items_checked_inv in Et as [_ Et]. congruence.
      * cbn [bind]. clear -Et. revert e Et. induction l as [|x r IH]; cbn [items_checked]; intros e; [discriminate|].
        destruct (mxb <? nlen x); [intros H; now inversion H|].
        destruct (items_checked mxb r) as [t|e'|]; cbn [bind]; try discriminate.
        intros H; inversion H; subst. now apply IH.
      * exfalso. clear -Et. induction l as [|x r IH]; cbn [items_checked] in Et; [discriminate|].
        destruct (mxb <? nlen x); [discriminate|].
        destruct (items_checked mxb r); cbn [bind] in Et; try discriminate. now apply IH.
Qed.

Fixpoint total_len (l : list bytes) : N := match l with [] => 0 | x :: r => nlen x + total_len r end.
Lemma nlen_concat l : nlen (concat l) = total_len l.
Proof. induction l as [|x r IH]; [reflexivity|]. cbn [concat total_len]. rewrite nlen_app. lia. Qed.

Lemma total_len_bound mxb l : forallb (fun b => nlen b <=? mxb) l = true -> total_len l <= nlen l * mxb.
Proof.
  induction l as [|x r IH]; cbn [forallb total_len]; [unfold nlen; simpl; lia|].
  intros H. apply andb_true_iff in H as [H1 H2]. specialize (IH H2). rewrite nlen_cons. lia.
Qed.

(* ---------- ud_loop : encoding direction ---------- *)

Lemma ud_loop_enc {A} (f : bytes -> res A) (g : bytes -> A) :
  forall (l : list bytes) x (pre w : bytes) offset,
    offset = nlen pre ->
    offset + total_len (x :: l) < two32 ->
    Forall (fun y => f y = Ok (g y)) (x :: l) ->
    ud_loop (length (x :: l)) (pre ++ concat (x :: l)) (offsets_from (offset + nlen x) l ++ w) offset f
    = Ok (map g (x :: l)).
Proof.
  induction l as [|y r IH]; intros x pre w offset Hoff Hb Hf.
  - cbn [length ud_loop concat]. rewrite app_nil_r.
    replace (nlen (pre ++ x) <? offset) with false by (rewrite nlen_app; lia).
    replace (pre ++ x) with (pre ++ x ++ []) by now rewrite app_nil_r.
    rewrite between_app by (rewrite ?nlen_app, ?nlen_nil; lia).
    cbn [bind]. pose proof (Forall_inv Hf) as Hx. cbv beta in Hx. rewrite Hx. reflexivity.
  - change (length (x :: y :: r)) with (S (length (y :: r))).
    cbn [ud_loop]. change (length (y :: r)) with (S (length r)). cbv iota.
    cbn [offsets_from]. rewrite <- app_assoc.
    cbn [total_len] in Hb.
    set (dst' := offsets_from (offset + nlen x + nlen y) r ++ w).
    assert (L : (length (u32_enc (offset + nlen x) ++ dst') <? 4)%nat = false).
    { apply Nat.ltb_ge. rewrite app_length. unfold u32_enc. rewrite le_enc_length. lia. }
    rewrite L. rewrite read_u32_enc by lia. cbn [bind].
    replace (slice (u32_enc (offset + nlen x) ++ dst') 4 (length (u32_enc (offset + nlen x) ++ dst'))) with (Ok dst')
      by (symmetry; apply slice_tail; unfold u32_enc; now rewrite le_enc_length).
    cbn [bind].
    replace (offset + nlen x <? offset) with false by lia.
    replace (nlen (pre ++ concat (x :: y :: r)) <? offset + nlen x) with false
      by (rewrite nlen_app; cbn [concat]; rewrite nlen_app; lia).
    cbn [concat]. rewrite between_app by lia.
    pose proof (Forall_inv Hf) as Hx. pose proof (Forall_inv_tail Hf) as Hrest. cbv beta in Hx. cbn [bind]. rewrite Hx. cbn [bind].
    replace (pre ++ x ++ y ++ concat r) with ((pre ++ x) ++ concat (y :: r)) by (cbn [concat]; now rewrite <- app_assoc).
    unfold dst'. change (S (length r)) with (length (y :: r)).
    rewrite (IH y (pre ++ x) w (offset + nlen x)); [reflexivity | rewrite nlen_app; lia | cbn [total_len]; lia | assumption].
Qed.

Lemma decode_dynamic_length_layout mxn (x : bytes) (l : list bytes) rest :
  4 * nlen (x :: l) < two32 -> nlen (x :: l) <= mxn ->
  decode_dynamic_length (u32_enc (4 * nlen (x :: l)) ++ rest) mxn = Ok (nlen (x :: l)).
Proof.
  intros H1 H2. unfold decode_dynamic_length.
  destruct (u32_enc (4 * nlen (x :: l)) ++ rest) eqn:E.
  { apply (f_equal (@length byte)) in E. rewrite app_length in E. unfold u32_enc in E. rewrite le_enc_length in E. simpl in E. lia. }
  rewrite <- E. clear E.
  assert (L : (length (u32_enc (4 * nlen (x :: l)) ++ rest) <? 4)%nat = false).
  { apply Nat.ltb_ge. rewrite app_length. unfold u32_enc. rewrite le_enc_length. lia. }
  rewrite L. rewrite slice_app0 by (unfold u32_enc; now rewrite le_enc_length). cbn [bind].
  rewrite read_u32_exact by assumption. cbn [bind].
  replace (4 * nlen (x :: l) mod 4 =? 0) with true by lia. cbn [negb].
  replace (4 * nlen (x :: l) / 4) with (nlen (x :: l)) by lia.
  replace (mxn <? nlen (x :: l)) with false by lia. reflexivity.
Qed.

(* round trip of the list-of-variable-items pattern, either strictness *)
Lemma dec_dyn_list_layout {A} strict mxn (f : bytes -> res A) (g : bytes -> A) (l : list bytes) :
  nlen l <= mxn -> 4 * nlen l + total_len l < two32 ->
  Forall (fun y => f y = Ok (g y)) l ->
  dec_dyn_list strict (dyn_layout l) mxn f = Ok (map g l).
Proof.
  intros Hn Hb Hf. unfold dec_dyn_list, dyn_layout.
  destruct l as [|x l].
  - cbn. rewrite andb_false_r. reflexivity.
  - cbn [offsets_from]. rewrite <- app_assoc.
    rewrite decode_dynamic_length_layout by lia. cbn [bind].
    replace (nlen (x :: l) =? 0) with false by (rewrite nlen_cons; lia). rewrite andb_false_r. cbn [andb].
    unfold unmarshal_dynamic.
    replace (nlen (x :: l) =? 0) with false by (rewrite nlen_cons; lia).
    rewrite read_u32_enc by lia. cbn [bind].
    set (tbl := offsets_from (4 * nlen (x :: l) + nlen x) l).
    replace (slice (u32_enc (4 * nlen (x :: l)) ++ tbl ++ concat (x :: l)) 4
               (length (u32_enc (4 * nlen (x :: l)) ++ tbl ++ concat (x :: l))))
      with (Ok (tbl ++ concat (x :: l)))
      by (symmetry; apply slice_tail; unfold u32_enc; now rewrite le_enc_length).
    cbn [bind].
    replace (N.to_nat (nlen (x :: l))) with (length (x :: l)) by (unfold nlen; lia).
    replace (u32_enc (4 * nlen (x :: l)) ++ tbl ++ concat (x :: l))
      with ((u32_enc (4 * nlen (x :: l)) ++ tbl) ++ concat (x :: l)) by now rewrite <- app_assoc.
    unfold tbl. apply ud_loop_enc; [| lia | assumption].
    unfold nlen. rewrite app_length, offsets_from_length. unfold u32_enc. rewrite le_enc_length.
    simpl length. lia.
Qed.

(* ---------- ud_loop : decoding direction ---------- *)

Lemma ud_loop_inv {A} (f : bytes -> res A) :
  forall k src dst offset vs,
    ud_loop (S k) src dst offset f = Ok vs ->
    exists x l,
      length l = k /\
      Forall2 (fun y v => f y = Ok v) (x :: l) vs /\
      offset <= nlen src /\
      skipn (N.to_nat offset) src = concat (x :: l) /\
      exists w, dst = offsets_from (offset + nlen x) l ++ w.
Proof.
  induction k as [|k IH]; intros src dst offset vs H.
  - cbn [ud_loop] in H.
    destruct (nlen src <? offset) eqn:E; [discriminate|].
    destruct (between src offset (nlen src)) as [x| |] eqn:Eb; cbn [bind] in H; try discriminate.
    destruct (f x) as [a| |] eqn:Ef; cbn [bind] in H; try discriminate. injection H as <-.
    apply between_inv in Eb as (_ & _ & Ex).
    assert (Hx : x = skipn (N.to_nat offset) src).
    { rewrite Ex. apply firstn_all2. rewrite skipn_length. unfold nlen. lia. }
    exists x, []. repeat split.
    + constructor; [assumption|constructor].
    + lia.
    + cbn [concat]. now rewrite app_nil_r.
    + exists dst. reflexivity.
  - remember (S k) as k1 eqn:Hk1. cbn [ud_loop] in H. subst k1. cbv iota in H.
    destruct (length dst <? 4)%nat eqn:El; [discriminate|].
    destruct (read_u32 dst) as [endOffset| |] eqn:Er; cbn [bind] in H; try discriminate.
    destruct (slice dst 4 (length dst)) as [dst'| |] eqn:Es; cbn [bind] in H; try discriminate.
    destruct (endOffset <? offset) eqn:E1; [discriminate|].
    destruct (nlen src <? endOffset) eqn:E2; [discriminate|].
    destruct (between src offset endOffset) as [x| |] eqn:Eb; cbn [bind] in H; try discriminate.
    destruct (f x) as [a| |] eqn:Ef; cbn [bind] in H; try discriminate.
    destruct (ud_loop (S k) src dst' endOffset f) as [rest| |] eqn:Erec; cbn [bind] in H; try discriminate.
    injection H as <-.
    apply IH in Erec as (y & l & Hl & Hf2 & Hle & Hskip & w & Hw).
    apply between_inv in Eb as (_ & _ & Ex).
    apply read_u32_inv in Er as (Hlt & Hfirst & Hlen4).
    apply slice_inv in Es as [_ Es]. rewrite Nat.sub_0_r in Es || idtac.
    assert (Hnx : nlen x = endOffset - offset).
    { rewrite Ex. unfold nlen. rewrite firstn_length, skipn_length. unfold nlen in *. lia. }
    exists x, (y :: l). repeat split.
    + simpl. now rewrite Hl.
    + constructor; assumption.
    + lia.
    + cbn [concat]. cbn [concat] in Hskip. rewrite <- Hskip. rewrite Ex.
      replace (N.to_nat endOffset) with (N.to_nat (endOffset - offset) + N.to_nat offset)%nat by lia.
      rewrite <- skipn_add. now rewrite firstn_skipn.
    + exists w. cbn [offsets_from]. rewrite <- app_assoc.
      replace (offset + nlen x) with endOffset by lia.
      rewrite <- Hw. rewrite <- Hfirst.
      assert (Hd : dst' = skipn 4 dst).
      { rewrite Es. apply firstn_all2. rewrite skipn_length. lia. }
      rewrite Hd. now rewrite firstn_skipn.
Qed.

(* ---------- the list-of-variable-items pattern: what a strict decoder accepts ---------- *)

Lemma read_u32_firstn s : (4 <= length s)%nat -> read_u32 (firstn 4 s) = read_u32 s.
Proof.
  intros H. unfold read_u32. rewrite firstn_length.
  replace (Nat.min 4 (length s) <? 4)%nat with false by (symmetry; apply Nat.ltb_ge; lia).
  replace (length s <? 4)%nat with false by (symmetry; apply Nat.ltb_ge; lia).
  now rewrite firstn_firstn.
Qed.

Lemma decode_dynamic_length_inv buf mxn num :
  decode_dynamic_length buf mxn = Ok num ->
  (buf = [] /\ num = 0) \/
  ((4 <= length buf)%nat /\ read_u32 buf = Ok (4 * num) /\ num <= mxn).
Proof.
  unfold decode_dynamic_length. destruct buf as [|b0 buf']; [intros H; injection H as <-; now left|].
  set (buf := b0 :: buf'). destruct (length buf <? 4)%nat eqn:E; [discriminate|]. apply Nat.ltb_ge in E.
  destruct (slice buf 0 4) as [s| |] eqn:Es; cbn [bind]; try discriminate.
  apply slice_inv in Es as [_ Es]. simpl in Es. 
  assert (Hs : s = firstn 4 buf) by exact Es. rewrite Hs, read_u32_firstn by assumption.
  destruct (read_u32 buf) as [offset| |] eqn:Er; cbn [bind]; try discriminate.
  destruct (offset mod 4 =? 0) eqn:Em; cbn [negb]; [|discriminate].
  destruct (mxn <? offset / 4) eqn:Eb; [discriminate|].
  intros H; injection H as <-. right. split; [assumption|]. split; [|lia].
  f_equal. lia.
Qed.

Lemma dec_dyn_list_inv {A} mxn (f : bytes -> res A) buf vs :
  dec_dyn_list true buf mxn f = Ok vs ->
  exists l, buf = dyn_layout l /\ nlen l <= mxn /\ Forall2 (fun y v => f y = Ok v) l vs.
Proof.
  unfold dec_dyn_list. destruct (decode_dynamic_length buf mxn) as [num| |] eqn:Ed; cbn [bind]; try discriminate.
  apply decode_dynamic_length_inv in Ed as [[-> ->] | (Hlen & Hr & Hmx)].
  - cbn. intros H; injection H as <-. exists []. repeat split; [unfold nlen; simpl; lia | constructor].
  - cbn [andb]. destruct (num =? 0) eqn:E0; cbn [andb].
    { replace (nlen buf =? 0) with false by (unfold nlen; lia). cbn. discriminate. }
    unfold unmarshal_dynamic. rewrite E0, Hr. cbn [bind].
    destruct (slice buf 4 (length buf)) as [dst| |] eqn:Es; cbn [bind]; try discriminate.
    destruct (N.to_nat num) as [|k] eqn:Ek; [lia|].
    intros H. apply ud_loop_inv in H as (x & l & Hl & Hf2 & Hle & Hskip & w & Hw).
    apply slice_inv in Es as [_ Es].
    assert (Hd : dst = skipn 4 buf) by (rewrite Es; apply firstn_all2; rewrite skipn_length; lia).
    apply read_u32_inv in Hr as (Hlt & Hfirst & _).
    assert (Hbuf : buf = u32_enc (4 * num) ++ offsets_from (4 * num + nlen x) l ++ w).
    { rewrite <- (firstn_skipn 4 buf) at 1. rewrite Hfirst, <- Hd, Hw. reflexivity. }
    assert (Hn : nlen (x :: l) = num) by (unfold nlen; simpl length; lia).
    assert (Hw2 : w = concat (x :: l)).
    { rewrite <- Hskip. rewrite Hbuf at 1. rewrite app_assoc.
      assert (Lt : length (u32_enc (4 * num) ++ offsets_from (4 * num + nlen x) l) = N.to_nat (4 * num)).
      { rewrite app_length, offsets_from_length. unfold u32_enc. rewrite le_enc_length. lia. }
      rewrite skipn_app, Lt, Nat.sub_diag. rewrite skipn_all2 by lia. reflexivity. }
    exists (x :: l). split; [|split; [lia|assumption]].
    unfold dyn_layout. cbn [offsets_from]. rewrite Hn, <- app_assoc, <- Hw2. exact Hbuf.
Qed.

Lemma dec_dyn_list_strict_lax {A} mxn (f : bytes -> res A) buf vs :
  dec_dyn_list true buf mxn f = Ok vs -> dec_dyn_list false buf mxn f = Ok vs.
Proof.
  unfold dec_dyn_list. destruct (decode_dynamic_length buf mxn) as [num| |]; cbn [bind andb]; try discriminate.
  destruct ((num =? 0) && negb (nlen buf =? 0)); [discriminate|auto].
Qed.

(* the only extra string the lax decoder accepts *)
Lemma dec_dyn_list_lax_strict {A} mxn (f : bytes -> res A) buf vs :
  dec_dyn_list false buf mxn f = Ok vs ->
  dec_dyn_list true buf mxn f = Ok vs \/ (buf = [x00; x00; x00; x00] /\ vs = []).
Proof.
  unfold dec_dyn_list. destruct (decode_dynamic_length buf mxn) as [num| |] eqn:Ed; cbn [bind andb]; try discriminate.
  destruct ((num =? 0) && negb (nlen buf =? 0)) eqn:E; [|auto].
  apply andb_true_iff in E as [E0 En]. assert (num = 0) by lia. subst num.
  apply decode_dynamic_length_inv in Ed as [[-> _] | (Hlen & Hr & _)]; [discriminate|].
  unfold unmarshal_dynamic. cbn [N.eqb].
  destruct (negb (nlen buf =? 0) && negb (nlen buf =? 4)) eqn:E4; [discriminate|].
  intros H; injection H as <-. right. split; [|reflexivity].
  assert (L : length buf = 4%nat) by (unfold nlen in *; lia).
  apply read_u32_inv in Hr as (_ & Hfirst & _).
  rewrite firstn_all2 in Hfirst by lia. rewrite Hfirst. reflexivity.
Qed.

(* no panic: decoding never indexes out of range *)
Lemma between_ok src a b : a <= b -> b <= nlen src -> exists s, between src a b = Ok s.
Proof.
  intros H1 H2. unfold between. replace ((nlen src <? b) || (b <? a)) with false by lia.
  unfold slice. unfold nlen in *.
  replace (Nat.leb (N.to_nat a) (N.to_nat b)) with true by (symmetry; apply Nat.leb_le; lia).
  replace (Nat.leb (N.to_nat b) (length src)) with true by (symmetry; apply Nat.leb_le; lia).
  eexists; reflexivity.
Qed.

(* ---------- chunks ---------- *)
Lemma chunks_layout (n : nat) (l : list bytes) :
  Forall (fun c => length c = n) l ->
  forall pre r i, length pre = (i * n)%nat -> chunks (length l) n (pre ++ concat l ++ r) i = Ok l.
Proof.
  induction 1 as [|c l Hc _ IH]; intros pre r i Hp; [reflexivity|].
  cbn [length chunks concat]. rewrite <- app_assoc.
  rewrite (slice_app pre c (concat l ++ r)) by lia. cbn [bind].
  replace (pre ++ c ++ concat l ++ r) with ((pre ++ c) ++ concat l ++ r) by now rewrite <- app_assoc.
  rewrite IH by (rewrite app_length; lia). reflexivity.
Qed.

Lemma chunks_inv (n : nat) : forall k buf i cs,
  chunks k n buf i = Ok cs ->
  length cs = k /\ Forall (fun c => length c = n) cs /\ concat cs = firstn (k * n) (skipn (i * n) buf).
Proof.
  induction k as [|k IH]; intros buf i cs H.
  - cbn [chunks] in H. injection H as <-. repeat split; constructor.
  - cbn [chunks] in H.
    destruct (slice buf (i * n) ((i + 1) * n)) as [c| |] eqn:Es; cbn [bind] in H; try discriminate.
    destruct (chunks k n buf (S i)) as [r| |] eqn:Ec; cbn [bind] in H; try discriminate.
    injection H as <-. apply IH in Ec as (Hl & Hf & Hc). apply slice_inv in Es as [Hr Es].
    assert (Lc : length c = n) by (rewrite Es, firstn_length, skipn_length; lia).
    repeat split.
    + simpl; lia.
    + constructor; assumption.
    + cbn [concat]. rewrite Hc, Es.
      replace ((i + 1) * n - i * n)%nat with n by lia.
      replace (S i * n)%nat with (n + i * n)%nat by lia. rewrite <- skipn_add.
      replace (S k * n)%nat with (n + k * n)%nat by lia.
      set (z := skipn (i * n) buf).
      rewrite <- (firstn_skipn n z) at 3.
      rewrite firstn_app. rewrite firstn_firstn.
      assert (Lz : length (firstn n z) = n) by (rewrite firstn_length; subst z; rewrite skipn_length; lia).
      rewrite Lz. replace (Nat.min (n + k * n) n) with n by lia.
      replace (n + k * n - n)%nat with (k * n)%nat by lia. reflexivity.
Qed.

(* ---------- ztyp reader ---------- *)
Lemma nlen_firstn (l : bytes) n : n <= nlen l -> nlen (firstn (N.to_nat n) l) = n.
Proof. intros H. unfold nlen in *. rewrite firstn_length. lia. Qed.
Lemma nlen_skipn (l : bytes) n : nlen (skipn (N.to_nat n) l) = nlen l - n.
Proof. unfold nlen. rewrite skipn_length. lia. Qed.

(* a sub-scope of n bytes whose reader consumes exactly n bytes (fixed-size leaf: uintN, Root, ...) *)
Lemma rd_sub_fixed (r : rd) (n : N) (g : bytes -> field) : n <> 0 ->
  rd_sub r n (fun r0 => bind (rd_read r0 n) (fun '(b, r') => Ok (g b, r'))) =
  if rd_scope r <? n then Err E_SCOPE
  else if nlen (rd_inp r) <? n then Err E_EOF
  else Ok (g (firstn (N.to_nat n) (rd_inp r)), mkrd (skipn (N.to_nat n) (rd_inp r)) (rd_i r) (rd_max r)).
Proof.
  intros Hn. unfold rd_sub. destruct (rd_scope r <? n); [reflexivity|].
  unfold rd_read. cbn [rd_max rd_i rd_inp].
  replace (n =? 0) with false by lia. replace (n <? 0 + n) with false by lia.
  destruct (nlen (rd_inp r) <? n) eqn:E.
  - replace (nlen (firstn (N.to_nat n) (rd_inp r)) <? n) with true; [reflexivity|].
    symmetry. unfold nlen in *. rewrite firstn_length. lia.
  - rewrite nlen_firstn by lia. replace (n <? n) with false by lia. cbn [bind rd_inp].
    rewrite firstn_firstn, Nat.min_id. f_equal. f_equal. f_equal.
    rewrite skipn_length, firstn_length. unfold nlen in E. f_equal. lia.
Qed.

Lemma rd_read_spec (r : rd) (x : N) : x <> 0 ->
  rd_read r x =
  if rd_max r <? rd_i r + x then Err E_SCOPE
  else if nlen (rd_inp r) <? x then Err E_EOF
  else Ok (firstn (N.to_nat x) (rd_inp r), mkrd (skipn (N.to_nat x) (rd_inp r)) (rd_i r + x) (rd_max r)).
Proof. intros H. unfold rd_read. replace (x =? 0) with false by lia. reflexivity. Qed.

(* a sub-scope handed to ByteList: the whole sub-scope is read (or rejected by the limit) *)
Lemma rd_sub_bytelist (r : rd) (count limit : N) :
  rd_sub r count (z_de (z_bytelist limit)) =
  if rd_scope r <? count then Err E_SCOPE
  else if limit <? count then Err E_BYTESLEN
  else if nlen (rd_inp r) <? count then Err E_EOF
  else Ok (FB (firstn (N.to_nat count) (rd_inp r)), mkrd (skipn (N.to_nat count) (rd_inp r)) (rd_i r) (rd_max r)).
Proof.
  unfold rd_sub. destruct (rd_scope r <? count); [reflexivity|].
  cbn [z_de z_bytelist]. unfold rd_scope at 1 2. cbn [rd_max rd_i].
  replace (count - 0) with count by lia.
  destruct (limit <? count); [reflexivity|].
  unfold rd_read. cbn [rd_max rd_i rd_inp].
  destruct (count =? 0) eqn:E0.
  - assert (count = 0) by lia. subst count. cbn [bind rd_inp]. change (N.to_nat 0) with 0%nat. cbn [firstn skipn length Nat.sub].
    replace (nlen (rd_inp r) <? 0) with false by lia. reflexivity.
  - replace (count <? 0 + count) with false by lia.
    destruct (nlen (rd_inp r) <? count) eqn:E.
    + replace (nlen (firstn (N.to_nat count) (rd_inp r)) <? count) with true; [reflexivity|].
      symmetry. unfold nlen in *. rewrite firstn_length. lia.
    + rewrite nlen_firstn by lia. replace (count <? count) with false by lia. cbn [bind rd_inp].
      rewrite firstn_firstn, Nat.min_id. f_equal. f_equal. f_equal.
      rewrite skipn_length, firstn_length. unfold nlen in E. f_equal. lia.
Qed.

Lemma rd_sub_uint (r : rd) (w : N) : w <> 0 ->
  rd_sub r w (z_de (z_uint w)) =
  if rd_scope r <? w then Err E_SCOPE
  else if nlen (rd_inp r) <? w then Err E_EOF
  else Ok (FN (le_dec (firstn (N.to_nat w) (rd_inp r))), mkrd (skipn (N.to_nat w) (rd_inp r)) (rd_i r) (rd_max r)).
Proof. intros H. exact (rd_sub_fixed r w (fun b => FN (le_dec b)) H). Qed.
Lemma rd_sub_bytesN (r : rd) (w : N) : w <> 0 ->
  rd_sub r w (z_de (z_bytesN w)) =
  if rd_scope r <? w then Err E_SCOPE
  else if nlen (rd_inp r) <? w then Err E_EOF
  else Ok (FB (firstn (N.to_nat w) (rd_inp r)), mkrd (skipn (N.to_nat w) (rd_inp r)) (rd_i r) (rd_max r)).
Proof. intros H. exact (rd_sub_fixed r w FB H). Qed.

Lemma firstn_app_exact {A} (a b : list A) n : length a = n -> firstn n (a ++ b) = a.
Proof. intros <-. rewrite firstn_app, Nat.sub_diag, firstn_all. simpl. apply app_nil_r. Qed.
Lemma skipn_app_exact {A} (a b : list A) n : length a = n -> skipn n (a ++ b) = b.
Proof. intros <-. rewrite skipn_app, Nat.sub_diag, skipn_all. reflexivity. Qed.

(* ---------- ztyp List of uint16 ---------- *)
Fixpoint u16s_dec (k : nat) (l : bytes) : list N :=
  match k with O => [] | S k' => le_dec (firstn 2 l) :: u16s_dec k' (skipn 2 l) end.

Lemma zlist_loop_ok : forall k r,
  2 <= rd_scope r -> 2 * N.of_nat k <= nlen (rd_inp r) ->
  zlist_loop k r 2 = Ok (u16s_dec k (rd_inp r), mkrd (skipn (2 * k) (rd_inp r)) (rd_i r) (rd_max r)).
Proof.
  induction k as [|k IH]; intros r Hs Hl.
  - cbn [zlist_loop u16s_dec]. destruct r; reflexivity.
  - cbn [zlist_loop u16s_dec]. rewrite rd_sub_uint by lia.
    replace (rd_scope r <? 2) with false by lia. replace (nlen (rd_inp r) <? 2) with false by lia.
    cbn [bind]. change (N.to_nat 2) with 2%nat.
    rewrite IH; cbn [rd_inp rd_i rd_max].
    + cbn [bind]. rewrite skipn_add. replace (2 * k + 2)%nat with (2 * S k)%nat by lia. reflexivity.
    + unfold rd_scope in *. cbn [rd_max rd_i]. exact Hs.
    + unfold nlen in *. rewrite skipn_length. lia.
Qed.

Definition u16s_enc' (l : list N) : bytes := concat (map u16_enc l).

Lemma u16s_dec_enc (l : list N) rest : Forall (fun v => v < two16) l -> u16s_dec (length l) (u16s_enc' l ++ rest) = l.
Proof.
  induction 1 as [|v l Hv _ IH]; [reflexivity|].
  cbn [length u16s_dec u16s_enc' map concat]. rewrite <- app_assoc.
  assert (L : length (u16_enc v) = 2%nat) by (unfold u16_enc; apply le_enc_length).
  rewrite (firstn_app_exact (u16_enc v) _ 2 L), (skipn_app_exact (u16_enc v) _ 2 L).
  unfold u16_enc at 1. rewrite le_dec_enc by exact Hv. f_equal. exact IH.
Qed.

Lemma u16s_enc_dec : forall k (l : bytes), (2 * k <= length l)%nat ->
  u16s_enc' (u16s_dec k l) = firstn (2 * k) l /\ Forall (fun v => v < two16) (u16s_dec k l) /\ length (u16s_dec k l) = k.
Proof.
  induction k as [|k IH]; intros l H.
  - cbn. repeat split; constructor.
  - cbn [u16s_dec u16s_enc' map concat].
    assert (L2 : length (firstn 2 l) = 2%nat) by (rewrite firstn_length; lia).
    destruct (IH (skipn 2 l)) as (H1 & H2 & H3); [rewrite skipn_length; lia|].
    split; [|split].
    + unfold u16_enc at 1. rewrite le_enc_of_dec by exact L2. change (concat (map u16_enc (u16s_dec k (skipn 2 l)))) with (u16s_enc' (u16s_dec k (skipn 2 l))). rewrite H1.
      replace (2 * S k)%nat with (2 + 2 * k)%nat by lia.
      rewrite <- (firstn_skipn 2 l) at 3. rewrite firstn_app, firstn_firstn, L2.
      replace (Nat.min (2 + 2 * k) 2) with 2%nat by lia. replace (2 + 2 * k - 2)%nat with (2 * k)%nat by lia. reflexivity.
    + constructor; [|exact H2]. pose proof (le_dec_lt (firstn 2 l)) as B. rewrite L2 in B. exact B.
    + cbn [length]. now rewrite H3.
Qed.

Lemma u16s_enc'_length l : length (u16s_enc' l) = (2 * length l)%nat.
Proof.
  induction l as [|v l IH]; [reflexivity|]. cbn [u16s_enc' map concat length]. rewrite app_length.
  unfold u16_enc at 1. rewrite le_enc_length. fold (u16s_enc' l). rewrite IH. lia.
Qed.

(* dr.List inside a sub-scope of exactly the remaining input *)
Lemma rd_sub_uintlist (r : rd) (count limit : N) :
  count <= rd_scope r -> nlen (rd_inp r) = count ->
  rd_sub r count (z_de (z_uintlist 2 limit)) =
  if count =? 0 then Ok (FNL [], mkrd (rd_inp r) (rd_i r) (rd_max r))
  else if negb (count mod 2 =? 0) then Err E_ZLIST
  else if limit <? count / 2 then Err E_LISTBIG
  else Ok (FNL (u16s_dec (N.to_nat (count / 2)) (rd_inp r)), mkrd [] (rd_i r) (rd_max r)).
Proof.
  intros Hs Hl. unfold rd_sub. replace (rd_scope r <? count) with false by lia.
  rewrite firstn_all2 by (unfold nlen in Hl; lia).
  cbn [z_de z_uintlist]. unfold rd_scope. cbn [rd_max rd_i]. replace (count - 0) with count by lia.
  destruct (count =? 0) eqn:E0.
  - cbn [rd_inp]. rewrite Nat.sub_diag. reflexivity.
  - change (2 =? 0) with false. cbv iota.
    destruct (count mod 2 =? 0) eqn:Em; cbn [negb]; [|reflexivity].
    destruct (limit <? count / 2) eqn:El; [reflexivity|].
    rewrite zlist_loop_ok; cbn [rd_inp rd_i rd_max].
    + cbn [bind rd_inp]. f_equal. f_equal. f_equal.
      assert (Hk : (2 * N.to_nat (count / 2))%nat = length (rd_inp r)) by (unfold nlen in Hl; lia).
      rewrite Hk, skipn_all. simpl length. rewrite Nat.sub_0_r. apply skipn_all.
    + unfold rd_scope. cbn [rd_max rd_i]. lia.
    + lia.
Qed.

Lemma nlen_skipn_nat (l : bytes) (k : nat) : nlen (skipn k l) = nlen l - N.of_nat k.
Proof. unfold nlen. rewrite skipn_length. lia. Qed.
