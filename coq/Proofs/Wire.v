(* Proofs/Wire.v : theorems about Model/Wire.v (C14).
   Per type T:  layout_T v (the byte string of an in-limit value), wf_T (what the Go type can hold), lim_T (declared limits),
     enc_T_spec   : enc_T v = Ok (layout_T v) when lim_T v, an error otherwise
     dec_T_iff    : dec_T b = Ok v  <->  b = layout_T v /\ wf_T v /\ lim_T v        (strict decoders)
   from which round trip (a), over-limit rejection (b), limits of decoded values (c) and canonicity (d) follow. *)
From Shisui Require Import Base.Bytes Base.Ssz Model.Wire Proofs.Ssz.
From Coq Require Import ZifyBool ZifyN ZifyNat.
Ltac Zify.zify_post_hook ::= Z.div_mod_to_equations.

Local Arguments N.modulo : simpl never.
Local Arguments N.div : simpl never.
Local Arguments N.pow : simpl never.
Local Arguments N.mul : simpl never.
Local Arguments N.add : simpl never.
Local Arguments N.sub : simpl never.
Local Arguments N.ltb : simpl never.
Local Arguments N.leb : simpl never.
Local Arguments N.eqb : simpl never.
Local Arguments N.of_nat : simpl never.
Local Arguments N.to_nat : simpl never.

Definition canonical {A} (dec : bytes -> res A) (enc : A -> res bytes) : Prop :=
  forall b v, dec b = Ok v -> enc v = Ok b.
Definition rejected {A} (r : res A) : Prop := exists e, r = Err e.

Lemma Ok_inj {A} (a b : A) : @Ok A a = Ok b -> a = b.
Proof. intros H; now inversion H. Qed.

(* ---------- tactics: explicit prefix of n bytes ---------- *)

Lemma tail_from_ok buf o : o <= nlen buf -> tail_from buf o = Ok (skipn (N.to_nat o) buf).
Proof.
  intros H. unfold tail_from. replace (nlen buf <? o) with false by lia.
  unfold slice. unfold nlen in H.
  replace (Nat.leb (N.to_nat o) (length buf)) with true by (symmetry; apply Nat.leb_le; lia).
  rewrite Nat.leb_refl. cbn [andb]. f_equal. apply firstn_all2. rewrite skipn_length. lia.
Qed.

Lemma nlen_explicit {A} (p t : list A) n : length p = n -> nlen (p ++ t) = N.of_nat n + nlen t.
Proof. intros <-. apply nlen_app. Qed.

(* b has at least n bytes: rewrite it as n explicit bytes followed by a tail *)
Ltac explode b n t :=
  let p := fresh "p" in let Hp := fresh "Hp" in
  destruct (split_at n b) as (p & t & -> & Hp); [unfold nlen in *; lia|];
  repeat (destruct p as [|? p]; [simpl in Hp; discriminate|]);
  destruct p; [|simpl in Hp; discriminate]; clear Hp.

Ltac step_in H :=
  cbn [slice read_offset_at read_u64 read_u32 read_u16 read_u8 Nat.leb Nat.ltb Nat.add Nat.sub length andb firstn skipn bind app] in H.
Ltac step :=
  cbn [slice read_offset_at read_u64 read_u32 read_u16 read_u8 Nat.leb Nat.ltb Nat.add Nat.sub length andb firstn skipn bind app].

(* ================================================================== Ping / Pong *)
Definition Ping_wf (v : Ping) : Prop := let '(seq, pt, p) := v in seq < two64 /\ pt < two16.
Definition Ping_lim (v : Ping) : Prop := let '(seq, pt, p) := v in nlen p <= L_PingPayload.
Definition Ping_layout (v : Ping) : bytes := let '(seq, pt, p) := v in u64_enc seq ++ u16_enc pt ++ u32_enc 14 ++ p.

Lemma enc_Ping_spec v :
  enc_Ping v = if (let '(_, _, p) := v in nlen p <=? L_PingPayload) then Ok (Ping_layout v) else Err E_BYTESLEN.
Proof.
  destruct v as [[seq pt] p]. unfold enc_Ping, enc_bytes_max, Ping_layout.
  destruct (L_PingPayload <? nlen p) eqn:E.
  - replace (nlen p <=? L_PingPayload) with false by lia. reflexivity.
  - replace (nlen p <=? L_PingPayload) with true by lia. cbn [bind]. now rewrite <- !app_assoc.
Qed.

Lemma dec_Ping_layout v : Ping_wf v -> Ping_lim v -> dec_Ping (Ping_layout v) = Ok v.
Proof.
  destruct v as [[seq pt] p]. intros [Hs Hp] Hl. unfold Ping_lim in Hl. unfold dec_Ping, Ping_layout.
  assert (Hn : nlen (u64_enc seq ++ u16_enc pt ++ u32_enc 14 ++ p) = 14 + nlen p).
  { rewrite !nlen_app. unfold u64_enc, u16_enc, u32_enc. rewrite !nlen_le_enc. lia. }
  rewrite Hn. replace (14 + nlen p <? 14) with false by lia.
  unfold u64_enc, u16_enc, u32_enc. cbn [le_enc]. step.
  match goal with |- context [_ <? le_dec ?l] => change l with (le_enc 4 14) end.
  rewrite (le_dec_enc 4 14) by (vm_compute; reflexivity).
  replace (14 + nlen p <? 14) with false by lia.
  change (14 =? 14) with true. cbn [negb].
  rewrite tail_from_ok by (rewrite !nlen_cons; lia).
  change (N.to_nat 14) with 14%nat. step.
  unfold dec_bytes_max. replace (L_PingPayload <? nlen p) with false by lia. cbn [bind].
  change (Ok (le_dec (le_enc 8 seq), le_dec (le_enc 2 pt), p) = Ok (seq, pt, p)).
  rewrite (le_dec_enc 8 seq Hs), (le_dec_enc 2 pt Hp). reflexivity.
Qed.

Lemma dec_Ping_inv b v : dec_Ping b = Ok v -> b = Ping_layout v /\ Ping_wf v /\ Ping_lim v.
Proof.
  unfold dec_Ping. intros H.
  destruct (nlen b <? 14) eqn:Hs; [discriminate|].
  explode b 14%nat t. step_in H.
  match type of H with context [_ <? le_dec ?l] => set (o := le_dec l) in *; assert (Ho : le_enc 4 o = l) by (apply le_enc_of_dec; reflexivity) end.
  destruct (_ <? o) eqn:E1 in H; [discriminate|].
  destruct (o =? 14) eqn:E2 in H; cbn [negb] in H; [|discriminate].
  assert (o = 14) by lia.
  rewrite tail_from_ok in H by (rewrite !nlen_cons; lia).
  replace (N.to_nat o) with 14%nat in H by lia. step_in H.
  unfold dec_bytes_max in H. destruct (L_PingPayload <? nlen t) eqn:E3; [discriminate|]. cbn [bind] in H.
  apply Ok_inj in H. rewrite <- H. split; [|split].
  - unfold Ping_layout, u64_enc, u16_enc, u32_enc.
    rewrite !le_enc_of_dec by reflexivity. replace 14 with o by assumption. rewrite Ho. reflexivity.
  - split.
    + match goal with |- le_dec ?l < _ => exact (le_dec_lt l) end.
    + match goal with |- le_dec ?l < _ => exact (le_dec_lt l) end.
  - unfold Ping_lim. lia.
Qed.

(* ================================================================== the four clauses of C14 for one codec *)
(* (a) round trip, (b) over-limit values do not get through, (c) decoded values are within limits, (d) canonicity *)
Definition not_accepted {A} (r : res A) : Prop := forall v, r <> Ok v.
Definition roundtrips {A} (enc : A -> res bytes) (dec : bytes -> res A) (wf lim : A -> Prop) : Prop :=
  forall v, wf v -> lim v -> exists b, enc v = Ok b /\ dec b = Ok v.
Definition overlimit_rejected {A} (enc : A -> res bytes) (dec : bytes -> res A) (wf lim : A -> Prop) : Prop :=
  forall v, wf v -> ~ lim v -> enc v <> Panic /\ forall b, enc v = Ok b -> not_accepted (dec b).
Definition decodes_within {A} (dec : bytes -> res A) (wf lim : A -> Prop) : Prop :=
  forall b v, dec b = Ok v -> wf v /\ lim v.
Definition codec_ok {A} (enc : A -> res bytes) (dec : bytes -> res A) (wf lim : A -> Prop) : Prop :=
  roundtrips enc dec wf lim /\ overlimit_rejected enc dec wf lim /\ decodes_within dec wf lim /\ canonical dec enc.
(* the clauses that survive for a lax decoder *)
Definition codec_lax_ok {A} (enc : A -> res bytes) (dec : bytes -> res A) (wf lim : A -> Prop) : Prop :=
  roundtrips enc dec wf lim /\ overlimit_rejected enc dec wf lim /\ decodes_within dec wf lim.

Section Derive.
  Context {A : Type} (enc : A -> res bytes) (dec : bytes -> res A) (layout : A -> bytes) (wf lim : A -> Prop).
  (* the encoder writes layout v exactly when v is within limits, and refuses otherwise *)
  Hypothesis enc_in : forall v, lim v -> enc v = Ok (layout v).
  Hypothesis enc_out : forall v, ~ lim v -> exists e, enc v = Err e.
  Hypothesis dec_layout : forall v, wf v -> lim v -> dec (layout v) = Ok v.
  Hypothesis dec_inv : forall b v, dec b = Ok v -> b = layout v /\ wf v /\ lim v.

  Lemma derive_codec_ok : codec_ok enc dec wf lim.
  Proof.
    split; [|split; [|split]].
    - intros v Hw Hl. exists (layout v). split; [now apply enc_in | now apply dec_layout].
    - intros v Hw Hl. destruct (enc_out v Hl) as [e He]. rewrite He. split; [discriminate|]. intros b Hb; discriminate.
    - intros b v H. apply dec_inv in H. tauto.
    - intros b v H. apply dec_inv in H as (-> & _ & Hl). now apply enc_in.
  Qed.
End Derive.

(* a lax decoder that accepts what the strict one accepts, plus strings that decode to in-limit values *)
Section DeriveLax.
  Context {A : Type} (enc : A -> res bytes) (decs decl : bytes -> res A) (wf lim : A -> Prop).
  Hypothesis strict_ok : codec_ok enc decs wf lim.
  Hypothesis strict_lax : forall b v, decs b = Ok v -> decl b = Ok v.
  Hypothesis lax_extra : forall b v, decl b = Ok v -> decs b = Ok v \/ (wf v /\ lim v).
  (* the encoder refuses over-limit values *)
  Hypothesis enc_out : forall v, ~ lim v -> exists e, enc v = Err e.

  Lemma derive_codec_lax_ok : codec_lax_ok enc decl wf lim.
  Proof.
    destruct strict_ok as (Ha & Hb & Hc & Hd). split; [|split].
    - intros v Hw Hl. destruct (Ha v Hw Hl) as (b & He & Hdc). exists b. split; [assumption|now apply strict_lax].
    - intros v Hw Hl. destruct (enc_out v Hl) as [e He]. rewrite He. split; [discriminate|]. intros b Hb'; discriminate.
    - intros b v H. apply lax_extra in H as [H|H]; [now apply (Hc b)|assumption].
  Qed.
End DeriveLax.

Lemma Ping_codec : codec_ok enc_Ping dec_Ping Ping_wf Ping_lim.
Proof.
  apply (derive_codec_ok _ _ Ping_layout).
  - intros [[s t] p] H. rewrite enc_Ping_spec. unfold Ping_lim in H. replace (nlen p <=? L_PingPayload) with true by lia. reflexivity.
  - intros [[s t] p] H. rewrite enc_Ping_spec. unfold Ping_lim in H. replace (nlen p <=? L_PingPayload) with false by lia. eexists; reflexivity.
  - exact dec_Ping_layout.
  - exact dec_Ping_inv.
Qed.
Lemma Pong_codec : codec_ok enc_Pong dec_Pong Ping_wf Ping_lim.
Proof. exact Ping_codec. Qed.

(* ================================================================== Content, ConnectionId (no offsets) *)
Definition Content_lim (v : Content) : Prop := nlen v <= L_Content.
Lemma Content_codec : codec_ok enc_Content dec_Content (fun _ => True) Content_lim.
Proof.
  apply (derive_codec_ok _ _ (fun v => v)); unfold enc_Content, dec_Content, enc_bytes_max, dec_bytes_max, Content_lim.
  - intros v H. replace (L_Content <? nlen v) with false by lia. reflexivity.
  - intros v H. replace (L_Content <? nlen v) with true by lia. eexists; reflexivity.
  - intros v _ H. replace (L_Content <? nlen v) with false by lia. reflexivity.
  - intros b v. destruct (L_Content <? nlen b) eqn:E; [discriminate|]. intros H; apply Ok_inj in H; subst. repeat split; lia.
Qed.

Definition ConnectionId_lim (v : ConnectionId) : Prop := nlen v = 2.
Lemma ConnectionId_codec : codec_ok enc_ConnectionId dec_ConnectionId (fun _ => True) ConnectionId_lim.
Proof.
  apply (derive_codec_ok _ _ (fun v => v)); unfold enc_ConnectionId, dec_ConnectionId, enc_bytes_exact, ConnectionId_lim.
  - intros v H. replace (nlen v =? 2) with true by lia. reflexivity.
  - intros v H. replace (nlen v =? 2) with false by lia. eexists; reflexivity.
  - intros v _ H. replace (nlen v =? 2) with true by lia. cbn [negb].
    replace 2%nat with (length v) by (unfold nlen in H; lia). apply slice_full.
  - intros b v. destruct (nlen b =? 2) eqn:E; cbn [negb]; [|discriminate]. intros H.
    assert (L : length b = 2%nat) by (unfold nlen in E; lia). rewrite <- L, slice_full in H. apply Ok_inj in H; subst.
    repeat split; lia.
Qed.

(* ================================================================== FindContent *)
Definition FindContent_lim (v : FindContent) : Prop := nlen v <= L_ContentKey.
Definition FindContent_layout (v : FindContent) : bytes := u32_enc 4 ++ v.

Lemma dec_FindContent_layout v : FindContent_lim v -> dec_FindContent (FindContent_layout v) = Ok v.
Proof.
  intros Hl. unfold FindContent_lim in Hl. unfold dec_FindContent, FindContent_layout.
  assert (Hn : nlen (u32_enc 4 ++ v) = 4 + nlen v) by (rewrite nlen_app; unfold u32_enc; rewrite nlen_le_enc; lia).
  rewrite Hn. replace (4 + nlen v <? 4) with false by lia.
  unfold u32_enc. cbn [le_enc]. step.
  match goal with |- context [_ <? le_dec ?l] => change l with (le_enc 4 4) end.
  rewrite (le_dec_enc 4 4) by (vm_compute; reflexivity).
  replace (4 + nlen v <? 4) with false by lia. change (4 =? 4) with true. cbn [negb].
  rewrite tail_from_ok by (rewrite !nlen_cons; lia).
  change (N.to_nat 4) with 4%nat. step.
  unfold dec_bytes_max. replace (L_ContentKey <? nlen v) with false by lia. reflexivity.
Qed.

Lemma dec_FindContent_inv b v : dec_FindContent b = Ok v -> b = FindContent_layout v /\ True /\ FindContent_lim v.
Proof.
  unfold dec_FindContent. intros H.
  destruct (nlen b <? 4) eqn:Hs; [discriminate|].
  explode b 4%nat t. step_in H.
  match type of H with context [_ <? le_dec ?l] => set (o := le_dec l) in *; assert (Ho : le_enc 4 o = l) by (apply le_enc_of_dec; reflexivity) end.
  destruct (_ <? o) eqn:E1 in H; [discriminate|].
  destruct (o =? 4) eqn:E2 in H; cbn [negb] in H; [|discriminate].
  assert (o = 4) by lia.
  rewrite tail_from_ok in H by (rewrite !nlen_cons; lia).
  replace (N.to_nat o) with 4%nat in H by lia. step_in H.
  unfold dec_bytes_max in H. destruct (L_ContentKey <? nlen t) eqn:E3; [discriminate|].
  apply Ok_inj in H. rewrite <- H. split; [|split; [exact I|]].
  - unfold FindContent_layout, u32_enc. replace 4 with o by assumption. rewrite Ho. reflexivity.
  - unfold FindContent_lim. lia.
Qed.

Lemma FindContent_codec : codec_ok enc_FindContent dec_FindContent (fun _ => True) FindContent_lim.
Proof.
  apply (derive_codec_ok _ _ FindContent_layout); unfold FindContent_lim.
  - intros v H. unfold enc_FindContent, enc_bytes_max. replace (L_ContentKey <? nlen v) with false by lia. reflexivity.
  - intros v H. unfold enc_FindContent, enc_bytes_max. replace (L_ContentKey <? nlen v) with true by lia. eexists; reflexivity.
  - intros v _. apply dec_FindContent_layout.
  - exact dec_FindContent_inv.
Qed.

(* ================================================================== lists of variable-size items: Offer, Nodes, Enrs *)
Definition dyn_lim (mxn mxb : N) (l : list bytes) : Prop := nlen l <= mxn /\ Forall (fun b => nlen b <= mxb) l.

Lemma dyn_ok_iff mxn mxb l : dyn_ok mxn mxb l = true <-> dyn_lim mxn mxb l.
Proof.
  unfold dyn_ok, dyn_lim. rewrite andb_true_iff, forallb_forall, Forall_forall. split.
  - intros [H1 H2]. split; [lia|]. intros x Hx. specialize (H2 x Hx). lia.
  - intros [H1 H2]. split; [lia|]. intros x Hx. specialize (H2 x Hx). lia.
Qed.

Lemma item_Forall mx l : Forall (fun b => nlen b <= mx) l -> Forall (fun y => item_bytes_max mx y = Ok ((fun x => x) y)) l.
Proof.
  intros H. eapply Forall_impl; [|exact H]. intros y Hy. cbv beta in Hy. unfold item_bytes_max.
  replace (mx <? nlen y) with false by lia. reflexivity.
Qed.

Lemma item_Forall2_inv mx l vs :
  Forall2 (fun y v => item_bytes_max mx y = Ok v) l vs -> l = vs /\ Forall (fun b => nlen b <= mx) vs.
Proof.
  induction 1 as [|y v l vs Hy _ [IH1 IH2]]; [split; constructor|].
  unfold item_bytes_max in Hy. destruct (mx <? nlen y) eqn:E; [discriminate|]. apply Ok_inj in Hy. subst.
  split; [reflexivity|]. constructor; [lia|assumption].
Qed.

Lemma total_len_le mxn mxb l : dyn_lim mxn mxb l -> total_len l <= mxn * mxb.
Proof.
  intros [H1 H2]. assert (total_len l <= nlen l * mxb).
  { clear H1. induction H2 as [|x r Hx _ IH]; [unfold nlen; simpl; lia|]. cbn [total_len]. rewrite nlen_cons. lia. }
  nia.
Qed.

Lemma dec_dyn_layout strict mxn mxb l :
  4 * mxn + mxn * mxb < two32 -> dyn_lim mxn mxb l ->
  dec_dyn_list strict (dyn_layout l) mxn (item_bytes_max mxb) = Ok l.
Proof.
  intros Hb Hl. pose proof (total_len_le _ _ _ Hl) as Ht. destruct Hl as [H1 H2].
  rewrite (dec_dyn_list_layout strict mxn (item_bytes_max mxb) (fun x => x) l); [now rewrite map_id | lia | lia | now apply item_Forall].
Qed.

Lemma dec_dyn_inv mxn mxb buf l :
  dec_dyn_list true buf mxn (item_bytes_max mxb) = Ok l -> buf = dyn_layout l /\ dyn_lim mxn mxb l.
Proof.
  intros H. apply dec_dyn_list_inv in H as (l' & -> & Hn & Hf). apply item_Forall2_inv in Hf as [-> Hf].
  split; [reflexivity|]. split; assumption.
Qed.

Lemma enc_dyn_in mxn mxb l : dyn_lim mxn mxb l -> enc_dyn_list mxn mxb l = Ok (dyn_layout l).
Proof. intros H. apply dyn_ok_iff in H. rewrite enc_dyn_list_spec, H. reflexivity. Qed.
Lemma enc_dyn_out mxn mxb l : ~ dyn_lim mxn mxb l -> exists e, enc_dyn_list mxn mxb l = Err e.
Proof.
  intros H. rewrite enc_dyn_list_spec. destruct (dyn_ok mxn mxb l) eqn:E.
  - apply dyn_ok_iff in E. contradiction.
  - destruct (mxn <? nlen l); eexists; reflexivity.
Qed.

Lemma dyn_lim_nil mxn mxb : dyn_lim mxn mxb [].
Proof. split; [unfold nlen; simpl; lia | constructor]. Qed.

(* ---- Enrs *)
Definition Enrs_lim (v : Enrs) : Prop := dyn_lim L_Enrs L_Enr v.
Lemma Enrs_codec_strict : codec_ok enc_Enrs (dec_Enrs true) (fun _ => True) Enrs_lim.
Proof.
  apply (derive_codec_ok _ _ dyn_layout); unfold enc_Enrs, dec_Enrs, Enrs_lim.
  - apply enc_dyn_in.
  - apply enc_dyn_out.
  - intros v _. apply dec_dyn_layout. vm_compute; reflexivity.
  - intros b v H. apply dec_dyn_inv in H. tauto.
Qed.
Lemma Enrs_codec_lax : codec_lax_ok enc_Enrs (dec_Enrs false) (fun _ => True) Enrs_lim.
Proof.
  apply (derive_codec_lax_ok _ (dec_Enrs true)).
  - exact Enrs_codec_strict.
  - intros b v. apply dec_dyn_list_strict_lax.
  - intros b v H. apply dec_dyn_list_lax_strict in H as [H|[_ ->]]; [now left|right]. split; [exact I|apply dyn_lim_nil].
  - apply enc_dyn_out.
Qed.

(* ---- Offer *)
Definition Offer_lim (v : Offer) : Prop := dyn_lim L_OfferKeys L_ContentKey v.
Definition Offer_layout (v : Offer) : bytes := u32_enc 4 ++ dyn_layout v.

Lemma dec_Offer_prefix strict t : dec_Offer strict (u32_enc 4 ++ t) = dec_dyn_list strict t L_OfferKeys (item_bytes_max L_ContentKey).
Proof.
  unfold dec_Offer.
  assert (Hn : nlen (u32_enc 4 ++ t) = 4 + nlen t) by (rewrite nlen_app; unfold u32_enc; rewrite nlen_le_enc; lia).
  rewrite Hn. replace (4 + nlen t <? 4) with false by lia.
  unfold u32_enc. cbn [le_enc]. step.
  match goal with |- context [_ <? le_dec ?l] => change l with (le_enc 4 4) end.
  rewrite (le_dec_enc 4 4) by (vm_compute; reflexivity).
  replace (4 + nlen t <? 4) with false by lia. change (4 =? 4) with true. cbn [negb].
  rewrite tail_from_ok by (rewrite !nlen_cons; lia).
  change (N.to_nat 4) with 4%nat. step. reflexivity.
Qed.

Lemma dec_Offer_split strict b v : dec_Offer strict b = Ok v -> exists t, b = u32_enc 4 ++ t.
Proof.
  unfold dec_Offer. intros H.
  destruct (nlen b <? 4) eqn:Hs; [discriminate|].
  explode b 4%nat t. step_in H.
  match type of H with context [_ <? le_dec ?l] => set (o := le_dec l) in *; assert (Ho : le_enc 4 o = l) by (apply le_enc_of_dec; reflexivity) end.
  destruct (_ <? o) eqn:E1 in H; [discriminate|].
  destruct (o =? 4) eqn:E2 in H; cbn [negb] in H; [|discriminate].
  assert (o = 4) by lia. exists t. unfold u32_enc. replace 4 with o by assumption. rewrite Ho. reflexivity.
Qed.

Lemma Offer_codec_strict : codec_ok enc_Offer (dec_Offer true) (fun _ => True) Offer_lim.
Proof.
  apply (derive_codec_ok _ _ Offer_layout); unfold enc_Offer, Offer_lim, Offer_layout.
  - intros v H. rewrite enc_dyn_in by assumption. reflexivity.
  - intros v H. destruct (enc_dyn_out _ _ _ H) as [e ->]. eexists; reflexivity.
  - intros v _ H. rewrite dec_Offer_prefix. apply dec_dyn_layout; [vm_compute; reflexivity|assumption].
  - intros b v H. destruct (dec_Offer_split _ _ _ H) as [t ->]. rewrite dec_Offer_prefix in H.
    apply dec_dyn_inv in H as [-> Hl]. tauto.
Qed.
Lemma Offer_codec_lax : codec_lax_ok enc_Offer (dec_Offer false) (fun _ => True) Offer_lim.
Proof.
  apply (derive_codec_lax_ok _ (dec_Offer true)).
  - exact Offer_codec_strict.
  - intros b v H. destruct (dec_Offer_split _ _ _ H) as [t ->]. rewrite dec_Offer_prefix in *. now apply dec_dyn_list_strict_lax.
  - intros b v H. destruct (dec_Offer_split _ _ _ H) as [t ->]. rewrite dec_Offer_prefix in *.
    apply dec_dyn_list_lax_strict in H as [H|[_ ->]]; [now left|right]. split; [exact I|apply dyn_lim_nil].
  - intros v H. unfold enc_Offer. destruct (enc_dyn_out _ _ _ H) as [e ->]. eexists; reflexivity.
Qed.

(* ---- Nodes *)
Definition Nodes_wf (v : Nodes) : Prop := fst v < two8.
Definition Nodes_lim (v : Nodes) : Prop := dyn_lim L_Enrs L_Enr (snd v).
Definition Nodes_layout (v : Nodes) : bytes := u8_enc (fst v) ++ u32_enc 5 ++ dyn_layout (snd v).

Lemma dec_Nodes_prefix strict total t : total < two8 ->
  dec_Nodes strict (u8_enc total ++ u32_enc 5 ++ t) =
  bind (dec_dyn_list strict t L_Enrs (item_bytes_max L_Enr)) (fun enrs => Ok (total, enrs)).
Proof.
  intros Ht. unfold dec_Nodes.
  assert (Hn : nlen (u8_enc total ++ u32_enc 5 ++ t) = 5 + nlen t) by (rewrite !nlen_app; unfold u8_enc, u32_enc; rewrite !nlen_le_enc; lia).
  rewrite Hn. replace (5 + nlen t <? 5) with false by lia.
  unfold u8_enc, u32_enc. cbn [le_enc]. step.
  match goal with |- context [_ <? le_dec ?l] => change l with (le_enc 4 5) end.
  rewrite (le_dec_enc 4 5) by (vm_compute; reflexivity).
  replace (5 + nlen t <? 5) with false by lia. change (5 =? 5) with true. cbn [negb].
  rewrite tail_from_ok by (rewrite !nlen_cons; lia).
  change (N.to_nat 5) with 5%nat. step.
  rewrite b2n_n2b, N.mod_mod by lia. unfold two8 in Ht. rewrite N.mod_small by lia. reflexivity.
Qed.

Lemma dec_Nodes_split strict b v : dec_Nodes strict b = Ok v -> exists t, b = u8_enc (fst v) ++ u32_enc 5 ++ t /\ fst v < two8.
Proof.
  unfold dec_Nodes. intros H.
  destruct (nlen b <? 5) eqn:Hs; [discriminate|].
  explode b 5%nat t. step_in H.
  match type of H with context [_ <? le_dec ?l] => set (o := le_dec l) in *; assert (Ho : le_enc 4 o = l) by (apply le_enc_of_dec; reflexivity) end.
  destruct (_ <? o) eqn:E1 in H; [discriminate|].
  destruct (o =? 5) eqn:E2 in H; cbn [negb] in H; [|discriminate].
  assert (o = 5) by lia.
  destruct (tail_from _ o) as [t'| |] in H; cbn [bind] in H; try discriminate.
  destruct (dec_dyn_list strict t' L_Enrs (item_bytes_max L_Enr)) as [enrs| |] in H; cbn [bind] in H; try discriminate.
  apply Ok_inj in H. subst v. cbn [fst]. exists t. split.
  - unfold u8_enc, u32_enc. replace 5 with o by assumption. rewrite Ho. cbn [le_enc].
    match goal with |- context [n2b (b2n ?x mod 256)] => rewrite (N.mod_small (b2n x)) by (pose proof (b2n_lt x); lia); rewrite n2b_b2n end.
    reflexivity.
  - match goal with |- b2n ?x < _ => pose proof (b2n_lt x); unfold two8; lia end.
Qed.

Lemma Nodes_codec_strict : codec_ok enc_Nodes (dec_Nodes true) Nodes_wf Nodes_lim.
Proof.
  apply (derive_codec_ok _ _ Nodes_layout); unfold enc_Nodes, Nodes_lim, Nodes_layout, Nodes_wf.
  - intros [n l] H. cbn [fst snd] in *. rewrite enc_dyn_in by assumption. cbn [bind]. now rewrite <- app_assoc.
  - intros [n l] H. cbn [fst snd] in *. destruct (enc_dyn_out _ _ _ H) as [e ->]. eexists; reflexivity.
  - intros [n l] Hw H. cbn [fst snd] in *. rewrite dec_Nodes_prefix by assumption.
    rewrite dec_dyn_layout; [reflexivity|vm_compute; reflexivity|assumption].
  - intros b [n l] H. destruct (dec_Nodes_split _ _ _ H) as (t & -> & Hw). cbn [fst snd] in *. rewrite dec_Nodes_prefix in H by assumption.
    destruct (dec_dyn_list true t L_Enrs (item_bytes_max L_Enr)) as [enrs| |] eqn:Ed; cbn [bind] in H; try discriminate.
    apply Ok_inj in H. injection H as <-. apply dec_dyn_inv in Ed as [-> Hl]. tauto.
Qed.
Lemma Nodes_codec_lax : codec_lax_ok enc_Nodes (dec_Nodes false) Nodes_wf Nodes_lim.
Proof.
  apply (derive_codec_lax_ok _ (dec_Nodes true)).
  - exact Nodes_codec_strict.
  - intros b v H. destruct (dec_Nodes_split _ _ _ H) as (t & -> & Hw). rewrite dec_Nodes_prefix in * by assumption.
    destruct (dec_dyn_list true t L_Enrs (item_bytes_max L_Enr)) as [enrs| |] eqn:Ed; cbn [bind] in H; try discriminate.
    apply dec_dyn_list_strict_lax in Ed. now rewrite Ed.
  - intros b [n l] H. destruct (dec_Nodes_split _ _ _ H) as (t & -> & Hw). cbn [fst snd] in *. rewrite dec_Nodes_prefix in * by assumption.
    destruct (dec_dyn_list false t L_Enrs (item_bytes_max L_Enr)) as [enrs| |] eqn:Ed; cbn [bind] in H; try discriminate.
    apply Ok_inj in H. injection H as <-.
    apply dec_dyn_list_lax_strict in Ed as [Ed|[_ ->]]; [left; now rewrite Ed|right].
    split; [exact Hw|apply dyn_lim_nil].
  - intros [n l] H. unfold enc_Nodes, Nodes_lim in *. cbn [snd] in H. destruct (enc_dyn_out _ _ _ H) as [e ->]. eexists; reflexivity.
Qed.

(* ================================================================== encoders that do not check every limit themselves *)
Section DeriveNoCheck.
  Context {A : Type} (enc : A -> res bytes) (dec : bytes -> res A) (layout : A -> bytes) (wf lim : A -> Prop).
  Hypothesis enc_in : forall v, wf v -> lim v -> enc v = Ok (layout v).
  Hypothesis enc_shape : forall v b, wf v -> enc v = Ok b -> b = layout v.
  Hypothesis enc_nopanic : forall v, wf v -> enc v <> Panic.
  Hypothesis inj : forall v v', wf v -> wf v' -> lim v' -> enc v = Ok (layout v) -> layout v = layout v' -> v = v'.
  Hypothesis dec_layout : forall v, wf v -> lim v -> dec (layout v) = Ok v.
  Hypothesis dec_inv : forall b v, dec b = Ok v -> b = layout v /\ wf v /\ lim v.

  Lemma derive_codec_ok_nocheck : codec_ok enc dec wf lim.
  Proof.
    split; [|split; [|split]].
    - intros v Hw Hl. exists (layout v). split; [now apply enc_in | now apply dec_layout].
    - intros v Hw Hl. split; [now apply enc_nopanic|]. intros b Hb v' Hd.
      pose proof (enc_shape _ _ Hw Hb) as ->. apply dec_inv in Hd as (He & Hw' & Hl').
      apply Hl. rewrite (inj v v' Hw Hw' Hl' Hb He). exact Hl'.
    - intros b v H. apply dec_inv in H. tauto.
    - intros b v H. apply dec_inv in H as (-> & Hw & Hl). now apply enc_in.
  Qed.
End DeriveNoCheck.

(* ================================================================== FindNodes *)
Definition FindNodes_wf (v : FindNodes) : Prop := Forall (fun d => length d = 2%nat) v.
Definition FindNodes_lim (v : FindNodes) : Prop := nlen v <= L_Distances.
Definition FindNodes_layout (v : FindNodes) : bytes := u32_enc 4 ++ concat v.

Lemma concat_length_const (n : nat) (l : list bytes) : Forall (fun c => length c = n) l -> length (concat l) = (length l * n)%nat.
Proof. induction 1 as [|c l Hc _ IH]; [reflexivity|]. cbn [concat length]. rewrite app_length. lia. Qed.

Lemma dec_FindNodes_prefix t :
  dec_FindNodes (u32_enc 4 ++ t) = bind (divide_int2 (nlen t) 2 L_Distances) (fun num => chunks (N.to_nat num) 2 t 0).
Proof.
  unfold dec_FindNodes.
  assert (Hn : nlen (u32_enc 4 ++ t) = 4 + nlen t) by (rewrite nlen_app; unfold u32_enc; rewrite nlen_le_enc; lia).
  rewrite Hn. replace (4 + nlen t <? 4) with false by lia.
  unfold u32_enc. cbn [le_enc]. step.
  match goal with |- context [_ <? le_dec ?l] => change l with (le_enc 4 4) end.
  rewrite (le_dec_enc 4 4) by (vm_compute; reflexivity).
  replace (4 + nlen t <? 4) with false by lia. change (4 =? 4) with true. cbn [negb].
  rewrite tail_from_ok by (rewrite !nlen_cons; lia).
  change (N.to_nat 4) with 4%nat. step. reflexivity.
Qed.

Lemma dec_FindNodes_split b v : dec_FindNodes b = Ok v -> exists t, b = u32_enc 4 ++ t.
Proof.
  unfold dec_FindNodes. intros H.
  destruct (nlen b <? 4) eqn:Hs; [discriminate|].
  explode b 4%nat t. step_in H.
  match type of H with context [_ <? le_dec ?l] => set (o := le_dec l) in *; assert (Ho : le_enc 4 o = l) by (apply le_enc_of_dec; reflexivity) end.
  destruct (_ <? o) eqn:E1 in H; [discriminate|].
  destruct (o =? 4) eqn:E2 in H; cbn [negb] in H; [|discriminate].
  assert (o = 4) by lia. exists t. unfold u32_enc. replace 4 with o by assumption. rewrite Ho. reflexivity.
Qed.

Lemma divide_int2_inv a b mx num : divide_int2 a b mx = Ok num -> b <> 0 /\ a = b * num /\ num <= mx.
Proof.
  unfold divide_int2. destruct (b =? 0) eqn:E0; [discriminate|].
  destruct (a mod b =? 0) eqn:Em; cbn [negb]; [|discriminate].
  destruct (mx <? a / b) eqn:Ex; [discriminate|]. intros H; apply Ok_inj in H. subst num.
  assert (b <> 0) by lia. split; [assumption|]. split; [|lia].
  pose proof (N.div_mod a b H). assert (a mod b = 0) by lia. lia.
Qed.

Lemma FindNodes_codec : codec_ok enc_FindNodes dec_FindNodes FindNodes_wf FindNodes_lim.
Proof.
  apply (derive_codec_ok _ _ FindNodes_layout); unfold FindNodes_lim, FindNodes_layout, FindNodes_wf.
  - intros v H. unfold enc_FindNodes. replace (L_Distances <? nlen v) with false by lia. reflexivity.
  - intros v H. unfold enc_FindNodes. replace (L_Distances <? nlen v) with true by lia. eexists; reflexivity.
  - intros v Hw Hl. rewrite dec_FindNodes_prefix.
    pose proof (concat_length_const 2 v Hw) as Hc.
    assert (Hn : nlen (concat v) = 2 * nlen v) by (unfold nlen; lia).
    unfold divide_int2. rewrite Hn. change (2 =? 0) with false. cbv iota.
    replace (2 * nlen v mod 2 =? 0) with true by lia. cbn [negb].
    replace (2 * nlen v / 2) with (nlen v) by lia.
    replace (L_Distances <? nlen v) with false by lia. cbn [bind].
    replace (N.to_nat (nlen v)) with (length v) by (unfold nlen; lia).
    rewrite <- (app_nil_r (concat v)). apply (chunks_layout 2 v Hw [] [] 0%nat). reflexivity.
  - intros b v H. destruct (dec_FindNodes_split _ _ H) as [t ->]. rewrite dec_FindNodes_prefix in H.
    destruct (divide_int2 (nlen t) 2 L_Distances) as [num| |] eqn:Ed; cbn [bind] in H; try discriminate.
    apply divide_int2_inv in Ed as (_ & Ht & Hmx). apply chunks_inv in H as (Hl & Hf & Hc).
    simpl skipn in Hc. rewrite firstn_all2 in Hc by (unfold nlen in Ht; lia).
    rewrite Hc. repeat split; [assumption|]. unfold nlen. lia.
Qed.

(* ================================================================== Accept / AcceptV1 *)
Definition cid6_layout (v : bytes * bytes) : bytes := fst v ++ u32_enc 6 ++ snd v.

Definition dec_cid6 {A} (k : bytes -> bytes -> res A) (buf : bytes) : res A :=
  let size := nlen buf in
  if size <? 6 then Err E_SIZE
  else
    bind (slice buf 0 2) (fun cid =>
    bind (read_offset_at buf 2) (fun o1 =>
    if size <? o1 then Err E_OFFSET
    else if negb (o1 =? 6) then Err E_VAROFF
    else bind (tail_from buf o1) (k cid))).

Lemma dec_cid6_prefix {A} (k : bytes -> bytes -> res A) cid t : nlen cid = 2 -> dec_cid6 k (cid ++ u32_enc 6 ++ t) = k cid t.
Proof.
  intros Hc. unfold dec_cid6.
  assert (L : length cid = 2%nat) by (unfold nlen in Hc; lia).
  destruct cid as [|c0 [|c1 [|? ?]]]; try discriminate L.
  assert (Hn : nlen ([c0; c1] ++ u32_enc 6 ++ t) = 6 + nlen t) by (rewrite !nlen_app; unfold u32_enc; rewrite nlen_le_enc; unfold nlen; simpl length; lia).
  rewrite Hn. replace (6 + nlen t <? 6) with false by lia.
  unfold u32_enc. cbn [le_enc]. step.
  match goal with |- context [_ <? le_dec ?l] => change l with (le_enc 4 6) end.
  rewrite (le_dec_enc 4 6) by (vm_compute; reflexivity).
  replace (6 + nlen t <? 6) with false by lia. change (6 =? 6) with true. cbn [negb].
  rewrite tail_from_ok by (rewrite !nlen_cons; lia).
  change (N.to_nat 6) with 6%nat. step. reflexivity.
Qed.

Lemma dec_cid6_split {A} (k : bytes -> bytes -> res A) b v :
  dec_cid6 k b = Ok v -> exists cid t, b = cid ++ u32_enc 6 ++ t /\ nlen cid = 2.
Proof.
  unfold dec_cid6. intros H.
  destruct (nlen b <? 6) eqn:Hs; [discriminate|].
  explode b 6%nat t. step_in H.
  match type of H with context [_ <? le_dec ?l] => set (o := le_dec l) in *; assert (Ho : le_enc 4 o = l) by (apply le_enc_of_dec; reflexivity) end.
  destruct (_ <? o) eqn:E1 in H; [discriminate|].
  destruct (o =? 6) eqn:E2 in H; cbn [negb] in H; [|discriminate].
  assert (o = 6) by lia.
  match type of Ho with _ = [?x2; ?x3; ?x4; ?x5] =>
    match goal with |- context [[?x0; ?x1; x2; x3; x4; x5] ++ t] => exists [x0; x1], t end end.
  split; [|reflexivity]. unfold u32_enc. replace 6 with o by assumption. rewrite Ho. reflexivity.
Qed.

(* AcceptV1 *)
Definition AcceptV1_lim (v : AcceptV1) : Prop := nlen (fst v) = 2 /\ nlen (snd v) <= L_AcceptV1Keys.

Lemma dec_AcceptV1_eq buf : dec_AcceptV1 buf =
  dec_cid6 (fun cid t => bind (divide_int2 (nlen t) 1 L_AcceptV1Keys) (fun num =>
                         bind (chunks (N.to_nat num) 1 t 0) (fun cs => Ok (cid, concat cs)))) buf.
Proof. reflexivity. Qed.

Lemma concat_singletons (t : bytes) : concat (map (fun x => [x]) t) = t.
Proof. induction t as [|x t IH]; [reflexivity|]. cbn [map concat app]. now rewrite IH. Qed.

Lemma chunks1 (t : bytes) : chunks (length t) 1 t 0 = Ok (map (fun x => [x]) t).
Proof.
  assert (F : Forall (fun c : bytes => length c = 1%nat) (map (fun x => [x]) t)) by (apply Forall_forall; intros c Hc; apply in_map_iff in Hc as (x & <- & _); reflexivity).
  pose proof (concat_singletons t) as C.
  pose proof (chunks_layout 1 _ F [] [] 0%nat eq_refl) as H. rewrite map_length, C, app_nil_r in H. exact H.
Qed.

Lemma AcceptV1_codec : codec_ok enc_AcceptV1 dec_AcceptV1 (fun _ => True) AcceptV1_lim.
Proof.
  apply (derive_codec_ok _ _ cid6_layout); unfold AcceptV1_lim, cid6_layout.
  - intros [cid keys] [H1 H2]. cbn [fst snd] in *. unfold enc_AcceptV1, enc_bytes_exact.
    replace (nlen cid =? 2) with true by lia. cbn [negb bind]. replace (L_AcceptV1Keys <? nlen keys) with false by lia.
    now rewrite <- app_assoc.
  - intros [cid keys] H. cbn [fst snd] in *. unfold enc_AcceptV1, enc_bytes_exact.
    destruct (nlen cid =? 2) eqn:E1; cbn [negb bind]; [|eexists; reflexivity].
    destruct (L_AcceptV1Keys <? nlen keys) eqn:E2; [eexists; reflexivity|]. exfalso. apply H. lia.
  - intros [cid keys] _ [H1 H2]. cbn [fst snd] in *. rewrite dec_AcceptV1_eq, dec_cid6_prefix by assumption.
    unfold divide_int2. change (1 =? 0) with false. cbv iota.
    replace (nlen keys mod 1 =? 0) with true by lia. cbn [negb]. replace (nlen keys / 1) with (nlen keys) by lia.
    replace (L_AcceptV1Keys <? nlen keys) with false by lia. cbn [bind].
    replace (N.to_nat (nlen keys)) with (length keys) by (unfold nlen; lia).
    rewrite chunks1. cbn [bind]. now rewrite concat_singletons.
  - intros b [cid keys] H. rewrite dec_AcceptV1_eq in H. destruct (dec_cid6_split _ _ _ H) as (c & t & -> & Hc).
    rewrite dec_cid6_prefix in H by assumption.
    destruct (divide_int2 (nlen t) 1 L_AcceptV1Keys) as [num| |] eqn:Ed; cbn [bind] in H; try discriminate.
    destruct (chunks (N.to_nat num) 1 t 0) as [cs| |] eqn:Ec; cbn [bind] in H; try discriminate.
    apply Ok_inj in H. injection H as <- <-.
    apply divide_int2_inv in Ed as (_ & Ht & Hmx). apply chunks_inv in Ec as (Hl & Hf & Hcc).
    simpl skipn in Hcc. rewrite firstn_all2 in Hcc by (unfold nlen in Ht; lia).
    rewrite Hcc. cbn [fst snd]. repeat split; [assumption|lia].
Qed.

(* Accept: the marshaller only bounds the byte length of the bitlist by 64; the decoder validates it (<= 64 bits) *)
Definition Accept_lim (v : Accept) : Prop := nlen (fst v) = 2 /\ validate_bitlist (snd v) L_AcceptBits = Ok tt.

Lemma dec_Accept_eq buf : dec_Accept buf =
  dec_cid6 (fun cid t => bind (validate_bitlist t L_AcceptBits) (fun _ => Ok (cid, t))) buf.
Proof. reflexivity. Qed.

Lemma validate_bitlist_len t : validate_bitlist t L_AcceptBits = Ok tt -> nlen t <= 9.
Proof.
  unfold validate_bitlist. destruct (nlen t =? 0); [discriminate|].
  destruct (N.shiftr L_AcceptBits 3 + 1 <? nlen t) eqn:E; [discriminate|]. intros _.
  change (N.shiftr L_AcceptBits 3 + 1) with 9 in E. lia.
Qed.

Lemma app_inv_len {A} (a a' b b' : list A) : length a = length a' -> a ++ b = a' ++ b' -> a = a' /\ b = b'.
Proof.
  revert a'; induction a as [|x a IH]; intros [|x' a'] L H; try discriminate L; [auto|].
  injection H as -> H. injection L as L. destruct (IH a' L H) as [-> ->]. auto.
Qed.

Lemma Accept_codec : codec_ok enc_Accept dec_Accept (fun _ => True) Accept_lim.
Proof.
  apply (derive_codec_ok_nocheck _ _ cid6_layout); unfold Accept_lim, cid6_layout.
  - intros [cid keys] _ [H1 H2]. cbn [fst snd] in *. unfold enc_Accept, enc_bytes_exact, enc_bytes_max.
    replace (nlen cid =? 2) with true by lia. cbn [negb bind].
    apply validate_bitlist_len in H2. replace (L_AcceptBytes <? nlen keys) with false by (unfold L_AcceptBytes; lia).
    cbn [bind]. now rewrite <- app_assoc.
  - intros [cid keys] b _. cbn [fst snd]. unfold enc_Accept, enc_bytes_exact, enc_bytes_max.
    destruct (nlen cid =? 2); cbn [negb bind]; [|discriminate].
    destruct (L_AcceptBytes <? nlen keys); cbn [bind]; [discriminate|]. intros H; apply Ok_inj in H. now rewrite <- H, <- app_assoc.
  - intros [cid keys] _. unfold enc_Accept, enc_bytes_exact, enc_bytes_max.
    destruct (nlen cid =? 2); cbn [negb bind]; [|discriminate].
    destruct (L_AcceptBytes <? nlen keys); cbn [bind]; discriminate.
  - intros [cid keys] [cid' keys'] _ _ [H1 _] He Hl. cbn [fst snd] in *.
    assert (Hc : nlen cid = 2).
    { unfold enc_Accept, enc_bytes_exact in He. destruct (nlen cid =? 2) eqn:E; [lia|discriminate]. }
    apply app_inv_len in Hl as [-> Hl]; [|unfold nlen in *; lia].
    apply app_inv_len in Hl as [_ ->]; [reflexivity|reflexivity].
  - intros [cid keys] _ [H1 H2]. cbn [fst snd] in *. rewrite dec_Accept_eq, dec_cid6_prefix by assumption.
    rewrite H2. reflexivity.
  - intros b [cid keys] H. rewrite dec_Accept_eq in H. destruct (dec_cid6_split _ _ _ H) as (c & t & -> & Hc).
    rewrite dec_cid6_prefix in H by assumption.
    destruct (validate_bitlist t L_AcceptBits) as [[]| |] eqn:Ev; cbn [bind] in H; try discriminate.
    apply Ok_inj in H. injection H as <- <-. cbn [fst snd]. repeat split; assumption.
Qed.

(* ================================================================== the declared limits, in numbers, for the decoders as they are *)
From Shisui Require Import Gen.K_wire.

Lemma within_of {A} (enc : A -> res bytes) dec wf lim : codec_ok enc dec wf lim -> forall b v, dec b = Ok v -> wf v /\ lim v.
Proof. intros (_ & _ & H & _). exact H. Qed.
Lemma within_of_lax {A} (enc : A -> res bytes) dec wf lim : codec_lax_ok enc dec wf lim -> forall b v, dec b = Ok v -> wf v /\ lim v.
Proof. intros (_ & _ & H). exact H. Qed.

Lemma Offer_within s b v : dec_Offer s b = Ok v -> Offer_lim v.
Proof. destruct s; intros H; [apply (within_of _ _ _ _ Offer_codec_strict) in H | apply (within_of_lax _ _ _ _ Offer_codec_lax) in H]; apply H. Qed.
Lemma Nodes_within s b v : dec_Nodes s b = Ok v -> Nodes_lim v.
Proof. destruct s; intros H; [apply (within_of _ _ _ _ Nodes_codec_strict) in H | apply (within_of_lax _ _ _ _ Nodes_codec_lax) in H]; apply H. Qed.
Lemma Enrs_within s b v : dec_Enrs s b = Ok v -> Enrs_lim v.
Proof. destruct s; intros H; [apply (within_of _ _ _ _ Enrs_codec_strict) in H | apply (within_of_lax _ _ _ _ Enrs_codec_lax) in H]; apply H. Qed.

Lemma declared_limits_enforced :
  (forall s b keys, dec_Offer s b = Ok keys -> nlen keys <= K_ContentKeysLimit /\ Forall (fun k => nlen k <= 2048) keys) /\
  (forall b key, dec_FindContent b = Ok key -> nlen key <= 2048) /\
  (forall s b total enrs, dec_Nodes s b = Ok (total, enrs) -> nlen enrs <= 32 /\ Forall (fun e => nlen e <= 2048) enrs) /\
  (forall s b enrs, dec_Enrs s b = Ok enrs -> nlen enrs <= 32 /\ Forall (fun e => nlen e <= 2048) enrs) /\
  (forall b ds, dec_FindNodes b = Ok ds -> nlen ds <= 256 /\ Forall (fun d => length d = 2%nat) ds) /\
  (forall b seq pt payload, dec_Ping b = Ok (seq, pt, payload) -> nlen payload <= 1100) /\
  (forall b seq pt payload, dec_Pong b = Ok (seq, pt, payload) -> nlen payload <= 1100) /\
  (forall b id, dec_ConnectionId b = Ok id -> nlen id = 2) /\
  (forall b cid keys, dec_Accept b = Ok (cid, keys) -> nlen cid = 2 /\ nlen keys <= 9) /\
  (forall b cid keys, dec_AcceptV1 b = Ok (cid, keys) -> nlen cid = 2 /\ nlen keys <= 64) /\
  (forall b c, dec_Content b = Ok c -> nlen c <= 2048).
Proof.
  split; [|split; [|split; [|split; [|split; [|split; [|split; [|split; [|split; [|split]]]]]]]]].
  - intros s b keys H. apply Offer_within in H. exact H.
  - intros b key H. apply (within_of _ _ _ _ FindContent_codec) in H. apply H.
  - intros s b total enrs H. apply Nodes_within in H. exact H.
  - intros s b enrs H. apply Enrs_within in H. exact H.
  - intros b ds H. apply (within_of _ _ _ _ FindNodes_codec) in H. destruct H as [H1 H2]. split; assumption.
  - intros b seq pt payload H. apply (within_of _ _ _ _ Ping_codec) in H. apply H.
  - intros b seq pt payload H. apply (within_of _ _ _ _ Pong_codec) in H. apply H.
  - intros b id H. apply (within_of _ _ _ _ ConnectionId_codec) in H. apply H.
  - intros b cid keys H. apply (within_of _ _ _ _ Accept_codec) in H. destruct H as [_ [H1 H2]]. split; [exact H1|now apply validate_bitlist_len].
  - intros b cid keys H. apply (within_of _ _ _ _ AcceptV1_codec) in H. apply H.
  - intros b c H. apply (within_of _ _ _ _ Content_codec) in H. apply H.
Qed.

(* ================================================================== canonicity is false for the code as it is: witnesses *)
Lemma Offer_canonicity_refuted : ~ canonical (dec_Offer false) enc_Offer.
Proof. intros H. specialize (H [x04;x00;x00;x00;x00;x00;x00;x00] [] eq_refl). vm_compute in H. discriminate. Qed.
Lemma Nodes_canonicity_refuted : ~ canonical (dec_Nodes false) enc_Nodes.
Proof. intros H. specialize (H [x07;x05;x00;x00;x00;x00;x00;x00;x00] (7, []) eq_refl). vm_compute in H. discriminate. Qed.
Lemma Enrs_canonicity_refuted : ~ canonical (dec_Enrs false) enc_Enrs.
Proof. intros H. specialize (H [x00;x00;x00;x00] [] eq_refl). vm_compute in H. discriminate. Qed.
Lemma BasicRadius_canonicity_refuted : ~ canonical (dec_BasicRadius false) enc_BasicRadius.
Proof. intros H. specialize (H (repeat x07 40) (repeat x07 32) eq_refl). vm_compute in H. discriminate. Qed.
Lemma HistoryRadius_canonicity_refuted : ~ canonical (dec_HistoryRadius false) enc_HistoryRadius.
Proof. intros H. specialize (H (repeat x07 40) (repeat x07 32, 1799) eq_refl). vm_compute in H. discriminate. Qed.


(* ================================================================== ping_ext: BasicRadiusPayload (ztyp FixedLenContainer) *)
Lemma dec_BasicRadius_spec s data :
  dec_BasicRadius s data =
  if s && negb (nlen data =? 32) then Err E_STRICT
  else if nlen data <? 32 then Err E_SCOPE else Ok (firstn 32 data).
Proof.
  unfold dec_BasicRadius. destruct (s && negb (nlen data =? 32)); [reflexivity|].
  unfold z_unmarshal, zd_BasicRadius, z_fixed_container, z_bytesN, z_de, rd_read, rd_new.
  cbn [rd_max rd_i rd_inp]. change (32 =? 0) with false. cbv iota.
  replace (nlen data <? 0 + 32) with (nlen data <? 32) by (f_equal; lia).
  destruct (nlen data <? 32) eqn:E; [reflexivity|].
  cbn [bind rd_inp andb]. change (N.to_nat 32) with 32%nat. reflexivity.
Qed.

Definition BasicRadius_wf (v : BasicRadius) : Prop := nlen v = 32.

Lemma BasicRadius_within s b v : dec_BasicRadius s b = Ok v -> BasicRadius_wf v /\ firstn 32 b = v /\ 32 <= nlen b.
Proof.
  rewrite dec_BasicRadius_spec. destruct (s && negb (nlen b =? 32)); [discriminate|].
  destruct (nlen b <? 32) eqn:E; [discriminate|]. intros H; apply Ok_inj in H. subst v.
  unfold BasicRadius_wf, nlen in *. rewrite firstn_length. split; [lia|]. split; [reflexivity|lia].
Qed.

Lemma BasicRadius_roundtrip s v : BasicRadius_wf v -> enc_BasicRadius v = Ok v /\ dec_BasicRadius s v = Ok v.
Proof.
  intros H. unfold BasicRadius_wf in H. split.
  - unfold enc_BasicRadius, zs_fixed_container. cbn [map concat s_bytes]. now rewrite app_nil_r.
  - rewrite dec_BasicRadius_spec. replace (nlen v <? 32) with false by lia.
    replace (nlen v =? 32) with true by lia. cbn [negb]. rewrite andb_false_r.
    rewrite firstn_all2 by (unfold nlen in H; lia). reflexivity.
Qed.

Lemma BasicRadius_codec_lax : codec_lax_ok enc_BasicRadius (dec_BasicRadius false) BasicRadius_wf (fun _ => True).
Proof.
  split; [|split].
  - intros v Hw _. exists v. now apply BasicRadius_roundtrip.
  - intros v _ H. exfalso. now apply H.
  - intros b v H. apply BasicRadius_within in H. split; [apply H|exact I].
Qed.

Lemma BasicRadius_codec_strict : codec_ok enc_BasicRadius (dec_BasicRadius true) BasicRadius_wf (fun _ => True).
Proof.
  split; [|split; [|split]].
  - intros v Hw _. exists v. now apply BasicRadius_roundtrip.
  - intros v _ H. exfalso. now apply H.
  - intros b v H. apply BasicRadius_within in H. split; [apply H|exact I].
  - intros b v H. pose proof (BasicRadius_within _ _ _ H) as (Hw & Hf & Hl).
    rewrite dec_BasicRadius_spec in H. cbn [andb] in H.
    destruct (nlen b =? 32) eqn:E; cbn [negb] in H; [|discriminate].
    assert (Hb : b = v).
    { rewrite <- Hf. symmetry. apply firstn_all2. unfold nlen in E. lia. }
    rewrite Hb. apply (BasicRadius_roundtrip true v Hw).
Qed.


(* ================================================================== ping_ext: HistoryRadiusPayload (ztyp Container, fixed fields only) *)
Lemma dec_HistoryRadius_spec s data :
  dec_HistoryRadius s data =
  if s && negb (nlen data =? 34) then Err E_STRICT
  else if nlen data <? 32 then Err E_SCOPE
  else if nlen data <? 34 then Err E_EOF
  else Ok (firstn 32 data, le_dec (firstn 2 (skipn 32 data))).
Proof.
  unfold dec_HistoryRadius. destruct (s && negb (nlen data =? 34)); [reflexivity|].
  unfold z_unmarshal, zd_HistoryRadius, z_container.
  cbn [zc_pass1 z_fix z_bytesN z_uint z_de].
  change (32 =? 0) with false. change (2 =? 0) with false. cbn [negb].
  rewrite (rd_sub_fixed (rd_new data) 32 FB) by lia.
  unfold rd_new, rd_scope. cbn [rd_max rd_i rd_inp].
  replace (nlen data - 0 <? 32) with (nlen data <? 32) by (f_equal; lia).
  destruct (nlen data <? 32) eqn:E1; [reflexivity|]. cbn [bind].
  rewrite (rd_sub_fixed _ 2 (fun b => FN (le_dec b))) by lia.
  unfold rd_scope. cbn [rd_max rd_i rd_inp].
  replace (nlen data - 0 <? 2) with false by lia.
  rewrite nlen_skipn.
  replace (nlen data - 32 <? 2) with (nlen data <? 34) by lia.
  destruct (nlen data <? 34) eqn:E2; [reflexivity|]. cbn [bind zc_merge andb].
  change (N.to_nat 32) with 32%nat. change (N.to_nat 2) with 2%nat. reflexivity.
Qed.

Definition HistoryRadius_wf (v : HistoryRadius) : Prop := nlen (fst v) = 32 /\ snd v < two16.
Definition HistoryRadius_layout (v : HistoryRadius) : bytes := fst v ++ u16_enc (snd v).

Lemma enc_HistoryRadius_layout v : enc_HistoryRadius v = Ok (HistoryRadius_layout v).
Proof.
  destruct v as [r c]. unfold enc_HistoryRadius, zs_container, HistoryRadius_layout. cbn [fst snd].
  cbn [zs_pass1 s_fix s_bytes]. change (32 =? 0) with false. change (2 =? 0) with false. cbn [negb bind].
  unfold zs_dyn. cbn [filter s_fix]. change (32 =? 0) with false. change (2 =? 0) with false. cbn [map concat].
  now rewrite !app_nil_r.
Qed.

Lemma dec_HistoryRadius_layout s v : HistoryRadius_wf v -> dec_HistoryRadius s (HistoryRadius_layout v) = Ok v.
Proof.
  destruct v as [r c]. intros [H1 H2]. cbn [fst snd] in *. unfold HistoryRadius_layout. cbn [fst snd].
  rewrite dec_HistoryRadius_spec.
  assert (Hn : nlen (r ++ u16_enc c) = 34) by (rewrite nlen_app; unfold u16_enc; rewrite nlen_le_enc; lia).
  rewrite Hn. change (34 =? 34) with true. cbn [negb]. rewrite andb_false_r.
  change (34 <? 32) with false. change (34 <? 34) with false. cbv iota.
  assert (L : length r = 32%nat) by (unfold nlen in H1; lia).
  rewrite (firstn_app_exact r (u16_enc c) 32 L), (skipn_app_exact r (u16_enc c) 32 L).
  rewrite firstn_all2 by (unfold u16_enc; rewrite le_enc_length; lia).
  unfold u16_enc. rewrite le_dec_enc by exact H2. reflexivity.
Qed.

Lemma dec_HistoryRadius_inv s b v :
  dec_HistoryRadius s b = Ok v -> HistoryRadius_wf v /\ firstn 34 b = HistoryRadius_layout v /\ (s = true -> nlen b = 34).
Proof.
  rewrite dec_HistoryRadius_spec. destruct (s && negb (nlen b =? 34)) eqn:Es; [discriminate|].
  destruct (nlen b <? 32) eqn:E1; [discriminate|]. destruct (nlen b <? 34) eqn:E2; [discriminate|].
  intros H; apply Ok_inj in H. subst v. unfold HistoryRadius_wf, HistoryRadius_layout. cbn [fst snd].
  assert (L2 : length (firstn 2 (skipn 32 b)) = 2%nat) by (rewrite firstn_length, skipn_length; unfold nlen in E2; lia).
  split; [split|split].
  - unfold nlen in *. rewrite firstn_length. lia.
  - pose proof (le_dec_lt (firstn 2 (skipn 32 b))) as B. rewrite L2 in B. exact B.
  - unfold u16_enc. rewrite le_enc_of_dec by exact L2.
    rewrite <- (firstn_skipn 32 b) at 1. rewrite firstn_app, firstn_firstn.
    rewrite firstn_length. replace (Nat.min 34 32) with 32%nat by reflexivity.
    replace (34 - Nat.min 32 (length b))%nat with 2%nat by (unfold nlen in E1; lia). reflexivity.
  - intros ->. cbn [andb] in Es. lia.
Qed.

Lemma HistoryRadius_codec_lax : codec_lax_ok enc_HistoryRadius (dec_HistoryRadius false) HistoryRadius_wf (fun _ => True).
Proof.
  split; [|split].
  - intros v Hw _. exists (HistoryRadius_layout v). split; [apply enc_HistoryRadius_layout|now apply dec_HistoryRadius_layout].
  - intros v _ H. exfalso. now apply H.
  - intros b v H. apply dec_HistoryRadius_inv in H. split; [apply H|exact I].
Qed.

Lemma HistoryRadius_codec_strict : codec_ok enc_HistoryRadius (dec_HistoryRadius true) HistoryRadius_wf (fun _ => True).
Proof.
  split; [|split; [|split]].
  - intros v Hw _. exists (HistoryRadius_layout v). split; [apply enc_HistoryRadius_layout|now apply dec_HistoryRadius_layout].
  - intros v _ H. exfalso. now apply H.
  - intros b v H. apply dec_HistoryRadius_inv in H. split; [apply H|exact I].
  - intros b v H. apply dec_HistoryRadius_inv in H as (_ & Hf & Hn). specialize (Hn eq_refl).
    rewrite firstn_all2 in Hf by (unfold nlen in Hn; lia). rewrite Hf. apply enc_HistoryRadius_layout.
Qed.


(* ================================================================== ping_ext: ErrorPayload (ztyp Container: uint16, ByteList[300]) *)
Lemma dec_ErrorPayload_spec data :
  dec_ErrorPayload data =
  if nlen data <? 2 then Err E_SCOPE
  else if nlen data <? 4 then Err E_SCOPE
  else if nlen data <? 6 then Err E_EOF
  else if negb (6 =? le_dec (firstn 4 (skipn 2 data))) then Err E_VAROFF
  else if L_ErrMessage <? nlen data - 6 then Err E_BYTESLEN
  else Ok (le_dec (firstn 2 data), skipn 6 data).
Proof.
  unfold dec_ErrorPayload, z_unmarshal, zd_ErrorPayload, z_container.
  cbn [zc_pass1]. change (z_fix (z_uint 2)) with 2. change (z_fix (z_bytelist L_ErrMessage)) with 0.
  change (2 =? 0) with false. change (0 =? 0) with true. cbn [negb].
  rewrite rd_sub_uint by lia.
  unfold rd_new, rd_scope. cbn [rd_max rd_i rd_inp].
  replace (nlen data - 0 <? 2) with (nlen data <? 2) by (f_equal; lia).
  destruct (nlen data <? 2) eqn:E1; [reflexivity|]. cbn [bind].
  rewrite rd_read_spec by lia. cbn [rd_max rd_i rd_inp].
  replace (nlen data <? 0 + 4) with (nlen data <? 4) by (f_equal; lia).
  destruct (nlen data <? 4) eqn:E2; [reflexivity|].
  rewrite nlen_skipn. replace (nlen data - 2 <? 4) with (nlen data <? 6) by lia.
  destruct (nlen data <? 6) eqn:E3; [reflexivity|]. cbn [bind].
  change (N.to_nat 2) with 2%nat. change (N.to_nat 4) with 4%nat.
  replace (0 + 2 + 4) with 6 by lia.
  destruct (6 =? le_dec (firstn 4 (skipn 2 data))) eqn:E4; cbn [negb]; [|reflexivity].
  assert (Ho : le_dec (firstn 4 (skipn 2 data)) = 6) by lia. rewrite Ho.
  cbn [filter]. change (z_fix (z_uint 2)) with 2. change (z_fix (z_bytelist L_ErrMessage)) with 0.
  change (2 =? 0) with false. change (0 =? 0) with true. cbv iota.
  cbn [zc_pass2].
  replace (nlen data - 0 <? 6) with false by lia.
  rewrite rd_sub_bytelist. unfold rd_scope. cbn [rd_max rd_i rd_inp].
  replace (nlen data - (0 + 4) <? nlen data - 0 - 6) with false by lia.
  replace (nlen data - 0 - 6) with (nlen data - 6) by lia.
  destruct (L_ErrMessage <? nlen data - 6) eqn:E5; [reflexivity|].
  rewrite skipn_add. change (4 + 2)%nat with 6%nat.
  replace (nlen (skipn 6 data) <? nlen data - 6) with false by (unfold nlen; rewrite skipn_length; lia).
  cbn [bind zc_merge andb].
  rewrite (firstn_all2 (skipn 6 data)) by (rewrite skipn_length; unfold nlen; lia).
  reflexivity.
Qed.

Definition ErrorPayload_wf (v : ErrorPayload) : Prop := fst v < two16.
Definition ErrorPayload_lim (v : ErrorPayload) : Prop := nlen (snd v) <= L_ErrMessage.
Definition ErrorPayload_layout (v : ErrorPayload) : bytes := u16_enc (fst v) ++ u32_enc 6 ++ snd v.

Lemma enc_ErrorPayload_layout v : enc_ErrorPayload v = Ok (ErrorPayload_layout v).
Proof.
  destruct v as [c m]. unfold enc_ErrorPayload, zs_container, ErrorPayload_layout. cbn [fst snd].
  unfold zs_fixedlen. cbn [fold_left s_fix]. change (2 =? 0) with false. change (0 =? 0) with true. cbn [negb].
  cbn [zs_pass1 s_fix s_bytes]. change (2 =? 0) with false. change (0 =? 0) with true. cbn [negb].
  replace (0 + 2 + 4) with 6 by reflexivity. unfold z_write_offset.
  change ((two32 <=? 6) || (two32 <=? 0) || (two32 <=? 6 + 0)) with false. cbv iota. cbn [bind].
  replace (6 + 0) with 6 by reflexivity.
  unfold zs_dyn. cbn [filter s_fix]. change (2 =? 0) with false. change (0 =? 0) with true. cbn [map concat s_bytes].
  now rewrite !app_nil_r, <- !app_assoc.
Qed.

Lemma dec_ErrorPayload_layout v : ErrorPayload_wf v -> ErrorPayload_lim v -> dec_ErrorPayload (ErrorPayload_layout v) = Ok v.
Proof.
  destruct v as [c m]. unfold ErrorPayload_wf, ErrorPayload_lim, ErrorPayload_layout. cbn [fst snd]. intros Hw Hl.
  rewrite dec_ErrorPayload_spec.
  assert (Hn : nlen (u16_enc c ++ u32_enc 6 ++ m) = 6 + nlen m) by (rewrite !nlen_app; unfold u16_enc, u32_enc; rewrite !nlen_le_enc; lia).
  rewrite Hn. replace (6 + nlen m <? 2) with false by lia. replace (6 + nlen m <? 4) with false by lia.
  replace (6 + nlen m <? 6) with false by lia.
  rewrite (skipn_app_exact (u16_enc c) _ 2) by (unfold u16_enc; apply le_enc_length).
  rewrite (firstn_app_exact (u32_enc 6) m 4) by (unfold u32_enc; apply le_enc_length).
  unfold u32_enc at 1. rewrite (le_dec_enc 4 6) by (vm_compute; reflexivity). change (6 =? 6) with true. cbn [negb].
  replace (6 + nlen m - 6) with (nlen m) by lia. replace (L_ErrMessage <? nlen m) with false by lia.
  rewrite (firstn_app_exact (u16_enc c) _ 2) by (unfold u16_enc; apply le_enc_length).
  unfold u16_enc at 1. rewrite le_dec_enc by exact Hw.
  replace (u16_enc c ++ u32_enc 6 ++ m) with ((u16_enc c ++ u32_enc 6) ++ m) by now rewrite <- app_assoc.
  rewrite (skipn_app_exact _ m 6) by (rewrite app_length; unfold u16_enc, u32_enc; rewrite !le_enc_length; reflexivity).
  reflexivity.
Qed.

Lemma dec_ErrorPayload_inv b v : dec_ErrorPayload b = Ok v -> b = ErrorPayload_layout v /\ ErrorPayload_wf v /\ ErrorPayload_lim v.
Proof.
  rewrite dec_ErrorPayload_spec.
  destruct (nlen b <? 2) eqn:E1; [discriminate|]. destruct (nlen b <? 4) eqn:E2; [discriminate|].
  destruct (nlen b <? 6) eqn:E3; [discriminate|].
  destruct (6 =? le_dec (firstn 4 (skipn 2 b))) eqn:E4; cbn [negb]; [|discriminate].
  destruct (L_ErrMessage <? nlen b - 6) eqn:E5; [discriminate|].
  intros H; apply Ok_inj in H. subst v. unfold ErrorPayload_layout, ErrorPayload_wf, ErrorPayload_lim. cbn [fst snd].
  assert (L2 : length (firstn 2 b) = 2%nat) by (rewrite firstn_length; unfold nlen in E3; lia).
  assert (L4 : length (firstn 4 (skipn 2 b)) = 4%nat) by (rewrite firstn_length, skipn_length; unfold nlen in E3; lia).
  split; [|split].
  - unfold u16_enc, u32_enc. rewrite le_enc_of_dec by exact L2.
    replace 6 with (le_dec (firstn 4 (skipn 2 b))) by lia. rewrite le_enc_of_dec by exact L4.
    replace (skipn 6 b) with (skipn 4 (skipn 2 b)) by (rewrite skipn_add; reflexivity).
    now rewrite firstn_skipn, firstn_skipn.
  - pose proof (le_dec_lt (firstn 2 b)) as B. rewrite L2 in B. exact B.
  - unfold nlen in *. rewrite skipn_length. lia.
Qed.

Lemma le_enc_inj n a b : a < 256 ^ N.of_nat n -> b < 256 ^ N.of_nat n -> le_enc n a = le_enc n b -> a = b.
Proof. intros Ha Hb H. rewrite <- (le_dec_enc n a Ha), <- (le_dec_enc n b Hb). now rewrite H. Qed.

Lemma ErrorPayload_codec : codec_ok enc_ErrorPayload dec_ErrorPayload ErrorPayload_wf ErrorPayload_lim.
Proof.
  apply (derive_codec_ok_nocheck _ _ ErrorPayload_layout).
  - intros v _ _. apply enc_ErrorPayload_layout.
  - intros v b _ H. rewrite enc_ErrorPayload_layout in H. now apply Ok_inj in H.
  - intros v _. rewrite enc_ErrorPayload_layout. discriminate.
  - intros [c m] [c' m'] Hw Hw' _ _ H. unfold ErrorPayload_layout, ErrorPayload_wf in *. cbn [fst snd] in *.
    apply app_inv_len in H as [H1 H2]; [|unfold u16_enc; now rewrite !le_enc_length].
    apply app_inv_len in H2 as [_ ->]; [|reflexivity].
    f_equal. exact (le_enc_inj 2 c c' Hw Hw' H1).
  - exact dec_ErrorPayload_layout.
  - exact dec_ErrorPayload_inv.
Qed.

(* ================================================================== ping_ext: CapabilitiesPayload (ztyp List[uint16, 400]) *)
Lemma dec_Capabilities_spec data :
  dec_Capabilities data =
  if nlen data =? 0 then Ok []
  else if negb (nlen data mod 2 =? 0) then Err E_ZLIST
  else if L_Capabilities <? nlen data / 2 then Err E_LISTBIG
  else Ok (u16s_dec (N.to_nat (nlen data / 2)) data).
Proof.
  unfold dec_Capabilities, z_unmarshal. cbn [z_de z_uintlist]. unfold rd_new, rd_scope. cbn [rd_max rd_i].
  replace (nlen data - 0) with (nlen data) by lia.
  destruct (nlen data =? 0) eqn:E0; [reflexivity|].
  change (2 =? 0) with false. cbv iota.
  destruct (nlen data mod 2 =? 0) eqn:Em; cbn [negb]; [|reflexivity].
  destruct (L_Capabilities <? nlen data / 2) eqn:El; [reflexivity|].
  rewrite zlist_loop_ok; cbn [rd_inp rd_i rd_max].
  - reflexivity.
  - unfold rd_scope. cbn [rd_max rd_i]. lia.
  - lia.
Qed.

Definition Capabilities_wf (v : Capabilities) : Prop := Forall (fun c => c < two16) v.
Definition Capabilities_lim (v : Capabilities) : Prop := nlen v <= L_Capabilities.

Lemma nlen_u16s_enc v : nlen (u16s_enc v) = 2 * nlen v.
Proof. unfold nlen. change (u16s_enc v) with (u16s_enc' v). rewrite u16s_enc'_length. lia. Qed.

Lemma dec_Capabilities_layout v : Capabilities_wf v -> Capabilities_lim v -> dec_Capabilities (u16s_enc v) = Ok v.
Proof.
  intros Hw Hl. unfold Capabilities_lim in Hl. rewrite dec_Capabilities_spec, nlen_u16s_enc.
  destruct v as [|c v]; [reflexivity|].
  replace (2 * nlen (c :: v) =? 0) with false by (rewrite nlen_cons; lia).
  replace (2 * nlen (c :: v) mod 2 =? 0) with true by lia. cbn [negb].
  replace (2 * nlen (c :: v) / 2) with (nlen (c :: v)) by lia.
  replace (L_Capabilities <? nlen (c :: v)) with false by lia.
  replace (N.to_nat (nlen (c :: v))) with (length (c :: v)) by (unfold nlen; lia).
  rewrite <- (app_nil_r (u16s_enc (c :: v))). change (u16s_enc (c :: v)) with (u16s_enc' (c :: v)).
  now rewrite (u16s_dec_enc (c :: v) [] Hw).
Qed.

Lemma dec_Capabilities_inv b v : dec_Capabilities b = Ok v -> b = u16s_enc v /\ Capabilities_wf v /\ Capabilities_lim v.
Proof.
  rewrite dec_Capabilities_spec. destruct (nlen b =? 0) eqn:E0.
  - intros H; apply Ok_inj in H. subst v. destruct b; [|rewrite nlen_cons in E0; lia].
    repeat split; [constructor | unfold Capabilities_lim, nlen; simpl; lia].
  - destruct (nlen b mod 2 =? 0) eqn:Em; cbn [negb]; [|discriminate].
    destruct (L_Capabilities <? nlen b / 2) eqn:El; [discriminate|].
    intros H; apply Ok_inj in H. subst v.
    assert (Hd : 2 * (nlen b / 2) = nlen b).
    { pose proof (N.div_mod (nlen b) 2 ltac:(lia)). assert (nlen b mod 2 = 0) by lia. lia. }
    destruct (u16s_enc_dec (N.to_nat (nlen b / 2)) b) as (H1 & H2 & H3); [unfold nlen in *; lia|].
    split; [|split].
    + change (u16s_enc (u16s_dec (N.to_nat (nlen b / 2)) b)) with (u16s_enc' (u16s_dec (N.to_nat (nlen b / 2)) b)).
      rewrite H1. symmetry. apply firstn_all2. unfold nlen in *. lia.
    + exact H2.
    + unfold Capabilities_lim. unfold nlen at 1. rewrite H3. lia.
Qed.

Lemma u16s_enc_inj v v' : Capabilities_wf v -> Capabilities_wf v' -> u16s_enc v = u16s_enc v' -> v = v'.
Proof.
  intros Hw Hw' H.
  assert (L : length v = length v').
  { apply (f_equal (@length byte)) in H. change (u16s_enc v) with (u16s_enc' v) in H. change (u16s_enc v') with (u16s_enc' v') in H.
    rewrite !u16s_enc'_length in H. lia. }
  rewrite <- (u16s_dec_enc v [] Hw), <- (u16s_dec_enc v' [] Hw'). rewrite L.
  change (u16s_enc' v) with (u16s_enc v). change (u16s_enc' v') with (u16s_enc v'). now rewrite H.
Qed.

Lemma Capabilities_codec : codec_ok enc_Capabilities dec_Capabilities Capabilities_wf Capabilities_lim.
Proof.
  apply (derive_codec_ok_nocheck _ _ u16s_enc).
  - intros v _ _. reflexivity.
  - intros v b _ H. unfold enc_Capabilities in H. now apply Ok_inj in H.
  - intros v _. discriminate.
  - intros v v' Hw Hw' _ _ H. now apply u16s_enc_inj.
  - exact dec_Capabilities_layout.
  - exact dec_Capabilities_inv.
Qed.

(* ================================================================== ping_ext: ClientInfoAndCapabilitiesPayload *)
(* ztyp Container: ByteList[200] (dynamic), Root (fixed), List[uint16, 400] (dynamic) *)
Definition ci_caps (data : bytes) (o1 : N) : res (list N) :=
  let count := nlen data - o1 in
  if count =? 0 then Ok []
  else if negb (count mod 2 =? 0) then Err E_ZLIST
  else if L_Capabilities <? count / 2 then Err E_LISTBIG
  else Ok (u16s_dec (N.to_nat (count / 2)) (skipn (N.to_nat o1) data)).

Lemma dec_ClientInfo_spec data :
  dec_ClientInfo data =
  let n := nlen data in
  let o0 := le_dec (firstn 4 data) in
  let o1 := le_dec (firstn 4 (skipn 36 data)) in
  if n <? 4 then Err E_SCOPE
  else if n <? 36 then Err E_SCOPE
  else if n <? 40 then Err E_EOF
  else if negb (40 =? o0) then Err E_VAROFF
  else if o1 <? 40 then Err E_OFFSET
  else if n - 8 <? o1 - 40 then Err E_SCOPE
  else if L_ClientInfo <? o1 - 40 then Err E_BYTESLEN
  else if n - 40 <? o1 - 40 then Err E_EOF
  else bind (ci_caps data o1) (fun caps =>
       Ok (firstn (N.to_nat (o1 - 40)) (skipn 40 data), firstn 32 (skipn 4 data), caps)).
Proof.
  cbv zeta. unfold dec_ClientInfo, z_unmarshal, zd_ClientInfo, z_container.
  cbn [zc_pass1]. change (z_fix (z_bytelist L_ClientInfo)) with 0. change (z_fix (z_bytesN 32)) with 32.
  change (z_fix (z_uintlist 2 L_Capabilities)) with 0.
  change (32 =? 0) with false. change (0 =? 0) with true. cbn [negb].
  rewrite rd_read_spec by lia. unfold rd_new, rd_scope. cbn [rd_max rd_i rd_inp].
  replace (nlen data <? 0 + 4) with (nlen data <? 4) by (f_equal; lia).
  destruct (nlen data <? 4) eqn:E1; [reflexivity|]. cbn [bind].
  rewrite rd_sub_bytesN by lia. unfold rd_scope. cbn [rd_max rd_i rd_inp].
  rewrite nlen_skipn.
  replace (nlen data - (0 + 4) <? 32) with (nlen data <? 36) by lia.
  replace (nlen data - 4 <? 32) with (nlen data <? 36) by lia.
  destruct (nlen data <? 36) eqn:E2; [reflexivity|]. cbn [bind].
  rewrite rd_read_spec by lia. cbn [rd_max rd_i rd_inp].
  replace (nlen data <? 0 + 4 + 4) with false by lia.
  change (N.to_nat 4) with 4%nat. change (N.to_nat 32) with 32%nat. rewrite skipn_add. change (32 + 4)%nat with 36%nat.
  rewrite nlen_skipn_nat. change (N.of_nat 36) with 36.
  replace (nlen data - 36 <? 4) with (nlen data <? 40) by lia.
  destruct (nlen data <? 40) eqn:E3; [reflexivity|]. cbn [bind].
  rewrite skipn_add. change (4 + 36)%nat with 40%nat.
  replace (0 + 4 + 32 + 4) with 40 by lia.
  destruct (40 =? le_dec (firstn 4 data)) eqn:E4; cbn [negb]; [|reflexivity].
  cbn [filter]. change (z_fix (z_bytelist L_ClientInfo)) with 0. change (z_fix (z_bytesN 32)) with 32.
  change (z_fix (z_uintlist 2 L_Capabilities)) with 0.
  change (32 =? 0) with false. change (0 =? 0) with true. cbv iota.
  assert (Ho0 : le_dec (firstn 4 data) = 40) by lia. rewrite Ho0.
  set (o1 := le_dec (firstn 4 (skipn 36 data))).
  cbn [zc_pass2].
  destruct (o1 <? 40) eqn:E5; [reflexivity|].
  rewrite rd_sub_bytelist. unfold rd_scope. cbn [rd_max rd_i rd_inp].
  replace (nlen data - (0 + 4 + 4)) with (nlen data - 8) by lia.
  destruct (nlen data - 8 <? o1 - 40) eqn:E6; [reflexivity|].
  destruct (L_ClientInfo <? o1 - 40) eqn:E7; [reflexivity|].
  rewrite nlen_skipn_nat. change (N.of_nat 40) with 40.
  destruct (nlen data - 40 <? o1 - 40) eqn:E8; [reflexivity|]. cbn [bind].
  replace (nlen data - 0 <? o1) with false by lia.
  assert (Hsk : skipn (N.to_nat (o1 - 40)) (skipn 40 data) = skipn (N.to_nat o1) data).
  { rewrite skipn_add. f_equal. lia. }
  rewrite Hsk.
  rewrite rd_sub_uintlist; unfold rd_scope; cbn [rd_max rd_i rd_inp].
  2:{ lia. }
  2:{ rewrite nlen_skipn. lia. }
  replace (nlen data - 0 - o1) with (nlen data - o1) by lia.
  unfold ci_caps.
  destruct (nlen data - o1 =? 0) eqn:E9.
  { cbn [bind zc_merge andb]. reflexivity. }
  destruct (negb ((nlen data - o1) mod 2 =? 0)) eqn:E10; [reflexivity|].
  destruct (L_Capabilities <? (nlen data - o1) / 2) eqn:E11; [reflexivity|].
  cbn [bind zc_merge andb]. reflexivity.
Qed.

Definition ClientInfo_wf (v : ClientInfo) : Prop :=
  let '(ci, radius, caps) := v in nlen radius = 32 /\ Forall (fun c => c < two16) caps /\ nlen ci + 40 < two32.
Definition ClientInfo_lim (v : ClientInfo) : Prop :=
  let '(ci, radius, caps) := v in nlen ci <= L_ClientInfo /\ nlen caps <= L_Capabilities.
Definition ClientInfo_layout (v : ClientInfo) : bytes :=
  let '(ci, radius, caps) := v in u32_enc 40 ++ radius ++ u32_enc (40 + nlen ci) ++ ci ++ u16s_enc caps.

Lemma enc_ClientInfo_layout v : ClientInfo_wf v -> enc_ClientInfo v = Ok (ClientInfo_layout v).
Proof.
  destruct v as [[ci radius] caps]. intros (Hr & Hc & Hs). unfold enc_ClientInfo, zs_container, ClientInfo_layout.
  unfold zs_fixedlen. cbn [fold_left s_fix]. change (32 =? 0) with false. change (0 =? 0) with true. cbn [negb].
  cbn [zs_pass1 s_fix s_bytes]. change (32 =? 0) with false. change (0 =? 0) with true. cbn [negb].
  replace (0 + 4 + 32 + 4) with 40 by reflexivity. unfold z_write_offset.
  change ((two32 <=? 40) || (two32 <=? 0) || (two32 <=? 40 + 0)) with false. cbv iota. cbn [bind].
  replace (40 + 0) with 40 by reflexivity.
  replace ((two32 <=? 40) || (two32 <=? nlen ci) || (two32 <=? 40 + nlen ci)) with false by lia. cbn [bind].
  unfold zs_dyn. cbn [filter s_fix]. change (32 =? 0) with false. change (0 =? 0) with true. cbn [map concat s_bytes].
  now rewrite !app_nil_r, <- !app_assoc.
Qed.

Lemma enc_ClientInfo_nopanic v : ClientInfo_wf v -> enc_ClientInfo v <> Panic.
Proof. intros H. rewrite enc_ClientInfo_layout by exact H. discriminate. Qed.

Lemma dec_ClientInfo_layout v : ClientInfo_wf v -> ClientInfo_lim v -> dec_ClientInfo (ClientInfo_layout v) = Ok v.
Proof.
  destruct v as [[ci radius] caps]. intros (Hr & Hc & Hs) (Hl1 & Hl2). unfold ClientInfo_layout.
  set (o1 := 40 + nlen ci). set (U := u16s_enc caps).
  set (L := u32_enc 40 ++ radius ++ u32_enc o1 ++ ci ++ U).
  assert (Lr : length radius = 32%nat) by (unfold nlen in Hr; lia).
  assert (L4 : forall x, length (u32_enc x) = 4%nat) by (intros; unfold u32_enc; apply le_enc_length).
  assert (Hn : nlen L = 40 + nlen ci + 2 * nlen caps).
  { unfold L, U. rewrite !nlen_app, nlen_u16s_enc. unfold u32_enc. rewrite !nlen_le_enc. lia. }
  assert (F4 : firstn 4 L = u32_enc 40) by (unfold L; apply firstn_app_exact; apply L4).
  assert (S36 : skipn 36 L = u32_enc o1 ++ ci ++ U).
  { unfold L. rewrite app_assoc. apply skipn_app_exact. rewrite app_length, L4, Lr. reflexivity. }
  assert (S40 : skipn 40 L = ci ++ U).
  { unfold L. rewrite (app_assoc radius), (app_assoc (u32_enc 40)). apply skipn_app_exact. rewrite !app_length, !L4, Lr. reflexivity. }
  assert (S4 : skipn 4 L = radius ++ u32_enc o1 ++ ci ++ U) by (unfold L; apply skipn_app_exact; apply L4).
  assert (So1 : skipn (N.to_nat o1) L = U).
  { unfold L. rewrite (app_assoc (u32_enc o1)), (app_assoc radius), (app_assoc (u32_enc 40)). apply skipn_app_exact.
    rewrite !app_length, !L4, Lr. unfold o1, nlen. lia. }
  rewrite dec_ClientInfo_spec. cbv zeta. rewrite Hn, F4, S36, S40, S4.
  rewrite (firstn_app_exact (u32_enc o1) _ 4 (L4 o1)).
  assert (D40 : le_dec (u32_enc 40) = 40) by (apply (le_dec_enc 4 40); vm_compute; reflexivity).
  assert (Do1 : le_dec (u32_enc o1) = o1).
  { apply (le_dec_enc 4 o1). unfold o1. unfold two32 in Hs. change (256 ^ N.of_nat 4) with 4294967296. lia. }
  rewrite D40, !Do1.
  replace (40 + nlen ci + 2 * nlen caps <? 4) with false by lia.
  replace (40 + nlen ci + 2 * nlen caps <? 36) with false by lia.
  replace (40 + nlen ci + 2 * nlen caps <? 40) with false by lia.
  change (40 =? 40) with true. cbn [negb].
  replace (o1 <? 40) with false by (unfold o1; lia).
  replace (o1 - 40) with (nlen ci) by (unfold o1; lia).
  replace (40 + nlen ci + 2 * nlen caps - 8 <? nlen ci) with false by lia.
  replace (L_ClientInfo <? nlen ci) with false by lia.
  replace (40 + nlen ci + 2 * nlen caps - 40 <? nlen ci) with false by lia.
  rewrite (firstn_app_exact ci U) by (unfold nlen; lia).
  rewrite (firstn_app_exact radius _ 32 Lr).
  unfold ci_caps. rewrite Hn, So1.
  replace (40 + nlen ci + 2 * nlen caps - o1) with (2 * nlen caps) by (unfold o1; lia).
  destruct caps as [|c caps]; [reflexivity|].
  replace (2 * nlen (c :: caps) =? 0) with false by (rewrite nlen_cons; lia).
  replace (2 * nlen (c :: caps) mod 2 =? 0) with true by lia. cbn [negb].
  replace (2 * nlen (c :: caps) / 2) with (nlen (c :: caps)) by lia.
  replace (L_Capabilities <? nlen (c :: caps)) with false by lia.
  replace (N.to_nat (nlen (c :: caps))) with (length (c :: caps)) by (unfold nlen; lia).
  unfold U. rewrite <- (app_nil_r (u16s_enc (c :: caps))). change (u16s_enc (c :: caps)) with (u16s_enc' (c :: caps)).
  rewrite (u16s_dec_enc (c :: caps) [] Hc). reflexivity.
Qed.

Lemma ci_caps_inv data o1 caps : o1 <= nlen data -> ci_caps data o1 = Ok caps ->
  skipn (N.to_nat o1) data = u16s_enc caps /\ Forall (fun c => c < two16) caps /\ nlen caps <= L_Capabilities.
Proof.
  intros Ho. unfold ci_caps. set (t := skipn (N.to_nat o1) data).
  assert (Ht : nlen t = nlen data - o1) by (unfold t; apply nlen_skipn).
  destruct (nlen data - o1 =? 0) eqn:E0.
  - intros H; apply Ok_inj in H. subst caps. destruct t; [|rewrite nlen_cons in Ht; lia].
    repeat split; [constructor | unfold nlen; simpl; lia].
  - destruct ((nlen data - o1) mod 2 =? 0) eqn:Em; cbn [negb]; [|discriminate].
    destruct (L_Capabilities <? (nlen data - o1) / 2) eqn:El; [discriminate|].
    intros H; apply Ok_inj in H. subst caps. fold t.
    assert (Hd : 2 * ((nlen data - o1) / 2) = nlen data - o1).
    { pose proof (N.div_mod (nlen data - o1) 2 ltac:(lia)). assert ((nlen data - o1) mod 2 = 0) by lia. lia. }
    destruct (u16s_enc_dec (N.to_nat ((nlen data - o1) / 2)) t) as (H1 & H2 & H3); [unfold nlen in *; lia|].
    split; [|split].
    + change (u16s_enc (u16s_dec (N.to_nat ((nlen data - o1) / 2)) t)) with (u16s_enc' (u16s_dec (N.to_nat ((nlen data - o1) / 2)) t)).
      rewrite H1. symmetry. apply firstn_all2. unfold nlen in *. lia.
    + exact H2.
    + unfold nlen at 1. rewrite H3. lia.
Qed.

Lemma dec_ClientInfo_inv b v : dec_ClientInfo b = Ok v -> b = ClientInfo_layout v /\ ClientInfo_wf v /\ ClientInfo_lim v.
Proof.
  rewrite dec_ClientInfo_spec. cbv zeta.
  set (o0 := le_dec (firstn 4 b)). set (o1 := le_dec (firstn 4 (skipn 36 b))).
  destruct (nlen b <? 4) eqn:E1; [discriminate|]. destruct (nlen b <? 36) eqn:E2; [discriminate|].
  destruct (nlen b <? 40) eqn:E3; [discriminate|].
  destruct (40 =? o0) eqn:E4; cbn [negb]; [|discriminate].
  destruct (o1 <? 40) eqn:E5; [discriminate|].
  destruct (nlen b - 8 <? o1 - 40) eqn:E6; [discriminate|].
  destruct (L_ClientInfo <? o1 - 40) eqn:E7; [discriminate|].
  destruct (nlen b - 40 <? o1 - 40) eqn:E8; [discriminate|].
  destruct (ci_caps b o1) as [caps| |] eqn:Ec; cbn [bind]; try discriminate.
  intros H; apply Ok_inj in H. subst v.
  apply ci_caps_inv in Ec as (Hu & Hcw & Hcl); [|lia].
  set (ci := firstn (N.to_nat (o1 - 40)) (skipn 40 b)). set (radius := firstn 32 (skipn 4 b)).
  assert (Lci : nlen ci = o1 - 40) by (unfold ci, nlen; rewrite firstn_length, skipn_length; unfold nlen in *; lia).
  assert (Lr : nlen radius = 32) by (unfold radius, nlen; rewrite firstn_length, skipn_length; unfold nlen in *; lia).
  unfold ClientInfo_layout, ClientInfo_wf, ClientInfo_lim.
  split; [|split].
  - assert (A4 : length (firstn 4 b) = 4%nat) by (rewrite firstn_length; unfold nlen in *; lia).
    assert (B4 : length (firstn 4 (skipn 36 b)) = 4%nat) by (rewrite firstn_length, skipn_length; unfold nlen in *; lia).
    replace (u32_enc 40) with (firstn 4 b).
    2:{ unfold u32_enc. replace 40 with o0 by lia. unfold o0. symmetry. now apply le_enc_of_dec. }
    replace (u32_enc (40 + nlen ci)) with (firstn 4 (skipn 36 b)).
    2:{ unfold u32_enc. replace (40 + nlen ci) with o1 by lia. unfold o1. symmetry. now apply le_enc_of_dec. }
    rewrite <- Hu. unfold ci, radius.
    replace (skipn (N.to_nat o1) b) with (skipn (N.to_nat (o1 - 40)) (skipn 40 b)) by (rewrite skipn_add; f_equal; lia).
    rewrite firstn_skipn.
    replace (skipn 40 b) with (skipn 4 (skipn 36 b)) by (rewrite skipn_add; reflexivity). rewrite firstn_skipn.
    replace (skipn 36 b) with (skipn 32 (skipn 4 b)) by (rewrite skipn_add; reflexivity). rewrite firstn_skipn.
    now rewrite firstn_skipn.
  - split; [exact Lr|]. split; [exact Hcw|]. unfold two32. unfold L_ClientInfo in E7. lia.
  - split; [lia|exact Hcl].
Qed.

Lemma ClientInfo_layout_inj v v' : ClientInfo_wf v -> ClientInfo_wf v' -> ClientInfo_layout v = ClientInfo_layout v' -> v = v'.
Proof.
  destruct v as [[ci r] caps], v' as [[ci' r'] caps']. intros (Hr & Hc & Hs) (Hr' & Hc' & Hs') H.
  unfold ClientInfo_layout in H.
  apply app_inv_len in H as [_ H]; [|reflexivity].
  apply app_inv_len in H as [-> H]; [|unfold nlen in *; lia].
  apply app_inv_len in H as [Ho H]; [|unfold u32_enc; now rewrite !le_enc_length].
  assert (Hlen : nlen ci = nlen ci').
  { apply (le_enc_inj 4) in Ho; unfold two32 in *; change (256 ^ N.of_nat 4) with 4294967296; lia. }
  apply app_inv_len in H as [-> H]; [|unfold nlen in *; lia].
  f_equal. now apply u16s_enc_inj.
Qed.

Lemma ClientInfo_codec : codec_ok enc_ClientInfo dec_ClientInfo ClientInfo_wf ClientInfo_lim.
Proof.
  apply (derive_codec_ok_nocheck _ _ ClientInfo_layout).
  - intros v Hw _. now apply enc_ClientInfo_layout.
  - intros v b Hw H. rewrite enc_ClientInfo_layout in H by exact Hw. now apply Ok_inj in H.
  - exact enc_ClientInfo_nopanic.
  - intros v v' Hw Hw' _ _ H. now apply ClientInfo_layout_inj.
  - exact dec_ClientInfo_layout.
  - exact dec_ClientInfo_inv.
Qed.

(* ================================================================== EphemeralHeaderPayload, PortalReceipts *)
(* dec_X rej strict : rej = the `size < 4` test the code had, strict = the zero-offset check (both repaired now) *)
Definition EphPayload_lim (v : list bytes) : Prop := dyn_lim L_EphPayloadCount L_EphHeader v.
Definition Receipts_lim (v : list bytes) : Prop := dyn_lim L_Receipts L_Receipt v.
(* PortalReceipts' tag limits (16384 x 128 MiB) exceed what 32-bit offsets can address: the round trip needs the
   encoding to fit (WriteOffset silently truncates to uint32 otherwise) *)
Definition fits_u32 (v : list bytes) : Prop := 4 * nlen v + total_len v < two32.

Lemma EphPayload_codec : codec_ok enc_EphPayload (dec_EphPayload false true) (fun _ => True) EphPayload_lim.
Proof.
  apply (derive_codec_ok _ _ dyn_layout); unfold enc_EphPayload, dec_EphPayload, EphPayload_lim; cbn [andb].
  - apply enc_dyn_in.
  - apply enc_dyn_out.
  - intros v _. apply dec_dyn_layout. vm_compute; reflexivity.
  - intros b v H. apply dec_dyn_inv in H. tauto.
Qed.

Lemma Receipts_codec :
  roundtrips enc_Receipts (dec_Receipts false true) fits_u32 Receipts_lim /\
  overlimit_rejected enc_Receipts (dec_Receipts false true) (fun _ => True) Receipts_lim /\
  decodes_within (dec_Receipts false true) (fun _ => True) Receipts_lim /\
  canonical (dec_Receipts false true) enc_Receipts.
Proof.
  unfold enc_Receipts, dec_Receipts, Receipts_lim; cbn [andb]. split; [|split; [|split]].
  - intros v Hf [H1 H2]. exists (dyn_layout v). split; [apply enc_dyn_in; now split|].
    rewrite (dec_dyn_list_layout true L_Receipts (item_bytes_max L_Receipt) (fun x => x) v);
      [now rewrite map_id | assumption | exact Hf | now apply item_Forall].
  - intros v _ Hl. destruct (enc_dyn_out _ _ _ Hl) as [e He]. rewrite He. split; [discriminate|]. intros b Hb; discriminate.
  - intros b v H. apply dec_dyn_inv in H. tauto.
  - intros b v H. apply dec_dyn_inv in H as [-> Hl]. now apply enc_dyn_in.
Qed.

(* ---- the code as found (rej = true, strict = false) *)
Lemma EphPayload_as_found_roundtrip_refuted : forall s,
  ~ roundtrips enc_EphPayload (dec_EphPayload true s) (fun _ => True) EphPayload_lim.
Proof.
  intros s H. destruct (H [] I (dyn_lim_nil _ _)) as (b & He & Hd).
  vm_compute in He. apply Ok_inj in He. subst b. vm_compute in Hd. discriminate.
Qed.
Lemma Receipts_as_found_roundtrip_refuted : forall s,
  ~ roundtrips enc_Receipts (dec_Receipts true s) fits_u32 Receipts_lim.
Proof.
  intros s H. destruct (H [] ltac:(vm_compute; reflexivity) (dyn_lim_nil _ _)) as (b & He & Hd).
  vm_compute in He. apply Ok_inj in He. subst b. vm_compute in Hd. discriminate.
Qed.
Lemma EphPayload_as_found_canonicity_refuted : ~ canonical (dec_EphPayload true false) enc_EphPayload.
Proof. intros H. specialize (H [x00;x00;x00;x00] [] eq_refl). vm_compute in H. discriminate. Qed.
Lemma Receipts_as_found_canonicity_refuted : ~ canonical (dec_Receipts true false) enc_Receipts.
Proof. intros H. specialize (H [x00;x00;x00;x00] [] eq_refl). vm_compute in H. discriminate. Qed.

(* ================================================================== totality: no decoder indexes out of range *)
Lemma slice_panic {A} (l : list A) lo hi : slice l lo hi = Panic -> (hi < lo \/ length l < hi)%nat.
Proof.
  unfold slice. destruct (Nat.leb lo hi) eqn:E1; destruct (Nat.leb hi (length l)) eqn:E2; cbn [andb]; try discriminate;
    intros _; try apply Nat.leb_gt in E1; try apply Nat.leb_gt in E2; lia.
Qed.
Lemma slice_len {A} (l s : list A) lo hi : slice l lo hi = Ok s -> length s = (hi - lo)%nat /\ (hi <= length l)%nat.
Proof. intros H. apply slice_inv in H as [H ->]. rewrite firstn_length, skipn_length. lia. Qed.
Lemma read_u64_panic s : read_u64 s = Panic -> (length s < 8)%nat.
Proof. unfold read_u64. destruct (length s <? 8)%nat eqn:E; [intros _; now apply Nat.ltb_lt|discriminate]. Qed.
Lemma read_u32_panic s : read_u32 s = Panic -> (length s < 4)%nat.
Proof. unfold read_u32. destruct (length s <? 4)%nat eqn:E; [intros _; now apply Nat.ltb_lt|discriminate]. Qed.
Lemma read_u16_panic s : read_u16 s = Panic -> (length s < 2)%nat.
Proof. unfold read_u16. destruct (length s <? 2)%nat eqn:E; [intros _; now apply Nat.ltb_lt|discriminate]. Qed.
Lemma read_u8_panic s : read_u8 s = Panic -> (length s < 1)%nat.
Proof. unfold read_u8. destruct s; [simpl; lia|discriminate]. Qed.
Lemma tail_from_panic buf o : tail_from buf o = Panic -> nlen buf < o.
Proof. intros H. destruct (N.ltb_spec (nlen buf) o) as [L|L]; [exact L|]. rewrite tail_from_ok in H by lia. discriminate. Qed.
Lemma tail_from_len buf o t : tail_from buf o = Ok t -> nlen t = nlen buf - o.
Proof.
  intros H. destruct (N.ltb_spec (nlen buf) o) as [L|L].
  - unfold tail_from in H. replace (nlen buf <? o) with true in H by lia. discriminate.
  - rewrite tail_from_ok in H by lia. apply Ok_inj in H. subst t. apply nlen_skipn.
Qed.
Lemma between_panic buf a b : between buf a b = Panic -> nlen buf < b \/ b < a.
Proof.
  intros H. destruct (N.ltb_spec (nlen buf) b) as [L|L]; [now left|]. destruct (N.ltb_spec b a) as [L2|L2]; [now right|].
  destruct (between_ok buf a b L2 L) as [s Hs]. congruence.
Qed.
Lemma read_offset_at_panic buf lo : read_offset_at buf lo = Panic -> (length buf < lo + 4)%nat.
Proof.
  unfold read_offset_at. destruct (slice buf lo (lo + 4)) as [s| |] eqn:E; cbn [bind]; try discriminate.
  - intros H. apply read_u32_panic in H. apply slice_len in E. lia.
  - intros _. apply slice_panic in E. lia.
Qed.
Lemma chunks_panic (n : nat) : forall k buf i, chunks k n buf i = Panic -> (length buf < (i + k) * n)%nat.
Proof.
  induction k as [|k IH]; intros buf i; cbn [chunks]; [discriminate|].
  destruct (slice buf (i * n) ((i + 1) * n)) as [c| |] eqn:Es; cbn [bind]; try discriminate.
  - destruct (chunks k n buf (S i)) as [r| |] eqn:Ec; cbn [bind]; try discriminate.
    intros _. apply IH in Ec. lia.
  - intros _. apply slice_panic in Es. nia.
Qed.
Lemma chunks_not_err (n : nat) : forall k buf i e, chunks k n buf i <> Err e.
Proof.
  induction k as [|k IH]; intros buf i e; cbn [chunks]; [discriminate|].
  destruct (slice buf (i * n) ((i + 1) * n)) as [c|e'|] eqn:Es; cbn [bind]; try discriminate.
  - destruct (chunks k n buf (S i)) as [r|e'|] eqn:Ec; cbn [bind]; try discriminate. intros H. now apply IH in Ec.
  - now apply slice_not_err in Es.
Qed.
Lemma divide_int2_panic a b mx : divide_int2 a b mx = Panic -> b = 0.
Proof.
  unfold divide_int2. destruct (b =? 0) eqn:E; [intros _; lia|].
  destruct (negb (a mod b =? 0)); [discriminate|]. destruct (mx <? a / b); discriminate.
Qed.
Lemma validate_bitlist_total buf lim : validate_bitlist buf lim <> Panic.
Proof.
  unfold validate_bitlist. destruct (nlen buf =? 0) eqn:E0; [discriminate|].
  destruct (N.shiftr lim 3 + 1 <? nlen buf); [discriminate|].
  unfold idx. destruct (nth_error buf (length buf - 1)) eqn:En.
  - cbn [bind]. destruct (b2n b =? 0); [discriminate|]. destruct (lim <? _); discriminate.
  - apply nth_error_None in En. unfold nlen in E0. lia.
Qed.
Lemma item_bytes_max_total mx b : item_bytes_max mx b <> Panic.
Proof. unfold item_bytes_max. destruct (mx <? nlen b); discriminate. Qed.
Lemma dec_bytes_max_total mx b : dec_bytes_max mx b <> Panic.
Proof. unfold dec_bytes_max. destruct (mx <? nlen b); discriminate. Qed.

Lemma ud_loop_total {A} (f : bytes -> res A) : (forall b, f b <> Panic) ->
  forall k src dst offset, ud_loop (S k) src dst offset f <> Panic.
Proof.
  intros Hf. induction k as [|k IH]; intros src dst offset.
  - cbn [ud_loop]. destruct (nlen src <? offset) eqn:E; [discriminate|].
    destruct (between src offset (nlen src)) as [x| |] eqn:Eb; cbn [bind]; try discriminate.
    + destruct (f x) eqn:Ef; cbn [bind]; try discriminate. now apply Hf in Ef.
    + apply between_panic in Eb. lia.
  - remember (S k) as k1 eqn:Hk1. cbn [ud_loop]. subst k1. cbv iota.
    destruct (length dst <? 4)%nat eqn:El; [discriminate|]. apply Nat.ltb_ge in El.
    destruct (read_u32 dst) as [endOffset| |] eqn:Er; cbn [bind]; try discriminate.
    2:{ apply read_u32_panic in Er. lia. }
    destruct (slice dst 4 (length dst)) as [dst'| |] eqn:Es; cbn [bind]; try discriminate.
    2:{ apply slice_panic in Es. lia. }
    destruct (endOffset <? offset) eqn:E1; [discriminate|]. destruct (nlen src <? endOffset) eqn:E2; [discriminate|].
    destruct (between src offset endOffset) as [x| |] eqn:Eb; cbn [bind]; try discriminate.
    2:{ apply between_panic in Eb. lia. }
    destruct (f x) eqn:Ef; cbn [bind]; try discriminate.
    2:{ now apply Hf in Ef. }
    destruct (ud_loop (S k) src dst' endOffset f) eqn:Eu; cbn [bind]; try discriminate. now apply IH in Eu.
Qed.

Lemma dec_dyn_list_total {A} strict buf mx (f : bytes -> res A) : (forall b, f b <> Panic) -> dec_dyn_list strict buf mx f <> Panic.
Proof.
  intros Hf. unfold dec_dyn_list.
  destruct (decode_dynamic_length buf mx) as [num| |] eqn:Ed; cbn [bind]; try discriminate.
  - apply decode_dynamic_length_inv in Ed as [[-> ->]|(Hl & Hr & _)].
    + cbn. rewrite andb_false_r. discriminate.
    + destruct (strict && (num =? 0) && negb (nlen buf =? 0)); [discriminate|].
      unfold unmarshal_dynamic. destruct (num =? 0) eqn:E0.
      * destruct (negb (nlen buf =? 0) && negb (nlen buf =? 4)); discriminate.
      * rewrite Hr. cbn [bind]. destruct (slice buf 4 (length buf)) as [dst| |] eqn:Es; cbn [bind]; try discriminate.
        -- destruct (N.to_nat num) as [|k] eqn:Ek; [lia|]. now apply ud_loop_total.
        -- apply slice_panic in Es. lia.
  - exfalso. unfold decode_dynamic_length in Ed. destruct buf as [|b0 buf']; [discriminate|].
    set (buf := b0 :: buf') in *. destruct (length buf <? 4)%nat eqn:E; [discriminate|]. apply Nat.ltb_ge in E.
    destruct (slice buf 0 4) as [s| |] eqn:Es; cbn [bind] in Ed.
    + destruct (read_u32 s) as [o| |] eqn:Er; cbn [bind] in Ed.
      * destruct (negb (o mod 4 =? 0)); [discriminate|]. destruct (mx <? o / 4); discriminate.
      * discriminate.
      * apply read_u32_panic in Er. apply slice_len in Es. lia.
    + discriminate.
    + apply slice_panic in Es. lia.
Qed.

Ltac np_facts H := first
  [ pose proof (slice_len _ _ _ _ H)
  | pose proof (tail_from_len _ _ _ H)
  | pose proof (divide_int2_inv _ _ _ _ H)
  | idtac ].
Ltac np_contra H := exfalso; first
  [ apply slice_panic in H | apply read_u64_panic in H | apply read_u32_panic in H | apply read_u16_panic in H
  | apply read_u8_panic in H | apply tail_from_panic in H | apply between_panic in H | apply read_offset_at_panic in H
  | apply chunks_panic in H | apply divide_int2_panic in H
  | (apply validate_bitlist_total in H; exact H) | (apply dec_bytes_max_total in H; exact H)
  | (apply dec_dyn_list_total in H; [exact H | apply item_bytes_max_total]) ];
  unfold nlen in *; lia.
Ltac np := cbv zeta; repeat match goal with
  | |- Ok _ <> Panic => discriminate
  | |- Err _ <> Panic => discriminate
  | |- (if ?c then _ else _) <> Panic => let E := fresh "E" in destruct c eqn:E
  | |- bind (bind ?r _) _ <> Panic =>
      let x := fresh "x" in let Hx := fresh "Hx" in destruct r as [x| |] eqn:Hx; cbn [bind]; [np_facts Hx | | np_contra Hx]
  | |- bind ?r _ <> Panic =>
      let x := fresh "x" in let Hx := fresh "Hx" in destruct r as [x| |] eqn:Hx; cbn [bind]; [np_facts Hx | | np_contra Hx]
  | |- ?r <> Panic => let Hx := fresh "Hx" in intro Hx; np_contra Hx
  end.

Lemma dec_Ping_total b : dec_Ping b <> Panic. Proof. unfold dec_Ping. np. Qed.
Lemma dec_FindNodes_total b : dec_FindNodes b <> Panic. Proof. unfold dec_FindNodes. np. Qed.
Lemma dec_FindContent_total b : dec_FindContent b <> Panic. Proof. unfold dec_FindContent. np. Qed.
Lemma dec_Offer_total s b : dec_Offer s b <> Panic. Proof. unfold dec_Offer. np. Qed.
Lemma dec_Nodes_total s b : dec_Nodes s b <> Panic. Proof. unfold dec_Nodes. np. Qed.
Lemma dec_ConnectionId_total b : dec_ConnectionId b <> Panic. Proof. unfold dec_ConnectionId. np. Qed.
Lemma dec_Content_total b : dec_Content b <> Panic. Proof. unfold dec_Content. np. Qed.
Lemma dec_Enrs_total s b : dec_Enrs s b <> Panic. Proof. unfold dec_Enrs. np. Qed.
Lemma dec_Accept_total b : dec_Accept b <> Panic. Proof. unfold dec_Accept. np. Qed.
Lemma dec_AcceptV1_total b : dec_AcceptV1 b <> Panic. Proof. unfold dec_AcceptV1. np. Qed.
Lemma dec_HashesAcc_total b : dec_HashesAcc b <> Panic. Proof. unfold dec_HashesAcc, dec_vec. np. Qed.
Lemma dec_Proof4_total c1 c2 b : dec_Proof4 c1 c2 b <> Panic. Proof. unfold dec_Proof4, dec_vec. np. Qed.
Lemma dec_HeaderWithProof_total b : dec_HeaderWithProof b <> Panic. Proof. unfold dec_HeaderWithProof. np. Qed.
Lemma dec_FindEphKey_total b : dec_FindEphKey b <> Panic. Proof. unfold dec_FindEphKey. np. Qed.
Lemma dec_EphPayload_total r s b : dec_EphPayload r s b <> Panic. Proof. unfold dec_EphPayload. np. Qed.
Lemma dec_OfferEphKey_total b : dec_OfferEphKey b <> Panic. Proof. unfold dec_OfferEphKey. np. Qed.
Lemma dec_OfferEphHeader_total b : dec_OfferEphHeader b <> Panic. Proof. unfold dec_OfferEphHeader. np. Qed.
Lemma dec_Receipts_total r s b : dec_Receipts r s b <> Panic. Proof. unfold dec_Receipts. np. Qed.
Lemma dec_HeaderRecord_total b : dec_HeaderRecord b <> Panic. Proof. unfold dec_HeaderRecord. np. Qed.

Lemma dec_BasicRadius_total s b : dec_BasicRadius s b <> Panic.
Proof. rewrite dec_BasicRadius_spec. np. Qed.
Lemma dec_HistoryRadius_total s b : dec_HistoryRadius s b <> Panic.
Proof. rewrite dec_HistoryRadius_spec. np. Qed.
Lemma dec_ErrorPayload_total b : dec_ErrorPayload b <> Panic.
Proof. rewrite dec_ErrorPayload_spec. np. Qed.
Lemma dec_Capabilities_total b : dec_Capabilities b <> Panic.
Proof. rewrite dec_Capabilities_spec. np. Qed.
Lemma dec_ClientInfo_total b : dec_ClientInfo b <> Panic.
Proof.
  rewrite dec_ClientInfo_spec. cbv zeta.
  repeat match goal with |- (if ?c then _ else _) <> Panic => destruct c; [discriminate|] end.
  unfold ci_caps. destruct (nlen b - _ =? 0); [discriminate|].
  destruct (negb _); [discriminate|]. destruct (L_Capabilities <? _); discriminate.
Qed.

Lemma dec_LcUpdateKey_total b : dec_LcUpdateKey b <> Panic. Proof. unfold dec_LcUpdateKey. np. Qed.
Lemma dec_LcBootstrapKey_total b : dec_LcBootstrapKey b <> Panic. Proof. unfold dec_LcBootstrapKey. np. Qed.
Lemma dec_LcSlotKey_total b : dec_LcSlotKey b <> Panic. Proof. unfold dec_LcSlotKey. np. Qed.


Lemma split_chunks_total n : forall k buf, (k * n <= length buf)%nat -> split_chunks k n buf <> Panic.
Proof.
  induction k as [|k IH]; intros buf H; cbn [split_chunks]; [discriminate|].
  replace (length (firstn n buf) <? n)%nat with false by (symmetry; apply Nat.ltb_ge; rewrite firstn_length; lia).
  destruct (split_chunks k n (skipn n buf)) eqn:E; cbn [bind]; try discriminate.
  apply IH in E; [destruct E|]. rewrite skipn_length. lia.
Qed.
Lemma dec_BodyLegacy_total s b : dec_BodyLegacy s b <> Panic. Proof. unfold dec_BodyLegacy. np. Qed.
Lemma dec_BodyShanghai_total s b : dec_BodyShanghai s b <> Panic. Proof. unfold dec_BodyShanghai. np. Qed.
Lemma dec_EpochAcc_total b : dec_EpochAcc b <> Panic.
Proof.
  unfold dec_EpochAcc. destruct (nlen b =? 524288) eqn:E; cbn [negb]; [|discriminate].
  apply split_chunks_total. unfold nlen in E. lia.
Qed.

Lemma dec_SSZProof_total b : dec_SSZProof b <> Panic.
Proof.
  unfold dec_SSZProof. np.
  match goal with Hd : divide_int2 _ _ _ = Ok ?num |- _ => apply divide_int2_inv in Hd as (_ & Hd & _) end.
  match goal with |- bind ?r _ <> Panic => destruct r eqn:Es; cbn [bind]; try discriminate end.
  apply split_chunks_total in Es; [destruct Es|]. unfold nlen in *. lia.
Qed.
Lemma dec_MasterAcc_total b : dec_MasterAcc b <> Panic.
Proof.
  unfold dec_MasterAcc. np.
  match goal with Hd : divide_int2 _ _ _ = Ok ?num |- _ => apply divide_int2_inv in Hd as (_ & Hd & _) end.
  apply split_chunks_total. unfold nlen in *. lia.
Qed.

Lemma rmap_total {A B} (f : A -> B) (r : res A) : r <> Panic -> rmap f r <> Panic.
Proof. unfold rmap. destruct r; cbn [bind]; [discriminate|discriminate|auto]. Qed.

(* every modelled decoder, in every variant (as found / repaired), never panics *)
Lemma dec_any_total zs fs rej t b : dec_any zs fs rej t b <> Panic.
Proof.
  destruct t; cbn [dec_any]; apply rmap_total;
    first [ apply dec_Ping_total | apply dec_FindNodes_total | apply dec_FindContent_total | apply dec_Offer_total
          | apply dec_Nodes_total | apply dec_ConnectionId_total | apply dec_Content_total | apply dec_Enrs_total
          | apply dec_Accept_total | apply dec_AcceptV1_total | apply dec_ClientInfo_total | apply dec_BasicRadius_total
          | apply dec_HistoryRadius_total | apply dec_ErrorPayload_total | apply dec_Capabilities_total
          | apply dec_HashesAcc_total | apply dec_Proof4_total | apply dec_HeaderWithProof_total | apply dec_FindEphKey_total
          | apply dec_EphPayload_total | apply dec_OfferEphKey_total | apply dec_OfferEphHeader_total
          | apply dec_Receipts_total | apply dec_HeaderRecord_total
          | apply dec_LcUpdateKey_total | apply dec_LcBootstrapKey_total | apply dec_LcSlotKey_total
          | apply dec_BodyLegacy_total | apply dec_BodyShanghai_total | apply dec_EpochAcc_total
          | apply dec_SSZProof_total | apply dec_MasterAcc_total ].
Qed.

Lemma portalwire_decoders_total : forall s b,
  dec_Ping b <> Panic /\ dec_Pong b <> Panic /\ dec_FindNodes b <> Panic /\ dec_FindContent b <> Panic /\
  dec_Offer s b <> Panic /\ dec_Nodes s b <> Panic /\ dec_ConnectionId b <> Panic /\ dec_Content b <> Panic /\
  dec_Enrs s b <> Panic /\ dec_Accept b <> Panic /\ dec_AcceptV1 b <> Panic /\
  dec_ClientInfo b <> Panic /\ dec_BasicRadius s b <> Panic /\ dec_HistoryRadius s b <> Panic /\
  dec_ErrorPayload b <> Panic /\ dec_Capabilities b <> Panic.
Proof.
  intros s b. repeat split;
    first [ apply dec_Ping_total | apply dec_FindNodes_total | apply dec_FindContent_total | apply dec_Offer_total
          | apply dec_Nodes_total | apply dec_ConnectionId_total | apply dec_Content_total | apply dec_Enrs_total
          | apply dec_Accept_total | apply dec_AcceptV1_total | apply dec_ClientInfo_total | apply dec_BasicRadius_total
          | apply dec_HistoryRadius_total | apply dec_ErrorPayload_total | apply dec_Capabilities_total ].
Qed.

(* ================================================================== history network containers *)
(* deriving "over-limit values are refused" from "what the encoder accepts is within limits" *)
Lemma enc_out_from {A} (enc : A -> res bytes) (lim : A -> Prop) :
  (forall v b, enc v = Ok b -> lim v) -> (forall v, enc v <> Panic) -> forall v, ~ lim v -> exists e, enc v = Err e.
Proof.
  intros H1 H2 v Hl. destruct (enc v) as [b|e|] eqn:E; [exfalso; apply Hl; now apply (H1 v b) | now exists e | now apply H2 in E].
Qed.

(* ---- a byte string of exactly n bytes as the whole message: OfferEphemeralHeaderKey (32) *)
Definition OfferEphKey_lim (v : bytes) : Prop := nlen v = 32.
Lemma OfferEphKey_codec : codec_ok enc_OfferEphKey dec_OfferEphKey (fun _ => True) OfferEphKey_lim.
Proof.
  apply (derive_codec_ok _ _ (fun v => v)); unfold enc_OfferEphKey, dec_OfferEphKey, enc_bytes_exact, OfferEphKey_lim.
  - intros v H. replace (nlen v =? 32) with true by lia. reflexivity.
  - intros v H. replace (nlen v =? 32) with false by lia. eexists; reflexivity.
  - intros v _ H. replace (nlen v =? 32) with true by lia. cbn [negb].
    replace 32%nat with (length v) by (unfold nlen in H; lia). apply slice_full.
  - intros b v. destruct (nlen b =? 32) eqn:E; cbn [negb]; [|discriminate]. intros H.
    assert (L : length b = 32%nat) by (unfold nlen in E; lia). rewrite <- L, slice_full in H. apply Ok_inj in H; subst.
    repeat split; lia.
Qed.

(* ---- OfferEphemeralHeader: the same code as FindContent (offset 4, byte list of at most 2048) *)
Definition OfferEphHeader_lim (v : bytes) : Prop := nlen v <= L_EphHeader.
Lemma OfferEphHeader_codec : codec_ok enc_OfferEphHeader dec_OfferEphHeader (fun _ => True) OfferEphHeader_lim.
Proof. exact FindContent_codec. Qed.

(* ---- HeaderRecord: BlockHash [32] ++ TotalDifficulty [32] *)
Definition HeaderRecord_lim (v : bytes * bytes) : Prop := nlen (fst v) = 32 /\ nlen (snd v) = 32.
Lemma HeaderRecord_codec : codec_ok enc_HeaderRecord dec_HeaderRecord (fun _ => True) HeaderRecord_lim.
Proof.
  apply (derive_codec_ok _ _ (fun v => fst v ++ snd v)); unfold HeaderRecord_lim.
  - intros [h t] [H1 H2]. cbn [fst snd] in *. unfold enc_HeaderRecord, enc_bytes_exact.
    replace (nlen h =? 32) with true by lia. replace (nlen t =? 32) with true by lia. reflexivity.
  - apply enc_out_from.
    + intros [h t] b. cbn [fst snd]. unfold enc_HeaderRecord, enc_bytes_exact.
      destruct (nlen h =? 32) eqn:E1; cbn [negb bind]; [|discriminate].
      destruct (nlen t =? 32) eqn:E2; cbn [negb bind]; [|discriminate]. intros _. lia.
    + intros [h t]. unfold enc_HeaderRecord, enc_bytes_exact.
      destruct (nlen h =? 32); cbn [negb bind]; [|discriminate]. destruct (nlen t =? 32); cbn [negb bind]; discriminate.
  - intros [h t] _ [H1 H2]. cbn [fst snd] in *. unfold dec_HeaderRecord. rewrite nlen_app.
    replace (nlen h + nlen t =? 64) with true by lia. cbn [negb].
    rewrite slice_app0 by (unfold nlen in H1; lia). cbn [bind].
    rewrite <- (app_nil_r t) at 1. rewrite slice_app by (unfold nlen in *; lia). reflexivity.
  - intros b [h t]. unfold dec_HeaderRecord. destruct (nlen b =? 64) eqn:E; cbn [negb]; [|discriminate].
    destruct (slice b 0 32) as [x| |] eqn:E1; cbn [bind]; try discriminate.
    destruct (slice b 32 64) as [y| |] eqn:E2; cbn [bind]; try discriminate.
    intros H; apply Ok_inj in H. injection H as -> ->. cbn [fst snd].
    apply slice_inv in E1 as [_ ->]. apply slice_inv in E2 as [_ ->]. simpl skipn at 1.
    split; [|split; [exact I|split]].
    + replace (64 - 32)%nat with 32%nat by reflexivity. rewrite (firstn_all2 (skipn 32 b)) by (rewrite skipn_length; unfold nlen in E; lia).
      change (32 - 0)%nat with 32%nat. now rewrite firstn_skipn.
    + unfold nlen in *. rewrite firstn_length, skipn_length. lia.
    + unfold nlen in *. rewrite firstn_length, skipn_length. lia.
Qed.

(* ---- FindContentEphemeralHeadersKey: BlockHash [32] ++ AncestorCount uint8 *)
Definition FindEphKey_wf (v : bytes * N) : Prop := snd v < two8.
Definition FindEphKey_lim (v : bytes * N) : Prop := nlen (fst v) = 32.
Lemma FindEphKey_codec : codec_ok enc_FindEphKey dec_FindEphKey FindEphKey_wf FindEphKey_lim.
Proof.
  apply (derive_codec_ok _ _ (fun v => fst v ++ u8_enc (snd v))); unfold FindEphKey_lim, FindEphKey_wf.
  - intros [h n] H. cbn [fst snd] in *. unfold enc_FindEphKey, enc_bytes_exact. replace (nlen h =? 32) with true by lia. reflexivity.
  - intros [h n] H. cbn [fst snd] in *. unfold enc_FindEphKey, enc_bytes_exact. replace (nlen h =? 32) with false by lia. eexists; reflexivity.
  - intros [h n] Hw H. cbn [fst snd] in *. unfold dec_FindEphKey. rewrite nlen_app. unfold u8_enc at 1. rewrite nlen_le_enc.
    replace (nlen h + N.of_nat 1 =? 33) with true by lia. cbn [negb].
    rewrite slice_app0 by (unfold nlen in H; lia). cbn [bind].
    rewrite <- (app_nil_r (u8_enc n)). rewrite slice_app by (unfold nlen in H; unfold u8_enc; rewrite ?le_enc_length; lia).
    cbn [bind]. rewrite read_u8_exact by exact Hw. reflexivity.
  - intros b [h n]. unfold dec_FindEphKey. destruct (nlen b =? 33) eqn:E; cbn [negb]; [|discriminate].
    destruct (slice b 0 32) as [x| |] eqn:E1; cbn [bind]; try discriminate.
    destruct (slice b 32 33) as [y| |] eqn:E2; cbn [bind]; try discriminate.
    destruct (read_u8 y) as [m| |] eqn:E3; cbn [bind]; try discriminate.
    intros H; apply Ok_inj in H. injection H as -> ->. cbn [fst snd].
    apply slice_inv in E1 as [_ ->]. apply slice_inv in E2 as [_ ->]. simpl skipn at 1.
    change (32 - 0)%nat with 32%nat in *. change (33 - 32)%nat with 1%nat in *.
    destruct (skipn 32 b) as [|c [|? ?]] eqn:Es.
    + apply (f_equal (@length byte)) in Es. rewrite skipn_length in Es. unfold nlen in E. simpl in Es. lia.
    + change (firstn 1 [c]) with [c] in *. cbn [read_u8] in E3. apply Ok_inj in E3. subst n. cbn [skipn].
      split; [|split].
      * unfold u8_enc. cbn [le_enc]. rewrite N.mod_small by (pose proof (b2n_lt c); lia). rewrite n2b_b2n.
        rewrite <- Es. now rewrite firstn_skipn.
      * pose proof (b2n_lt c). unfold two8. lia.
      * unfold nlen in *. rewrite firstn_length. cbn [skipn]. lia.
    + apply (f_equal (@length byte)) in Es. rewrite skipn_length in Es. unfold nlen in E. simpl in Es. lia.
Qed.

(* ---- fixed-size vectors of 32-byte items *)
Definition vec_lim (cnt : nat) (l : list bytes) : Prop := length l = cnt /\ Forall (fun c => length c = 32%nat) l.

Lemma vec_items_in l : Forall (fun c => length c = 32%nat) l -> vec_items 32 l = Ok (concat l).
Proof.
  induction 1 as [|c l Hc _ IH]; [reflexivity|]. cbn [vec_items concat].
  replace (nlen c =? 32) with true by (unfold nlen; lia). cbn [negb]. rewrite IH. reflexivity.
Qed.
Lemma vec_items_inv l : forall b, vec_items 32 l = Ok b -> b = concat l /\ Forall (fun c => length c = 32%nat) l.
Proof.
  induction l as [|c l IH]; intros b; cbn [vec_items concat].
  - intros H; apply Ok_inj in H. subst. split; constructor.
  - destruct (nlen c =? 32) eqn:E; cbn [negb]; [|discriminate].
    destruct (vec_items 32 l) as [t| |] eqn:Et; cbn [bind]; try discriminate.
    intros H; apply Ok_inj in H. subst b. destruct (IH t eq_refl) as [-> Hf]. split; [reflexivity|].
    constructor; [unfold nlen in E; lia|exact Hf].
Qed.
Lemma vec_items_total l : vec_items 32 l <> Panic.
Proof.
  induction l as [|c l IH]; cbn [vec_items]; [discriminate|]. destruct (negb (nlen c =? 32)); [discriminate|].
  destruct (vec_items 32 l); cbn [bind]; try discriminate. exact IH.
Qed.
Lemma enc_vector_in cnt l : vec_lim cnt l -> enc_vector (N.of_nat cnt) 32 l = Ok (concat l).
Proof. intros [H1 H2]. unfold enc_vector. replace (nlen l =? N.of_nat cnt) with true by (unfold nlen; lia). cbn [negb]. now apply vec_items_in. Qed.
Lemma enc_vector_inv cnt l b : enc_vector (N.of_nat cnt) 32 l = Ok b -> b = concat l /\ vec_lim cnt l.
Proof.
  unfold enc_vector. destruct (nlen l =? N.of_nat cnt) eqn:E; cbn [negb]; [|discriminate].
  intros H. apply vec_items_inv in H as [-> Hf]. split; [reflexivity|]. split; [unfold nlen in E; lia|exact Hf].
Qed.
Lemma enc_vector_total cnt l : enc_vector cnt 32 l <> Panic.
Proof. unfold enc_vector. destruct (negb (nlen l =? cnt)); [discriminate|apply vec_items_total]. Qed.

Lemma dec_vec_layout cnt l pre r lo hi :
  vec_lim cnt l -> length pre = lo -> hi = (lo + cnt * 32)%nat -> dec_vec (pre ++ concat l ++ r) lo hi cnt = Ok l.
Proof.
  intros [H1 H2] Hp ->. unfold dec_vec.
  rewrite slice_app by (rewrite ?(concat_length_const 32 l H2); lia). cbn [bind].
  rewrite <- H1. rewrite <- (app_nil_r (concat l)). apply (chunks_layout 32 l H2 [] [] 0%nat). reflexivity.
Qed.
Lemma dec_vec_inv b lo hi cnt cs :
  dec_vec b lo hi cnt = Ok cs -> hi = (lo + cnt * 32)%nat ->
  vec_lim cnt cs /\ concat cs = firstn (cnt * 32) (skipn lo b) /\ (hi <= length b)%nat.
Proof.
  unfold dec_vec. intros H ->. destruct (slice b lo (lo + cnt * 32)) as [s| |] eqn:Es; cbn [bind] in H; try discriminate.
  apply slice_inv in Es as [Hr ->]. apply chunks_inv in H as (Hl & Hf & Hc). simpl skipn in Hc.
  replace (lo + cnt * 32 - lo)%nat with (cnt * 32)%nat in Hc by lia. rewrite firstn_firstn, Nat.min_id in Hc.
  split; [split; assumption|]. split; [exact Hc|lia].
Qed.

(* ---- BlockProofHistoricalHashesAccumulator: Proof [15][32] *)
Lemma HashesAcc_codec : codec_ok enc_HashesAcc dec_HashesAcc (fun _ => True) (vec_lim 15).
Proof.
  apply (derive_codec_ok _ _ (@concat byte)).
  - intros v H. apply (enc_vector_in 15 v H).
  - apply enc_out_from; [|intros v; apply enc_vector_total].
    intros v b H. apply (enc_vector_inv 15) in H. tauto.
  - intros v _ H. unfold dec_HashesAcc. destruct H as [H1 H2].
    pose proof (concat_length_const 32 v H2) as Hc.
    replace (nlen (concat v) =? 480) with true by (unfold nlen; lia). cbn [negb].
    rewrite <- (app_nil_r (concat v)). apply (dec_vec_layout 15 v [] [] 0%nat 480%nat); [split; assumption|reflexivity|reflexivity].
  - intros b v. unfold dec_HashesAcc. destruct (nlen b =? 480) eqn:E; cbn [negb]; [|discriminate].
    intros H. apply dec_vec_inv in H as (Hl & Hc & _); [|reflexivity].
    simpl skipn in Hc. rewrite firstn_all2 in Hc by (unfold nlen in E; lia). auto.
Qed.

(* ---- BlockProofHistoricalRoots (14, 11) / SummariesCapella (13, 11) / SummariesDeneb (13, 12) *)
Definition Proof4_wf (v : Proof4) : Prop := let '(p1, root, p2, slot) := v in slot < two64.
Definition Proof4_lim (c1 c2 : nat) (v : Proof4) : Prop :=
  let '(p1, root, p2, slot) := v in vec_lim c1 p1 /\ nlen root = 32 /\ vec_lim c2 p2.
Definition Proof4_layout (v : Proof4) : bytes :=
  let '(p1, root, p2, slot) := v in concat p1 ++ root ++ concat p2 ++ u64_enc slot.

Lemma enc_Proof4_in c1 c2 v : Proof4_lim c1 c2 v -> enc_Proof4 (N.of_nat c1) (N.of_nat c2) v = Ok (Proof4_layout v).
Proof.
  destruct v as [[[p1 root] p2] slot]. intros (H1 & H2 & H3). unfold enc_Proof4, Proof4_layout.
  rewrite (enc_vector_in c1 p1 H1). cbn [bind]. unfold enc_bytes_exact. replace (nlen root =? 32) with true by lia. cbn [negb bind].
  rewrite (enc_vector_in c2 p2 H3). reflexivity.
Qed.
Lemma enc_Proof4_inv c1 c2 v b : enc_Proof4 (N.of_nat c1) (N.of_nat c2) v = Ok b -> Proof4_lim c1 c2 v.
Proof.
  destruct v as [[[p1 root] p2] slot]. unfold enc_Proof4, Proof4_lim.
  destruct (enc_vector (N.of_nat c1) 32 p1) as [a| |] eqn:E1; cbn [bind]; try discriminate.
  unfold enc_bytes_exact. destruct (nlen root =? 32) eqn:E2; cbn [negb bind]; [|discriminate].
  destruct (enc_vector (N.of_nat c2) 32 p2) as [c| |] eqn:E3; cbn [bind]; try discriminate. intros _.
  apply enc_vector_inv in E1 as [_ E1]. apply enc_vector_inv in E3 as [_ E3]. repeat split; try apply E1; try apply E3. lia.
Qed.
Lemma enc_Proof4_total c1 c2 v : enc_Proof4 c1 c2 v <> Panic.
Proof.
  destruct v as [[[p1 root] p2] slot]. unfold enc_Proof4.
  destruct (enc_vector c1 32 p1) eqn:E1; cbn [bind]; try discriminate; [|now apply enc_vector_total in E1].
  unfold enc_bytes_exact. destruct (negb (nlen root =? 32)); cbn [bind]; [discriminate|].
  destruct (enc_vector c2 32 p2) eqn:E3; cbn [bind]; try discriminate. now apply enc_vector_total in E3.
Qed.

Lemma dec_Proof4_layout c1 c2 v : Proof4_wf v -> Proof4_lim c1 c2 v -> dec_Proof4 c1 c2 (Proof4_layout v) = Ok v.
Proof.
  destruct v as [[[p1 root] p2] slot]. intros Hw (H1 & H2 & H3). unfold Proof4_wf in Hw. unfold dec_Proof4, Proof4_layout. cbv zeta.
  pose proof (concat_length_const 32 p1 (proj2 H1)) as L1. pose proof (concat_length_const 32 p2 (proj2 H3)) as L3.
  destruct H1 as [N1 F1]. destruct H3 as [N3 F3]. rewrite N1 in L1. rewrite N3 in L3.
  assert (Lr : length root = 32%nat) by (unfold nlen in H2; lia).
  assert (L8 : length (u64_enc slot) = 8%nat) by (unfold u64_enc; apply le_enc_length).
  assert (Hn : nlen (concat p1 ++ root ++ concat p2 ++ u64_enc slot) = N.of_nat (c1 * 32 + 32 + c2 * 32 + 8)).
  { unfold nlen. rewrite !app_length, L1, L3, Lr, L8. lia. }
  rewrite Hn. rewrite N.eqb_refl. cbn [negb].
  rewrite <- (app_nil_l (concat p1 ++ root ++ concat p2 ++ u64_enc slot)) at 1.
  rewrite (dec_vec_layout c1 p1 [] _ 0%nat (c1 * 32)%nat); [|split; assumption|reflexivity|reflexivity]. cbn [bind].
  rewrite (slice_app (concat p1) root _ (c1 * 32)%nat) by lia. cbn [bind].
  replace (concat p1 ++ root ++ concat p2 ++ u64_enc slot) with ((concat p1 ++ root) ++ concat p2 ++ u64_enc slot) at 1 by now rewrite <- app_assoc.
  rewrite (dec_vec_layout c2 p2 (concat p1 ++ root) _ (c1 * 32 + 32)%nat); [|split; assumption|rewrite app_length; lia|reflexivity]. cbn [bind].
  replace (concat p1 ++ root ++ concat p2 ++ u64_enc slot) with ((concat p1 ++ root ++ concat p2) ++ u64_enc slot ++ []) by (rewrite app_nil_r, <- !app_assoc; reflexivity).
  rewrite slice_app by (rewrite ?app_length; lia). cbn [bind].
  rewrite read_u64_exact by exact Hw. reflexivity.
Qed.

Lemma dec_Proof4_inv c1 c2 b v : dec_Proof4 c1 c2 b = Ok v -> b = Proof4_layout v /\ Proof4_wf v /\ Proof4_lim c1 c2 v.
Proof.
  unfold dec_Proof4. cbv zeta.
  destruct (nlen b =? N.of_nat (c1 * 32 + 32 + c2 * 32 + 8)) eqn:E; cbn [negb]; [|discriminate].
  destruct (dec_vec b 0 (c1 * 32) c1) as [p1| |] eqn:E1; cbn [bind]; try discriminate.
  destruct (slice b (c1 * 32) (c1 * 32 + 32)) as [root| |] eqn:E2; cbn [bind]; try discriminate.
  destruct (dec_vec b (c1 * 32 + 32) (c1 * 32 + 32 + c2 * 32) c2) as [p2| |] eqn:E3; cbn [bind]; try discriminate.
  destruct (slice b (c1 * 32 + 32 + c2 * 32) (c1 * 32 + 32 + c2 * 32 + 8)) as [s| |] eqn:E4; cbn [bind]; try discriminate.
  destruct (read_u64 s) as [slot| |] eqn:E5; cbn [bind]; try discriminate.
  intros H; apply Ok_inj in H. subst v.
  apply dec_vec_inv in E1 as (V1 & C1 & _); [|reflexivity]. apply dec_vec_inv in E3 as (V3 & C3 & _); [|reflexivity].
  apply slice_inv in E2 as [_ R]. apply slice_inv in E4 as [_ S].
  replace (c1 * 32 + 32 - c1 * 32)%nat with 32%nat in R by lia.
  replace (c1 * 32 + 32 + c2 * 32 + 8 - (c1 * 32 + 32 + c2 * 32))%nat with 8%nat in S by lia.
  assert (Lb : length b = (c1 * 32 + 32 + c2 * 32 + 8)%nat) by (unfold nlen in E; lia).
  assert (Ls : length s = 8%nat) by (rewrite S, firstn_length, skipn_length; lia).
  unfold read_u64 in E5. rewrite Ls in E5. cbn [Nat.ltb Nat.leb] in E5. apply Ok_inj in E5.
  rewrite (firstn_all2 s) in E5 by lia.
  unfold Proof4_layout, Proof4_wf, Proof4_lim. split; [|split].
  - rewrite C1, C3, R. simpl skipn at 1. unfold u64_enc. rewrite <- E5, le_enc_of_dec by exact Ls. rewrite S.
    rewrite (firstn_all2 (skipn (c1 * 32 + 32 + c2 * 32) b)) by (rewrite skipn_length; lia).
    replace (skipn (c1 * 32 + 32 + c2 * 32) b) with (skipn (c2 * 32) (skipn (c1 * 32 + 32) b)) by (rewrite skipn_add; f_equal; lia).
    rewrite firstn_skipn.
    replace (skipn (c1 * 32 + 32) b) with (skipn 32 (skipn (c1 * 32) b)) by (rewrite skipn_add; f_equal; lia).
    rewrite firstn_skipn. now rewrite firstn_skipn.
  - rewrite <- E5. pose proof (le_dec_lt s) as B. rewrite Ls in B. exact B.
  - split; [exact V1|]. split; [|exact V3]. unfold nlen. rewrite R, firstn_length, skipn_length. lia.
Qed.

Lemma Proof4_codec c1 c2 :
  codec_ok (enc_Proof4 (N.of_nat c1) (N.of_nat c2)) (dec_Proof4 c1 c2) Proof4_wf (Proof4_lim c1 c2).
Proof.
  apply (derive_codec_ok _ _ Proof4_layout).
  - apply enc_Proof4_in.
  - apply enc_out_from; [apply enc_Proof4_inv | intros v; apply enc_Proof4_total].
  - apply dec_Proof4_layout.
  - apply dec_Proof4_inv.
Qed.

(* ---- BlockHeaderWithProof: two variable-size fields *)
Definition HeaderWithProof_lim (v : bytes * bytes) : Prop := nlen (fst v) <= L_Header /\ nlen (snd v) <= L_HeaderProof.
Definition HeaderWithProof_layout (v : bytes * bytes) : bytes := u32_enc 8 ++ u32_enc (8 + nlen (fst v)) ++ fst v ++ snd v.

Lemma read_offset_at_app (a r : bytes) v lo : length a = lo -> v < two32 -> read_offset_at (a ++ u32_enc v ++ r) lo = Ok v.
Proof.
  intros Ha Hv. unfold read_offset_at. rewrite slice_app by (unfold u32_enc; rewrite ?le_enc_length; lia). cbn [bind].
  now apply read_u32_exact.
Qed.

Lemma dec_HeaderWithProof_layout v : HeaderWithProof_lim v -> dec_HeaderWithProof (HeaderWithProof_layout v) = Ok v.
Proof.
  destruct v as [h p]. unfold HeaderWithProof_lim, HeaderWithProof_layout. cbn [fst snd]. intros [H1 H2].
  unfold L_Header, L_HeaderProof in *. set (o1 := 8 + nlen h).
  assert (L4 : forall x, length (u32_enc x) = 4%nat) by (intros; unfold u32_enc; apply le_enc_length).
  set (L := u32_enc 8 ++ u32_enc o1 ++ h ++ p).
  assert (Hn : nlen L = 8 + nlen h + nlen p) by (unfold L; rewrite !nlen_app; unfold u32_enc; rewrite !nlen_le_enc; lia).
  unfold dec_HeaderWithProof. cbv zeta. rewrite Hn. replace (8 + nlen h + nlen p <? 8) with false by lia.
  replace (read_offset_at L 0) with (Ok 8 : res N).
  2:{ symmetry. unfold L. rewrite <- (app_nil_l (u32_enc 8 ++ _)). apply read_offset_at_app; [reflexivity|vm_compute; reflexivity]. }
  cbn [bind]. replace (8 + nlen h + nlen p <? 8) with false by lia. change (8 =? 8) with true. cbn [negb].
  replace (read_offset_at L 4) with (Ok o1 : res N).
  2:{ symmetry. unfold L. apply read_offset_at_app; [apply L4|unfold o1, two32; lia]. }
  cbn [bind]. replace ((8 + nlen h + nlen p <? o1) || (o1 <? 8)) with false by (unfold o1; lia).
  replace (between L 8 o1) with (Ok h : res bytes).
  2:{ symmetry. unfold L. rewrite (app_assoc (u32_enc 8)). apply between_app; rewrite ?nlen_app; unfold u32_enc, o1; rewrite ?nlen_le_enc; lia. }
  cbn [bind]. unfold dec_bytes_max. replace (L_Header <? nlen h) with false by (unfold L_Header; lia). cbn [bind].
  replace (tail_from L o1) with (Ok p : res bytes).
  2:{ symmetry. unfold L. rewrite (app_assoc (u32_enc o1)), (app_assoc (u32_enc 8)). apply tail_from_app.
      rewrite !nlen_app. unfold u32_enc, o1. rewrite !nlen_le_enc. lia. }
  cbn [bind]. replace (L_HeaderProof <? nlen p) with false by (unfold L_HeaderProof; lia). reflexivity.
Qed.

Lemma dec_HeaderWithProof_inv b v : dec_HeaderWithProof b = Ok v -> b = HeaderWithProof_layout v /\ True /\ HeaderWithProof_lim v.
Proof.
  unfold dec_HeaderWithProof. cbv zeta. intros H.
  destruct (nlen b <? 8) eqn:Hs; [discriminate|].
  explode b 8%nat t. step_in H.
  match type of H with context [_ <? le_dec ?l] => set (o0 := le_dec l) in *; assert (Ho0 : le_enc 4 o0 = l) by (apply le_enc_of_dec; reflexivity) end.
  destruct (_ <? o0) eqn:E1 in H; [discriminate|].
  destruct (o0 =? 8) eqn:E2 in H; cbn [negb] in H; [|discriminate].
  match type of H with context [_ <? le_dec ?l] => set (o1 := le_dec l) in *; assert (Ho1 : le_enc 4 o1 = l) by (apply le_enc_of_dec; reflexivity) end.
  destruct ((_ <? o1) || (o1 <? o0)) eqn:E3 in H; [discriminate|].
  rewrite !nlen_cons in *.
  destruct (between _ o0 o1) as [h| |] eqn:Eb in H; cbn [bind] in H; try discriminate.
  unfold dec_bytes_max in H. destruct (L_Header <? nlen h) eqn:E4; [discriminate|]. cbn [bind] in H.
  destruct (tail_from _ o1) as [p| |] eqn:Et in H; cbn [bind] in H; try discriminate.
  destruct (L_HeaderProof <? nlen p) eqn:E5; [discriminate|]. apply Ok_inj in H. subst v.
  assert (o0 = 8) by lia. apply between_inv in Eb as (_ & _ & Hh).
  rewrite tail_from_ok in Et by (rewrite !nlen_cons; lia). apply Ok_inj in Et.
  replace (N.to_nat o0) with 8%nat in Hh by lia. cbn [skipn] in Hh.
  replace (N.to_nat o1) with (8 + N.to_nat (o1 - 8))%nat in Et by lia. cbn [skipn Nat.add] in Et.
  replace (o1 - o0) with (o1 - 8) in Hh by lia.
  assert (Lh : nlen h = o1 - 8) by (rewrite Hh; apply nlen_firstn; lia).
  unfold HeaderWithProof_layout, HeaderWithProof_lim. cbn [fst snd].
  split; [|split; [exact I|split; lia]].
  unfold u32_enc. replace 8 with o0 at 1 by assumption. rewrite Ho0. replace (8 + nlen h) with o1 by lia. rewrite Ho1.
  rewrite Hh, <- Et. cbn [app]. now rewrite firstn_skipn.
Qed.

Lemma HeaderWithProof_codec : codec_ok enc_HeaderWithProof dec_HeaderWithProof (fun _ => True) HeaderWithProof_lim.
Proof.
  apply (derive_codec_ok _ _ HeaderWithProof_layout).
  - intros [h p] [H1 H2]. cbn [fst snd] in *. unfold enc_HeaderWithProof, enc_bytes_max, HeaderWithProof_layout. cbn [fst snd].
    replace (L_Header <? nlen h) with false by lia. replace (L_HeaderProof <? nlen p) with false by lia. cbn [bind].
    now rewrite <- !app_assoc.
  - intros [h p] H. unfold HeaderWithProof_lim in H. cbn [fst snd] in H. unfold enc_HeaderWithProof, enc_bytes_max.
    destruct (L_Header <? nlen h) eqn:E1; cbn [bind]; [eexists; reflexivity|].
    destruct (L_HeaderProof <? nlen p) eqn:E2; cbn [bind]; [eexists; reflexivity|]. exfalso. apply H. lia.
  - intros v _. apply dec_HeaderWithProof_layout.
  - exact dec_HeaderWithProof_inv.
Qed.

(* ================================================================== beacon content keys (fastssz) *)
Definition LcSlotKey_wf (v : N) : Prop := v < two64.
Lemma LcSlotKey_codec : codec_ok enc_LcSlotKey dec_LcSlotKey LcSlotKey_wf (fun _ => True).
Proof.
  apply (derive_codec_ok _ _ u64_enc); unfold LcSlotKey_wf.
  - reflexivity.
  - intros v H. exfalso. now apply H.
  - intros v Hw _. unfold dec_LcSlotKey, u64_enc. rewrite nlen_le_enc. change (N.of_nat 8 =? 8) with true. cbn [negb].
    rewrite <- (le_enc_length 8 v) at 2. rewrite slice_full. cbn [bind]. now apply read_u64_exact.
  - intros b v. unfold dec_LcSlotKey. destruct (nlen b =? 8) eqn:E; cbn [negb]; [|discriminate].
    assert (L : length b = 8%nat) by (unfold nlen in E; lia). rewrite <- L, slice_full. cbn [bind].
    unfold read_u64. rewrite L. cbn [Nat.ltb Nat.leb]. intros H; apply Ok_inj in H. subst v.
    rewrite <- L, firstn_all. split; [|split; [|exact I]].
    + unfold u64_enc. symmetry. now apply le_enc_of_dec.
    + pose proof (le_dec_lt b) as B. rewrite L in B. exact B.
Qed.

Definition LcUpdateKey_wf (v : N * N) : Prop := fst v < two64 /\ snd v < two64.
Lemma LcUpdateKey_codec : codec_ok enc_LcUpdateKey dec_LcUpdateKey LcUpdateKey_wf (fun _ => True).
Proof.
  apply (derive_codec_ok _ _ (fun v => u64_enc (fst v) ++ u64_enc (snd v))); unfold LcUpdateKey_wf.
  - intros [a c] _. reflexivity.
  - intros v H. exfalso. now apply H.
  - intros [a c] [Ha Hc] _. cbn [fst snd] in *. unfold dec_LcUpdateKey.
    assert (L8 : forall x, length (u64_enc x) = 8%nat) by (intros; unfold u64_enc; apply le_enc_length).
    replace (nlen (u64_enc a ++ u64_enc c) =? 16) with true by (unfold nlen; rewrite app_length, !L8; reflexivity). cbn [negb].
    rewrite slice_app0 by apply L8. cbn [bind]. rewrite (read_u64_exact a Ha). cbn [bind].
    rewrite <- (app_nil_r (u64_enc c)). rewrite slice_app by (rewrite ?L8; reflexivity). cbn [bind].
    rewrite (read_u64_exact c Hc). reflexivity.
  - intros b [a c]. unfold dec_LcUpdateKey. destruct (nlen b =? 16) eqn:E; cbn [negb]; [|discriminate].
    assert (L : length b = 16%nat) by (unfold nlen in E; lia).
    destruct (slice b 0 8) as [x| |] eqn:E1; cbn [bind]; try discriminate.
    destruct (read_u64 x) as [a'| |] eqn:R1; cbn [bind]; try discriminate.
    destruct (slice b 8 16) as [y| |] eqn:E2; cbn [bind]; try discriminate.
    destruct (read_u64 y) as [c'| |] eqn:R2; cbn [bind]; try discriminate.
    intros H; apply Ok_inj in H. injection H as -> ->. cbn [fst snd].
    apply slice_inv in E1 as [_ ->]. apply slice_inv in E2 as [_ ->].
    change (8 - 0)%nat with 8%nat in *. change (16 - 8)%nat with 8%nat in *. change (skipn 0 b) with b in *.
    assert (Lx : length (firstn 8 b) = 8%nat) by (rewrite firstn_length; lia).
    assert (Ly : length (firstn 8 (skipn 8 b)) = 8%nat) by (rewrite firstn_length, skipn_length; lia).
    unfold read_u64 in R1, R2. rewrite Lx in R1. rewrite Ly in R2. cbn [Nat.ltb Nat.leb] in R1, R2.
    apply Ok_inj in R1. apply Ok_inj in R2. rewrite firstn_firstn in R1, R2. cbn [Nat.min] in R1, R2. subst a c.
    split; [|split; [split|exact I]].
    + unfold u64_enc. rewrite !le_enc_of_dec by assumption.
      rewrite (firstn_all2 (skipn 8 b)) by (rewrite skipn_length; lia). now rewrite firstn_skipn.
    + pose proof (le_dec_lt (firstn 8 b)) as B. rewrite Lx in B. exact B.
    + pose proof (le_dec_lt (firstn 8 (skipn 8 b))) as B. rewrite Ly in B. exact B.
Qed.

Lemma LcBootstrapKey_codec : codec_ok enc_LcBootstrapKey dec_LcBootstrapKey (fun _ => True) OfferEphKey_lim.
Proof. exact OfferEphKey_codec. Qed.


(* ================================================================== EpochAccumulator *)
Definition vecn_lim (cnt n : nat) (l : list bytes) : Prop := length l = cnt /\ Forall (fun c => length c = n) l.

Lemma vecn_items_in n l : Forall (fun c => length c = n) l -> vec_items (N.of_nat n) l = Ok (concat l).
Proof.
  induction 1 as [|c l Hc _ IH]; [reflexivity|]. cbn [vec_items concat].
  replace (nlen c =? N.of_nat n) with true by (unfold nlen; lia). cbn [negb]. rewrite IH. reflexivity.
Qed.
Lemma vecn_items_inv n l : forall b, vec_items (N.of_nat n) l = Ok b -> b = concat l /\ Forall (fun c => length c = n) l.
Proof.
  induction l as [|c l IH]; intros b; cbn [vec_items concat].
  - intros H; apply Ok_inj in H. subst. split; constructor.
  - destruct (nlen c =? N.of_nat n) eqn:E; cbn [negb]; [|discriminate].
    destruct (vec_items (N.of_nat n) l) as [t| |] eqn:Et; cbn [bind]; try discriminate.
    intros H; apply Ok_inj in H. subst b. destruct (IH t eq_refl) as [-> Hf]. split; [reflexivity|].
    constructor; [unfold nlen in E; lia|exact Hf].
Qed.
Lemma vecn_items_total n l : vec_items n l <> Panic.
Proof.
  induction l as [|c l IH]; cbn [vec_items]; [discriminate|]. destruct (negb (nlen c =? n)); [discriminate|].
  destruct (vec_items n l); cbn [bind]; try discriminate. exact IH.
Qed.

Lemma split_chunks_layout n l : Forall (fun c => length c = n) l -> forall r, split_chunks (length l) n (concat l ++ r) = Ok l.
Proof.
  induction 1 as [|c l Hc _ IH]; intros r; [reflexivity|]. cbn [length split_chunks concat]. rewrite <- app_assoc.
  rewrite (firstn_app_exact c _ n Hc), (skipn_app_exact c _ n Hc), Hc, Nat.ltb_irrefl, IH. reflexivity.
Qed.
Lemma split_chunks_inv n : forall k buf cs, split_chunks k n buf = Ok cs ->
  length cs = k /\ Forall (fun c => length c = n) cs /\ concat cs = firstn (k * n) buf.
Proof.
  induction k as [|k IH]; intros buf cs H; cbn [split_chunks] in H.
  - apply Ok_inj in H. subst. repeat split; constructor.
  - destruct (length (firstn n buf) <? n)%nat eqn:E; [discriminate|]. apply Nat.ltb_ge in E.
    destruct (split_chunks k n (skipn n buf)) as [r| |] eqn:Er; cbn [bind] in H; try discriminate.
    apply Ok_inj in H. subst cs. destruct (IH _ _ Er) as (I1 & I2 & I3).
    assert (L : length (firstn n buf) = n) by (rewrite firstn_length in *; lia).
    split; [simpl; lia|]. split; [constructor; assumption|]. cbn [concat]. rewrite I3.
    replace (S k * n)%nat with (n + k * n)%nat by lia.
    rewrite <- (firstn_skipn n buf) at 3. rewrite firstn_app, firstn_firstn, L.
    replace (Nat.min (n + k * n) n) with n by lia. replace (n + k * n - n)%nat with (k * n)%nat by lia. reflexivity.
Qed.

Definition EpochAcc_lim (l : list bytes) : Prop := vecn_lim (N.to_nat 8192) 64 l.
Lemma EpochAcc_codec : codec_ok enc_EpochAcc dec_EpochAcc (fun _ => True) EpochAcc_lim.
Proof.
  apply (derive_codec_ok _ _ (fun l : list bytes => concat l)); unfold EpochAcc_lim, vecn_lim, enc_EpochAcc, enc_vector.
  - intros v [H1 H2]. replace (nlen v =? 8192) with true by (unfold nlen; lia). cbn [negb]. exact (vecn_items_in 64 v H2).
  - apply enc_out_from.
    + intros v b. destruct (nlen v =? 8192) eqn:E; cbn [negb]; [|discriminate]. intros H.
      apply (vecn_items_inv 64) in H as [_ H]. split; [unfold nlen in E; lia|exact H].
    + intros v. destruct (negb (nlen v =? 8192)); [discriminate|apply vecn_items_total].
  - intros v _ [H1 H2]. unfold dec_EpochAcc. pose proof (concat_length_const 64 v H2) as Hc.
    replace (nlen (concat v) =? 524288) with true by (unfold nlen; lia). cbn [negb].
    rewrite <- H1. rewrite <- (app_nil_r (concat v)). now apply split_chunks_layout.
  - intros b v. unfold dec_EpochAcc. destruct (nlen b =? 524288) eqn:E; cbn [negb]; [|discriminate]. intros H.
    apply split_chunks_inv in H as (H1 & H2 & H3). rewrite firstn_all2 in H3 by (unfold nlen in E; lia). auto.
Qed.

(* ================================================================== block bodies *)
Lemma items_total_eq l : items_total l = total_len l.
Proof. induction l as [|x l IH]; [reflexivity|]. cbn [items_total total_len]. now rewrite IH. Qed.
Lemma dyn_layout_len l : nlen (dyn_layout l) = dyn_size l.
Proof.
  unfold dyn_layout, dyn_size. rewrite nlen_app, nlen_concat. pose proof (items_total_eq l) as E.
  assert (H : nlen (offsets_from (4 * nlen l) l) = 4 * nlen l) by (unfold nlen; rewrite offsets_from_length; lia). lia.
Qed.

Definition BodyLegacy_layout_raw (x u : bytes) : bytes := u32_enc 8 ++ u32_enc (8 + nlen x) ++ x ++ u.

Lemma dec_BodyLegacy_prefix s x u : 8 + nlen x < two32 ->
  dec_BodyLegacy s (BodyLegacy_layout_raw x u) =
  bind (dec_dyn_list s x L_Txs (item_bytes_max L_Tx)) (fun txs => bind (dec_bytes_max L_Uncles u) (fun uncles => Ok (txs, uncles))).
Proof.
  intros Hb. unfold BodyLegacy_layout_raw. set (o1 := 8 + nlen x).
  assert (L4 : forall y, length (u32_enc y) = 4%nat) by (intros; unfold u32_enc; apply le_enc_length).
  set (L := u32_enc 8 ++ u32_enc o1 ++ x ++ u).
  assert (Hn : nlen L = 8 + nlen x + nlen u) by (unfold L; rewrite !nlen_app; unfold u32_enc; rewrite !nlen_le_enc; lia).
  unfold dec_BodyLegacy. cbv zeta. rewrite Hn. replace (8 + nlen x + nlen u <? 8) with false by lia.
  replace (read_offset_at L 0) with (Ok 8 : res N).
  2:{ symmetry. unfold L. rewrite <- (app_nil_l (u32_enc 8 ++ _)). apply read_offset_at_app; [reflexivity|vm_compute; reflexivity]. }
  cbn [bind]. replace (8 + nlen x + nlen u <? 8) with false by lia. change (8 =? 8) with true. cbn [negb].
  replace (read_offset_at L 4) with (Ok o1 : res N).
  2:{ symmetry. unfold L. apply read_offset_at_app; [apply L4|exact Hb]. }
  cbn [bind]. replace ((8 + nlen x + nlen u <? o1) || (o1 <? 8)) with false by (unfold o1; lia).
  replace (between L 8 o1) with (Ok x : res bytes).
  2:{ symmetry. unfold L. rewrite (app_assoc (u32_enc 8)). apply between_app; rewrite ?nlen_app; unfold u32_enc, o1; rewrite ?nlen_le_enc; lia. }
  cbn [bind].
  replace (tail_from L o1) with (Ok u : res bytes).
  2:{ symmetry. unfold L. rewrite (app_assoc (u32_enc o1)), (app_assoc (u32_enc 8)). apply tail_from_app.
      rewrite !nlen_app. unfold u32_enc, o1. rewrite !nlen_le_enc. lia. }
  reflexivity.
Qed.

Lemma dec_BodyLegacy_split s b v : dec_BodyLegacy s b = Ok v ->
  exists x u, b = BodyLegacy_layout_raw x u /\ 8 + nlen x < two32.
Proof.
  unfold dec_BodyLegacy. cbv zeta. intros H.
  destruct (nlen b <? 8) eqn:Hs; [discriminate|].
  explode b 8%nat t. step_in H.
  match type of H with context [_ <? le_dec ?l] => set (o0 := le_dec l) in *; assert (Ho0 : le_enc 4 o0 = l) by (apply le_enc_of_dec; reflexivity) end.
  destruct (_ <? o0) eqn:E1 in H; [discriminate|].
  destruct (o0 =? 8) eqn:E2 in H; cbn [negb] in H; [|discriminate].
  match type of H with context [_ <? le_dec ?l] => set (o1 := le_dec l) in *; assert (Ho1 : le_enc 4 o1 = l) by (apply le_enc_of_dec; reflexivity);
    assert (Hlt : o1 < two32) by (pose proof (le_dec_lt l) as B; exact B) end.
  destruct ((_ <? o1) || (o1 <? o0)) eqn:E3 in H; [discriminate|].
  rewrite !nlen_cons in *.
  destruct (between _ o0 o1) as [x| |] eqn:Eb in H; cbn [bind] in H; try discriminate.
  assert (o0 = 8) by lia. apply between_inv in Eb as (_ & _ & Hx).
  replace (N.to_nat o0) with 8%nat in Hx by lia. cbn [skipn] in Hx. replace (o1 - o0) with (o1 - 8) in Hx by lia.
  assert (Lx : nlen x = o1 - 8) by (rewrite Hx; apply nlen_firstn; lia).
  exists x, (skipn (N.to_nat (o1 - 8)) t). split; [|lia].
  unfold BodyLegacy_layout_raw, u32_enc. replace 8 with o0 at 1 by assumption. rewrite Ho0. replace (8 + nlen x) with o1 by lia. rewrite Ho1.
  rewrite Hx. cbn [app]. now rewrite firstn_skipn.
Qed.

Definition BodyLegacy_wf (v : list bytes * bytes) : Prop := 8 + dyn_size (fst v) < two32.
Definition BodyLegacy_lim (v : list bytes * bytes) : Prop := dyn_lim L_Txs L_Tx (fst v) /\ nlen (snd v) <= L_Uncles.
Definition BodyLegacy_layout (v : list bytes * bytes) : bytes := BodyLegacy_layout_raw (dyn_layout (fst v)) (snd v).

Lemma enc_BodyLegacy_inv v b : enc_BodyLegacy v = Ok b -> BodyLegacy_lim v /\ b = BodyLegacy_layout v.
Proof.
  destruct v as [t u]. unfold enc_BodyLegacy, BodyLegacy_lim, BodyLegacy_layout, BodyLegacy_layout_raw. cbn [fst snd].
  rewrite enc_dyn_list_spec. destruct (dyn_ok L_Txs L_Tx t) eqn:E; [|destruct (L_Txs <? nlen t); discriminate]. cbn [bind].
  unfold enc_bytes_max. destruct (L_Uncles <? nlen u) eqn:E2; [discriminate|]. cbn [bind]. intros H; apply Ok_inj in H. subst b.
  split; [split; [now apply dyn_ok_iff|lia]|]. rewrite dyn_layout_len, <- !app_assoc. reflexivity.
Qed.

Lemma BodyLegacy_codec : codec_ok enc_BodyLegacy (dec_BodyLegacy true) BodyLegacy_wf BodyLegacy_lim.
Proof.
  apply (derive_codec_ok _ _ BodyLegacy_layout).
  - intros [t u] [H1 H2]. cbn [fst snd] in *. unfold enc_BodyLegacy, BodyLegacy_layout, BodyLegacy_layout_raw. cbn [fst snd].
    rewrite (enc_dyn_in _ _ _ H1). cbn [bind]. unfold enc_bytes_max. replace (L_Uncles <? nlen u) with false by lia. cbn [bind].
    rewrite dyn_layout_len, <- !app_assoc. reflexivity.
  - apply enc_out_from.
    + intros v b H. now apply enc_BodyLegacy_inv in H.
    + intros [t u]. unfold enc_BodyLegacy. rewrite enc_dyn_list_spec. destruct (dyn_ok L_Txs L_Tx t); [|destruct (L_Txs <? nlen t); discriminate].
      cbn [bind]. unfold enc_bytes_max. destruct (L_Uncles <? nlen u); discriminate.
  - intros [t u] Hw [H1 H2]. unfold BodyLegacy_wf, BodyLegacy_layout in *. cbn [fst snd] in *.
    rewrite dec_BodyLegacy_prefix by (rewrite dyn_layout_len; exact Hw).
    destruct H1 as [Hn Hi]. unfold dyn_size in Hw. rewrite items_total_eq in Hw.
    rewrite (dec_dyn_list_layout true L_Txs (item_bytes_max L_Tx) (fun x => x) t Hn ltac:(lia) (item_Forall _ _ Hi)). cbn [bind].
    rewrite map_id. unfold dec_bytes_max. replace (L_Uncles <? nlen u) with false by lia. reflexivity.
  - intros b [t u] H. destruct (dec_BodyLegacy_split _ _ _ H) as (x & u' & -> & Hb). rewrite dec_BodyLegacy_prefix in H by exact Hb.
    destruct (dec_dyn_list true x L_Txs (item_bytes_max L_Tx)) as [txs| |] eqn:Ed; cbn [bind] in H; try discriminate.
    unfold dec_bytes_max in H. destruct (L_Uncles <? nlen u') eqn:Eu; [discriminate|]. cbn [bind] in H.
    apply Ok_inj in H. injection H as -> ->. apply dec_dyn_inv in Ed as [-> Hl].
    unfold BodyLegacy_layout, BodyLegacy_wf, BodyLegacy_lim. cbn [fst snd]. rewrite dyn_layout_len in Hb.
    split; [reflexivity|]. split; [exact Hb|]. split; [exact Hl|lia].
Qed.

Lemma BodyLegacy_as_found_canonicity_refuted : ~ canonical (dec_BodyLegacy false) enc_BodyLegacy.
Proof.
  intros H. specialize (H [x08;x00;x00;x00;x0c;x00;x00;x00;x00;x00;x00;x00] ([], []) eq_refl). vm_compute in H. discriminate.
Qed.

Definition BodyShanghai_layout_raw (x u w : bytes) : bytes :=
  u32_enc 12 ++ u32_enc (12 + nlen x) ++ u32_enc (12 + nlen x + nlen u) ++ x ++ u ++ w.

Lemma dec_BodyShanghai_prefix s x u w : 12 + nlen x + nlen u < two32 ->
  dec_BodyShanghai s (BodyShanghai_layout_raw x u w) =
  bind (dec_dyn_list s x L_Txs (item_bytes_max L_Tx)) (fun txs =>
  bind (dec_bytes_max L_Uncles u) (fun uncles =>
  bind (dec_dyn_list s w L_Withdrawals (item_bytes_max L_Withdrawal)) (fun ws => Ok (txs, uncles, ws)))).
Proof.
  intros Hb. unfold BodyShanghai_layout_raw. set (o2 := 12 + nlen x + nlen u). set (o1 := 12 + nlen x).
  assert (L4 : forall y, length (u32_enc y) = 4%nat) by (intros; unfold u32_enc; apply le_enc_length).
  set (L := u32_enc 12 ++ u32_enc o1 ++ u32_enc o2 ++ x ++ u ++ w).
  assert (Hn : nlen L = 12 + nlen x + nlen u + nlen w) by (unfold L; rewrite !nlen_app; unfold u32_enc; rewrite !nlen_le_enc; lia).
  unfold dec_BodyShanghai. cbv zeta. rewrite Hn. replace (12 + nlen x + nlen u + nlen w <? 12) with false by lia.
  replace (read_offset_at L 0) with (Ok 12 : res N).
  2:{ symmetry. unfold L. rewrite <- (app_nil_l (u32_enc 12 ++ _)). apply read_offset_at_app; [reflexivity|vm_compute; reflexivity]. }
  cbn [bind]. replace (12 + nlen x + nlen u + nlen w <? 12) with false by lia. change (12 =? 12) with true. cbn [negb].
  replace (read_offset_at L 4) with (Ok o1 : res N).
  2:{ symmetry. unfold L. apply read_offset_at_app; [apply L4|unfold o1; lia]. }
  cbn [bind]. replace ((12 + nlen x + nlen u + nlen w <? o1) || (o1 <? 12)) with false by (unfold o1; lia).
  replace (read_offset_at L 8) with (Ok o2 : res N).
  2:{ symmetry. unfold L. rewrite (app_assoc (u32_enc 12)). apply read_offset_at_app; [rewrite app_length, !L4; reflexivity|exact Hb]. }
  cbn [bind]. replace ((12 + nlen x + nlen u + nlen w <? o2) || (o2 <? o1)) with false by (unfold o1, o2; lia).
  replace (between L 12 o1) with (Ok x : res bytes).
  2:{ symmetry. unfold L. rewrite (app_assoc (u32_enc o1)), (app_assoc (u32_enc 12)).
      apply between_app; rewrite ?nlen_app; unfold u32_enc, o1; rewrite ?nlen_le_enc; lia. }
  cbn [bind].
  replace (between L o1 o2) with (Ok u : res bytes).
  2:{ symmetry. unfold L. rewrite (app_assoc (u32_enc o2)), (app_assoc (u32_enc o1)), (app_assoc (u32_enc 12)).
      apply between_app; rewrite ?nlen_app; unfold u32_enc, o1, o2; rewrite ?nlen_le_enc; lia. }
  replace (tail_from L o2) with (Ok w : res bytes).
  2:{ symmetry. unfold L. rewrite (app_assoc x), (app_assoc (u32_enc o2)), (app_assoc (u32_enc o1)), (app_assoc (u32_enc 12)). apply tail_from_app.
      rewrite !nlen_app. unfold u32_enc, o2. rewrite !nlen_le_enc. lia. }
  reflexivity.
Qed.

Lemma dec_BodyShanghai_split s b v : dec_BodyShanghai s b = Ok v ->
  exists x u w, b = BodyShanghai_layout_raw x u w /\ 12 + nlen x + nlen u < two32.
Proof.
  unfold dec_BodyShanghai. cbv zeta. intros H.
  destruct (nlen b <? 12) eqn:Hs; [discriminate|].
  explode b 12%nat t. step_in H.
  match type of H with context [_ <? le_dec ?l] => set (o0 := le_dec l) in *; assert (Ho0 : le_enc 4 o0 = l) by (apply le_enc_of_dec; reflexivity) end.
  destruct (_ <? o0) eqn:E1 in H; [discriminate|].
  destruct (o0 =? 12) eqn:E2 in H; cbn [negb] in H; [|discriminate].
  match type of H with context [_ <? le_dec ?l] => set (o1 := le_dec l) in *; assert (Ho1 : le_enc 4 o1 = l) by (apply le_enc_of_dec; reflexivity) end.
  destruct ((_ <? o1) || (o1 <? o0)) eqn:E3 in H; [discriminate|].
  match type of H with context [_ <? le_dec ?l] => set (o2 := le_dec l) in *; assert (Ho2 : le_enc 4 o2 = l) by (apply le_enc_of_dec; reflexivity);
    assert (Hlt : o2 < two32) by (pose proof (le_dec_lt l) as B; exact B) end.
  destruct ((_ <? o2) || (o2 <? o1)) eqn:E4 in H; [discriminate|].
  rewrite !nlen_cons in *.
  destruct (between _ o0 o1) as [x| |] eqn:Eb in H; cbn [bind] in H; try discriminate.
  destruct (dec_dyn_list s x L_Txs (item_bytes_max L_Tx)) as [txs| |] in H; cbn [bind] in H; try discriminate.
  destruct (between _ o1 o2) as [u| |] eqn:Eb2 in H; cbn [bind] in H; try discriminate.
  assert (o0 = 12) by lia. apply between_inv in Eb as (_ & _ & Hx). apply between_inv in Eb2 as (_ & _ & Hu).
  replace (N.to_nat o0) with 12%nat in Hx by lia. cbn [skipn] in Hx. replace (o1 - o0) with (o1 - 12) in Hx by lia.
  replace (N.to_nat o1) with (12 + N.to_nat (o1 - 12))%nat in Hu by lia. cbn [skipn Nat.add] in Hu.
  assert (Lx : nlen x = o1 - 12) by (rewrite Hx; apply nlen_firstn; lia).
  assert (Lu : nlen u = o2 - o1) by (rewrite Hu; apply nlen_firstn; rewrite nlen_skipn; lia).
  exists x, u, (skipn (N.to_nat (o2 - o1)) (skipn (N.to_nat (o1 - 12)) t)). split; [|lia].
  unfold BodyShanghai_layout_raw, u32_enc. replace 12 with o0 at 1 by assumption. rewrite Ho0.
  replace (12 + nlen x) with o1 by lia. rewrite Ho1. replace (o1 + nlen u) with o2 by lia. rewrite Ho2.
  rewrite Hu, Hx. cbn [app]. now rewrite !firstn_skipn.
Qed.

Definition BodyShanghai_wf (v : list bytes * bytes * list bytes) : Prop :=
  let '(t, u, w) := v in 12 + dyn_size t + nlen u < two32.
Definition BodyShanghai_lim (v : list bytes * bytes * list bytes) : Prop :=
  let '(t, u, w) := v in dyn_lim L_Txs L_Tx t /\ nlen u <= L_Uncles /\ dyn_lim L_Withdrawals L_Withdrawal w.
Definition BodyShanghai_layout (v : list bytes * bytes * list bytes) : bytes :=
  let '(t, u, w) := v in BodyShanghai_layout_raw (dyn_layout t) u (dyn_layout w).

Lemma enc_BodyShanghai_inv v b : enc_BodyShanghai v = Ok b -> BodyShanghai_lim v /\ b = BodyShanghai_layout v.
Proof.
  destruct v as [[t u] w]. unfold enc_BodyShanghai, BodyShanghai_lim, BodyShanghai_layout, BodyShanghai_layout_raw.
  rewrite enc_dyn_list_spec. destruct (dyn_ok L_Txs L_Tx t) eqn:E; [|destruct (L_Txs <? nlen t); discriminate]. cbn [bind].
  unfold enc_bytes_max. destruct (L_Uncles <? nlen u) eqn:E2; [discriminate|]. cbn [bind].
  rewrite enc_dyn_list_spec. destruct (dyn_ok L_Withdrawals L_Withdrawal w) eqn:E3; [|destruct (L_Withdrawals <? nlen w); discriminate]. cbn [bind].
  intros H; apply Ok_inj in H. subst b.
  split; [split; [now apply dyn_ok_iff|split; [lia|now apply dyn_ok_iff]]|]. rewrite dyn_layout_len, <- !app_assoc. reflexivity.
Qed.

Lemma BodyShanghai_codec : codec_ok enc_BodyShanghai (dec_BodyShanghai true) BodyShanghai_wf BodyShanghai_lim.
Proof.
  apply (derive_codec_ok _ _ BodyShanghai_layout).
  - intros [[t u] w] (H1 & H2 & H3). unfold enc_BodyShanghai, BodyShanghai_layout, BodyShanghai_layout_raw.
    rewrite (enc_dyn_in _ _ _ H1). cbn [bind]. unfold enc_bytes_max. replace (L_Uncles <? nlen u) with false by lia. cbn [bind].
    rewrite (enc_dyn_in _ _ _ H3). cbn [bind]. rewrite dyn_layout_len, <- !app_assoc. reflexivity.
  - apply enc_out_from.
    + intros v b H. now apply enc_BodyShanghai_inv in H.
    + intros [[t u] w]. unfold enc_BodyShanghai. rewrite enc_dyn_list_spec. destruct (dyn_ok L_Txs L_Tx t); [|destruct (L_Txs <? nlen t); discriminate].
      cbn [bind]. unfold enc_bytes_max. destruct (L_Uncles <? nlen u); [discriminate|]. cbn [bind].
      rewrite enc_dyn_list_spec. destruct (dyn_ok L_Withdrawals L_Withdrawal w); [discriminate|destruct (L_Withdrawals <? nlen w); discriminate].
  - intros [[t u] w] Hw (H1 & H2 & H3). unfold BodyShanghai_wf, BodyShanghai_layout in *.
    rewrite dec_BodyShanghai_prefix by (rewrite dyn_layout_len; exact Hw).
    destruct H1 as [Hn Hi]. unfold dyn_size in Hw. rewrite items_total_eq in Hw.
    rewrite (dec_dyn_list_layout true L_Txs (item_bytes_max L_Tx) (fun x => x) t Hn ltac:(lia) (item_Forall _ _ Hi)). cbn [bind].
    rewrite map_id. unfold dec_bytes_max. replace (L_Uncles <? nlen u) with false by lia. cbn [bind].
    rewrite (dec_dyn_layout true L_Withdrawals L_Withdrawal w ltac:(vm_compute; reflexivity) H3). reflexivity.
  - intros b [[t u] w] H. destruct (dec_BodyShanghai_split _ _ _ H) as (x & u' & w' & -> & Hb). rewrite dec_BodyShanghai_prefix in H by exact Hb.
    destruct (dec_dyn_list true x L_Txs (item_bytes_max L_Tx)) as [txs| |] eqn:Ed; cbn [bind] in H; try discriminate.
    unfold dec_bytes_max in H. destruct (L_Uncles <? nlen u') eqn:Eu; [discriminate|]. cbn [bind] in H.
    destruct (dec_dyn_list true w' L_Withdrawals (item_bytes_max L_Withdrawal)) as [ws| |] eqn:Ed2; cbn [bind] in H; try discriminate.
    apply Ok_inj in H. injection H as -> -> ->. apply dec_dyn_inv in Ed as [-> Hl]. apply dec_dyn_inv in Ed2 as [-> Hl2].
    unfold BodyShanghai_layout, BodyShanghai_wf, BodyShanghai_lim. rewrite dyn_layout_len in Hb.
    split; [reflexivity|]. split; [exact Hb|]. split; [exact Hl|]. split; [lia|exact Hl2].
Qed.

Lemma BodyShanghai_as_found_canonicity_refuted : ~ canonical (dec_BodyShanghai false) enc_BodyShanghai.
Proof.
  intros H. specialize (H [x0c;x00;x00;x00;x0c;x00;x00;x00;x0c;x00;x00;x00;x00;x00;x00;x00] ([], [], []) eq_refl). vm_compute in H. discriminate.
Qed.

(* ================================================================== prover-side history containers *)
(* history.BlockHeaderWithProof is the same generated code as types/history.BlockHeaderWithProof *)
Lemma HeaderWithProofH_codec : codec_ok enc_HeaderWithProof dec_HeaderWithProof (fun _ => True) HeaderWithProof_lim.
Proof. exact HeaderWithProof_codec. Qed.

(* a list of 32-byte items with a maximum count, after a fixed prefix *)
Definition hashes_lim (mx : N) (l : list bytes) : Prop := nlen l <= mx /\ Forall (fun c => length c = 32%nat) l.

Lemma dec_hashes mx (l : list bytes) : hashes_lim mx l ->
  bind (divide_int2 (nlen (concat l)) 32 mx) (fun num => split_chunks (N.to_nat num) 32 (concat l)) = Ok l.
Proof.
  intros [H1 H2]. pose proof (concat_length_const 32 l H2) as Hc.
  assert (Hn : nlen (concat l) = 32 * nlen l) by (unfold nlen; lia).
  unfold divide_int2. rewrite Hn. change (32 =? 0) with false. cbv iota.
  replace (32 * nlen l mod 32 =? 0) with true by lia. cbn [negb]. replace (32 * nlen l / 32) with (nlen l) by lia.
  replace (mx <? nlen l) with false by lia. cbn [bind]. replace (N.to_nat (nlen l)) with (length l) by (unfold nlen; lia).
  rewrite <- (app_nil_r (concat l)). now apply split_chunks_layout.
Qed.
Lemma dec_hashes_inv mx t l :
  bind (divide_int2 (nlen t) 32 mx) (fun num => split_chunks (N.to_nat num) 32 t) = Ok l -> t = concat l /\ hashes_lim mx l.
Proof.
  destruct (divide_int2 (nlen t) 32 mx) as [num| |] eqn:Ed; cbn [bind]; try discriminate. intros H.
  apply divide_int2_inv in Ed as (_ & Ht & Hmx). apply split_chunks_inv in H as (Hl & Hf & Hc).
  rewrite firstn_all2 in Hc by (unfold nlen in Ht; lia). split; [now rewrite Hc|]. split; [unfold nlen; lia|exact Hf].
Qed.
Lemma vec32_in l : Forall (fun c => length c = 32%nat) l -> vec_items 32 l = Ok (concat l).
Proof. exact (vecn_items_in 32 l). Qed.
Lemma vec32_inv l b : vec_items 32 l = Ok b -> b = concat l /\ Forall (fun c => length c = 32%nat) l.
Proof. exact (vecn_items_inv 32 l b). Qed.

(* ---- MasterAccumulator *)
Definition MasterAcc_lim (v : list bytes) : Prop := hashes_lim L_HistoricalEpochs v.
Definition MasterAcc_layout (v : list bytes) : bytes := u32_enc 4 ++ concat v.

Lemma dec_MasterAcc_prefix t :
  dec_MasterAcc (u32_enc 4 ++ t) = bind (divide_int2 (nlen t) 32 L_HistoricalEpochs) (fun num => split_chunks (N.to_nat num) 32 t).
Proof.
  unfold dec_MasterAcc.
  assert (Hn : nlen (u32_enc 4 ++ t) = 4 + nlen t) by (rewrite nlen_app; unfold u32_enc; rewrite nlen_le_enc; lia).
  rewrite Hn. replace (4 + nlen t <? 4) with false by lia.
  unfold u32_enc. cbn [le_enc]. step.
  match goal with |- context [_ <? le_dec ?l] => change l with (le_enc 4 4) end.
  rewrite (le_dec_enc 4 4) by (vm_compute; reflexivity).
  replace (4 + nlen t <? 4) with false by lia. change (4 =? 4) with true. cbn [negb].
  rewrite tail_from_ok by (rewrite !nlen_cons; lia).
  change (N.to_nat 4) with 4%nat. step. reflexivity.
Qed.
Lemma dec_MasterAcc_split b v : dec_MasterAcc b = Ok v -> exists t, b = u32_enc 4 ++ t.
Proof.
  unfold dec_MasterAcc. intros H.
  destruct (nlen b <? 4) eqn:Hs; [discriminate|].
  explode b 4%nat t. step_in H.
  match type of H with context [_ <? le_dec ?l] => set (o := le_dec l) in *; assert (Ho : le_enc 4 o = l) by (apply le_enc_of_dec; reflexivity) end.
  destruct (_ <? o) eqn:E1 in H; [discriminate|].
  destruct (o =? 4) eqn:E2 in H; cbn [negb] in H; [|discriminate].
  assert (o = 4) by lia. exists t. unfold u32_enc. replace 4 with o by assumption. rewrite Ho. reflexivity.
Qed.

Lemma MasterAcc_codec : codec_ok enc_MasterAcc dec_MasterAcc (fun _ => True) MasterAcc_lim.
Proof.
  apply (derive_codec_ok _ _ MasterAcc_layout); unfold MasterAcc_lim, MasterAcc_layout.
  - intros v [H1 H2]. unfold enc_MasterAcc. replace (L_HistoricalEpochs <? nlen v) with false by lia. now rewrite (vec32_in v H2).
  - apply enc_out_from.
    + intros v b. unfold enc_MasterAcc. destruct (L_HistoricalEpochs <? nlen v) eqn:E; [discriminate|].
      destruct (vec_items 32 v) as [w| |] eqn:Ev; cbn [bind]; try discriminate. intros _.
      apply vec32_inv in Ev as [_ Hf]. split; [lia|exact Hf].
    + intros v. unfold enc_MasterAcc. destruct (L_HistoricalEpochs <? nlen v); [discriminate|].
      destruct (vec_items 32 v) eqn:Ev; cbn [bind]; try discriminate. now apply vecn_items_total in Ev.
  - intros v _ Hl. rewrite dec_MasterAcc_prefix. now apply dec_hashes.
  - intros b v H. destruct (dec_MasterAcc_split _ _ H) as [t ->]. rewrite dec_MasterAcc_prefix in H.
    apply dec_hashes_inv in H as [-> Hl]. auto.
Qed.

(* ---- SSZProof *)
Definition SSZProof_lim (v : bytes * list bytes) : Prop := nlen (fst v) = 32 /\ hashes_lim L_Witnesses (snd v).
Definition SSZProof_layout (v : bytes * list bytes) : bytes := fst v ++ u32_enc 36 ++ concat (snd v).

Lemma dec_SSZProof_prefix leaf t : nlen leaf = 32 ->
  dec_SSZProof (leaf ++ u32_enc 36 ++ t) =
  bind (bind (divide_int2 (nlen t) 32 L_Witnesses) (fun num => split_chunks (N.to_nat num) 32 t)) (fun ws => Ok (leaf, ws)).
Proof.
  intros Hl. unfold dec_SSZProof. cbv zeta.
  assert (Ll : length leaf = 32%nat) by (unfold nlen in Hl; lia).
  assert (L4 : length (u32_enc 36) = 4%nat) by (unfold u32_enc; apply le_enc_length).
  assert (Hn : nlen (leaf ++ u32_enc 36 ++ t) = 36 + nlen t) by (rewrite !nlen_app; unfold u32_enc; rewrite nlen_le_enc; lia).
  rewrite Hn. replace (36 + nlen t <? 36) with false by lia.
  rewrite slice_app0 by exact Ll. cbn [bind].
  rewrite (read_offset_at_app leaf t 36 32 Ll) by (vm_compute; reflexivity). cbn [bind].
  replace (36 + nlen t <? 36) with false by lia. change (36 =? 36) with true. cbn [negb].
  rewrite (app_assoc leaf). rewrite tail_from_app by (rewrite nlen_app; unfold u32_enc; rewrite nlen_le_enc; lia). cbn [bind].
  destruct (divide_int2 (nlen t) 32 L_Witnesses) as [num| |]; cbn [bind]; reflexivity.
Qed.

Lemma dec_SSZProof_split b v : dec_SSZProof b = Ok v -> exists leaf t, b = leaf ++ u32_enc 36 ++ t /\ nlen leaf = 32.
Proof.
  unfold dec_SSZProof. cbv zeta. intros H.
  destruct (nlen b <? 36) eqn:Hs; [discriminate|].
  destruct (slice b 0 32) as [leaf| |] eqn:E1; cbn [bind] in H; try discriminate.
  destruct (read_offset_at b 32) as [o1| |] eqn:E2; cbn [bind] in H; try discriminate.
  destruct (nlen b <? o1) eqn:E3; [discriminate|]. destruct (o1 =? 36) eqn:E4; cbn [negb] in H; [|discriminate].
  apply slice_inv in E1 as [_ E1]. cbn [skipn Nat.sub] in E1. change (32 - 0)%nat with 32%nat in E1.
  unfold read_offset_at in E2. destruct (slice b 32 (32 + 4)) as [s| |] eqn:E5; cbn [bind] in E2; try discriminate.
  apply slice_inv in E5 as [_ E5]. replace (32 + 4 - 32)%nat with 4%nat in E5 by lia.
  apply read_u32_inv in E2 as (_ & Hf & _).
  assert (Ls : length s = 4%nat) by (rewrite E5, firstn_length, skipn_length; unfold nlen in Hs; lia).
  rewrite firstn_all2 in Hf by lia.
  exists leaf, (skipn 36 b). split.
  - assert (o1 = 36) by lia. subst o1. rewrite <- Hf, E5, E1.
    replace (skipn 36 b) with (skipn 4 (skipn 32 b)) by (rewrite skipn_add; reflexivity). now rewrite !firstn_skipn.
  - rewrite E1. change 32%nat with (N.to_nat 32). apply nlen_firstn. lia.
Qed.

Lemma SSZProof_codec : codec_ok enc_SSZProof dec_SSZProof (fun _ => True) SSZProof_lim.
Proof.
  apply (derive_codec_ok _ _ SSZProof_layout); unfold SSZProof_lim, SSZProof_layout.
  - intros [leaf ws] [H1 [H2 H3]]. cbn [fst snd] in *. unfold enc_SSZProof, enc_bytes_exact.
    replace (nlen leaf =? 32) with true by lia. cbn [negb bind]. replace (L_Witnesses <? nlen ws) with false by lia.
    rewrite (vec32_in ws H3). cbn [bind]. now rewrite <- app_assoc.
  - apply enc_out_from.
    + intros [leaf ws] b. cbn [fst snd]. unfold enc_SSZProof, enc_bytes_exact.
      destruct (nlen leaf =? 32) eqn:E0; cbn [negb bind]; [|discriminate].
      destruct (L_Witnesses <? nlen ws) eqn:E; [discriminate|].
      destruct (vec_items 32 ws) as [w| |] eqn:Ev; cbn [bind]; try discriminate. intros _.
      apply vec32_inv in Ev as [_ Hf]. split; [lia|]. split; [lia|exact Hf].
    + intros [leaf ws]. unfold enc_SSZProof, enc_bytes_exact. destruct (negb (nlen leaf =? 32)); cbn [bind]; [discriminate|].
      destruct (L_Witnesses <? nlen ws); [discriminate|].
      destruct (vec_items 32 ws) eqn:Ev; cbn [bind]; try discriminate. now apply vecn_items_total in Ev.
  - intros [leaf ws] _ [H1 H2]. cbn [fst snd] in *. rewrite dec_SSZProof_prefix by exact H1. now rewrite (dec_hashes _ _ H2).
  - intros b [leaf ws] H. destruct (dec_SSZProof_split _ _ H) as (l0 & t & -> & Hl0). rewrite dec_SSZProof_prefix in H by exact Hl0.
    destruct (bind (divide_int2 (nlen t) 32 L_Witnesses) _) as [ws0| |] eqn:Ed; cbn [bind] in H; try discriminate.
    apply Ok_inj in H. injection H as -> ->. apply dec_hashes_inv in Ed as [-> Hl]. cbn [fst snd]. auto.
Qed.
