(* Proofs/Ztyp.v : generic invariants of the ztyp combinators of Base/Ssz.v (C14):
     - a field decoder is [exact] when, run in a sub-scope, it succeeds only by consuming the whole sub-scope;
       its meaning is then a function of the chunk of bytes alone: cd_of f chunk
     - z_container fs succeeds on data  <->  data is what zs_container writes for per-field chunks that decode (cd_of)
     - z_container fs never panics when its fields never panic *)
From Shisui Require Import Base.Bytes Base.Ssz Proofs.Ssz.
From Coq Require Import ZifyBool ZifyN ZifyNat.
Ltac Zify.zify_post_hook ::= Z.div_mod_to_equations.

Local Arguments N.modulo : simpl never.
Local Arguments N.div : simpl never.
Local Arguments N.pow : simpl never.
Local Arguments N.mul : simpl never.
Local Arguments N.add : simpl never.
Local Arguments N.sub : simpl never.
Local Arguments N.ltb : simpl never.
Local Arguments N.leb : simpl never.
Local Arguments N.eqb : simpl never.
Local Arguments N.of_nat : simpl never.
Local Arguments N.to_nat : simpl never.

Lemma Ok_inj' {A} (a b : A) : @Ok A a = Ok b -> a = b.
Proof. intros H; now inversion H. Qed.

(* the reader after a child consumed c bytes of the shared input (the parent's index does not move) *)
Definition adv (r : rd) (c : N) : rd := mkrd (skipn (N.to_nat c) (rd_inp r)) (rd_i r) (rd_max r).

(* what a field decoder makes of a chunk of bytes handed to it as a complete scope *)
Definition cd_of (f : zdes) (s : bytes) : res field := bind (z_de f (mkrd s 0 (nlen s))) (fun '(v, _) => Ok v).

(* success in a scope of c bytes backed by at most c bytes of input means: the input was complete and all of it was read *)
Definition exact (f : zdes) : Prop :=
  forall s c v sub', nlen s <= c -> (z_fix f <> 0 -> c = z_fix f) ->
    z_de f (mkrd s 0 c) = Ok (v, sub') -> nlen s = c /\ rd_inp sub' = [].
Definition total (f : zdes) : Prop := forall r, z_de f r <> Panic.

(* the index never overtakes what the input can still deliver *)
Definition rinv (r : rd) : Prop := nlen (rd_inp r) + rd_i r <= rd_max r.

Lemma rd_sub_inv (f : zdes) r c v r' : exact f -> (z_fix f <> 0 -> c = z_fix f) ->
  rd_sub r c (z_de f) = Ok (v, r') ->
  c <= rd_scope r /\ c <= nlen (rd_inp r) /\ cd_of f (firstn (N.to_nat c) (rd_inp r)) = Ok v /\ r' = adv r c.
Proof.
  intros Hex Hfix. unfold rd_sub. destruct (rd_scope r <? c) eqn:Es; [discriminate|].
  set (s := firstn (N.to_nat c) (rd_inp r)).
  destruct (z_de f (mkrd s 0 c)) as [[v0 sub']| |] eqn:Ed; try discriminate.
  intros H; apply Ok_inj' in H. injection H as -> <-.
  assert (Ls : nlen s <= c) by (unfold s, nlen; rewrite firstn_length; lia).
  destruct (Hex s c v sub' Ls Hfix Ed) as [Hn He].
  assert (Hc : c <= nlen (rd_inp r)) by (unfold s, nlen in *; rewrite firstn_length in Hn; lia).
  split; [lia|]. split; [exact Hc|]. split.
  - unfold cd_of. rewrite Hn, Ed. reflexivity.
  - unfold adv. cbn [rd_inp]. rewrite He. change (length (@nil byte)) with 0%nat. rewrite Nat.sub_0_r.
    replace (length s) with (N.to_nat c) by (unfold nlen in Hn; lia). reflexivity.
Qed.

Lemma rd_sub_fwd (f : zdes) r c v : exact f -> (z_fix f <> 0 -> c = z_fix f) ->
  c <= rd_scope r -> c <= nlen (rd_inp r) -> cd_of f (firstn (N.to_nat c) (rd_inp r)) = Ok v ->
  rd_sub r c (z_de f) = Ok (v, adv r c).
Proof.
  intros Hex Hfix Hs Hc Hcd. unfold rd_sub. replace (rd_scope r <? c) with false by lia.
  set (s := firstn (N.to_nat c) (rd_inp r)) in *.
  assert (Hn : nlen s = c) by (unfold s; now apply nlen_firstn).
  unfold cd_of in Hcd. rewrite Hn in Hcd.
  destruct (z_de f (mkrd s 0 c)) as [[v0 sub']| |] eqn:Ed; cbn [bind] in Hcd; try discriminate.
  apply Ok_inj' in Hcd. subst v0.
  destruct (Hex s c v sub' ltac:(lia) Hfix Ed) as [_ He].
  unfold adv. cbn [rd_inp]. rewrite He. change (length (@nil byte)) with 0%nat. rewrite Nat.sub_0_r.
  replace (length s) with (N.to_nat c) by (unfold nlen in Hn; lia). reflexivity.
Qed.

Lemma rd_sub_total {A} (g : deser A) r c : (forall r0, g r0 <> Panic) -> rd_sub r c g <> Panic.
Proof.
  intros Ht. unfold rd_sub. destruct (rd_scope r <? c); [discriminate|].
  destruct (g _) as [[a s']| |] eqn:E; try discriminate. now apply Ht in E.
Qed.

Lemma rd_read_total r x : rd_read r x <> Panic.
Proof. unfold rd_read. destruct (x =? 0); [discriminate|]. destruct (_ <? _); [discriminate|]. destruct (_ <? _); discriminate. Qed.

Lemma rd_read_inv r x b r' : rd_read r x = Ok (b, r') ->
  x <= nlen (rd_inp r) /\ b = firstn (N.to_nat x) (rd_inp r) /\ rd_inp r' = skipn (N.to_nat x) (rd_inp r) /\
  rd_i r' = rd_i r + x /\ rd_max r' = rd_max r /\ (x <> 0 -> rd_i r + x <= rd_max r).
Proof.
  unfold rd_read. destruct (x =? 0) eqn:E0.
  - intros H; apply Ok_inj' in H. injection H as <- <-. assert (x = 0) by lia. subst x. change (N.to_nat 0) with 0%nat.
    cbn [firstn skipn]. repeat split; try reflexivity; lia.
  - destruct (rd_max r <? rd_i r + x) eqn:E1; [discriminate|]. destruct (nlen (rd_inp r) <? x) eqn:E2; [discriminate|].
    intros H; apply Ok_inj' in H. injection H as <- <-. cbn [rd_inp rd_i rd_max]. repeat split; try reflexivity; lia.
Qed.

Lemma rd_read_fwd r x : rd_i r + x <= rd_max r -> x <= nlen (rd_inp r) ->
  rd_read r x = Ok (firstn (N.to_nat x) (rd_inp r), mkrd (skipn (N.to_nat x) (rd_inp r)) (rd_i r + x) (rd_max r)).
Proof.
  intros H1 H2. unfold rd_read. destruct (x =? 0) eqn:E0.
  - assert (x = 0) by lia. subst x. change (N.to_nat 0) with 0%nat. cbn [firstn skipn]. destruct r. cbn. f_equal. f_equal. f_equal. lia.
  - replace (rd_max r <? rd_i r + x) with false by lia. replace (nlen (rd_inp r) <? x) with false by lia. reflexivity.
Qed.

(* ================================================================== Container, first loop *)
(* parts: per field the bytes it occupies in the fixed part (its chunk, or the 4 bytes of its offset) *)
Inductive al1 : list zdes -> list bytes -> list (option field) -> list N -> Prop :=
| al1_nil : al1 [] [] [] []
| al1_fix f fs p ps v slots offs :
    z_fix f <> 0 -> nlen p = z_fix f -> cd_of f p = Ok v -> al1 fs ps slots offs ->
    al1 (f :: fs) (p :: ps) (Some v :: slots) offs
| al1_dyn f fs p ps slots offs :
    z_fix f = 0 -> nlen p = 4 -> al1 fs ps slots offs ->
    al1 (f :: fs) (p :: ps) (None :: slots) (le_dec p :: offs).

Lemma pass1_inv : forall fs, Forall exact fs -> forall r prev slots offs p' r1,
  zc_pass1 fs r prev = Ok (slots, offs, p', r1) ->
  exists parts, al1 fs parts slots offs /\ rd_inp r = concat parts ++ rd_inp r1 /\ p' = prev + nlen (concat parts) /\
                rd_i r1 = rd_i r + 4 * nlen offs /\ rd_max r1 = rd_max r.
Proof.
  induction fs as [|f fs IH]; intros Hex r prev slots offs p' r1 H.
  - cbn [zc_pass1] in H. apply Ok_inj' in H. injection H as <- <- <- <-. exists []. cbn [concat app].
    repeat split; [constructor | unfold nlen; simpl; lia | unfold nlen; simpl; lia].
  - pose proof (Forall_inv Hex) as Hf. pose proof (Forall_inv_tail Hex) as Hfs. cbn [zc_pass1] in H.
    destruct (z_fix f =? 0) eqn:Efix; cbn [negb] in H.
    + destruct (rd_read r 4) as [[b ra]| |] eqn:Er; cbn [bind] in H; try discriminate.
      destruct (zc_pass1 fs ra (prev + 4)) as [[[[vs offs'] p''] r2]| |] eqn:Ep; cbn [bind] in H; try discriminate.
      apply Ok_inj' in H. injection H as <- <- <- <-.
      apply rd_read_inv in Er as (Hl & Hb & Hi & Hii & Hm & _).
      destruct (IH Hfs _ _ _ _ _ _ Ep) as (parts & Ha & Hin & Hp & Hi2 & Hm2).
      exists (b :: parts). subst b.
      assert (L4 : nlen (firstn (N.to_nat 4) (rd_inp r)) = 4) by (apply nlen_firstn; lia).
      split; [constructor; [lia|exact L4|exact Ha]|].
      split; [cbn [concat]; rewrite <- app_assoc, <- Hin, Hi; now rewrite firstn_skipn|].
      split; [cbn [concat]; rewrite nlen_app; lia|]. split; [rewrite nlen_cons; lia|congruence].
    + destruct (rd_sub r (z_fix f) (z_de f)) as [[v ra]| |] eqn:Es; cbn [bind] in H; try discriminate.
      destruct (zc_pass1 fs ra (prev + z_fix f)) as [[[[vs offs'] p''] r2]| |] eqn:Ep; cbn [bind] in H; try discriminate.
      apply Ok_inj' in H. injection H as <- <- <- <-.
      apply (rd_sub_inv f) in Es as (_ & Hl & Hcd & ->); [|exact Hf|reflexivity].
      destruct (IH Hfs _ _ _ _ _ _ Ep) as (parts & Ha & Hin & Hp & Hi2 & Hm2). cbn [adv rd_inp rd_i rd_max] in *.
      exists (firstn (N.to_nat (z_fix f)) (rd_inp r) :: parts).
      assert (Lp : nlen (firstn (N.to_nat (z_fix f)) (rd_inp r)) = z_fix f) by (apply nlen_firstn; lia).
      split; [constructor; [lia|exact Lp|exact Hcd|exact Ha]|].
      split; [cbn [concat]; rewrite <- app_assoc, <- Hin; now rewrite firstn_skipn|].
      split; [cbn [concat]; rewrite nlen_app; lia|]. split; assumption.
Qed.

Lemma pass1_fwd : forall fs parts slots offs, al1 fs parts slots offs -> Forall exact fs ->
  forall r prev rest, rinv r -> rd_inp r = concat parts ++ rest ->
  zc_pass1 fs r prev = Ok (slots, offs, prev + nlen (concat parts), mkrd rest (rd_i r + 4 * nlen offs) (rd_max r)).
Proof.
  induction 1 as [|f fs p ps v slots offs Hfix Hl Hcd Hal IH|f fs p ps slots offs Hfix Hl Hal IH]; intros Hex r prev rest Hinv Hin.
  - cbn [zc_pass1 concat app] in *. destruct r as [inp i mx]. cbn [rd_inp rd_i rd_max] in *. subst inp.
    f_equal. f_equal; [f_equal; unfold nlen; simpl; lia|]. f_equal. unfold nlen; simpl; lia.
  - pose proof (Forall_inv Hex) as Hf. pose proof (Forall_inv_tail Hex) as Hfs. cbn [zc_pass1].
    replace (z_fix f =? 0) with false by lia. cbn [negb].
    cbn [concat] in Hin. rewrite <- app_assoc in Hin.
    assert (Lp : length p = N.to_nat (z_fix f)) by (unfold nlen in Hl; lia).
    assert (Hlen : z_fix f <= nlen (rd_inp r)) by (rewrite Hin, nlen_app; lia).
    rewrite (rd_sub_fwd f r (z_fix f) v Hf); [| reflexivity | unfold rinv, rd_scope in *; lia | exact Hlen |].
    2:{ rewrite Hin. rewrite (firstn_app_exact p _ _ Lp). exact Hcd. }
    cbn [bind].
    rewrite (IH Hfs (adv r (z_fix f)) (prev + z_fix f) rest).
    + cbn [bind adv rd_i rd_max concat]. rewrite nlen_app. f_equal. f_equal. f_equal. lia.
    + unfold rinv, adv in *. cbn [rd_inp rd_i rd_max]. rewrite nlen_skipn. lia.
    + unfold adv. cbn [rd_inp]. rewrite Hin. now apply skipn_app_exact.
  - pose proof (Forall_inv_tail Hex) as Hfs. cbn [zc_pass1].
    replace (z_fix f =? 0) with true by lia. cbn [negb].
    cbn [concat] in Hin. rewrite <- app_assoc in Hin.
    assert (Lp : length p = 4%nat) by (unfold nlen in Hl; lia).
    assert (Hlen : 4 <= nlen (rd_inp r)) by (rewrite Hin, nlen_app; lia).
    rewrite rd_read_fwd by (unfold rinv in Hinv; lia). cbn [bind]. change (N.to_nat 4) with 4%nat.
    rewrite Hin, (firstn_app_exact p _ 4 Lp), (skipn_app_exact p _ 4 Lp).
    rewrite (IH Hfs _ (prev + 4) rest).
    + cbn [bind rd_i rd_max concat]. rewrite nlen_app, nlen_cons. f_equal. f_equal; [f_equal; lia|]. f_equal. lia.
    + unfold rinv in *. cbn [rd_inp rd_i rd_max]. rewrite Hin, nlen_app in Hinv. lia.
    + reflexivity.
Qed.

(* ================================================================== Container, second loop *)
Definition next_off (offs : list N) (scope : N) : N := match offs with o' :: _ => o' | [] => scope end.

Inductive al2 : list zdes -> list N -> N -> list bytes -> list field -> Prop :=
| al2_nil scope : al2 [] [] scope [] []
| al2_cons f ds off offs scope c cs v vs :
    cd_of f c = Ok v -> next_off offs scope = off + nlen c -> al2 ds offs scope cs vs ->
    al2 (f :: ds) (off :: offs) scope (c :: cs) (v :: vs).

Definition is_dyn (f : zdes) : Prop := z_fix f = 0.

Lemma pass2_inv : forall ds, Forall exact ds -> Forall is_dyn ds -> forall offs scope r vs r2,
  zc_pass2 ds offs scope r = Ok (vs, r2) ->
  exists cs, al2 ds offs scope cs vs /\ rd_inp r = concat cs ++ rd_inp r2 /\ rd_i r2 = rd_i r /\ rd_max r2 = rd_max r.
Proof.
  induction ds as [|f ds IH]; intros Hex Hdyn offs scope r vs r2 H.
  - destruct offs; cbn [zc_pass2] in H; [|discriminate]. apply Ok_inj' in H. injection H as <- <-.
    exists []. repeat split. constructor.
  - destruct offs as [|off offs]; cbn [zc_pass2] in H; [discriminate|].
    fold (next_off offs scope) in H.
    destruct (next_off offs scope <? off) eqn:En; [discriminate|].
    destruct (rd_sub r (next_off offs scope - off) (z_de f)) as [[v ra]| |] eqn:Es; cbn [bind] in H; try discriminate.
    destruct (zc_pass2 ds offs scope ra) as [[vs' rb]| |] eqn:Ep; cbn [bind] in H; try discriminate.
    apply Ok_inj' in H. injection H as <- <-.
    pose proof (Forall_inv Hdyn) as Hd. unfold is_dyn in Hd.
    apply (rd_sub_inv f) in Es as (_ & Hl & Hcd & ->); [|exact (Forall_inv Hex)|intros; lia].
    destruct (IH (Forall_inv_tail Hex) (Forall_inv_tail Hdyn) _ _ _ _ _ Ep) as (cs & Ha & Hin & Hi & Hm).
    cbn [adv rd_inp rd_i rd_max] in *.
    set (c := next_off offs scope - off) in *.
    exists (firstn (N.to_nat c) (rd_inp r) :: cs).
    split; [constructor; [exact Hcd | rewrite nlen_firstn by exact Hl; unfold c; lia | exact Ha]|].
    split; [cbn [concat]; rewrite <- app_assoc, <- Hin; now rewrite firstn_skipn|]. split; assumption.
Qed.

Lemma pass2_fwd : forall ds offs scope cs vs, al2 ds offs scope cs vs -> Forall exact ds -> Forall is_dyn ds ->
  forall r rest, rinv r -> rd_inp r = concat cs ++ rest ->
  zc_pass2 ds offs scope r = Ok (vs, mkrd rest (rd_i r) (rd_max r)).
Proof.
  induction 1 as [scope|f ds off offs scope c cs v vs Hcd Hn Hal IH]; intros Hex Hdyn r rest Hinv Hin.
  - cbn [zc_pass2 concat app] in *. destruct r as [inp i mx]. cbn [rd_inp rd_i rd_max] in *. now subst inp.
  - cbn [zc_pass2]. fold (next_off offs scope). rewrite Hn.
    replace (off + nlen c <? off) with false by lia. replace (off + nlen c - off) with (nlen c) by lia.
    cbn [concat] in Hin. rewrite <- app_assoc in Hin.
    pose proof (Forall_inv Hdyn) as Hd. unfold is_dyn in Hd.
    assert (Hlen : nlen c <= nlen (rd_inp r)) by (rewrite Hin, nlen_app; lia).
    rewrite (rd_sub_fwd f r (nlen c) v (Forall_inv Hex)); [| intros; lia | unfold rinv, rd_scope in *; lia | exact Hlen |].
    2:{ rewrite Hin. unfold nlen. rewrite Nat2N.id. rewrite (firstn_app_exact c _ _ eq_refl). exact Hcd. }
    cbn [bind].
    rewrite (IH (Forall_inv_tail Hex) (Forall_inv_tail Hdyn) (adv r (nlen c)) rest).
    + reflexivity.
    + unfold rinv, adv in *. cbn [rd_inp rd_i rd_max]. rewrite nlen_skipn. lia.
    + unfold adv. cbn [rd_inp]. rewrite Hin. unfold nlen. rewrite Nat2N.id. now apply skipn_app_exact.
Qed.

(* ================================================================== merging fixed and dynamic values *)
Inductive mrg : list (option field) -> list field -> list field -> Prop :=
| mrg_nil d : mrg [] d []
| mrg_some v slots d vs : mrg slots d vs -> mrg (Some v :: slots) d (v :: vs)
| mrg_none slots x d vs : mrg slots d vs -> mrg (None :: slots) (x :: d) (x :: vs).

Lemma merge_inv : forall slots d vs, zc_merge slots d = Ok vs -> mrg slots d vs.
Proof.
  induction slots as [|[v|] slots IH]; intros d vs H; cbn [zc_merge] in H.
  - apply Ok_inj' in H. subst. constructor.
  - destruct (zc_merge slots d) as [vs'| |] eqn:E; cbn [bind] in H; try discriminate.
    apply Ok_inj' in H. subst. constructor. now apply IH.
  - destruct d as [|x d]; [discriminate|].
    destruct (zc_merge slots d) as [vs'| |] eqn:E; cbn [bind] in H; try discriminate.
    apply Ok_inj' in H. subst. constructor. now apply IH.
Qed.
Lemma merge_fwd : forall slots d vs, mrg slots d vs -> zc_merge slots d = Ok vs.
Proof. induction 1; cbn [zc_merge]; [reflexivity| |]; rewrite IHmrg; reflexivity. Qed.

(* ================================================================== the encoder side: chunks per field *)
Inductive fo3 : list zdes -> list bytes -> list field -> Prop :=
| fo3_nil : fo3 [] [] []
| fo3_cons f fs c cs v vs :
    cd_of f c = Ok v -> (z_fix f <> 0 -> nlen c = z_fix f) -> fo3 fs cs vs -> fo3 (f :: fs) (c :: cs) (v :: vs).

Fixpoint sers (fs : list zdes) (cs : list bytes) : list zser :=
  match fs, cs with f :: fs', c :: cs' => mkzser (z_fix f) c :: sers fs' cs' | _, _ => [] end.
Definition dyn_fs (fs : list zdes) : list zdes := filter (fun f => z_fix f =? 0) fs.
Fixpoint dyn_sel {A} (fs : list zdes) (xs : list A) : list A :=
  match fs, xs with
  | f :: fs', x :: xs' => if z_fix f =? 0 then x :: dyn_sel fs' xs' else dyn_sel fs' xs'
  | _, _ => []
  end.
Fixpoint fixedlen (fs : list zdes) : N :=
  match fs with [] => 0 | f :: r => (if z_fix f =? 0 then 4 else z_fix f) + fixedlen r end.
Fixpoint offs_chain (o : N) (cs : list bytes) : list N :=
  match cs with [] => [] | c :: r => o :: offs_chain (o + nlen c) r end.

Lemma dyn_fs_exact fs : Forall exact fs -> Forall exact (dyn_fs fs).
Proof. intros H. apply Forall_forall. intros f Hf. apply filter_In in Hf as [Hf _]. rewrite Forall_forall in H. now apply H. Qed.
Lemma dyn_fs_dyn fs : Forall is_dyn (dyn_fs fs).
Proof. apply Forall_forall. intros f Hf. apply filter_In in Hf as [_ Hf]. unfold is_dyn. lia. Qed.

Lemma al1_len fs parts slots offs : al1 fs parts slots offs ->
  nlen (concat parts) = fixedlen fs /\ 4 * nlen offs <= fixedlen fs /\ length offs = length (dyn_fs fs) /\
  Forall (fun o => o < two32) offs.
Proof.
  induction 1 as [|f fs p ps v slots offs Hfix Hl Hcd Hal IH|f fs p ps slots offs Hfix Hl Hal IH].
  - cbn. repeat split; try (unfold nlen; simpl; lia). constructor.
  - destruct IH as (I1 & I2 & I3 & I4). cbn [concat fixedlen dyn_fs filter]. rewrite nlen_app.
    replace (z_fix f =? 0) with false by lia. repeat split; [lia|lia|exact I3|exact I4].
  - destruct IH as (I1 & I2 & I3 & I4). cbn [concat fixedlen dyn_fs filter]. rewrite nlen_app, nlen_cons.
    replace (z_fix f =? 0) with true by lia. repeat split; [lia|lia|simpl; fold (dyn_fs fs); lia|].
    constructor; [|exact I4]. pose proof (le_dec_lt p) as B. replace (length p) with 4%nat in B by (unfold nlen in Hl; lia). exact B.
Qed.

Lemma zs_fixedlen_sers fs cs : length cs = length fs -> zs_fixedlen (sers fs cs) = fixedlen fs.
Proof.
  unfold zs_fixedlen. assert (G : forall fs cs acc, length cs = length fs ->
    fold_left (fun acc f => if negb (s_fix f =? 0) then acc + s_fix f else acc + 4) (sers fs cs) acc = acc + fixedlen fs).
  { clear. induction fs as [|f fs IH]; intros [|c cs] acc L; try discriminate L; cbn [sers fold_left fixedlen]; [lia|].
    rewrite IH by (simpl in L; lia). cbn [s_fix]. destruct (z_fix f =? 0); cbn [negb]; lia. }
  intros L. rewrite G by exact L. lia.
Qed.

Lemma zs_dyn_sers fs cs : length cs = length fs -> zs_dyn (sers fs cs) = concat (dyn_sel fs cs).
Proof.
  unfold zs_dyn. revert cs; induction fs as [|f fs IH]; intros [|c cs] L; try discriminate L; [reflexivity|].
  cbn [sers filter dyn_sel s_fix]. destruct (z_fix f =? 0); cbn [map concat s_bytes]; rewrite IH by (simpl in L; lia); reflexivity.
Qed.

Lemma fo3_len fs cs vs : fo3 fs cs vs -> length cs = length fs /\ length vs = length fs.
Proof. induction 1 as [|? ? ? ? ? ? ? ? ? [I1 I2]]; [split; reflexivity|]. simpl; lia. Qed.

(* the dynamic part seen by the second loop *)
Lemma fo3_al2 fs cs vs : fo3 fs cs vs -> forall o,
  al2 (dyn_fs fs) (offs_chain o (dyn_sel fs cs)) (o + total_len (dyn_sel fs cs)) (dyn_sel fs cs) (dyn_sel fs vs).
Proof.
  induction 1 as [|f fs c cs v vs Hcd Hfix H IH]; intros o; [constructor|].
  cbn [dyn_fs filter dyn_sel]. fold (dyn_fs fs). destruct (z_fix f =? 0) eqn:E; [|apply IH].
  cbn [offs_chain total_len]. replace (o + (nlen c + total_len (dyn_sel fs cs))) with (o + nlen c + total_len (dyn_sel fs cs)) by lia.
  constructor; [exact Hcd | | apply IH].
  destruct (dyn_sel fs cs) as [|c' r]; cbn [offs_chain next_off total_len]; lia.
Qed.

(* the fixed part the encoder writes, described through al1 *)
Lemma zs_pass1_spec fs cs vs : fo3 fs cs vs -> forall po ps fp,
  zs_pass1 (sers fs cs) po ps = Ok fp ->
  exists parts slots, al1 fs parts slots (offs_chain (po + ps) (dyn_sel fs cs)) /\ concat parts = fp /\ mrg slots (dyn_sel fs vs) vs.
Proof.
  induction 1 as [|f fs c cs v vs Hcd Hfix H IH]; intros po ps fp Hz.
  - cbn [sers zs_pass1] in Hz. apply Ok_inj' in Hz. subst fp. exists [], []. repeat split; constructor.
  - cbn [sers zs_pass1 s_fix s_bytes] in Hz. cbn [dyn_sel]. destruct (z_fix f =? 0) eqn:E; cbn [negb] in Hz.
    + unfold z_write_offset in Hz.
      destruct ((two32 <=? po) || (two32 <=? ps) || (two32 <=? po + ps)) eqn:Ew; [discriminate|]. cbn [bind] in Hz.
      destruct (zs_pass1 (sers fs cs) (po + ps) (nlen c)) as [t| |] eqn:Et; cbn [bind] in Hz; try discriminate.
      apply Ok_inj' in Hz. subst fp. destruct (IH _ _ _ Et) as (parts & slots & Ha & Hc & Hm).
      exists (u32_enc (po + ps) :: parts), (None :: slots). cbn [offs_chain].
      split; [|split; [cbn [concat]; now rewrite Hc | now constructor]].
      replace (po + ps) with (le_dec (u32_enc (po + ps))) at 2 by (apply (le_dec_enc 4); change (256 ^ N.of_nat 4) with two32; lia).
      constructor; [lia | unfold u32_enc; now rewrite nlen_le_enc | exact Ha].
    + destruct (zs_pass1 (sers fs cs) po ps) as [t| |] eqn:Et; cbn [bind] in Hz; try discriminate.
      apply Ok_inj' in Hz. subst fp. destruct (IH _ _ _ Et) as (parts & slots & Ha & Hc & Hm).
      exists (c :: parts), (Some v :: slots).
      split; [constructor; [lia | apply Hfix; lia | exact Hcd | exact Ha]|]. split; [cbn [concat]; now rewrite Hc | now constructor].
Qed.

(* ================================================================== Theorem A: what the encoder writes, the decoder reads back *)
Theorem container_fwd fs cs vs data :
  Forall exact fs -> fo3 fs cs vs -> zs_container (sers fs cs) = Ok data ->
  exists r', z_container fs (rd_new data) = Ok (vs, r') /\ rd_inp r' = [].
Proof.
  intros Hex Hfo Hz. destruct (fo3_len _ _ _ Hfo) as [Lc Lv].
  unfold zs_container in Hz. rewrite (zs_fixedlen_sers fs cs Lc), (zs_dyn_sers fs cs Lc) in Hz.
  destruct (zs_pass1 (sers fs cs) (fixedlen fs) 0) as [fp| |] eqn:Ep; cbn [bind] in Hz; try discriminate.
  apply Ok_inj' in Hz. subst data.
  destruct (zs_pass1_spec _ _ _ Hfo _ _ _ Ep) as (parts & slots & Ha & Hc & Hm). subst fp.
  destruct (al1_len _ _ _ _ Ha) as (Hlen & H4 & Hlo & _).
  set (dcs := dyn_sel fs cs) in *. set (data := concat parts ++ concat dcs).
  assert (Hinv : rinv (rd_new data)) by (unfold rinv, rd_new; cbn [rd_inp rd_i rd_max]; lia).
  unfold z_container.
  rewrite (pass1_fwd fs parts slots _ Ha Hex (rd_new data) 0 (concat dcs) Hinv eq_refl). cbn [bind].
  replace (fixedlen fs + 0) with (fixedlen fs) in * by lia.
  destruct dcs as [|c0 dcs'] eqn:Ed.
  - cbn [offs_chain]. assert (Hdv : dyn_sel fs vs = []).
    { pose proof (fo3_al2 _ _ _ Hfo 0) as Hal. fold dcs in Hal. rewrite Ed in Hal. cbn [offs_chain] in Hal. inversion Hal; subst; congruence. }
    rewrite Hdv in Hm. rewrite (merge_fwd _ _ _ Hm). cbn [bind]. eexists; split; [reflexivity|reflexivity].
  - cbn [offs_chain]. rewrite Hlen. replace (0 + fixedlen fs =? fixedlen fs) with true by lia. cbn [negb].
    fold (dyn_fs fs).
    pose proof (fo3_al2 _ _ _ Hfo (fixedlen fs)) as Hal. fold dcs in Hal. rewrite Ed in Hal.
    assert (Hscope : rd_scope (rd_new data) = fixedlen fs + total_len (c0 :: dcs')).
    { unfold rd_scope, rd_new. cbn [rd_max rd_i]. unfold data. rewrite nlen_app, Hlen, nlen_concat. lia. }
    rewrite Hscope. cbn [offs_chain] in Hal.
    rewrite (pass2_fwd _ _ _ _ _ Hal (dyn_fs_exact _ Hex) (dyn_fs_dyn fs) _ []).
    + cbn [bind]. rewrite (merge_fwd _ _ _ Hm). cbn [bind]. eexists; split; reflexivity.
    + unfold rinv. cbn [rd_inp rd_i rd_max]. unfold rd_new. cbn [rd_i rd_max]. unfold data. rewrite nlen_app, Hlen.
      cbn [offs_chain] in H4. lia.
    + cbn [rd_inp]. now rewrite app_nil_r.
Qed.

(* ================================================================== Theorem B: what the decoder accepts, the encoder writes *)
Lemma al2_chain_inv ds offs scope cs vs : al2 ds offs scope cs vs ->
  match offs with [] => cs = [] | o0 :: _ => offs = offs_chain o0 cs /\ scope = o0 + total_len cs end.
Proof.
  induction 1 as [scope|f ds off offs scope c cs v vs Hcd Hn Hal IH]; [reflexivity|].
  destruct offs as [|o' offs'].
  - subst cs. cbn [offs_chain total_len next_off] in *. split; [reflexivity|lia].
  - destruct IH as [IH1 IH2]. cbn [next_off] in Hn. cbn [offs_chain total_len]. subst o'. split; [now rewrite <- IH1|lia].
Qed.

Lemma zs_pass1_build : forall fs parts slots offs, al1 fs parts slots offs ->
  forall scope dcs dvs vs po ps,
    al2 (dyn_fs fs) offs scope dcs dvs -> mrg slots dvs vs ->
    match offs with o :: _ => o = po + ps /\ po < two32 /\ ps < two32 | [] => True end ->
    exists cs, fo3 fs cs vs /\ dyn_sel fs cs = dcs /\ zs_pass1 (sers fs cs) po ps = Ok (concat parts).
Proof.
  induction 1 as [|f fs p ps0 v slots offs Hfix Hl Hcd Hal IH|f fs p ps0 slots offs Hfix Hl Hal IH];
    intros scope dcs dvs vs po ps H2 Hm Hinv.
  - cbn [dyn_fs filter] in H2. inversion H2; subst. inversion Hm; subst. exists []. repeat split; constructor.
  - cbn [dyn_fs filter] in H2. replace (z_fix f =? 0) with false in H2 by lia. fold (dyn_fs fs) in H2.
    inversion Hm as [|v0 slots0 d0 vs' Hm'|]; subst.
    destruct (IH _ _ _ _ po ps H2 Hm' Hinv) as (cs & Hfo & Hsel & Hz).
    exists (p :: cs). split; [constructor; [exact Hcd|intros _; exact Hl|exact Hfo]|].
    cbn [dyn_sel sers zs_pass1 s_fix s_bytes concat]. replace (z_fix f =? 0) with false by lia. cbn [negb].
    split; [exact Hsel|]. rewrite Hz. reflexivity.
  - cbn [dyn_fs filter] in H2. replace (z_fix f =? 0) with true in H2 by lia. fold (dyn_fs fs) in H2.
    inversion H2 as [|f0 ds0 off0 offs0 scope0 c cs0 v vs0 Hcd Hn H2']; subst.
    inversion Hm as [| |slots0 x0 d0 vs' Hm']; subst.
    destruct Hinv as (Ho & Hpo & Hps).
    assert (Lp : length p = 4%nat) by (unfold nlen in Hl; lia).
    assert (Hlt : le_dec p < two32) by (pose proof (le_dec_lt p) as B; rewrite Lp in B; exact B).
    destruct (al1_len _ _ _ _ Hal) as (_ & _ & _ & Hall).
    destruct (IH _ _ _ _ (po + ps) (nlen c) H2' Hm') as (cs & Hfo & Hsel & Hz).
    { destruct offs as [|o' offs']; [exact I|]. cbn [next_off] in Hn. pose proof (Forall_inv Hall) as Ho'. cbv beta in Ho'.
      repeat split; lia. }
    exists (c :: cs). split; [constructor; [exact Hcd|intros; lia|exact Hfo]|].
    cbn [dyn_sel sers zs_pass1 s_fix s_bytes concat]. replace (z_fix f =? 0) with true by lia. cbn [negb].
    split; [now rewrite Hsel|]. unfold z_write_offset.
    replace ((two32 <=? po) || (two32 <=? ps) || (two32 <=? po + ps)) with false by lia. cbn [bind]. rewrite Hz. cbn [bind].
    rewrite <- Ho. unfold u32_enc. rewrite le_enc_of_dec by exact Lp. reflexivity.
Qed.

Definition has_dyn (fs : list zdes) : Prop := dyn_fs fs <> [].

Theorem container_inv fs data vs r' :
  Forall exact fs -> has_dyn fs -> z_container fs (rd_new data) = Ok (vs, r') ->
  exists cs, fo3 fs cs vs /\ zs_container (sers fs cs) = Ok data.
Proof.
  intros Hex Hdyn H. unfold z_container in H.
  destruct (zc_pass1 fs (rd_new data) 0) as [[[[slots offs] prev] r1]| |] eqn:E1; cbn [bind] in H; try discriminate.
  destruct (pass1_inv fs Hex _ _ _ _ _ _ E1) as (parts & Ha & Hin & Hp & Hi & Hm). cbn [rd_new rd_inp rd_i rd_max] in *.
  destruct (al1_len _ _ _ _ Ha) as (Hlen & H4 & Hlo & Hall).
  destruct offs as [|o0 offs'].
  { exfalso. apply Hdyn. destruct (dyn_fs fs); [reflexivity|discriminate Hlo]. }
  destruct (prev =? o0) eqn:Eo; cbn [negb] in H; [|discriminate].
  fold (dyn_fs fs) in H.
  destruct (zc_pass2 (dyn_fs fs) (o0 :: offs') (rd_scope (rd_new data)) r1) as [[dvs r2]| |] eqn:E2; cbn [bind] in H; try discriminate.
  destruct (zc_merge slots dvs) as [vs'| |] eqn:E3; cbn [bind] in H; try discriminate.
  apply Ok_inj' in H. injection H as <- <-.
  destruct (pass2_inv _ (dyn_fs_exact _ Hex) (dyn_fs_dyn fs) _ _ _ _ _ E2) as (dcs & Ha2 & Hin2 & _ & _).
  apply merge_inv in E3.
  pose proof (al2_chain_inv _ _ _ _ _ Ha2) as [_ Hscope]. unfold rd_scope, rd_new in Hscope. cbn [rd_max rd_i] in Hscope.
  assert (Ho0 : o0 = fixedlen fs) by lia.
  destruct (zs_pass1_build _ _ _ _ Ha _ _ _ _ (fixedlen fs) 0 Ha2 E3) as (cs & Hfo & Hsel & Hz).
  { pose proof (Forall_inv Hall) as B. cbv beta in B. repeat split; unfold two32 in *; lia. }
  exists cs. split; [exact Hfo|]. destruct (fo3_len _ _ _ Hfo) as [Lc _].
  unfold zs_container. rewrite (zs_fixedlen_sers fs cs Lc), (zs_dyn_sers fs cs Lc), Hz, Hsel. cbn [bind].
  f_equal. rewrite Hin, Hin2.
  assert (Hr2 : rd_inp r2 = []).
  { assert (nlen (rd_inp r2) = 0).
    { pose proof (f_equal nlen Hin) as HL. rewrite nlen_app, Hlen, Hin2, nlen_app, nlen_concat in HL. lia. }
    destruct (rd_inp r2); [reflexivity|]. rewrite nlen_cons in H. lia. }
  rewrite Hr2. now rewrite app_nil_r.
Qed.

(* ================================================================== totality of the Container combinators *)
Fixpoint nones (slots : list (option field)) : nat :=
  match slots with [] => 0 | None :: r => S (nones r) | Some _ :: r => nones r end.

Lemma pass1_total : forall fs, Forall total fs -> forall r p, zc_pass1 fs r p <> Panic.
Proof.
  induction fs as [|f fs IH]; intros Ht r p; cbn [zc_pass1]; [discriminate|].
  pose proof (Forall_inv Ht) as Hf. pose proof (Forall_inv_tail Ht) as Hfs.
  destruct (negb (z_fix f =? 0)).
  - destruct (rd_sub r (z_fix f) (z_de f)) as [[v ra]| |] eqn:E; cbn [bind]; try discriminate.
    + destruct (zc_pass1 fs ra (p + z_fix f)) as [[[[a b] c] d]| |] eqn:E2; cbn [bind]; try discriminate. now apply IH in E2.
    + now apply (rd_sub_total (z_de f) r (z_fix f) Hf) in E.
  - destruct (rd_read r 4) as [[b ra]| |] eqn:E; cbn [bind]; try discriminate.
    + destruct (zc_pass1 fs ra (p + 4)) as [[[[a b'] c] d]| |] eqn:E2; cbn [bind]; try discriminate. now apply IH in E2.
    + now apply rd_read_total in E.
Qed.

Lemma pass1_shape : forall fs r p slots offs p' r1, zc_pass1 fs r p = Ok (slots, offs, p', r1) ->
  length offs = length (dyn_fs fs) /\ nones slots = length offs.
Proof.
  induction fs as [|f fs IH]; intros r p slots offs p' r1 H; cbn [zc_pass1] in H.
  - apply Ok_inj' in H. injection H as <- <- _ _. split; reflexivity.
  - cbn [dyn_fs filter]. fold (dyn_fs fs). destruct (z_fix f =? 0); cbn [negb] in H.
    + destruct (rd_read r 4) as [[b ra]| |]; cbn [bind] in H; try discriminate.
      destruct (zc_pass1 fs ra (p + 4)) as [[[[a b'] c] d]| |] eqn:E2; cbn [bind] in H; try discriminate.
      apply Ok_inj' in H. injection H as <- <- _ _. apply IH in E2 as [I1 I2]. cbn [length nones]. split; lia.
    + destruct (rd_sub r (z_fix f) (z_de f)) as [[v ra]| |]; cbn [bind] in H; try discriminate.
      destruct (zc_pass1 fs ra (p + z_fix f)) as [[[[a b'] c] d]| |] eqn:E2; cbn [bind] in H; try discriminate.
      apply Ok_inj' in H. injection H as <- <- _ _. apply IH in E2 as [I1 I2]. cbn [length nones]. split; lia.
Qed.

Lemma pass2_total : forall ds, Forall total ds -> forall offs scope r, length offs = length ds -> zc_pass2 ds offs scope r <> Panic.
Proof.
  induction ds as [|f ds IH]; intros Ht [|off offs] scope r L; try discriminate L; cbn [zc_pass2]; [discriminate|].
  destruct (_ <? off); [discriminate|].
  destruct (rd_sub r _ (z_de f)) as [[v ra]| |] eqn:E; cbn [bind]; try discriminate.
  - destruct (zc_pass2 ds offs scope ra) as [[a b]| |] eqn:E2; cbn [bind]; try discriminate.
    apply (IH (Forall_inv_tail Ht)) in E2; [destruct E2|simpl in L; lia].
  - now apply (rd_sub_total (z_de f) r _ (Forall_inv Ht)) in E.
Qed.

Lemma pass2_len : forall ds offs scope r vs r2, zc_pass2 ds offs scope r = Ok (vs, r2) -> length vs = length ds.
Proof.
  induction ds as [|f ds IH]; intros [|off offs] scope r vs r2 H; cbn [zc_pass2] in H; try discriminate.
  - apply Ok_inj' in H. injection H as <- _. reflexivity.
  - destruct (_ <? off); [discriminate|].
    destruct (rd_sub r _ (z_de f)) as [[v ra]| |]; cbn [bind] in H; try discriminate.
    destruct (zc_pass2 ds offs scope ra) as [[a b]| |] eqn:E2; cbn [bind] in H; try discriminate.
    apply Ok_inj' in H. injection H as <- _. apply IH in E2. simpl. lia.
Qed.

Lemma merge_total : forall slots d, (nones slots <= length d)%nat -> zc_merge slots d <> Panic.
Proof.
  induction slots as [|[v|] slots IH]; intros d L; cbn [zc_merge]; [discriminate| |].
  - destruct (zc_merge slots d) eqn:E; cbn [bind]; try discriminate. now apply IH in E.
  - destruct d as [|x d]; [simpl in L; lia|]. destruct (zc_merge slots d) eqn:E; cbn [bind]; try discriminate.
    apply IH in E; [destruct E|simpl in L; lia].
Qed.

Theorem container_total fs r : Forall total fs -> z_container fs r <> Panic.
Proof.
  intros Ht. unfold z_container.
  destruct (zc_pass1 fs r 0) as [[[[slots offs] prev] r1]| |] eqn:E1; cbn [bind]; try discriminate.
  2:{ now apply pass1_total in E1. }
  destruct (pass1_shape _ _ _ _ _ _ _ E1) as [Hlo Hn].
  destruct offs as [|o0 offs'].
  - destruct (zc_merge slots []) eqn:E; cbn [bind]; try discriminate. apply merge_total in E; [destruct E|simpl in *; lia].
  - destruct (negb (prev =? o0)); [discriminate|]. fold (dyn_fs fs).
    assert (Htd : Forall total (dyn_fs fs)).
    { apply Forall_forall. intros f Hf. apply filter_In in Hf as [Hf _]. rewrite Forall_forall in Ht. now apply Ht. }
    destruct (zc_pass2 (dyn_fs fs) (o0 :: offs') (rd_scope r) r1) as [[dvs r2]| |] eqn:E2; cbn [bind]; try discriminate.
    + destruct (zc_merge slots dvs) eqn:E; cbn [bind]; try discriminate.
      apply merge_total in E; [destruct E|]. apply pass2_len in E2. lia.
    + apply (pass2_total _ Htd) in E2; [destruct E2|exact Hlo].
Qed.

Theorem fixed_container_total fs : Forall total fs -> forall r, z_fixed_container fs r <> Panic.
Proof.
  induction fs as [|f fs IH]; intros Ht r; cbn [z_fixed_container]; [discriminate|].
  destruct (z_de f r) as [[v r1]| |] eqn:E; cbn [bind]; try discriminate.
  - destruct (z_fixed_container fs r1) as [[vs r2]| |] eqn:E2; cbn [bind]; try discriminate. now apply (IH (Forall_inv_tail Ht)) in E2.
  - now apply (Forall_inv Ht) in E.
Qed.

(* ================================================================== leaf fields *)
Lemma exact_bytesN n : n <> 0 -> exact (z_bytesN n).
Proof.
  intros Hn s c v sub' Hl Hfix H. cbn [z_fix z_bytesN] in Hfix. specialize (Hfix Hn). subst c.
  cbn [z_de z_bytesN] in H. destruct (rd_read _ n) as [[b r1]| |] eqn:E; cbn [bind] in H; try discriminate.
  apply Ok_inj' in H. injection H as _ <-. apply rd_read_inv in E as (H1 & _ & H3 & _). cbn [rd_inp] in *.
  split; [lia|]. rewrite H3. apply skipn_all2. unfold nlen in *. lia.
Qed.
Lemma total_bytesN n : total (z_bytesN n).
Proof. intros r. cbn [z_de z_bytesN]. destruct (rd_read r n) as [[b r1]| |] eqn:E; cbn [bind]; try discriminate. now apply rd_read_total in E. Qed.
Lemma cd_bytesN n s : n <> 0 -> nlen s = n -> cd_of (z_bytesN n) s = Ok (FB s).
Proof.
  intros Hn Hl. unfold cd_of. cbn [z_de z_bytesN]. rewrite rd_read_fwd by (cbn [rd_i rd_max rd_inp]; lia). cbn [bind rd_inp].
  rewrite firstn_all2 by (unfold nlen in Hl; lia). reflexivity.
Qed.

Lemma exact_uint w : w <> 0 -> exact (z_uint w).
Proof.
  intros Hn s c v sub' Hl Hfix H. cbn [z_fix z_uint] in Hfix. specialize (Hfix Hn). subst c.
  cbn [z_de z_uint] in H. destruct (rd_read _ w) as [[b r1]| |] eqn:E; cbn [bind] in H; try discriminate.
  apply Ok_inj' in H. injection H as _ <-. apply rd_read_inv in E as (H1 & _ & H3 & _). cbn [rd_inp] in *.
  split; [lia|]. rewrite H3. apply skipn_all2. unfold nlen in *. lia.
Qed.
Lemma total_uint w : total (z_uint w).
Proof. intros r. cbn [z_de z_uint]. destruct (rd_read r w) as [[b r1]| |] eqn:E; cbn [bind]; try discriminate. now apply rd_read_total in E. Qed.
Lemma cd_uint w s : w <> 0 -> nlen s = w -> cd_of (z_uint w) s = Ok (FN (le_dec s)).
Proof.
  intros Hn Hl. unfold cd_of. cbn [z_de z_uint]. rewrite rd_read_fwd by (cbn [rd_i rd_max rd_inp]; lia). cbn [bind rd_inp].
  rewrite firstn_all2 by (unfold nlen in Hl; lia). reflexivity.
Qed.

Lemma exact_bytelist L : exact (z_bytelist L).
Proof.
  intros s c v sub' Hl _ H. cbn [z_de z_bytelist] in H. unfold rd_scope in H. cbn [rd_max rd_i] in H.
  replace (c - 0) with c in H by lia. destruct (L <? c); [discriminate|].
  destruct (rd_read _ c) as [[b r1]| |] eqn:E; cbn [bind] in H; try discriminate.
  apply Ok_inj' in H. injection H as _ <-. apply rd_read_inv in E as (H1 & _ & H3 & _). cbn [rd_inp] in *.
  split; [lia|]. rewrite H3. apply skipn_all2. unfold nlen in *. lia.
Qed.
Lemma total_bytelist L : total (z_bytelist L).
Proof.
  intros r. cbn [z_de z_bytelist]. destruct (L <? rd_scope r); [discriminate|].
  destruct (rd_read r _) as [[b r1]| |] eqn:E; cbn [bind]; try discriminate. now apply rd_read_total in E.
Qed.
Lemma cd_bytelist L s : cd_of (z_bytelist L) s = if L <? nlen s then Err E_BYTESLEN else Ok (FB s).
Proof.
  unfold cd_of. cbn [z_de z_bytelist]. unfold rd_scope. cbn [rd_max rd_i]. replace (nlen s - 0) with (nlen s) by lia.
  destruct (L <? nlen s); [reflexivity|]. rewrite rd_read_fwd by (cbn [rd_i rd_max rd_inp]; lia). cbn [bind rd_inp].
  unfold nlen. rewrite Nat2N.id, firstn_all. reflexivity.
Qed.

(* a proof device: the dynamic field that takes its whole scope as opaque bytes *)
Definition z_rawbytes : zdes := mkzdes 0 (fun r => bind (rd_read r (rd_scope r)) (fun '(b, r') => Ok (FB b, r'))).
Lemma exact_rawbytes : exact z_rawbytes.
Proof.
  intros s c v sub' Hl _ H. cbn [z_de z_rawbytes] in H. unfold rd_scope in H. cbn [rd_max rd_i] in H.
  replace (c - 0) with c in H by lia.
  destruct (rd_read _ c) as [[b r1]| |] eqn:E; cbn [bind] in H; try discriminate.
  apply Ok_inj' in H. injection H as _ <-. apply rd_read_inv in E as (H1 & _ & H3 & _). cbn [rd_inp] in *.
  split; [lia|]. rewrite H3. apply skipn_all2. unfold nlen in *. lia.
Qed.
Lemma cd_rawbytes s : cd_of z_rawbytes s = Ok (FB s).
Proof.
  unfold cd_of. cbn [z_de z_rawbytes]. unfold rd_scope. cbn [rd_max rd_i]. replace (nlen s - 0) with (nlen s) by lia.
  rewrite rd_read_fwd by (cbn [rd_i rd_max rd_inp]; lia). cbn [bind rd_inp]. unfold nlen. rewrite Nat2N.id, firstn_all. reflexivity.
Qed.

(* ================================================================== the container layout determines the chunks *)
Definition raw_of (f : zdes) : zdes := if z_fix f =? 0 then z_rawbytes else z_bytesN (z_fix f).
Inductive sized : list zdes -> list bytes -> Prop :=
| sized_nil : sized [] []
| sized_cons f fs c cs : (z_fix f <> 0 -> nlen c = z_fix f) -> sized fs cs -> sized (f :: fs) (c :: cs).

Lemma sers_raw fs cs : sers (map raw_of fs) cs = sers fs cs.
Proof.
  revert cs; induction fs as [|f fs IH]; intros [|c cs]; cbn [map sers]; try reflexivity. rewrite IH. f_equal.
  unfold raw_of. destruct (z_fix f =? 0) eqn:E; cbn [z_fix z_rawbytes z_bytesN]; [f_equal; lia|reflexivity].
Qed.
Lemma raw_exact fs : Forall exact (map raw_of fs).
Proof.
  apply Forall_forall. intros g Hg. apply in_map_iff in Hg as (f & <- & _). unfold raw_of.
  destruct (z_fix f =? 0) eqn:E; [apply exact_rawbytes | apply exact_bytesN; lia].
Qed.
Lemma sized_fo3_raw fs cs : sized fs cs -> fo3 (map raw_of fs) cs (map FB cs).
Proof.
  induction 1 as [|f fs c cs Hs H IH]; cbn [map]; constructor; try exact IH.
  - unfold raw_of. destruct (z_fix f =? 0) eqn:E; [apply cd_rawbytes | apply cd_bytesN; [lia|apply Hs; lia]].
  - unfold raw_of. destruct (z_fix f =? 0) eqn:E; cbn [z_fix z_rawbytes z_bytesN]; [intros; lia|intros _; apply Hs; lia].
Qed.

Theorem zs_container_inj fs cs cs' b :
  sized fs cs -> sized fs cs' -> zs_container (sers fs cs) = Ok b -> zs_container (sers fs cs') = Ok b -> cs = cs'.
Proof.
  intros S1 S2 H1 H2. rewrite <- sers_raw in H1, H2.
  destruct (container_fwd _ _ _ _ (raw_exact fs) (sized_fo3_raw _ _ S1) H1) as (r1 & E1 & _).
  destruct (container_fwd _ _ _ _ (raw_exact fs) (sized_fo3_raw _ _ S2) H2) as (r2 & E2 & _).
  rewrite E1 in E2. apply Ok_inj' in E2. injection E2 as E2 _.
  clear -E2. revert cs' E2; induction cs as [|c cs IH]; intros [|c' cs'] E; try discriminate E; [reflexivity|].
  cbn [map] in E. injection E as -> E. f_equal. now apply IH.
Qed.

Lemma fo3_sized fs cs vs : fo3 fs cs vs -> sized fs cs.
Proof. induction 1; constructor; assumption. Qed.

(* the encoder does not panic while everything fits 32-bit offsets *)
Lemma zs_pass1_ok : forall fs cs po ps, length cs = length fs ->
  po + ps + total_len (dyn_sel fs cs) < two32 -> exists fp, zs_pass1 (sers fs cs) po ps = Ok fp.
Proof.
  induction fs as [|f fs IH]; intros [|c cs] po ps L Hb; try discriminate L; cbn [sers zs_pass1 s_fix s_bytes]; [eexists; reflexivity|].
  cbn [dyn_sel] in Hb. destruct (z_fix f =? 0) eqn:E; cbn [negb].
  - cbn [total_len] in Hb. unfold z_write_offset.
    replace ((two32 <=? po) || (two32 <=? ps) || (two32 <=? po + ps)) with false by lia. cbn [bind].
    destruct (IH cs (po + ps) (nlen c)) as [fp Hfp]; [simpl in L; lia|lia|]. rewrite Hfp. eexists; reflexivity.
  - destruct (IH cs po ps) as [fp Hfp]; [simpl in L; lia|lia|]. rewrite Hfp. eexists; reflexivity.
Qed.
Lemma zs_container_ok fs cs : length cs = length fs ->
  fixedlen fs + total_len (dyn_sel fs cs) < two32 -> exists data, zs_container (sers fs cs) = Ok data.
Proof.
  intros L Hb. unfold zs_container. rewrite (zs_fixedlen_sers fs cs L).
  destruct (zs_pass1_ok fs cs (fixedlen fs) 0 L ltac:(lia)) as [fp Hfp]. rewrite Hfp. eexists; reflexivity.
Qed.

(* sharper: the size of the last dynamic chunk is never handed to WriteOffset *)
Lemma zs_pass1_ok' : forall fs cs po ps, length cs = length fs ->
  (dyn_sel fs cs <> [] -> po < two32 /\ ps < two32 /\ po + ps + total_len (removelast (dyn_sel fs cs)) < two32) ->
  exists fp, zs_pass1 (sers fs cs) po ps = Ok fp.
Proof.
  induction fs as [|f fs IH]; intros [|c cs] po ps L Hb; try discriminate L; cbn [sers zs_pass1 s_fix s_bytes]; [eexists; reflexivity|].
  cbn [dyn_sel] in Hb. destruct (z_fix f =? 0) eqn:E; cbn [negb].
  - destruct Hb as (H1 & H2 & H3); [discriminate|]. unfold z_write_offset.
    assert (H4 : po + ps < two32).
    { destruct (dyn_sel fs cs); cbn [removelast total_len] in H3; lia. }
    replace ((two32 <=? po) || (two32 <=? ps) || (two32 <=? po + ps)) with false by lia. cbn [bind].
    destruct (IH cs (po + ps) (nlen c)) as [fp Hfp]; [simpl in L; lia| |rewrite Hfp; eexists; reflexivity].
    intros Hne. destruct (dyn_sel fs cs) as [|c' r] eqn:Ed; [congruence|].
    change (removelast (c :: c' :: r)) with (c :: removelast (c' :: r)) in H3. cbn [total_len] in H3. repeat split; lia.
  - destruct (IH cs po ps) as [fp Hfp]; [simpl in L; lia|exact Hb|]. rewrite Hfp. eexists; reflexivity.
Qed.
Lemma zs_container_ok' fs cs : length cs = length fs ->
  fixedlen fs + total_len (removelast (dyn_sel fs cs)) < two32 -> exists data, zs_container (sers fs cs) = Ok data.
Proof.
  intros L Hb. unfold zs_container. rewrite (zs_fixedlen_sers fs cs L).
  destruct (zs_pass1_ok' fs cs (fixedlen fs) 0 L) as [fp Hfp]; [intros _; unfold two32 in *; repeat split; lia|].
  rewrite Hfp. eexists; reflexivity.
Qed.

(* ================================================================== dr.List with dynamic ByteList items *)
Definition u32s (l : list N) : bytes := concat (map u32_enc l).
Lemma u32s_len l : nlen (u32s l) = 4 * nlen l.
Proof.
  unfold u32s. induction l as [|x l IH]; [reflexivity|]. cbn [map concat]. rewrite nlen_app, IH, nlen_cons.
  unfold u32_enc. rewrite nlen_le_enc. lia.
Qed.

Lemma zlro_inv : forall k r more r2, zl_read_offsets k r = Ok (more, r2) ->
  length more = k /\ rd_inp r = u32s more ++ rd_inp r2 /\ rd_i r2 = rd_i r + 4 * N.of_nat k /\ rd_max r2 = rd_max r /\
  Forall (fun o => o < two32) more.
Proof.
  induction k as [|k IH]; intros r more r2 H; cbn [zl_read_offsets] in H.
  - apply Ok_inj' in H. injection H as <- <-. repeat split; [lia|constructor].
  - destruct (rd_read r 4) as [[b r1]| |] eqn:E; cbn [bind] in H; try discriminate.
    destruct (zl_read_offsets k r1) as [[l r']| |] eqn:E2; cbn [bind] in H; try discriminate.
    apply Ok_inj' in H. injection H as <- <-.
    apply rd_read_inv in E as (A1 & A2 & A3 & A4 & A5 & _). destruct (IH _ _ _ E2) as (I1 & I2 & I3 & I4 & I5).
    assert (L4 : length b = 4%nat) by (rewrite A2, firstn_length; unfold nlen in A1; lia).
    repeat split; [simpl; lia| |lia|congruence|].
    + unfold u32s. cbn [map concat]. unfold u32_enc at 1. rewrite le_enc_of_dec by exact L4. rewrite <- app_assoc.
      fold (u32s l). rewrite <- I2, A3, A2. now rewrite firstn_skipn.
    + constructor; [|exact I5]. pose proof (le_dec_lt b) as B. rewrite L4 in B. exact B.
Qed.

Lemma zlro_fwd : forall more r rest, rinv r -> rd_inp r = u32s more ++ rest -> Forall (fun o => o < two32) more ->
  zl_read_offsets (length more) r = Ok (more, mkrd rest (rd_i r + 4 * nlen more) (rd_max r)).
Proof.
  induction more as [|o more IH]; intros r rest Hinv Hin Hlt.
  - cbn [zl_read_offsets length]. cbn in Hin. destruct r as [inp i mx]. cbn [rd_inp rd_i rd_max] in *. subst inp.
    replace (i + 4 * nlen (@nil N)) with i by (unfold nlen; simpl; lia). reflexivity.
  - cbn [zl_read_offsets length]. unfold u32s in Hin. cbn [map concat] in Hin. rewrite <- app_assoc in Hin. fold (u32s more) in Hin.
    assert (L4 : length (u32_enc o) = 4%nat) by (unfold u32_enc; apply le_enc_length).
    assert (Hlen : 4 <= nlen (rd_inp r)) by (rewrite Hin, nlen_app; unfold nlen at 1; rewrite L4; lia).
    rewrite rd_read_fwd by (unfold rinv in Hinv; lia). cbn [bind]. change (N.to_nat 4) with 4%nat.
    rewrite Hin, (firstn_app_exact (u32_enc o) (u32s more ++ rest) 4 L4), (skipn_app_exact (u32_enc o) (u32s more ++ rest) 4 L4).
    rewrite (IH _ rest); [| | reflexivity | exact (Forall_inv_tail Hlt)].
    + cbn [bind rd_i rd_max]. rewrite nlen_cons. unfold u32_enc. rewrite le_dec_enc by exact (Forall_inv Hlt).
      f_equal. f_equal. f_equal. lia.
    + unfold rinv in *. cbn [rd_inp rd_i rd_max]. rewrite Hin, !nlen_app in Hinv. unfold nlen in Hinv at 1. rewrite L4 in Hinv.
      rewrite nlen_app. lia.
Qed.

Definition items_ok (IL : N) (l : list bytes) : Prop := Forall (fun x => nlen x <= IL) l.

Lemma zli_inv : forall IL offs scope prev r l r', zl_items offs scope prev r IL = Ok (l, r') ->
  length l = length offs /\
  match offs with [] => True | o0 :: _ => offs = offs_chain o0 l /\ scope = o0 + total_len l end /\
  rd_inp r = concat l ++ rd_inp r' /\ items_ok IL l /\ rd_i r' = rd_i r /\ rd_max r' = rd_max r.
Proof.
  intros IL. induction offs as [|off offs IH]; intros scope prev r l r' H; cbn [zl_items] in H.
  - apply Ok_inj' in H. injection H as <- <-. repeat split; constructor.
  - destruct (off <? prev); [discriminate|]. fold (next_off offs scope) in H.
    destruct (next_off offs scope =? off) eqn:En.
    + destruct (zl_items offs scope off r IL) as [[l0 r0]| |] eqn:E; cbn [bind] in H; try discriminate.
      apply Ok_inj' in H. injection H as <- <-. destruct (IH _ _ _ _ _ E) as (I1 & I2 & I3 & I4 & I5 & I6).
      split; [simpl; lia|]. split; [|split; [exact I3|split; [constructor; [unfold nlen; simpl; lia|exact I4]|split; assumption]]].
      cbn [offs_chain total_len]. change (nlen (@nil byte)) with 0. replace (off + 0) with off by lia.
      destruct offs as [|o' offs']; cbn [next_off] in En.
      * destruct l0; [|discriminate I1]. cbn. split; [reflexivity|lia].
      * destruct I2 as [I2a I2b]. assert (o' = off) by lia. subst o'. split; [now rewrite <- I2a|lia].
    + destruct (next_off offs scope <? off) eqn:En2; [discriminate|].
      rewrite rd_sub_bytelist in H.
      destruct (rd_scope r <? next_off offs scope - off); [discriminate|].
      destruct (IL <? next_off offs scope - off) eqn:Ei; [discriminate|].
      destruct (nlen (rd_inp r) <? next_off offs scope - off) eqn:El; [discriminate|]. cbn [bind] in H.
      set (cnt := next_off offs scope - off) in *.
      destruct (zl_items offs scope off _ IL) as [[l0 r0]| |] eqn:E; cbn [bind] in H; try discriminate.
      apply Ok_inj' in H. injection H as <- <-. destruct (IH _ _ _ _ _ E) as (I1 & I2 & I3 & I4 & I5 & I6). cbn [rd_inp rd_i rd_max] in *.
      assert (Lc : nlen (firstn (N.to_nat cnt) (rd_inp r)) = cnt) by (apply nlen_firstn; lia).
      split; [simpl; lia|]. split; [|split; [|split; [constructor; [lia|exact I4]|split; assumption]]].
      * cbn [offs_chain total_len]. rewrite Lc. destruct offs as [|o' offs']; cbn [next_off] in *.
        -- destruct l0; [|discriminate I1]. cbn. split; [reflexivity|unfold cnt; lia].
        -- destruct I2 as [I2a I2b]. assert (off + cnt = o') by (unfold cnt; lia). rewrite H. split; [now rewrite <- I2a|lia].
      * cbn [concat]. rewrite <- app_assoc, <- I3. now rewrite firstn_skipn.
Qed.

Lemma zli_fwd : forall IL l o0 prev r rest, prev <= o0 -> rinv r -> rd_inp r = concat l ++ rest -> items_ok IL l ->
  zl_items (offs_chain o0 l) (o0 + total_len l) prev r IL = Ok (l, mkrd rest (rd_i r) (rd_max r)).
Proof.
  intros IL. induction l as [|x l IH]; intros o0 prev r rest Hp Hinv Hin Hok.
  - cbn [offs_chain zl_items]. cbn in Hin. destruct r as [inp i mx]. cbn [rd_inp rd_i rd_max] in *. now subst inp.
  - cbn [offs_chain zl_items total_len]. replace (o0 <? prev) with false by lia.
    set (scope := o0 + (nlen x + total_len l)).
    assert (Hnext : match offs_chain (o0 + nlen x) l with o' :: _ => o' | [] => scope end = o0 + nlen x).
    { destruct l; cbn [offs_chain total_len]; unfold scope; cbn [total_len]; lia. }
    rewrite Hnext. cbn [concat] in Hin. rewrite <- app_assoc in Hin.
    pose proof (Forall_inv Hok) as Hx. cbv beta in Hx.
    replace scope with (o0 + nlen x + total_len l) by (unfold scope; lia).
    destruct (o0 + nlen x =? o0) eqn:E0.
    + assert (nlen x = 0) by lia. destruct x; [|rewrite nlen_cons in H; lia]. cbn [app] in Hin.
      change (nlen (@nil byte)) with 0. replace (o0 + 0) with o0 by lia.
      rewrite (IH o0 o0 r rest); [reflexivity|lia|exact Hinv|exact Hin|exact (Forall_inv_tail Hok)].
    + replace (o0 + nlen x <? o0) with false by lia. replace (o0 + nlen x - o0) with (nlen x) by lia.
      rewrite rd_sub_bytelist.
      assert (Hlen : nlen x <= nlen (rd_inp r)) by (rewrite Hin, nlen_app; lia).
      replace (rd_scope r <? nlen x) with false by (unfold rinv, rd_scope in *; lia).
      replace (IL <? nlen x) with false by lia. replace (nlen (rd_inp r) <? nlen x) with false by lia. cbn [bind].
      rewrite Hin. replace (N.to_nat (nlen x)) with (length x) by (unfold nlen; lia).
      rewrite (firstn_app_exact x (concat l ++ rest) _ eq_refl), (skipn_app_exact x (concat l ++ rest) _ eq_refl).
      rewrite (IH (o0 + nlen x) o0 _ rest); [reflexivity|lia| |reflexivity|exact (Forall_inv_tail Hok)].
      unfold rinv in *. cbn [rd_inp rd_i rd_max]. rewrite Hin, nlen_app in Hinv. lia.
Qed.

Lemma offs_chain_length o l : length (offs_chain o l) = length l.
Proof. revert o; induction l as [|x l IH]; intros o; [reflexivity|]. cbn [offs_chain length]. now rewrite IH. Qed.
Lemma offs_chain_bound l : forall o, Forall (fun x => x <= o + total_len l) (offs_chain o l).
Proof.
  induction l as [|x l IH]; intros o; [constructor|]. cbn [offs_chain total_len]. constructor; [lia|].
  eapply Forall_impl; [|apply (IH (o + nlen x))]. intros a Ha. cbv beta in *. lia.
Qed.

(* ew.List: the offset table *)
Lemma zslo_inv : forall l po ps t, zs_list_offsets po ps l = Ok t ->
  t = u32s (offs_chain (po + ps) l) /\ Forall (fun o => o < two32) (offs_chain (po + ps) l).
Proof.
  induction l as [|x l IH]; intros po ps t H; cbn [zs_list_offsets] in H.
  - apply Ok_inj' in H. subst t. split; [reflexivity|constructor].
  - unfold z_write_offset in H. destruct ((two32 <=? po) || (two32 <=? ps) || (two32 <=? po + ps)) eqn:E; [discriminate|]. cbn [bind] in H.
    destruct (zs_list_offsets (po + ps) (nlen x) l) as [t'| |] eqn:E2; cbn [bind] in H; try discriminate.
    apply Ok_inj' in H. subst t. destruct (IH _ _ _ E2) as [-> I2]. cbn [offs_chain]. split; [reflexivity|]. constructor; [lia|exact I2].
Qed.
Lemma zslo_fwd : forall l po ps, (l <> [] -> po < two32 /\ ps < two32) -> Forall (fun o => o < two32) (offs_chain (po + ps) l) ->
  zs_list_offsets po ps l = Ok (u32s (offs_chain (po + ps) l)).
Proof.
  induction l as [|x l IH]; intros po ps Hp Hc; [reflexivity|]. cbn [zs_list_offsets offs_chain] in *.
  destruct Hp as [Hpo Hps]; [discriminate|]. pose proof (Forall_inv Hc) as Hh. cbv beta in Hh. unfold z_write_offset.
  replace ((two32 <=? po) || (two32 <=? ps) || (two32 <=? po + ps)) with false by lia. cbn [bind].
  rewrite IH; [reflexivity| |exact (Forall_inv_tail Hc)].
  intros Hne. split; [exact Hh|]. destruct l as [|y l]; [congruence|]. cbn [offs_chain] in Hc.
  pose proof (Forall_inv (Forall_inv_tail Hc)) as H2. cbv beta in H2. lia.
Qed.

Definition bl_layout (l : list bytes) : bytes := u32s (offs_chain (4 * nlen l) l) ++ concat l.
Definition bl_fits (l : list bytes) : Prop := Forall (fun o => o < two32) (offs_chain (4 * nlen l) l).

Lemma zs_bytelists_iff l s : zs_bytelists l = Ok s <-> s = bl_layout l /\ bl_fits l.
Proof.
  unfold zs_bytelists, bl_layout, bl_fits. replace (4 * nlen l) with (4 * nlen l + 0) at 2 3 by lia. split.
  - destruct (zs_list_offsets (4 * nlen l) 0 l) as [t| |] eqn:E; cbn [bind]; try discriminate.
    intros H; apply Ok_inj' in H. subst s. apply zslo_inv in E as [-> E]. split; [reflexivity|exact E].
  - intros [-> Hf]. rewrite zslo_fwd; [reflexivity| |exact Hf].
    intros Hne. destruct l as [|x l]; [congruence|]. cbn [offs_chain] in Hf. pose proof (Forall_inv Hf) as H. cbv beta in H.
    unfold two32 in *. split; lia.
Qed.
Lemma bl_layout_len l : nlen (bl_layout l) = 4 * nlen l + total_len l.
Proof. unfold bl_layout. rewrite nlen_app, u32s_len, nlen_concat. unfold nlen at 1. rewrite offs_chain_length. reflexivity. Qed.
Lemma bl_fits_small l : 4 * nlen l + total_len l < two32 -> bl_fits l.
Proof. intros H. unfold bl_fits. eapply Forall_impl; [|apply offs_chain_bound]. intros a Ha. cbv beta in *. lia. Qed.

Section ByteLists.
  Variables IL L : N.
  Let BL := z_bytelists IL L.

  Lemma bl_dec_inv s c v sub' : nlen s <= c -> z_de BL (mkrd s 0 c) = Ok (v, sub') ->
    exists l, v = FL l /\ nlen l <= L /\ items_ok IL l /\ nlen s = c /\ rd_inp sub' = [] /\
              ((l = [] /\ s = []) \/ (l <> [] /\ s = bl_layout l /\ bl_fits l)).
  Proof.
    intros Hl H. cbn [BL z_de z_bytelists] in H. unfold rd_scope in H. cbn [rd_max rd_i] in H. replace (c - 0) with c in H by lia.
    destruct (c =? 0) eqn:E0.
    - apply Ok_inj' in H. injection H as <- <-. assert (s = []) by (destruct s; [reflexivity|rewrite nlen_cons in Hl; lia]). subst s.
      exists []. cbn [rd_inp]. repeat split; try (unfold nlen; simpl; lia); [constructor|now left].
    - destruct (rd_read _ 4) as [[b r1]| |] eqn:E1; cbn [bind] in H; try discriminate.
      destruct (le_dec b mod 4 =? 0) eqn:Em; cbn [negb] in H; [|discriminate].
      destruct (L <? le_dec b / 4) eqn:El; [discriminate|].
      destruct (zl_read_offsets _ r1) as [[more r2]| |] eqn:E2; cbn [bind] in H; try discriminate.
      destruct (zl_items (le_dec b :: more) c 0 r2 IL) as [[l r3]| |] eqn:E3; cbn [bind] in H; try discriminate.
      apply Ok_inj' in H. injection H as <- <-.
      apply rd_read_inv in E1 as (A1 & A2 & A3 & A4 & A5 & _). cbn [rd_inp rd_i rd_max] in *.
      destruct (zlro_inv _ _ _ _ E2) as (B1 & B2 & B3 & B4 & B5).
      destruct (zli_inv _ _ _ _ _ _ _ E3) as (C1 & [C2 C3] & C4 & C5 & C6 & C7).
      assert (L4 : length b = 4%nat) by (rewrite A2, firstn_length; unfold nlen in A1; lia).
      assert (Hb : b = u32_enc (le_dec b)) by (unfold u32_enc; now rewrite le_enc_of_dec).
      assert (Hs : s = u32s (le_dec b :: more) ++ concat l ++ rd_inp r3).
      { unfold u32s. cbn [map concat]. rewrite <- Hb, <- app_assoc. fold (u32s more). rewrite <- C4, <- B2, A3, A2. now rewrite firstn_skipn. }
      assert (Hlen : nlen s = 4 * (1 + nlen more) + total_len l + nlen (rd_inp r3)).
      { rewrite Hs at 1. rewrite !nlen_app, u32s_len, nlen_concat, nlen_cons. lia. }
      set (first := le_dec b) in *.
      assert (Hlen2 : nlen more = first / 4 - 1).
      { unfold nlen. rewrite B1. lia. }
      assert (Hfirst : first = 4 * (first / 4)) by lia.
      assert (Hge : 1 <= first / 4) by lia.
      assert (Hr3 : nlen (rd_inp r3) = 0) by lia.
      assert (Hnl : nlen l = first / 4) by (unfold nlen in *; simpl length in C1; lia).
      exists l. split; [reflexivity|]. split; [lia|]. split; [exact C5|]. split; [lia|].
      split; [destruct (rd_inp r3); [reflexivity|rewrite nlen_cons in Hr3; lia]|]. right.
      split; [intros ->; unfold nlen in Hnl; simpl in Hnl; lia|].
      assert (H4 : 4 * nlen l = first) by lia.
      unfold bl_layout, bl_fits. rewrite H4, <- C2. split.
      + rewrite Hs. destruct (rd_inp r3); [now rewrite app_nil_r|rewrite nlen_cons in Hr3; lia].
      + constructor; [|exact B5]. pose proof (le_dec_lt b) as B. rewrite L4 in B. exact B.
  Qed.

  Lemma bl_dec_fwd l : nlen l <= L -> items_ok IL l -> bl_fits l ->
    exists r', z_de BL (mkrd (bl_layout l) 0 (nlen (bl_layout l))) = Ok (FL l, r').
  Proof.
    intros Hn Hok Hf. destruct l as [|x l].
    - cbn. eexists; reflexivity.
    - set (ll := x :: l) in *. set (s := bl_layout ll). pose proof (bl_layout_len ll) as Hlen. fold s in Hlen.
      set (first := 4 * nlen ll) in *.
      assert (Hnz : nlen ll <> 0) by (unfold ll; rewrite nlen_cons; lia).
      cbn [BL z_de z_bytelists]. unfold rd_scope. cbn [rd_max rd_i]. replace (nlen s - 0) with (nlen s) by lia.
      replace (nlen s =? 0) with false by lia.
      unfold bl_fits in Hf. fold first in Hf. unfold ll in Hf. cbn [offs_chain] in Hf. fold ll in Hf.
      pose proof (Forall_inv Hf) as Hf0. cbv beta in Hf0.
      assert (Hs : s = u32_enc first ++ u32s (offs_chain (first + nlen x) l) ++ concat ll).
      { unfold s, bl_layout. fold first. unfold ll at 1. cbn [offs_chain]. unfold u32s. cbn [map concat]. now rewrite <- app_assoc. }
      assert (L4 : length (u32_enc first) = 4%nat) by (unfold u32_enc; apply le_enc_length).
      rewrite rd_read_fwd by (cbn [rd_i rd_max rd_inp]; lia). cbn [bind rd_inp rd_i rd_max]. change (N.to_nat 4) with 4%nat.
      assert (F4 : firstn 4 s = u32_enc first) by (rewrite Hs; apply firstn_app_exact; exact L4).
      assert (S4 : skipn 4 s = u32s (offs_chain (first + nlen x) l) ++ concat ll) by (rewrite Hs; apply skipn_app_exact; exact L4).
      assert (D4 : le_dec (u32_enc first) = first) by (apply (le_dec_enc 4); exact Hf0).
      rewrite !F4, S4, !D4.
      replace (first mod 4 =? 0) with true by (unfold first; lia). cbn [negb].
      replace (first / 4) with (nlen ll) by (unfold first; lia). replace (L <? nlen ll) with false by lia.
      replace (N.to_nat (nlen ll) - 1)%nat with (length (offs_chain (first + nlen x) l)).
      2:{ rewrite offs_chain_length. unfold ll, nlen. simpl length. lia. }
      rewrite (zlro_fwd _ _ (concat ll)); [| |reflexivity|exact (Forall_inv_tail Hf)].
      2:{ assert (Hc : nlen (offs_chain (first + nlen x) l) = nlen l) by (unfold nlen; now rewrite offs_chain_length).
          unfold rinv. cbn [rd_inp rd_i rd_max]. rewrite nlen_app, u32s_len, Hc, nlen_concat, Hlen. unfold first, ll. rewrite nlen_cons. lia. }
      cbn [bind rd_i rd_max].
      change (first :: offs_chain (first + nlen x) l) with (offs_chain first ll).
      rewrite Hlen.
      rewrite (zli_fwd IL ll first 0 _ []); [cbn [bind]; eexists; reflexivity|lia| |cbn [rd_inp]; now rewrite app_nil_r|exact Hok].
      assert (Hc : nlen (offs_chain (first + nlen x) l) = nlen l) by (unfold nlen; now rewrite offs_chain_length).
      unfold rinv. cbn [rd_inp rd_i rd_max]. rewrite nlen_concat, Hc. unfold first, ll. rewrite nlen_cons. lia.
  Qed.

  Lemma exact_bytelists : exact BL.
  Proof. intros s c v sub' Hl _ H. destruct (bl_dec_inv s c v sub' Hl H) as (l & _ & _ & _ & Hn & He & _). split; assumption. Qed.

  Lemma cd_bytelists_inv s v : cd_of BL s = Ok v -> exists l, v = FL l /\ zs_bytelists l = Ok s /\ nlen l <= L /\ items_ok IL l.
  Proof.
    unfold cd_of. destruct (z_de BL _) as [[v0 r']| |] eqn:E; cbn [bind]; try discriminate. intros H; apply Ok_inj' in H. subst v0.
    destruct (bl_dec_inv s (nlen s) v r' ltac:(lia) E) as (l & -> & Hn & Hok & _ & _ & [[-> ->]|(Hne & -> & Hf)]).
    - exists []. split; [reflexivity|]. split; [reflexivity|]. split; assumption.
    - exists l. split; [reflexivity|]. split; [apply zs_bytelists_iff; split; [reflexivity|exact Hf]|]. split; assumption.
  Qed.
  Lemma cd_bytelists_fwd l s : nlen l <= L -> items_ok IL l -> zs_bytelists l = Ok s -> cd_of BL s = Ok (FL l).
  Proof.
    intros Hn Hok Hs. apply zs_bytelists_iff in Hs as [-> Hf]. unfold cd_of.
    destruct (bl_dec_fwd l Hn Hok Hf) as [r' ->]. reflexivity.
  Qed.
End ByteLists.

Lemma zlro_total : forall k r, zl_read_offsets k r <> Panic.
Proof.
  induction k as [|k IH]; intros r; cbn [zl_read_offsets]; [discriminate|].
  destruct (rd_read r 4) as [[b r1]| |] eqn:E; cbn [bind]; try discriminate; [|now apply rd_read_total in E].
  destruct (zl_read_offsets k r1) as [[l r2]| |] eqn:E2; cbn [bind]; try discriminate. now apply IH in E2.
Qed.
Lemma zli_total IL : forall offs scope prev r, zl_items offs scope prev r IL <> Panic.
Proof.
  induction offs as [|off offs IH]; intros scope prev r; cbn [zl_items]; [discriminate|].
  destruct (off <? prev); [discriminate|]. destruct (_ =? off).
  - destruct (zl_items offs scope off r IL) as [[l r']| |] eqn:E; cbn [bind]; try discriminate. now apply IH in E.
  - destruct (_ <? off); [discriminate|]. rewrite rd_sub_bytelist.
    destruct (rd_scope r <? _); [discriminate|]. destruct (IL <? _); [discriminate|]. destruct (nlen (rd_inp r) <? _); [discriminate|].
    cbn [bind]. destruct (zl_items offs scope off _ IL) as [[l r']| |] eqn:E; cbn [bind]; try discriminate. now apply IH in E.
Qed.
Lemma total_bytelists IL L : total (z_bytelists IL L).
Proof.
  intros r. cbn [z_de z_bytelists]. destruct (rd_scope r =? 0); [discriminate|].
  destruct (rd_read r 4) as [[b r1]| |] eqn:E; cbn [bind]; try discriminate; [|now apply rd_read_total in E].
  destruct (negb _); [discriminate|]. destruct (L <? _); [discriminate|].
  destruct (zl_read_offsets _ r1) as [[more r2]| |] eqn:E2; cbn [bind]; try discriminate; [|now apply zlro_total in E2].
  destruct (zl_items _ _ 0 r2 IL) as [[l r3]| |] eqn:E3; cbn [bind]; try discriminate. now apply zli_total in E3.
Qed.

Lemma items_le_total l : Forall (fun x => nlen x <= total_len l) l.
Proof.
  induction l as [|x l IH]; [constructor|]. cbn [total_len]. constructor; [lia|].
  eapply Forall_impl; [|exact IH]. intros a Ha. cbv beta in *. lia.
Qed.

Lemma zs_bytelists_len l s : zs_bytelists l = Ok s -> nlen s = 4 * nlen l + total_len l.
Proof. intros H. apply zs_bytelists_iff in H as [-> _]. apply bl_layout_len. Qed.

Lemma zs_bytelists_inj l l' s : zs_bytelists l = Ok s -> zs_bytelists l' = Ok s -> l = l'.
Proof.
  intros H H'. pose proof (zs_bytelists_len _ _ H) as Hl. pose proof (zs_bytelists_len _ _ H') as Hl'.
  assert (C : cd_of (z_bytelists (nlen s) (nlen l + nlen l')) s = Ok (FL l)).
  { apply cd_bytelists_fwd; [lia| |exact H]. eapply Forall_impl; [|apply items_le_total]. intros a Ha. cbv beta in *. lia. }
  assert (C' : cd_of (z_bytelists (nlen s) (nlen l + nlen l')) s = Ok (FL l')).
  { apply cd_bytelists_fwd; [lia| |exact H']. eapply Forall_impl; [|apply items_le_total]. intros a Ha. cbv beta in *. lia. }
  rewrite C in C'. apply Ok_inj' in C'. now injection C'.
Qed.

Lemma zs_bytelists_ok l : 4 * nlen l + total_len l < two32 -> exists s, zs_bytelists l = Ok s.
Proof. intros H. exists (bl_layout l). apply zs_bytelists_iff. split; [reflexivity|now apply bl_fits_small]. Qed.
Lemma zs_bytelists_not_err l e : zs_bytelists l <> Err e.
Proof.
  unfold zs_bytelists. assert (G : forall l po ps e, zs_list_offsets po ps l <> Err e).
  { clear. induction l as [|x l IH]; intros po ps e; cbn [zs_list_offsets]; [discriminate|].
    unfold z_write_offset. destruct (_ || _); [discriminate|]. cbn [bind].
    destruct (zs_list_offsets (po + ps) (nlen x) l) eqn:E; cbn [bind]; try discriminate. now apply IH in E. }
  destruct (zs_list_offsets (4 * nlen l) 0 l) eqn:E; cbn [bind]; try discriminate. now apply G in E.
Qed.
