(* Proofs/GossipExtra.v : the gossip targets are pairwise distinct whenever the table's nodes are (no node is offered the
   batch twice), and so are the offers actually enqueued; the targets are a sub-permutation of the covered candidates. *)
From Shisui Require Import Base.Bytes Gen.K_wire Gen.K_handlers Model.Handlers Model.Gossip Proofs.Handlers Proofs.Gossip.
From Coq Require Import Permutation Lia.

Lemma NoDup_app_parts {A} (l1 l2 : list A) : NoDup (l1 ++ l2) -> NoDup l1 /\ NoDup l2.
Proof.
  induction l1 as [|a l1 IH]; cbn; intros H; [split; [constructor|exact H]|].
  inversion H as [|? ? Ha H']; subst. destruct (IH H') as [I1 I2]. split; [|exact I2].
  constructor; [|exact I1]. intros Hin. apply Ha. apply in_or_app. now left.
Qed.

Lemma NoDup_firstn {A} (l : list A) n : NoDup l -> NoDup (firstn n l).
Proof. intros H. rewrite <- (firstn_skipn n l) in H. apply NoDup_app_parts in H. apply H. Qed.

Lemma NoDup_skipn {A} (l : list A) n : NoDup l -> NoDup (skipn n l).
Proof. intros H. rewrite <- (firstn_skipn n l) in H. apply NoDup_app_parts in H. apply H. Qed.

Lemma NoDup_app_disjoint {A} (l1 l2 : list A) :
  NoDup l1 -> NoDup l2 -> (forall x, In x l1 -> In x l2 -> False) -> NoDup (l1 ++ l2).
Proof.
  induction l1 as [|a l1 IH]; intros H1 H2 D; [exact H2|].
  inversion H1 as [|? ? Ha H1']; subst. cbn. constructor.
  - intros Hin. apply in_app_or in Hin as [Hin|Hin]; [contradiction|]. apply (D a); [now left|exact Hin].
  - apply IH; [assumption|assumption|]. intros x Hx1 Hx2. apply (D x); [now right|exact Hx2].
Qed.

Lemma NoDup_split_disjoint {A} (l : list A) n x : NoDup l -> In x (firstn n l) -> In x (skipn n l) -> False.
Proof.
  intros H H1 H2. rewrite <- (firstn_skipn n l) in H.
  revert H H1 H2. generalize (firstn n l) (skipn n l). intros l1 l2.
  induction l1 as [|a l1 IH]; intros H H1 H2; [destruct H1|].
  cbn in H. inversion H as [|? ? Ha H']; subst. destruct H1 as [->|H1].
  - apply Ha. apply in_or_app. now right.
  - now apply IH.
Qed.

Theorem gossip_targets_nodup shuf : is_shuffle1 shuf -> forall cid srt, is_sort cid srt ->
  forall nodelist c src nc nk res,
  NoDup nodelist ->
  gossip_select nodelist srt shuf c src cid nc nk = Ok res -> NoDup res.
Proof.
  intros Hsh cid srt Hsrt nodelist c src nc nk res Hnd.
  unfold gossip_select. destruct (nc =? 0); [discriminate|]. destruct (nk <? nc); [discriminate|].
  unfold find_nodes_close.
  destruct (gossip_filter (firstn gossip_candidates (srt nodelist)) c src cid) as [g0| |] eqn:Ef; cbn [bind]; try discriminate.
  destruct (gossip_filter_spec _ _ _ _ _ Ef) as [Hg _].
  assert (Hg0 : NoDup g0).
  { subst g0. apply NoDup_filter. apply NoDup_firstn.
    destruct (Hsrt nodelist) as [Hp _]. eapply Permutation_NoDup; [apply Permutation_sym; exact Hp|exact Hnd]. }
  clear Hg Ef. intros H.
  destruct g0 as [|x0 t0] eqn:Eg0; [inversion H; constructor|]. rewrite <- Eg0 in *. clear Eg0 x0 t0.
  destruct (Nat.ltb max_closest (length g0)); [|apply Ok_inj in H; subst; exact Hg0].
  apply Ok_inj in H. subst res.
  set (far := shuf (skipn max_closest g0)).
  assert (Hfar : NoDup far).
  { eapply Permutation_NoDup; [apply Permutation_sym; apply Hsh|]. apply NoDup_skipn. exact Hg0. }
  apply NoDup_app_disjoint.
  - apply NoDup_firstn. exact Hg0.
  - apply NoDup_firstn. exact Hfar.
  - intros x H1 H2. apply (NoDup_split_disjoint g0 max_closest x Hg0 H1).
    eapply Permutation_in; [apply Hsh|]. fold far.
    rewrite <- (firstn_skipn (Nat.min max_farther (length far)) far). apply in_or_app. left. exact H2.
Qed.

Lemma gossip_offers_nodup final : forall permits, NoDup final -> NoDup (gossip_offers final permits).
Proof.
  induction final as [|n rest IH]; intros permits H; cbn [gossip_offers]; [constructor|].
  inversion H as [|? ? Hn H']; subst. destruct permits as [|p]; [now apply IH|].
  constructor; [|now apply IH]. intros Hin. apply Hn. eapply gossip_offers_incl. exact Hin.
Qed.

(* with a permit for every target the whole batch goes to every target, in order *)
Lemma gossip_offers_all final : forall permits, (length final <= permits)%nat -> gossip_offers final permits = final.
Proof.
  induction final as [|n rest IH]; intros permits H; cbn [gossip_offers]; [reflexivity|].
  cbn [length] in H. destruct permits as [|p]; [lia|]. f_equal. apply IH. lia.
Qed.
