(* Proofs/Versions.v : theorems about Model/Versions.v (C19). *)
From Shisui Require Import Base.Bytes Model.Framing Proofs.Framing Model.Versions.
From Coq Require Import ZifyBool ZifyN ZifyNat.

Local Arguments N.ltb : simpl never.
Local Arguments N.eqb : simpl never.

Lemma memN_In x l : memN x l = true <-> In x l.
Proof.
  induction l as [|y r IH]; simpl; [easy|].
  rewrite orb_true_iff, IH, N.eqb_eq. intuition congruence.
Qed.

Definition common (a b : list N) (x : N) : Prop := In x a /\ In x b.

(* invariant of the scanning loop *)
Lemma fbs_loop_spec a : forall b found m found' m',
  fbs_loop a b found m = (found', m') ->
  (found' = true <-> found = true \/ exists v, common a b v) /\
  m <= m' /\
  (forall v, common a b v -> v <= m') /\
  (m' = m \/ common a b m').
Proof.
  induction b as [|v r IH]; intros found m found' m' H; cbn [fbs_loop] in H.
  - inversion H; subst. repeat split; try lia; try tauto.
    + intros [E|[v [_ []]]]; assumption.
    + intros v [_ []].
  - destruct (memN v a) eqn:M.
    + apply IH in H as (Hf & Hm & Hall & Hwit). apply memN_In in M.
      assert (Hle : m <= (if m <? v then v else m) /\ v <= (if m <? v then v else m)) by (destruct (m <? v) eqn:E; lia).
      repeat split.
      * intros _. right. exists v. split; [assumption | now left].
      * intros _. apply Hf. now left.
      * lia.
      * intros x [Ha [Hx|Hx]]; [subst; lia | apply Hall; split; assumption].
      * destruct Hwit as [E|[Ha Hb]].
        -- destruct (m <? v) eqn:L; [right; subst m'; split; [assumption | now left] | now left].
        -- right. split; [assumption | now right].
    + apply IH in H as (Hf & Hm & Hall & Hwit).
      assert (NM : ~ In v a) by (rewrite <- memN_In, M; discriminate).
      repeat split.
      * intros F. apply Hf in F as [F|[x [Ha Hb]]]; [now left | right; exists x; split; [assumption | now right]].
      * intros [F|[x [Ha [Hx|Hx]]]]; apply Hf; [now left | subst; contradiction | right; exists x; split; assumption].
      * assumption.
      * intros x [Ha [Hx|Hx]]; [subst; contradiction | apply Hall; split; assumption].
      * destruct Hwit as [E|[Ha Hb]]; [now left | right; split; [assumption | now right]].
Qed.

(* the three possible outcomes, each characterised *)
Lemma fbs_cases a b :
  (find_biggest_same a b = (0, Some E_EMPTY_SLICE) /\ (a = [] \/ b = [])) \/
  (find_biggest_same a b = (0, Some E_NO_COMMON) /\ a <> [] /\ b <> [] /\ forall x, ~ common a b x) \/
  (exists m, find_biggest_same a b = (m, None) /\ common a b m /\ forall x, common a b x -> x <= m).
Proof.
  destruct a as [|a0 a']; [left; split; [reflexivity | now left]|].
  destruct b as [|b0 b']; [left; split; [reflexivity | now right]|].
  right. unfold find_biggest_same.
  destruct (fbs_loop (a0 :: a') (b0 :: b') false 0) as [found m] eqn:E.
  apply fbs_loop_spec in E as (Hf & _ & Hall & Hwit).
  destruct found.
  - right. exists m. split; [reflexivity|]. split; [|assumption].
    destruct Hwit as [Z|C]; [|assumption].
    destruct (proj1 Hf eq_refl) as [F|[v C]]; [discriminate|].
    pose proof (Hall v C). assert (v = m) by lia. now subst.
  - left. split; [reflexivity|]. repeat split; try discriminate.
    intros x C. assert (false = true) by (apply Hf; right; now exists x). discriminate.
Qed.

(* result = max of the intersection *)
Theorem fbs_ok_iff a b m :
  find_biggest_same a b = (m, None) <-> common a b m /\ forall x, common a b x -> x <= m.
Proof.
  destruct (fbs_cases a b) as [[E [A|B]]|[[E (A & B & D)]|[m' (E & C & M)]]]; rewrite E; split.
  - discriminate.
  - intros [[Ha _] _]. subst. destruct Ha.
  - discriminate.
  - intros [[_ Hb] _]. subst. destruct Hb.
  - discriminate.
  - intros [C _]. now apply D in C.
  - intros H; inversion H; subst. split; assumption.
  - intros [C' M']. pose proof (M m C'). pose proof (M' m' C). f_equal. lia.
Qed.

(* error iff the intersection is empty (a list being empty is a special case); the value is then 0 *)
Theorem fbs_err_iff a b :
  (exists e, find_biggest_same a b = (0, Some e)) <-> (forall x, ~ common a b x).
Proof.
  destruct (fbs_cases a b) as [[E [A|B]]|[[E (A & B & D)]|[m' (E & C & M)]]]; rewrite E; split.
  - intros _ x [Ha _]. subst. destruct Ha.
  - intros _. now eexists.
  - intros _ x [_ Hb]. subst. destruct Hb.
  - intros _. now eexists.
  - intros _. assumption.
  - intros _. now eexists.
  - intros [e H]. discriminate.
  - intros D. now apply D in C.
Qed.

Theorem fbs_total a b : exists m err, find_biggest_same a b = (m, err) /\ (err <> None -> m = 0).
Proof.
  destruct (fbs_cases a b) as [[E _]|[[E _]|[m' (E & _)]]]; rewrite E.
  - now exists 0, (Some E_EMPTY_SLICE).
  - now exists 0, (Some E_NO_COMMON).
  - exists m', None. split; [reflexivity | congruence].
Qed.

Lemma common_sym a b x : common a b x <-> common b a x.
Proof. unfold common; tauto. Qed.

(* both ends compute the same thing, error class included *)
Theorem fbs_sym a b : find_biggest_same a b = find_biggest_same b a.
Proof.
  destruct (fbs_cases a b) as [[E [A|B]]|[[E (A & B & D)]|[m (E & C & M)]]]; rewrite E.
  - subst. destruct b; reflexivity.
  - subst. destruct a; reflexivity.
  - destruct (fbs_cases b a) as [[E' [A'|B']]|[[E' _]|[m' (E' & C' & _)]]]; try congruence.
    apply common_sym in C'. now apply D in C'.
  - symmetry. apply fbs_ok_iff. split; [now apply common_sym|].
    intros x Cx. apply M. now apply common_sym.
Qed.

(* ---------- getOrStoreHighestVersion ---------- *)

Theorem gos_cached own c node e v : c node = Some v -> get_or_store own c node e = (Ok v, c).
Proof. intros H. unfold get_or_store. now rewrite H. Qed.

Theorem gos_missing own c node v0 rest :
  c node = None -> own = v0 :: rest ->
  get_or_store own c node PvMissing = (Ok v0, vcache_set c node v0).
Proof. intros H E. unfold get_or_store. rewrite H. subst. reflexivity. Qed.

Theorem gos_malformed own c node : c node = None -> get_or_store own c node PvMalformed = (Err E_ENR_LOAD, c).
Proof. intros H. unfold get_or_store. now rewrite H. Qed.

Theorem gos_list_ok own c node l m :
  c node = None ->
  (fst (get_or_store own c node (PvList l)) = Ok m <->
   common own l m /\ forall x, common own l x -> x <= m).
Proof.
  intros H. unfold get_or_store. rewrite H. rewrite <- fbs_ok_iff.
  destruct (find_biggest_same own l) as [v [e|]]; simpl; split; intros E; inversion E; reflexivity.
Qed.

Theorem gos_list_err own c node l :
  c node = None ->
  ((exists e, fst (get_or_store own c node (PvList l)) = Err e) <-> forall x, ~ common own l x).
Proof.
  intros H. unfold get_or_store. rewrite H. rewrite <- fbs_err_iff.
  destruct (fbs_total own l) as (m & err & E & Z). rewrite E. destruct err as [e|]; simpl; split.
  - intros _. exists e. rewrite Z by discriminate. reflexivity.
  - intros _. now exists e.
  - intros [e X]. discriminate.
  - intros [e X]. discriminate.
Qed.

Theorem gos_no_panic own c node l : fst (get_or_store own c node (PvList l)) <> Panic.
Proof.
  unfold get_or_store. destruct (c node); simpl; [discriminate|].
  destruct (find_biggest_same own l) as [v [e|]]; simpl; discriminate.
Qed.

(* what is stored: exactly the returned version on success - and 0 on error (the defect) *)
Theorem gos_stores own c node l :
  c node = None ->
  snd (get_or_store own c node (PvList l)) node = Some (fst (find_biggest_same own l)).
Proof.
  intros H. unfold get_or_store. rewrite H. destruct (find_biggest_same own l) as [v e]. simpl.
  unfold vcache_set. now rewrite N.eqb_refl.
Qed.

Theorem negotiate_sym A B : negotiate A B = negotiate B A.
Proof. unfold negotiate, get_or_store, empty_cache. now rewrite fbs_sym. Qed.

Theorem negotiate_ok_iff A B m :
  negotiate A B = Ok m <-> common A B m /\ forall x, common A B x -> x <= m.
Proof. unfold negotiate. now apply gos_list_ok. Qed.

Theorem negotiate_err_iff A B : (exists e, negotiate A B = Err e) <-> forall x, ~ common A B x.
Proof. unfold negotiate. now apply gos_list_err. Qed.

(* Two nodes: X advertises A, Y advertises B, neither has the other in its cache.  Whatever X frames for Y with the
   version X derives, Y unframes with the version Y derives; both use the same ACCEPT encoding. *)
Theorem two_nodes_compose A B cx cy nx ny :
  cx ny = None -> cy nx = None ->
  fst (get_or_store A cx ny (PvList B)) = fst (get_or_store B cy nx (PvList A)) /\
  (forall v, fst (get_or_store A cx ny (PvList B)) = Ok v ->
     (common A B v /\ forall x, common A B x -> x <= v) /\
     forall d, short d ->
       exists w, node_encode_utp A cx ny (PvList B) d = Ok w /\ node_decode_utp B cy nx (PvList A) w = Ok d) /\
  ((forall x, ~ common A B x) ->
     forall d, is_err (node_encode_utp A cx ny (PvList B) d) = true /\ is_err (node_decode_utp B cy nx (PvList A) d) = true).
Proof.
  intros Hx Hy.
  assert (S : fst (get_or_store A cx ny (PvList B)) = fst (get_or_store B cy nx (PvList A))).
  { unfold get_or_store. rewrite Hx, Hy, (fbs_sym A B). destruct (find_biggest_same B A) as [v e]; reflexivity. }
  split; [exact S|]. split.
  - intros v E. split; [now apply (gos_list_ok A cx ny B v Hx)|].
    intros d Hd. exists (encode_utp_content v d). unfold node_encode_utp, node_decode_utp.
    rewrite <- S, E. split; [reflexivity | now apply utp_roundtrip].
  - intros D d. apply (gos_list_err A cx ny B Hx) in D as [e E].
    unfold node_encode_utp, node_decode_utp. rewrite <- S, E. split; reflexivity.
Qed.

(* ---------- the cached error ---------- *)

(* desired: a peer that shares no version is refused every time.  The code caches 0 together with the error: *)
Theorem second_call_after_error own c node l :
  c node = None -> (forall x, ~ common own l x) ->
  exists e, get_twice own c node (PvList l) = (Err e, Ok 0).
Proof.
  intros H D. unfold get_twice.
  destruct (get_or_store own c node (PvList l)) as [r1 c1] eqn:E1.
  assert (S : c1 node = Some 0).
  { pose proof (gos_stores own c node l H) as G. rewrite E1 in G. simpl in G. rewrite G.
    apply fbs_err_iff in D as [e D]. now rewrite D. }
  rewrite (gos_cached own c1 node (PvList l) 0 S).
  apply (gos_list_err own c node l H) in D as [e D]. rewrite E1 in D. simpl in D. subst. now exists e.
Qed.

Theorem cached_after_error_refuted :
  exists own peer, get_twice own empty_cache 0 (PvList peer) = (Err E_NO_COMMON, Ok 0).
Proof. exists [0], [3]. vm_compute. reflexivity. Qed.

(* when the first call succeeds the second one repeats it *)
Theorem second_call_after_ok own c node e v :
  fst (get_or_store own c node e) = Ok v -> get_twice own c node e = (Ok v, Ok v).
Proof.
  intros H. unfold get_twice. destruct (get_or_store own c node e) as [r1 c1] eqn:E1. simpl in H. subst.
  assert (S : c1 node = Some v).
  { unfold get_or_store in E1. destruct (c node) as [v'|] eqn:C.
    - inversion E1; subst. assumption.
    - destruct e.
      + destruct (idx own 0); inversion E1; subst. unfold vcache_set. now rewrite N.eqb_refl.
      + inversion E1.
      + destruct (find_biggest_same own l) as [v' [er|]]; inversion E1; subst.
        unfold vcache_set. now rewrite N.eqb_refl. }
  now rewrite (gos_cached own c1 node e v S).
Qed.

(* the version switch: only 0 and 1 select an encoding *)
Theorem accept_kind_total v : (v = 0 /\ accept_kind_of v = Ok AcceptBitlist) \/
                              (v = 1 /\ accept_kind_of v = Ok AcceptCodes) \/
                              (1 < v /\ accept_kind_of v = Err E_UNSUPPORTED_VERSION).
Proof.
  unfold accept_kind_of. destruct (v =? 0) eqn:E0; [left; split; [lia | reflexivity]|].
  destruct (v =? 1) eqn:E1; [right; left; split; [lia | reflexivity]|].
  right; right; split; [lia | reflexivity].
Qed.

(* ---------- histories of calls on one instance ---------- *)

Lemma gos_result_depends own c1 c2 node e :
  c1 node = c2 node -> fst (get_or_store own c1 node e) = fst (get_or_store own c2 node e).
Proof.
  intros H. unfold get_or_store. rewrite H. destruct (c2 node); [reflexivity|].
  destruct e; [destruct (idx own 0) | | destruct (find_biggest_same own l)]; reflexivity.
Qed.

Lemma gos_cache_other own c node e n : n <> node -> snd (get_or_store own c node e) n = c n.
Proof.
  intros H. unfold get_or_store. destruct (c node); [reflexivity|].
  assert (F : (n =? node) = false) by now apply N.eqb_neq.
  destruct e; [destruct (idx own 0) | | destruct (find_biggest_same own l)]; cbn [snd]; unfold vcache_set; try rewrite F; reflexivity.
Qed.

Lemma gos_history_cache_other own : forall steps c n,
  ~ In n (map fst steps) -> snd (gos_history own c steps) n = c n.
Proof.
  induction steps as [|[node e] r IH]; intros c n H; [reflexivity|]. cbn [gos_history].
  destruct (get_or_store own c node e) as [x c1] eqn:E. destruct (gos_history own c1 r) as [xs c2] eqn:E2. cbn [snd].
  cbn [map fst In] in H. assert (n <> node) by (intros ->; apply H; now left).
  assert (~ In n (map fst r)) by (intros X; apply H; now right).
  pose proof (IH c1 n H1) as I. rewrite E2 in I. cbn [snd] in I. rewrite I.
  pose proof (gos_cache_other own c node e n H0) as G. rewrite E in G. exact G.
Qed.

Lemma gos_history_app own : forall s1 s2 c,
  gos_history own c (s1 ++ s2) =
  (fst (gos_history own c s1) ++ fst (gos_history own (snd (gos_history own c s1)) s2),
   snd (gos_history own (snd (gos_history own c s1)) s2)).
Proof.
  induction s1 as [|[node e] r IH]; intros s2 c; cbn [app gos_history fst snd].
  - destruct (gos_history own c s2); reflexivity.
  - destruct (get_or_store own c node e) as [x c1]. rewrite IH.
    destruct (gos_history own c1 r) as [xs c2]. cbn [fst snd]. reflexivity.
Qed.

(* Frame property: what a call answers about a peer that no earlier call of the history was about does not depend on the
   history at all - it is the first-contact answer.  (Earlier calls act only through the cache entry of THEIR peer; the
   own version list is the same argument in every call.) *)
Theorem history_fresh_peer own c pre node e :
  ~ In node (map fst pre) ->
  fst (gos_history own c (pre ++ [(node, e)])) =
  fst (gos_history own c pre) ++ [fst (get_or_store own c node e)].
Proof.
  intros H. rewrite gos_history_app. cbn [fst gos_history].
  set (c' := snd (gos_history own c pre)).
  assert (E : c' node = c node) by (apply gos_history_cache_other; assumption).
  destruct (get_or_store own c' node e) as [x c1] eqn:G. cbn [fst]. f_equal. f_equal.
  pose proof (gos_result_depends own c' c node e E) as D. rewrite G in D. exact D.
Qed.

(* in particular the base version handed to peers without a `pv` entry never changes during the life of the instance *)
Theorem history_base_stable own v0 rest c pre node :
  own = v0 :: rest -> c node = None -> ~ In node (map fst pre) ->
  fst (gos_history own c (pre ++ [(node, PvMissing)])) = fst (gos_history own c pre) ++ [Ok v0].
Proof.
  intros E C H. rewrite (history_fresh_peer own c pre node PvMissing H).
  rewrite (gos_missing own c node v0 rest C E). reflexivity.
Qed.

(* and a peer that was already asked about gets the cached answer again, whatever happened in between *)
Theorem history_cached_peer own c pre mid node e v :
  fst (get_or_store own (snd (gos_history own c pre)) node e) = Ok v ->
  ~ In node (map fst mid) ->
  forall e', fst (gos_history own c (pre ++ (node, e) :: mid ++ [(node, e')])) =
             fst (gos_history own c (pre ++ (node, e) :: mid)) ++ [Ok v].
Proof.
  intros H M e'. replace (pre ++ (node, e) :: mid ++ [(node, e')]) with ((pre ++ (node, e) :: mid) ++ [(node, e')])
    by (rewrite <- app_assoc; reflexivity).
  rewrite gos_history_app. cbn [fst gos_history].
  set (c2 := snd (gos_history own c (pre ++ (node, e) :: mid))).
  assert (S : c2 node = Some v).
  { unfold c2. rewrite gos_history_app. cbn [snd gos_history].
    set (c0 := snd (gos_history own c pre)) in *.
    destruct (get_or_store own c0 node e) as [x c1] eqn:G. cbn [fst] in H. subst x.
    destruct (gos_history own c1 mid) as [xs c3] eqn:G2. cbn [snd].
    pose proof (gos_history_cache_other own mid c1 node M) as O. rewrite G2 in O. cbn [snd] in O. rewrite O.
    pose proof (second_call_after_ok own c0 node e v) as T. rewrite G in T. specialize (T eq_refl).
    unfold get_twice in T. rewrite G in T. destruct (get_or_store own c1 node e) as [r2 c4] eqn:G3.
    unfold get_or_store in G3. destruct (c1 node) as [w|] eqn:W.
    - inversion G3; subst. inversion T; subst. reflexivity.
    - exfalso. unfold get_or_store in G. destruct (c0 node) as [w0|] eqn:W0.
      + inversion G; subst. congruence.
      + destruct e; [destruct (idx own 0) | | destruct (find_biggest_same own l) as [vv [er|]]]; inversion G; subst;
          unfold vcache_set in W; rewrite N.eqb_refl in W; discriminate. }
  rewrite (gos_cached own c2 node e' v S). reflexivity.
Qed.

(* ---------- two records of one node ---------- *)

Local Arguments N.mul : simpl never.
Local Arguments N.add : simpl never.

Lemma rec_key_inj id1 s1 id2 s2 :
  s1 < 18446744073709551616 -> s2 < 18446744073709551616 -> rec_key id1 s1 = rec_key id2 s2 -> id1 = id2 /\ s1 = s2.
Proof. unfold rec_key. intros. lia. Qed.

(* The answer for a record depends only on that record's pv entry, the own list and earlier calls WITH THAT RECORD:
   whatever was negotiated with other records - other records OF THE SAME NODE included (an older or a newer one) - does
   not matter; the first call with a record is a first contact. *)
Theorem history_record_independent own c pre id seq e :
  seq < 18446744073709551616 ->
  Forall (fun st => exists i s, fst st = rec_key i s /\ s < 18446744073709551616 /\ (i, s) <> (id, seq)) pre ->
  fst (gos_history own c (pre ++ [(rec_key id seq, e)])) =
  fst (gos_history own c pre) ++ [fst (get_or_store own c (rec_key id seq) e)].
Proof.
  intros Hs H. apply history_fresh_peer. intros I. apply in_map_iff in I as (st & E & Hin).
  rewrite Forall_forall in H. destruct (H st Hin) as (i & s & K & Hs' & NE).
  rewrite K in E. apply rec_key_inj in E; [|assumption|assumption]. destruct E; subst. now apply NE.
Qed.

Lemma gos_empty_key own k l : fst (get_or_store own empty_cache k (PvList l)) = negotiate own l.
Proof. unfold negotiate, get_or_store, empty_cache. destruct (find_biggest_same own l) as [v [e|]]; reflexivity. Qed.

(* upgrade and downgrade: a node first seen with pv = old, then with a republished record pv = new: the second record is
   negotiated from `new` alone *)
Theorem history_republished_record own id s1 s2 old new :
  s1 < 18446744073709551616 -> s2 < 18446744073709551616 -> s1 <> s2 ->
  fst (gos_history own empty_cache [(rec_key id s1, PvList old); (rec_key id s2, PvList new)]) =
  [negotiate own old; negotiate own new].
Proof.
  intros H1 H2 NE.
  change [(rec_key id s1, PvList old); (rec_key id s2, PvList new)] with ([(rec_key id s1, PvList old)] ++ [(rec_key id s2, PvList new)]).
  rewrite (history_record_independent own empty_cache [(rec_key id s1, PvList old)] id s2 (PvList new) H2).
  - rewrite gos_empty_key. cbn [gos_history].
    destruct (get_or_store own empty_cache (rec_key id s1) (PvList old)) as [x c1] eqn:E. cbn [fst app].
    pose proof (gos_empty_key own (rec_key id s1) old) as G. rewrite E in G. cbn [fst] in G. now rewrite G.
  - constructor; [|constructor]. exists id, s1. cbn [fst]. repeat split; auto. intros X; inversion X; congruence.
Qed.
