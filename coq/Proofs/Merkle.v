(* Proofs/Merkle.v : soundness-or-collision, completeness and sibling uniqueness of Merkle branches. *)
From Shisui Require Import Base.Bytes Base.Merkle.
From Coq Require Import ZifyBool ZifyN ZifyNat.

Section MerkleProofs.
  Variable H : bytes -> bytes -> bytes.
  Notation step := (step H).
  Notation fold_td := (fold_td H).
  Notation troot := (troot H).
  Notation siblings := (siblings H).
  Notation Collision := (Collision H).

  Lemma bytes_eq_dec (a b : bytes) : {a = b} + {a <> b}.
  Proof. apply list_eq_dec. apply Byte.byte_eq_dec. Qed.

  Lemma fold_td_app l1 l2 v : fold_td (l1 ++ l2) v = fold_td l1 (fold_td l2 v).
  Proof. induction l1 as [|[b s] l1 IH]; simpl; [reflexivity|]. now rewrite IH. Qed.

  (* H x y = H x' y' with different arguments is a collision *)
  Lemma pair_collision a b c d : H a b = H c d -> (a = c /\ b = d) \/ Collision.
  Proof.
    intros E. destruct (bytes_eq_dec a c) as [->|N1]; [destruct (bytes_eq_dec b d) as [->|N2]|].
    - left; split; reflexivity.
    - right. exists c, b, c, d. split; [congruence|assumption].
    - right. exists a, b, c, d. split; [congruence|assumption].
  Qed.

  (* ---------- soundness ---------- *)
  Theorem fold_sound : forall levels t v s,
    fold_td levels v = troot t ->
    subtree t (map fst levels) = Some s ->
    troot s = v \/ Collision.
  Proof.
    induction levels as [|[b sb] rest IH]; intros t v s Hf Hs; simpl in *.
    - inversion Hs. left. congruence.
    - destruct t as [x|l r]; [discriminate|]. simpl in Hf. unfold Merkle.step in Hf.
      destruct b.
      + apply pair_collision in Hf as [[_ E]|C]; [|right; exact C].
        eapply IH; [exact E|exact Hs].
      + apply pair_collision in Hf as [[E _]|C]; [|right; exact C].
        eapply IH; [exact E|exact Hs].
  Qed.

  Theorem fold_siblings_unique : forall levels t v ss,
    fold_td levels v = troot t ->
    siblings t (map fst levels) = Some ss ->
    map snd levels = ss \/ Collision.
  Proof.
    induction levels as [|[b sb] rest IH]; intros t v ss Hf Hs; simpl in *.
    - inversion Hs. left; reflexivity.
    - destruct t as [x|l r]; [discriminate|]. simpl in Hf. unfold Merkle.step in Hf.
      destruct b.
      + destruct (siblings r (map fst rest)) as [ss'|] eqn:Es; [|discriminate]. inversion Hs; subst ss.
        apply pair_collision in Hf as [[E1 E2]|C]; [|right; exact C].
        destruct (IH r v ss' E2 Es) as [E|C]; [left; now rewrite E1, E|right; exact C].
      + destruct (siblings l (map fst rest)) as [ss'|] eqn:Es; [|discriminate]. inversion Hs; subst ss.
        apply pair_collision in Hf as [[E1 E2]|C]; [|right; exact C].
        destruct (IH l v ss' E1 Es) as [E|C]; [left; now rewrite E2, E|right; exact C].
  Qed.

  (* ---------- completeness ---------- *)
  Theorem fold_complete : forall path t s ss,
    subtree t path = Some s -> siblings t path = Some ss ->
    fold_td (combine path ss) (troot s) = troot t.
  Proof.
    induction path as [|b p IH]; intros t s ss Hs Hsib; simpl in *.
    - inversion Hs; inversion Hsib; subst. reflexivity.
    - destruct t as [x|l r]; [discriminate|].
      destruct b.
      + destruct (siblings r p) as [ss'|] eqn:Es; [|discriminate]. inversion Hsib; subst ss.
        simpl. unfold Merkle.step. now rewrite (IH r s ss' Hs Es).
      + destruct (siblings l p) as [ss'|] eqn:Es; [|discriminate]. inversion Hsib; subst ss.
        simpl. unfold Merkle.step. now rewrite (IH l s ss' Hs Es).
  Qed.

  Lemma siblings_length : forall path t ss, siblings t path = Some ss -> length ss = length path.
  Proof.
    induction path as [|b p IH]; intros t ss Hs; simpl in *.
    - inversion Hs; reflexivity.
    - destruct t as [x|l r]; [discriminate|].
      destruct (siblings (if b then r else l) p) as [ss'|] eqn:Es; [|discriminate].
      inversion Hs; subst. simpl. f_equal. eapply IH; eassumption.
  Qed.

  Lemma subtree_siblings : forall path t s, subtree t path = Some s -> exists ss, siblings t path = Some ss.
  Proof.
    induction path as [|b p IH]; intros t s Hs; simpl in *; [eexists; reflexivity|].
    destruct t as [x|l r]; [discriminate|].
    destruct (IH _ _ Hs) as [ss E]. rewrite E. eexists; reflexivity.
  Qed.

  (* ---------- the two library procedures are fold_td over the index bits ---------- *)

  (* bits i .. i+n-1 of index, lowest first *)
  Fixpoint bits_from (n : nat) (i : N) (index : N) : list bool :=
    match n with O => [] | S k => N.testbit index i :: bits_from k (i + 1) index end.

  Lemma bits_from_length n i index : length (bits_from n i index) = n.
  Proof. revert i; induction n; intros; simpl; [reflexivity|now rewrite IHn]. Qed.

  Lemma fold_bits_td : forall hashes i index v,
    fold_bits H i index hashes v = fold_td (rev (combine (bits_from (length hashes) i index) hashes)) v.
  Proof.
    induction hashes as [|h rest IH]; intros i index v; simpl; [reflexivity|].
    rewrite IH. rewrite fold_td_app. reflexivity.
  Qed.

  Lemma fold_zrnt_td : forall n i index branch v pre,
    length pre = N.to_nat i ->
    (N.to_nat i + n <= length (pre ++ branch))%nat ->
    fold_zrnt H n i index (pre ++ branch) v
    = Ok (fold_td (rev (combine (bits_from n i index) (firstn n branch))) v).
  Proof.
    induction n as [|n IH]; intros i index branch v pre Hp Hl; simpl; [reflexivity|].
    rewrite nth_error_app2 by lia. rewrite Hp, Nat.sub_diag.
    destruct branch as [|s branch]; [rewrite app_length in Hl; simpl in Hl; lia|].
    simpl. rewrite fold_td_app. simpl.
    replace (pre ++ s :: branch) with ((pre ++ [s]) ++ branch) by now rewrite <- app_assoc.
    rewrite IH; [reflexivity| |].
    - rewrite app_length. simpl. lia.
    - rewrite <- app_assoc. simpl. lia.
  Qed.

  Lemma fold_zrnt_panics : forall n i index branch v,
    (length branch < N.to_nat i + n)%nat -> (N.to_nat i <= length branch)%nat ->
    fold_zrnt H n i index branch v = Panic.
  Proof.
    induction n as [|n IH]; intros i index branch v Hl Hi; simpl; [lia|].
    destruct (nth_error branch (N.to_nat i)) as [s|] eqn:E; [|reflexivity].
    apply IH; [lia|].
    assert (N.to_nat i < length branch)%nat by (apply nth_error_Some; congruence). lia.
  Qed.

  (* top-down path and level list for a bottom-up branch *)
  Definition path_of (depth : nat) (index : N) : list bool := rev (bits_from depth 0 index).
  Definition levels_of (depth : nat) (index : N) (branch : list bytes) : list (bool * bytes) :=
    rev (combine (bits_from depth 0 index) (firstn depth branch)).

  Lemma levels_path depth index branch :
    (depth <= length branch)%nat -> map fst (levels_of depth index branch) = path_of depth index.
  Proof.
    intros Hl. unfold levels_of, path_of. rewrite map_rev. f_equal.
    generalize 0 as i. revert branch Hl. induction depth as [|d IH]; intros branch Hl i; simpl; [reflexivity|].
    destruct branch as [|s branch]; [simpl in Hl; lia|]. simpl. f_equal. apply IH. simpl in Hl; lia.
  Qed.

  Lemma levels_sibs depth index branch :
    (depth <= length branch)%nat -> map snd (levels_of depth index branch) = rev (firstn depth branch).
  Proof.
    intros Hl. unfold levels_of. rewrite map_rev. f_equal.
    generalize 0 as i. revert branch Hl. induction depth as [|d IH]; intros branch Hl i; simpl; [reflexivity|].
    destruct branch as [|s branch]; [simpl in Hl; lia|]. simpl. f_equal. apply IH. simpl in Hl; lia.
  Qed.

  Theorem verify_branch_spec leaf branch depth index root :
    verify_branch H leaf branch depth index root =
      if Nat.leb (N.to_nat depth) (length branch)
      then Ok (bytes_eqb (fold_td (levels_of (N.to_nat depth) index branch) leaf) root)
      else Panic.
  Proof.
    unfold verify_branch. destruct (Nat.leb_spec (N.to_nat depth) (length branch)) as [L|G].
    - pose proof (fold_zrnt_td (N.to_nat depth) 0 index branch leaf [] eq_refl) as E. simpl in E.
      rewrite E by lia. reflexivity.
    - rewrite fold_zrnt_panics; [reflexivity|simpl; lia|simpl; lia].
  Qed.

  Theorem verify_gindex_spec root index leaf hashes :
    verify_gindex H root index leaf hashes =
      if nlen hashes =? N.log2 index
      then Ok (bytes_eqb (fold_td (levels_of (length hashes) index hashes) leaf) root)
      else Err E_PROOF_LEN.
  Proof.
    unfold verify_gindex. destruct (nlen hashes =? N.log2 index); [|reflexivity].
    rewrite fold_bits_td. unfold levels_of. rewrite firstn_all. reflexivity.
  Qed.

  (* ---------- packaged statements used by the property files ---------- *)

  (* acceptance by the zrnt procedure against the root of ANY tree that has the addressed position:
     the leaf is the root of the subtree at that position, or H has an explicit collision *)
  Theorem verify_branch_sound leaf branch depth index t s :
    verify_branch H leaf branch depth index (troot t) = Ok true ->
    subtree t (path_of (N.to_nat depth) index) = Some s ->
    troot s = leaf \/ Collision.
  Proof.
    rewrite verify_branch_spec. destruct (Nat.leb_spec (N.to_nat depth) (length branch)) as [L|G]; [|discriminate].
    intros E Hs. inversion E as [E']. apply bytes_eqb_eq in E'.
    eapply fold_sound; [exact E'|]. rewrite levels_path by assumption. exact Hs.
  Qed.

  Theorem verify_branch_siblings leaf branch depth index t ss :
    verify_branch H leaf branch depth index (troot t) = Ok true ->
    siblings t (path_of (N.to_nat depth) index) = Some ss ->
    rev (firstn (N.to_nat depth) branch) = ss \/ Collision.
  Proof.
    rewrite verify_branch_spec. destruct (Nat.leb_spec (N.to_nat depth) (length branch)) as [L|G]; [|discriminate].
    intros E Hs. inversion E as [E']. apply bytes_eqb_eq in E'.
    rewrite <- levels_sibs with (index := index) by assumption.
    eapply fold_siblings_unique; [exact E'|]. rewrite levels_path by assumption. exact Hs.
  Qed.

  Theorem verify_branch_complete depth index t s ss :
    subtree t (path_of depth index) = Some s ->
    siblings t (path_of depth index) = Some ss ->
    verify_branch H (troot s) (rev ss) (N.of_nat depth) index (troot t) = Ok true.
  Proof.
    intros Hs Hsib. rewrite verify_branch_spec. rewrite Nnat.Nat2N.id.
    pose proof (siblings_length _ _ _ Hsib) as Hl. unfold path_of in Hl. rewrite rev_length, bits_from_length in Hl.
    rewrite rev_length. replace (Nat.leb depth (length ss)) with true by lia.
    f_equal. apply bytes_eqb_eq.
    unfold levels_of. rewrite firstn_all2 by (rewrite rev_length; lia).
    rewrite <- (rev_involutive (bits_from depth 0 index)) at 1.
    assert (E : combine (rev (rev (bits_from depth 0 index))) (rev ss) = rev (combine (rev (bits_from depth 0 index)) ss)).
    { set (a := rev (bits_from depth 0 index)). assert (La : length a = length ss) by (unfold a; rewrite rev_length, bits_from_length; lia).
      clearbody a. clear -La. revert ss La. induction a as [|x a IH]; intros [|y ss] La; simpl in *; try lia; [reflexivity|].
      rewrite <- IH by lia.
      (* combine (rev a ++ [x]) (rev ss ++ [y]) = combine (rev a) (rev ss) ++ [(x,y)] *)
      assert (L2 : length (rev a) = length (rev ss)) by (rewrite !rev_length; lia).
      generalize dependent (rev ss). generalize (rev a). clear. induction l as [|p l IHl]; intros [|q l0] L2; simpl in *; try lia; [reflexivity|].
      f_equal. apply IHl. lia. }
    rewrite E, rev_involutive. apply fold_complete; assumption.
  Qed.

  Theorem verify_gindex_sound root_t index leaf hashes s :
    verify_gindex H (troot root_t) index leaf hashes = Ok true ->
    subtree root_t (path_of (length hashes) index) = Some s ->
    troot s = leaf \/ Collision.
  Proof.
    rewrite verify_gindex_spec. destruct (nlen hashes =? N.log2 index); [|discriminate].
    intros E Hs. inversion E as [E']. apply bytes_eqb_eq in E'.
    eapply fold_sound; [exact E'|]. rewrite levels_path by lia. exact Hs.
  Qed.

  Theorem verify_gindex_complete index t s ss :
    N.of_nat (length ss) = N.log2 index ->
    subtree t (path_of (length ss) index) = Some s ->
    siblings t (path_of (length ss) index) = Some ss ->
    verify_gindex H (troot t) index (troot s) (rev ss) = Ok true.
  Proof.
    intros Hlen Hs Hsib.
    pose proof (verify_branch_complete (length ss) index t s ss Hs Hsib) as E.
    rewrite verify_branch_spec in E. rewrite Nnat.Nat2N.id, rev_length in E.
    replace (Nat.leb (length ss) (length ss)) with true in E by lia.
    rewrite verify_gindex_spec. unfold nlen. rewrite rev_length, Hlen, N.eqb_refl. exact E.
  Qed.

  (* never a panic when the branch is long enough; always a panic otherwise (the caller must guarantee the length) *)
  Theorem verify_branch_panic_iff leaf branch depth index root :
    verify_branch H leaf branch depth index root = Panic <-> (length branch < N.to_nat depth)%nat.
  Proof.
    rewrite verify_branch_spec. destruct (Nat.leb_spec (N.to_nat depth) (length branch)); split; intros; try discriminate; try lia; reflexivity.
  Qed.
End MerkleProofs.
