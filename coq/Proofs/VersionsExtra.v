(* Proofs/VersionsExtra.v : findBiggestSameNumber depends only on the two advertised SETS - order and repetition of
   entries in either list play no role (value and error class).  A peer that lists a version twice, or lists its versions
   in descending order, gets the same answer as one that lists each once, ascending. *)
From Shisui Require Import Base.Bytes Model.Versions Proofs.Versions.
From Coq Require Import Lia.

Definition same_set (a a' : list N) : Prop := forall x, In x a <-> In x a'.

Lemma same_set_nil a a' : same_set a a' -> (a = [] <-> a' = []).
Proof.
  intros H. split; intros ->.
  - destruct a' as [|x r]; [reflexivity|]. exfalso. apply (proj2 (H x)). now left.
  - destruct a as [|x r]; [reflexivity|]. exfalso. apply (proj1 (H x)). now left.
Qed.

Lemma common_same_set a a' b b' x : same_set a a' -> same_set b b' -> (common a b x <-> common a' b' x).
Proof. unfold common, same_set. intros Ha Hb. rewrite (Ha x), (Hb x). tauto. Qed.

Theorem fbs_set_extensional a a' b b' :
  same_set a a' -> same_set b b' -> find_biggest_same a b = find_biggest_same a' b'.
Proof.
  intros Ha Hb.
  pose proof (same_set_nil _ _ Ha) as Na. pose proof (same_set_nil _ _ Hb) as Nb.
  destruct (fbs_cases a b) as [[E [A|B]]|[[E (A & B & D)]|[m (E & C & M)]]]; rewrite E.
  - apply Na in A. subst a'. reflexivity.
  - apply Nb in B. subst b'. destruct a'; reflexivity.
  - destruct (fbs_cases a' b') as [[E' [A'|B']]|[[E' _]|[m' (E' & C' & _)]]].
    + apply Na in A'. contradiction.
    + apply Nb in B'. contradiction.
    + congruence.
    + exfalso. apply (D m'). apply (common_same_set a a' b b'); assumption.
  - symmetry. apply fbs_ok_iff. split.
    + apply (common_same_set a a' b b'); assumption.
    + intros x Cx. apply M. apply (common_same_set a a' b b'); assumption.
Qed.

(* special cases named for the reader: a repeated entry, and any reordering, of the PEER's list *)
Corollary fbs_peer_duplicate a v b1 b2 :
  find_biggest_same a (b1 ++ v :: b2) = find_biggest_same a (v :: b1 ++ v :: b2).
Proof.
  apply fbs_set_extensional; [intros x; tauto|].
  intros x. cbn [In]. rewrite !in_app_iff. cbn [In]. tauto.
Qed.

Corollary fbs_peer_reversed a b : find_biggest_same a b = find_biggest_same a (rev b).
Proof. apply fbs_set_extensional; [intros x; tauto|]. intros x. apply in_rev. Qed.

(* the negotiated version (first contact, empty cache) inherits it *)
Theorem negotiate_set_extensional A A' B B' :
  same_set A A' -> same_set B B' -> negotiate A B = negotiate A' B'.
Proof.
  intros Ha Hb. unfold negotiate, get_or_store. cbn.
  rewrite (fbs_set_extensional A A' B B' Ha Hb). reflexivity.
Qed.

(* getOrStoreHighestVersion itself (any cache state, hit or miss): result AND the cache afterwards depend on the peer's
   list only through its set, and on the own list - when the peer lists something - only through its set *)
Theorem gos_set_extensional own own' c node l l' :
  same_set own own' -> same_set l l' ->
  get_or_store own c node (PvList l) = get_or_store own' c node (PvList l').
Proof.
  intros Ho Hl. unfold get_or_store. destruct (c node); [reflexivity|].
  rewrite (fbs_set_extensional own own' l l' Ho Hl). reflexivity.
Qed.

(* ... and so do whole call histories against the same peer entries, entry by entry *)
Definition same_entry (e e' : pv_entry) : Prop :=
  match e, e' with
  | PvMissing, PvMissing => True
  | PvMalformed, PvMalformed => True
  | PvList l, PvList l' => same_set l l'
  | _, _ => False
  end.

Theorem gos_history_set_extensional own : forall steps steps' c,
  Forall2 (fun s s' => fst s = fst s' /\ same_entry (snd s) (snd s')) steps steps' ->
  gos_history own c steps = gos_history own c steps'.
Proof.
  induction steps as [|[n e] rest IH]; intros steps' c H; inversion H as [|? [n' e'] ? ? [Hn He] Hr]; subst; [reflexivity|].
  cbn [fst snd] in Hn, He. subst n'. cbn [gos_history].
  assert (E : get_or_store own c n e = get_or_store own c n e').
  { destruct e, e'; cbn in He; try contradiction; try reflexivity.
    apply gos_set_extensional; [intros x; tauto|exact He]. }
  rewrite E. destruct (get_or_store own c n e') as [r c']. rewrite (IH _ c' Hr). reflexivity.
Qed.
