(* Proofs/VersionsExtra.v : findBiggestSameNumber depends only on the two advertised SETS - order and repetition of
   entries in either list play no role (value and error class).  A peer that lists a version twice, or lists its versions
   in descending order, gets the same answer as one that lists each once, ascending. *)
From Shisui Require Import Base.Bytes Model.Versions Proofs.Versions.
From Coq Require Import Lia.

Definition same_set (a a' : list N) : Prop := forall x, In x a <-> In x a'.

Lemma same_set_nil a a' : same_set a a' -> (a = [] <-> a' = []).
Proof.
  intros H. split; intros ->.
  - destruct a' as [|x r]; [reflexivity|]. exfalso. apply (proj2 (H x)). now left.
  - destruct a as [|x r]; [reflexivity|]. exfalso. apply (proj1 (H x)). now left.
Qed.

Lemma common_same_set a a' b b' x : same_set a a' -> same_set b b' -> (common a b x <-> common a' b' x).
Proof. unfold common, same_set. intros Ha Hb. rewrite (Ha x), (Hb x). tauto. Qed.

Theorem fbs_set_extensional a a' b b' :
  same_set a a' -> same_set b b' -> find_biggest_same a b = find_biggest_same a' b'.
Proof.
  intros Ha Hb.
  pose proof (same_set_nil _ _ Ha) as Na. pose proof (same_set_nil _ _ Hb) as Nb.
  destruct (fbs_cases a b) as [[E [A|B]]|[[E (A & B & D)]|[m (E & C & M)]]]; rewrite E.
  - apply Na in A. subst a'. reflexivity.
  - apply Nb in B. subst b'. destruct a'; reflexivity.
  - destruct (fbs_cases a' b') as [[E' [A'|B']]|[[E' _]|[m' (E' & C' & _)]]].
    + apply Na in A'. contradiction.
    + apply Nb in B'. contradiction.
    + congruence.
    + exfalso. apply (D m'). apply (common_same_set a a' b b'); assumption.
  - symmetry. apply fbs_ok_iff. split.
    + apply (common_same_set a a' b b'); assumption.
    + intros x Cx. apply M. apply (common_same_set a a' b b'); assumption.
Qed.

(* special cases named for the reader: a repeated entry, and any reordering, of the PEER's list *)
Corollary fbs_peer_duplicate a v b1 b2 :
  find_biggest_same a (b1 ++ v :: b2) = find_biggest_same a (v :: b1 ++ v :: b2).
Proof.
  apply fbs_set_extensional; [intros x; tauto|].
  intros x. cbn [In]. rewrite !in_app_iff. cbn [In]. tauto.
Qed.

Corollary fbs_peer_reversed a b : find_biggest_same a b = find_biggest_same a (rev b).
Proof. apply fbs_set_extensional; [intros x; tauto|]. intros x. apply in_rev. Qed.

(* the negotiated version (first contact, empty cache) inherits it *)
Theorem negotiate_set_extensional A A' B B' :
  same_set A A' -> same_set B B' -> negotiate A B = negotiate A' B'.
Proof.
  intros Ha Hb. unfold negotiate, get_or_store. cbn.
  rewrite (fbs_set_extensional A A' B B' Ha Hb). reflexivity.
Qed.
