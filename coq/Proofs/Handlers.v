(* Proofs/Handlers.v : lemmas about Model/Handlers.v (C11, C08). *)
From Shisui Require Import Base.Bytes Gen.K_wire Gen.K_table Model.Handlers.
From Coq Require Import ZifyBool ZifyN ZifyNat Permutation Sorted.
Local Arguments N.add : simpl never.
Local Arguments N.sub : simpl never.
Local Arguments N.mul : simpl never.
Local Arguments N.leb : simpl never.
Local Arguments N.ltb : simpl never.
Local Arguments N.eqb : simpl never.
Local Arguments N.of_nat : simpl never.
Local Arguments N.to_nat : simpl never.
Local Arguments N.testbit : simpl never.
Local Arguments N.size : simpl never.
Local Arguments N.lxor : simpl never.

(* ------------------------------------------------------------ truncation and sizes *)
Lemma nlen_cons {A} (x : A) l : nlen (x :: l) = 1 + nlen l.
Proof. unfold nlen. simpl length. lia. Qed.
Lemma nlen_app {A} (l1 l2 : list A) : nlen (l1 ++ l2) = nlen l1 + nlen l2.
Proof. unfold nlen. rewrite app_length. lia. Qed.

Lemma truncate_aux_size nodes : forall total maxSize,
  total <= maxSize -> total + enrs_size (truncate_aux nodes total maxSize 4) <= maxSize.
Proof.
  induction nodes as [|n rest IH]; intros total maxSize H; cbn [truncate_aux enrs_size fold_right]; [lia|].
  destruct (maxSize <? total + rsize n + 4) eqn:E; cbn [enrs_size fold_right]; [lia|].
  specialize (IH (total + rsize n + 4) maxSize). fold (enrs_size (truncate_aux rest (total + rsize n + 4) maxSize 4)) in *. lia.
Qed.

Lemma truncate_aux_prefix nodes : forall total maxSize ov,
  exists rest, nodes = truncate_aux nodes total maxSize ov ++ rest.
Proof.
  induction nodes as [|n tl IH]; intros; cbn [truncate_aux]; [exists []; reflexivity|].
  destruct (maxSize <? total + rsize n + ov); [exists (n :: tl); reflexivity|].
  destruct (IH (total + rsize n + ov) maxSize ov) as [r Hr]. exists r. cbn [app]. now rewrite <- Hr.
Qed.

Lemma truncate_nodes_incl nodes maxSize ov r : In r (truncate_nodes nodes maxSize ov) -> In r nodes.
Proof.
  unfold truncate_nodes. destruct (truncate_aux_prefix nodes 0 maxSize ov) as [rest H]. intros Hin.
  rewrite H. apply in_or_app; now left.
Qed.
Lemma truncate_nodes_length nodes maxSize ov : nlen (truncate_nodes nodes maxSize ov) <= nlen nodes.
Proof.
  unfold truncate_nodes. destruct (truncate_aux_prefix nodes 0 maxSize ov) as [rest H].
  rewrite H at 2. rewrite nlen_app. lia.
Qed.
Lemma truncate_nodes_size nodes maxSize : enrs_size (truncate_nodes nodes maxSize 4) <= maxSize.
Proof. unfold truncate_nodes. pose proof (truncate_aux_size nodes 0 maxSize). lia. Qed.

(* truncation stops at the first record that does not fit: either everything was taken or the next one is too big *)
Lemma truncate_aux_maximal nodes : forall total maxSize,
  truncate_aux nodes total maxSize 4 = nodes \/
  exists n rest, nodes = truncate_aux nodes total maxSize 4 ++ n :: rest /\
                 maxSize < total + enrs_size (truncate_aux nodes total maxSize 4) + rsize n + 4.
Proof.
  induction nodes as [|n tl IH]; intros; cbn [truncate_aux]; [now left|].
  destruct (maxSize <? total + rsize n + 4) eqn:E.
  - right. exists n, tl. cbn [app enrs_size fold_right]. split; [reflexivity|lia].
  - destruct (IH (total + rsize n + 4) maxSize) as [H|(m & rest & H1 & H2)].
    + left. now rewrite H.
    + right. exists m, rest. cbn [app]. split; [now rewrite <- H1|].
      cbn [enrs_size fold_right]. fold (enrs_size (truncate_aux tl (total + rsize n + 4) maxSize 4)). lia.
Qed.

(* ------------------------------------------------------------ datagram arithmetic *)
Lemma overhead_fits_nodes : K_talkRespOverhead + nodes_overhead <= K_maxPacketSize.
Proof. vm_compute. discriminate. Qed.
Lemma overhead_fits_content : K_talkRespOverhead + content_overhead <= K_maxPacketSize.
Proof. vm_compute. discriminate. Qed.

(* the constant the code subtracts really is an upper bound of what discv5 adds around a TALKRESP whose request id has at most 8 bytes *)
Lemma rlp_hdr_le3 l : l < 65536 -> rlp_hdr l <= 3.
Proof. intros H. unfold rlp_hdr, be_len. destruct (l <=? 55); [lia|]. destruct (l <? 256); [lia|]. destruct (l <? 65536) eqn:E; lia. Qed.
Lemma rlp_hdr_small l : l <= 55 -> rlp_hdr l = 1.
Proof. intros H. unfold rlp_hdr. destruct (l <=? 55) eqn:E; lia. Qed.
Lemma rlp_str_le l s : l < 65536 -> rlp_str l s <= l + 3.
Proof. intros H. unfold rlp_str. pose proof (rlp_hdr_le3 l H). destruct (s && (l =? 1)) eqn:E; lia. Qed.
Lemma rlp_str_small l s : l <= 55 -> rlp_str l s <= l + 1.
Proof. intros H. unfold rlp_str. pose proof (rlp_hdr_small l H). destruct (s && (l =? 1)) eqn:E; lia. Qed.

Lemma talkresp_datagram_bound reqid s1 resp s2 :
  reqid <= 8 -> resp < 65000 -> talkresp_datagram reqid s1 resp s2 <= resp + K_talkRespOverhead.
Proof.
  intros H1 H2. unfold talkresp_datagram, K_talkRespOverhead.
  pose proof (rlp_str_small reqid s1 ltac:(lia)). pose proof (rlp_str_le resp s2 ltac:(lia)).
  pose proof (rlp_hdr_le3 (rlp_str reqid s1 + rlp_str resp s2) ltac:(lia)). lia.
Qed.

Lemma talkresp_datagram_fits reqid s1 resp s2 :
  reqid <= 8 -> resp + K_talkRespOverhead <= K_maxPacketSize -> talkresp_datagram reqid s1 resp s2 <= K_maxPacketSize.
Proof.
  intros H1 H2. assert (resp < 65000) by (unfold K_maxPacketSize, K_talkRespOverhead in H2; lia).
  pose proof (talkresp_datagram_bound reqid s1 resp s2 H1 H). lia.
Qed.

(* ------------------------------------------------------------ collecting table nodes *)
Section Collect.
Variable shuf : N -> list nrec -> list nrec.
Hypothesis shuf_perm : forall d l, Permutation (shuf d l) l.

(* where a record of the reply may come from *)
Definition origin (tab : table) (self : nrec) (d : N) (r : nrec) : Prop :=
  (d = 0 /\ r = self) \/
  (1 <= d <= 256 /\ exists b, nth_error tab (bucket_index d) = Some b /\ In (r, true) b).

Lemma append_bucket_nodes_origin tab self d bn :
  append_bucket_nodes tab self (shuf d) d true = Ok bn -> forall r, In r bn -> origin tab self d r.
Proof.
  unfold append_bucket_nodes. destruct (256 <? d) eqn:E1.
  - intros H; inversion H; subst. intros r [].
  - destruct (d =? 0) eqn:E2.
    + intros H; inversion H; subst. intros r [Hr|[]]. left. split; [lia|congruence].
    + unfold idx. destruct (nth_error tab (bucket_index d)) as [b|] eqn:Eb; cbn [bind]; [|discriminate].
      intros H; inversion H; subst; clear H. intros r Hr.
      apply (Permutation_in _ (shuf_perm d _)) in Hr. apply in_map_iff in Hr as [[r' lv] [Hfst Hin]].
      cbn [fst] in Hfst; subst r'. apply filter_In in Hin as [Hin Hlive]. cbn [negb orb snd] in Hlive. subst lv.
      right. split; [lia|]. exists b. split; [exact Eb|assumption].
Qed.

Lemma append_bucket_nodes_no_panic tab self d : length tab = N.to_nat K_nBuckets ->
  append_bucket_nodes tab self (shuf d) d true <> Panic.
Proof.
  intros Hlen. unfold append_bucket_nodes. destruct (256 <? d) eqn:E1; [discriminate|].
  destruct (d =? 0); [discriminate|]. unfold idx.
  destruct (nth_error tab (bucket_index d)) eqn:Eb; cbn [bind]; [discriminate|].
  apply nth_error_None in Eb. exfalso. revert Eb. rewrite Hlen. unfold bucket_index, K_bucketMinDistance, K_nBuckets.
  destruct (d <=? 239) eqn:E3; lia.
Qed.

Lemma add_limited_spec rip cands : forall nodes limit nodes' fl,
  add_limited rip cands nodes limit = (nodes', fl) ->
  (forall r, In r nodes' -> In r nodes \/ (In r cands /\ relay_ok rip (rflags r) = true)) /\
  (nlen nodes < limit -> nlen nodes' <= limit /\ (fl = false -> nlen nodes' < limit)) /\
  (exists added, nodes' = nodes ++ added).
Proof.
  induction cands as [|n cs IH]; intros nodes limit nodes' fl H; cbn [add_limited] in H.
  - inversion H; subst. split; [auto|]. split; [intros; split; [lia|intros; lia]|]. exists []. now rewrite app_nil_r.
  - destruct (relay_ok rip (rflags n)) eqn:Er; cbn [negb] in H.
    + destruct (limit <=? nlen (nodes ++ [n])) eqn:El.
      * inversion H; subst. split.
        { intros r Hr. apply in_app_or in Hr as [Hr|[Hr|[]]]; [now left|]. subst. right. split; [now left|assumption]. }
        split; [|now exists [n]].
        intros Hlt. rewrite nlen_app in *. unfold nlen at 2 in El. unfold nlen at 2. unfold nlen at 3. simpl length in *. split; [lia|discriminate].
      * destruct (IH _ _ _ _ H) as (I1 & I2 & added & I3). split.
        { intros r Hr. destruct (I1 r Hr) as [Hin|[Hin Hrel]].
          - apply in_app_or in Hin as [Hin|[Hin|[]]]; [now left|]. subst. right. split; [now left|assumption].
          - right. split; [now right|assumption]. }
        split; [|exists (n :: added); rewrite I3, <- app_assoc; reflexivity].
        intros Hlt. apply I2. lia.
    + destruct (IH _ _ _ _ H) as (I1 & I2 & I3). split; [|split; assumption].
      intros r Hr. destruct (I1 r Hr) as [Hin|[Hin Hrel]]; [now left|]. right. split; [now right|assumption].
Qed.

Lemma collect_aux_spec tab self rip dists : forall processed nodes limit res,
  collect_aux tab self rip shuf dists processed nodes limit = Ok res ->
  (forall r, In r res -> In r nodes \/ (relay_ok rip (rflags r) = true /\ exists d, In d dists /\ origin tab self d r)) /\
  (nlen nodes < limit -> nlen res <= limit).
Proof.
  induction dists as [|d rest IH]; intros processed nodes limit res H; cbn [collect_aux] in H.
  - inversion H; subst. split; [auto|lia].
  - destruct (existsb (N.eqb d) processed || (256 <? d)) eqn:Eskip.
    + destruct (IH _ _ _ _ H) as [I1 I2]. split; [|assumption].
      intros r Hr. destruct (I1 r Hr) as [?|(Hrel & d' & Hd' & Ho)]; [now left|]. right. split; [assumption|]. exists d'. split; [now right|assumption].
    + destruct (append_bucket_nodes tab self (shuf d) d true) as [bn| |] eqn:Eb; try discriminate.
      pose proof (append_bucket_nodes_origin _ _ _ _ Eb) as Ho.
      destruct (add_limited rip bn nodes limit) as [nodes' fl] eqn:Ea.
      destruct (add_limited_spec _ _ _ _ _ _ Ea) as (A1 & A2 & _).
      assert (Hstep : forall r, In r nodes' -> In r nodes \/ (relay_ok rip (rflags r) = true /\ exists d0, In d0 (d :: rest) /\ origin tab self d0 r)).
      { intros r Hr. destruct (A1 r Hr) as [?|[Hin Hrel]]; [now left|]. right. split; [assumption|]. exists d. split; [now left|auto]. }
      destruct fl.
      * inversion H; subst. split; [assumption|]. intros Hlt. now apply A2.
      * destruct (IH _ _ _ _ H) as [I1 I2]. split.
        { intros r Hr. destruct (I1 r Hr) as [Hin|(Hrel & d' & Hd' & Ho')]; [now apply Hstep|].
          right. split; [assumption|]. exists d'. split; [now right|assumption]. }
        intros Hlt. apply I2. now apply A2.
Qed.

(* invalid and repeated distances contribute nothing: the result is that of the cleaned distance list *)
Lemma collect_aux_clean tab self rip dists : forall processed nodes limit,
  collect_aux tab self rip shuf dists processed nodes limit =
  collect_aux tab self rip shuf (clean_dists dists processed) processed nodes limit.
Proof.
  induction dists as [|d rest IH]; intros; cbn [collect_aux clean_dists]; [reflexivity|].
  destruct (existsb (N.eqb d) processed || (256 <? d)) eqn:E; [apply IH|].
  cbn [collect_aux]. rewrite E.
  destruct (append_bucket_nodes tab self (shuf d) d true); try reflexivity.
  destruct (add_limited rip a nodes limit) as [n' [|]]; [reflexivity|apply IH].
Qed.

Lemma collect_aux_no_panic tab self rip dists : length tab = N.to_nat K_nBuckets ->
  forall processed nodes limit, collect_aux tab self rip shuf dists processed nodes limit <> Panic.
Proof.
  intros Hlen. induction dists as [|d rest IH]; intros; cbn [collect_aux]; [discriminate|].
  destruct (existsb (N.eqb d) processed || (256 <? d)); [apply IH|].
  pose proof (append_bucket_nodes_no_panic tab self d Hlen) as Hnp.
  destruct (append_bucket_nodes tab self (shuf d) d true); [|discriminate|congruence].
  destruct (add_limited rip a nodes limit) as [n' [|]]; [discriminate|apply IH].
Qed.

(* ------------------------------------------------------------ handleFindNodes *)
Lemma handle_find_nodes_spec tab self rip dists enrs :
  handle_find_nodes tab self rip shuf dists = Ok enrs ->
  (* size *)   nodes_reply_len enrs + K_talkRespOverhead <= K_maxPacketSize /\
  (* count *)  nlen enrs <= K_portalFindnodesResultLimit /\
  (* origin and relay safety of every record *)
  (forall r, In r enrs -> relay_ok rip (rflags r) = true /\ exists d, In d dists /\ origin tab self d r).
Proof.
  unfold handle_find_nodes, collect_table_nodes.
  destruct (collect_aux tab self rip shuf dists [] [] K_portalFindnodesResultLimit) as [nodes| |] eqn:Ec; cbn [bind]; try discriminate.
  destruct (marshal_enrs_ok _) eqn:Em; [|discriminate]. intros H; inversion H; subst; clear H.
  destruct (collect_aux_spec _ _ _ _ _ _ _ _ Ec) as [C1 C2].
  split; [|split].
  - pose proof (truncate_nodes_size nodes findnodes_max_payload) as Hs. unfold enr_overhead.
    unfold nodes_reply_len. pose proof overhead_fits_nodes. unfold findnodes_max_payload, nodes_overhead in *. lia.
  - pose proof (truncate_nodes_length nodes findnodes_max_payload enr_overhead).
    assert (nlen nodes <= K_portalFindnodesResultLimit) by (apply C2; vm_compute; reflexivity). lia.
  - intros r Hr. apply truncate_nodes_incl in Hr. destruct (C1 r Hr) as [[]|?]. assumption.
Qed.

Lemma handle_find_nodes_clean tab self rip dists :
  handle_find_nodes tab self rip shuf dists = handle_find_nodes tab self rip shuf (clean_dists dists []).
Proof. unfold handle_find_nodes, collect_table_nodes. now rewrite collect_aux_clean. Qed.

Lemma handle_find_nodes_no_panic tab self rip dists : length tab = N.to_nat K_nBuckets ->
  handle_find_nodes tab self rip shuf dists <> Panic.
Proof.
  intros Hlen. unfold handle_find_nodes, collect_table_nodes.
  pose proof (collect_aux_no_panic tab self rip dists Hlen [] [] K_portalFindnodesResultLimit).
  destruct (collect_aux tab self rip shuf dists [] [] K_portalFindnodesResultLimit); cbn [bind]; try congruence.
  destruct (marshal_enrs_ok _); discriminate.
Qed.

(* the encoder never refuses the reply: at most 32 records, and a record that fits the packet is below 2048 bytes *)
Lemma handle_find_nodes_no_error tab self rip dists : forall e, handle_find_nodes tab self rip shuf dists <> Err e.
Proof.
  intros e. unfold handle_find_nodes, collect_table_nodes.
  destruct (collect_aux tab self rip shuf dists [] [] K_portalFindnodesResultLimit) as [nodes| |] eqn:Ec; cbn [bind].
  - destruct (collect_aux_spec _ _ _ _ _ _ _ _ Ec) as [_ C2].
    assert (Hm : marshal_enrs_ok (truncate_nodes nodes findnodes_max_payload enr_overhead) = true).
    { unfold marshal_enrs_ok. apply andb_true_intro. split.
      - pose proof (truncate_nodes_length nodes findnodes_max_payload enr_overhead).
        assert (nlen nodes <= K_portalFindnodesResultLimit) by (apply C2; vm_compute; reflexivity).
        unfold K_portalFindnodesResultLimit in *. lia.
      - apply forallb_forall. intros r Hr. unfold enr_overhead in Hr.
        pose proof (truncate_nodes_size nodes findnodes_max_payload) as Hs.
        assert (rsize r <= enrs_size (truncate_nodes nodes findnodes_max_payload 4)).
        { clear -Hr. induction (truncate_nodes nodes findnodes_max_payload 4) as [|x l IH]; [destruct Hr|].
          cbn [enrs_size fold_right]. fold (enrs_size l). destruct Hr as [->|Hr]; [lia|]. specialize (IH Hr). lia. }
        assert (findnodes_max_payload <= 2048) by (vm_compute; discriminate). lia. }
    rewrite Hm. discriminate.
  - (* an Err from collect_aux is impossible: append_bucket_nodes only yields Ok or Panic *)
    exfalso. revert Ec. generalize (@nil N) as processed, (@nil nrec) as nodes. induction dists as [|d rest IH]; intros processed nodes; cbn [collect_aux]; [discriminate|].
    destruct (existsb (N.eqb d) processed || (256 <? d)); [apply IH|].
    destruct (append_bucket_nodes tab self (shuf d) d true) as [bn| |] eqn:Eb.
    + destruct (add_limited rip bn nodes K_portalFindnodesResultLimit) as [n' [|]]; [discriminate|apply IH].
    + unfold append_bucket_nodes in Eb. destruct (256 <? d); [discriminate|]. destruct (d =? 0); [discriminate|].
      unfold idx in Eb. destruct (nth_error tab (bucket_index d)); cbn [bind] in Eb; discriminate.
    + discriminate.
  - discriminate.
Qed.
End Collect.

(* clean_dists keeps exactly the valid distances, once each *)
Lemma clean_dists_in dists : forall processed d,
  In d (clean_dists dists processed) <-> (In d dists /\ d <= 256 /\ ~ In d processed).
Proof.
  induction dists as [|x rest IH]; intros processed d; cbn [clean_dists]; [cbn [In]; tauto|].
  destruct (existsb (N.eqb x) processed || (256 <? x)) eqn:E.
  - rewrite IH. split; [intros (H1 & H2 & H3); split; [now right|tauto]|].
    intros ([->|H1] & H2 & H3); [|tauto]. exfalso. apply orb_true_iff in E as [E|E]; [|lia].
    apply existsb_exists in E as (y & Hy & Hxy). apply N.eqb_eq in Hxy. subst. contradiction.
  - apply orb_false_iff in E as [E1 E2]. cbn [In]. rewrite IH. cbn [In].
    assert (~ In x processed).
    { intros Hin. assert (existsb (N.eqb x) processed = true) by (apply existsb_exists; exists x; split; [assumption|apply N.eqb_refl]). congruence. }
    split.
    + intros [->|(H1 & H2 & H3)]; [split; [now left|split; [lia|assumption]]|]. split; [now right|]. split; [assumption|]. intros Hp. apply H3. now right.
    + intros ([->|H1] & H2 & H3); [now left|]. destruct (N.eq_dec x d) as [->|Hne]; [now left|]. right. split; [assumption|]. split; [assumption|]. intros [Hx|Hp]; [congruence|contradiction].
Qed.

Lemma clean_dists_nodup dists : forall processed, NoDup (clean_dists dists processed).
Proof.
  induction dists as [|x rest IH]; intros processed; cbn [clean_dists]; [constructor|].
  destruct (existsb (N.eqb x) processed || (256 <? x)); [apply IH|].
  constructor; [|apply IH]. rewrite clean_dists_in. intros (_ & _ & H). apply H. now left.
Qed.

(* ------------------------------------------------------------ asking side *)
Lemma verify_response_node_iff sender r dists seen :
  (exists n, verify_response_node sender r dists seen = Ok n) <->
  (accept4 sender dists r = true /\ existsb (N.eqb (rid r)) seen = false).
Proof.
  unfold verify_response_node, accept4.
  destruct (rvalid r); cbn [negb andb]; [|split; [intros [n H]; discriminate|intros [H _]; discriminate]].
  destruct (relay_ok (rflags sender) (rflags r)); cbn [negb andb]; [|split; [intros [n H]; discriminate|intros [H _]; discriminate]].
  destruct (N.leb_spec (rport r) 1024) as [Hp|Hp].
  - replace (1024 <? rport r) with false by lia. split; [intros [n H]; discriminate|intros [H _]; discriminate].
  - replace (1024 <? rport r) with true by lia. cbn [andb].
    destruct dists as [ds|].
    + destruct (existsb (N.eqb (logdist (rid sender) (rid r))) ds); cbn [negb];
        [|split; [intros [n H]; discriminate|intros [H _]; discriminate]].
      destruct (existsb (N.eqb (rid r)) seen); split; try (intros [n H]; discriminate); try (intros [_ H]; discriminate); eauto.
    + destruct (existsb (N.eqb (rid r)) seen); split; try (intros [n H]; discriminate); try (intros [_ H]; discriminate); eauto.
Qed.

Lemma verify_response_node_ok sender r dists seen n : verify_response_node sender r dists seen = Ok n -> n = r.
Proof.
  unfold verify_response_node.
  repeat match goal with |- context [if ?c then _ else _] => destruct c end; intros H; inversion H; reflexivity.
Qed.

Lemma filter_nodes_aux_spec sender dists enrs : forall seen before,
  (forall id, existsb (N.eqb id) seen = existsb (fun q => (rid q =? id) && accept4 sender dists q) before) ->
  filter_nodes_aux sender enrs dists seen = accepted_spec sender dists before enrs.
Proof.
  induction enrs as [|r rest IH]; intros seen before Inv; cbn [filter_nodes_aux accepted_spec]; [reflexivity|].
  unfold accept_conditions_b. rewrite <- (Inv (rid r)).
  destruct (verify_response_node sender r dists seen) as [n| |] eqn:Ev.
  - pose proof (verify_response_node_ok _ _ _ _ _ Ev); subst n.
    assert (Hacc : accept4 sender dists r = true /\ existsb (N.eqb (rid r)) seen = false) by (apply verify_response_node_iff; eauto).
    destruct Hacc as [Ha Hs]. rewrite Ha, Hs. cbn [andb negb app]. f_equal.
    apply IH. intros id. rewrite existsb_app. cbn [existsb]. rewrite Ha, <- Inv, orb_false_r, andb_true_r.
    rewrite orb_comm. f_equal. apply N.eqb_sym.
  - assert (Hn : ~ (accept4 sender dists r = true /\ existsb (N.eqb (rid r)) seen = false)).
    { intros Hc. apply verify_response_node_iff in Hc as [n Hn]. congruence. }
    assert (Hz : accept4 sender dists r && negb (existsb (N.eqb (rid r)) seen) = false).
    { destruct (accept4 sender dists r); destruct (existsb (N.eqb (rid r)) seen); cbn; try reflexivity. exfalso; apply Hn; auto. }
    rewrite Hz. cbn [app]. apply IH. intros id. rewrite existsb_app. cbn [existsb]. rewrite <- Inv, orb_false_r.
    destruct (accept4 sender dists r) eqn:Ha; [|now rewrite andb_false_r, orb_false_r].
    cbn [andb] in Hz. apply negb_false_iff in Hz. rewrite andb_true_r.
    destruct (rid r =? id) eqn:Eid; [|now rewrite orb_false_r]. apply N.eqb_eq in Eid. subst id. now rewrite Hz.
  - exfalso. revert Ev. unfold verify_response_node.
    repeat match goal with |- context [if ?c then _ else _] => destruct c end; discriminate.
Qed.

(* a record of a NODES response is returned iff it meets the five conditions *)
Lemma filter_nodes_spec sender enrs dists : filter_nodes sender enrs dists = accepted_spec sender dists [] enrs.
Proof. unfold filter_nodes. apply filter_nodes_aux_spec. intros id. reflexivity. Qed.

Lemma accepted_spec_sound sender dists enrs : forall before r,
  In r (accepted_spec sender dists before enrs) -> In r enrs /\ accept4 sender dists r = true.
Proof.
  induction enrs as [|x rest IH]; intros before r H; cbn [accepted_spec] in H; [destruct H|].
  apply in_app_or in H as [H|H].
  - unfold accept_conditions_b in H. destruct (accept4 sender dists x) eqn:Ea; cbn [andb] in H.
    + destruct (negb _); [|destruct H]. destruct H as [->|[]]. split; [now left|assumption].
    + destruct H.
  - destruct (IH _ _ H). split; [now right|assumption].
Qed.

Lemma accept4_facts sender dists r : accept4 sender dists r = true ->
  rvalid r = true /\ relay_ok (rflags sender) (rflags r) = true /\ 1024 < rport r /\
  (forall ds, dists = Some ds -> In (logdist (rid sender) (rid r)) ds).
Proof.
  unfold accept4. intros H. repeat (apply andb_true_iff in H as [H ?]). repeat split; try assumption; try lia.
  intros ds ->. apply existsb_exists in H0 as (y & Hy & Heq). apply N.eqb_eq in Heq. now subst.
Qed.

Lemma accepted_spec_nodup_ids sender dists enrs : forall before,
  NoDup (map rid (accepted_spec sender dists before enrs)) /\
  (forall r, In r (accepted_spec sender dists before enrs) ->
     existsb (fun q => (rid q =? rid r) && accept4 sender dists q) before = false).
Proof.
  induction enrs as [|x rest IH]; intros before; cbn [accepted_spec]; [split; [constructor|intros r []]|].
  destruct (IH (before ++ [x])) as [N1 N2].
  destruct (accept_conditions_b sender dists before x) eqn:Ea; cbn [app map].
  - unfold accept_conditions_b in Ea. apply andb_true_iff in Ea as [Ea1 Ea2]. apply negb_true_iff in Ea2. split.
    + constructor; [|assumption]. intros Hin. apply in_map_iff in Hin as (q & Hq1 & Hq2).
      specialize (N2 q Hq2). rewrite existsb_app in N2. apply orb_false_iff in N2 as [_ N2]. cbn [existsb] in N2.
      rewrite Ea1, Hq1, N.eqb_refl in N2. discriminate.
    + intros r [->|Hr]; [assumption|]. specialize (N2 r Hr). rewrite existsb_app in N2. now apply orb_false_iff in N2 as [N2 _].
  - split; [assumption|]. intros r Hr. specialize (N2 r Hr). rewrite existsb_app in N2. now apply orb_false_iff in N2 as [N2 _].
Qed.

Lemma process_nodes_wellformed c body enrs sender dists :
  b2n c = K_msg_NODES ->
  process_nodes (c :: body) (Ok enrs) sender dists = Ok (filter_nodes sender enrs dists).
Proof.
  intros Hc. unfold process_nodes, idx. cbn [nth_error bind]. rewrite Hc, N.eqb_refl. cbn [negb].
  unfold slice. cbn [length]. replace (Nat.leb 1 (S (length body)) && Nat.leb (S (length body)) (S (length body)))%bool with true.
  - reflexivity.
  - symmetry. apply andb_true_intro. split; apply Nat.leb_le; lia.
Qed.

Lemma process_nodes_no_panic resp dec sender dists : dec <> Panic -> process_nodes resp dec sender dists <> Panic.
Proof.
  intros Hd. unfold process_nodes. destruct resp as [|c body]; [discriminate|].
  unfold idx. cbn [nth_error bind]. destruct (negb (b2n c =? K_msg_NODES)); [discriminate|].
  unfold slice. cbn [length]. replace (Nat.leb 1 (S (length body)) && Nat.leb (S (length body)) (S (length body)))%bool with true.
  - cbn [bind]. destruct dec; cbn [bind]; congruence.
  - symmetry. apply andb_true_intro. split; apply Nat.leb_le; lia.
Qed.

(* ------------------------------------------------------------ witnesses *)
Lemma rec_eqb_eq a b : rec_eqb a b = true <-> a = b.
Proof.
  unfold rec_eqb. split.
  - intros H. destruct a, b; cbn in H.
    repeat match goal with H : (_ && _)%bool = true |- _ => apply andb_true_iff in H as [H ?] end.
    repeat match goal with H : (_ =? _) = true |- _ => apply N.eqb_eq in H end.
    match goal with H : Bool.eqb _ _ = true |- _ => apply Bool.eqb_prop in H end. now subst.
  - intros ->. rewrite !N.eqb_refl, Bool.eqb_reflx. reflexivity.
Qed.
Definition nrec_eq_dec (a b : nrec) : {a = b} + {a <> b}.
Proof. destruct (rec_eqb a b) eqn:E; [left; now apply rec_eqb_eq|right; intros H; apply rec_eqb_eq in H; congruence]. Defined.

Lemma count_rec_count_occ x l : count_rec x l = count_occ nrec_eq_dec l x.
Proof.
  induction l as [|y t IH]; cbn [count_rec count_occ]; [reflexivity|].
  destruct (nrec_eq_dec y x) as [->|Hne].
  - replace (rec_eqb x x) with true by (symmetry; now apply rec_eqb_eq). now rewrite IH.
  - replace (rec_eqb x y) with false; [now rewrite IH|]. symmetry. apply not_true_is_false. intros H. apply rec_eqb_eq in H. congruence.
Qed.

Lemma is_perm_b_sound w g : is_perm_b w g = true -> Permutation w g.
Proof.
  unfold is_perm_b. intros H. apply andb_true_iff in H as [_ H]. rewrite forallb_forall in H.
  apply (Permutation_count_occ nrec_eq_dec). intros x. rewrite <- !count_rec_count_occ.
  destruct (in_dec nrec_eq_dec x (w ++ g)) as [Hin|Hnin].
  - specialize (H x Hin). now apply Nat.eqb_eq in H.
  - assert (~ In x w /\ ~ In x g) as [H1 H2] by (split; intros Hc; apply Hnin, in_or_app; auto).
    rewrite !count_rec_count_occ. apply (count_occ_not_In nrec_eq_dec) in H1, H2. congruence.
Qed.

Lemma pick_perm_perm w g : Permutation (pick_perm w g) g.
Proof.
  unfold pick_perm. destruct w as [l|]; [|reflexivity].
  destruct (is_perm_b l g) eqn:E; [now apply is_perm_b_sound|reflexivity].
Qed.

(* ------------------------------------------------------------ statements assembled for Properties/C11.v *)
Definition is_shuffle (shuf : N -> list nrec -> list nrec) : Prop := forall d l, Permutation (shuf d l) l.

Lemma findnodes_reply_fits shuf : is_shuffle shuf -> forall tab self rip dists enrs reqid s1 s2,
  handle_find_nodes tab self rip shuf dists = Ok enrs -> reqid <= 8 ->
  talkresp_datagram reqid s1 (nodes_reply_len enrs) s2 <= K_maxPacketSize.
Proof.
  intros Hs tab self rip dists enrs reqid s1 s2 H Hr.
  destruct (handle_find_nodes_spec shuf Hs _ _ _ _ _ H) as [Hsz _]. now apply talkresp_datagram_fits.
Qed.

Lemma findnodes_reply_records shuf : is_shuffle shuf -> forall tab self rip dists enrs,
  handle_find_nodes tab self rip shuf dists = Ok enrs ->
  nlen enrs <= 32 /\
  forall r, In r enrs ->
    relay_ok rip (rflags r) = true /\
    ((r = self /\ In 0 dists) \/
     (exists d b, In d dists /\ 1 <= d <= 256 /\ nth_error tab (bucket_index d) = Some b /\ In (r, true) b)).
Proof.
  intros Hs tab self rip dists enrs H.
  destruct (handle_find_nodes_spec shuf Hs _ _ _ _ _ H) as (_ & Hc & Ho). split; [exact Hc|].
  intros r Hr. destruct (Ho r Hr) as (Hrel & d & Hd & [[-> ->]|[Hrange (b & Hb & Hin)]]); (split; [assumption|]).
  - now left.
  - right. exists d, b. auto.
Qed.

Lemma findnodes_total shuf : is_shuffle shuf -> forall tab self rip dists, length tab = N.to_nat K_nBuckets ->
  exists enrs, handle_find_nodes tab self rip shuf dists = Ok enrs.
Proof.
  intros Hs tab self rip dists Hl.
  pose proof (handle_find_nodes_no_panic shuf Hs tab self rip dists Hl).
  pose proof (handle_find_nodes_no_error shuf Hs tab self rip dists).
  destruct (handle_find_nodes tab self rip shuf dists) as [e|e|]; [eauto|exfalso; eapply H0; reflexivity|congruence].
Qed.

Lemma findnodes_ignores_bad_distances shuf : forall tab self rip dists,
  handle_find_nodes tab self rip shuf dists = handle_find_nodes tab self rip shuf (clean_dists dists []) /\
  NoDup (clean_dists dists []) /\
  (forall d, In d (clean_dists dists []) <-> In d dists /\ d <= 256).
Proof.
  intros. split; [apply handle_find_nodes_clean|]. split; [apply clean_dists_nodup|].
  intros d. rewrite clean_dists_in. cbn [In]. tauto.
Qed.

Lemma asker_accepts_sound sender enrs dists r :
  In r (filter_nodes sender enrs dists) ->
  In r enrs /\ rvalid r = true /\ relay_ok (rflags sender) (rflags r) = true /\ 1024 < rport r /\
  (forall ds, dists = Some ds -> In (logdist (rid sender) (rid r)) ds).
Proof.
  rewrite filter_nodes_spec. intros H. apply accepted_spec_sound in H as [H1 H2].
  split; [assumption|]. now apply accept4_facts.
Qed.

Lemma asker_no_repeats sender enrs dists : NoDup (map rid (filter_nodes sender enrs dists)).
Proof. rewrite filter_nodes_spec. apply accepted_spec_nodup_ids. Qed.

Lemma witness_is_shuffle (ws : N -> option (list nrec)) : is_shuffle (fun d g => pick_perm (ws d) g).
Proof. intros d l. apply pick_perm_perm. Qed.

(* the phase of the table (initial seeding finished or not) makes no difference to the reply *)
Lemma findnodes_any_phase init_done tab self rip shuf dists :
  handle_find_nodes_st init_done tab self rip shuf dists = handle_find_nodes tab self rip shuf dists.
Proof. reflexivity. Qed.

Lemma findnodes_reply_records_any_phase shuf : is_shuffle shuf -> forall init_done tab self rip dists enrs,
  handle_find_nodes_st init_done tab self rip shuf dists = Ok enrs ->
  nlen enrs <= 32 /\
  forall r, In r enrs ->
    relay_ok rip (rflags r) = true /\
    ((r = self /\ In 0 dists) \/
     (exists d b, In d dists /\ 1 <= d <= 256 /\ nth_error tab (bucket_index d) = Some b /\ In (r, true) b)).
Proof. intros Hs init_done tab self rip dists enrs H. rewrite findnodes_any_phase in H. now apply (findnodes_reply_records shuf Hs). Qed.

(* through the talk handler the relay check is made against the packet's source address, whatever the sender's record advertises *)
Lemma talk_find_nodes_relay shuf : is_shuffle shuf -> forall init_done tab self packet_src enr_endpoint dists enrs,
  handle_talk_find_nodes init_done tab self packet_src enr_endpoint shuf dists = Ok enrs ->
  forall r, In r enrs -> relay_ok packet_src (rflags r) = true.
Proof.
  intros Hs init_done tab self packet_src enr_endpoint dists enrs H r Hr.
  unfold handle_talk_find_nodes, talk_source in H.
  destruct (findnodes_reply_records_any_phase shuf Hs _ _ _ _ _ _ H) as [_ H2]. now destruct (H2 r Hr).
Qed.
