(* Proofs/FindContent.v : lemmas about handle_find_content / process_content of Model/Handlers.v (C08). *)
From Shisui Require Import Base.Bytes Gen.K_wire Gen.K_table Gen.K_handlers Model.Handlers Model.Framing
     Proofs.Handlers Proofs.Gossip Proofs.Framing.
From Coq Require Import ZifyBool ZifyN ZifyNat Permutation.
Local Arguments N.add : simpl never.
Local Arguments N.sub : simpl never.
Local Arguments N.leb : simpl never.
Local Arguments N.ltb : simpl never.
Local Arguments N.eqb : simpl never.
Local Arguments N.of_nat : simpl never.
Local Arguments N.to_nat : simpl never.
Local Arguments N.size : simpl never.
Local Arguments N.lxor : simpl never.

Lemma max_payload_value : findcontent_max_payload + K_talkRespOverhead + content_overhead = K_maxPacketSize /\ findcontent_max_payload <= 2048.
Proof. vm_compute. split; [reflexivity|discriminate]. Qed.

Lemma remove_first_id_incl id l r : In r (remove_first_id id l) -> In r l.
Proof.
  induction l as [|x t IH]; cbn [remove_first_id]; [auto|]. destruct (rid x =? id); [now right|].
  intros [->|H]; [now left|right; auto].
Qed.
Lemma remove_first_id_absent id l : NoDup (map rid l) -> forall r, In r (remove_first_id id l) -> rid r <> id.
Proof.
  induction l as [|x t IH]; intros Hnd r Hr; cbn [remove_first_id] in Hr; [destruct Hr|].
  cbn [map] in Hnd. apply NoDup_cons_iff in Hnd as [Hx Hnd].
  destruct (N.eqb_spec (rid x) id) as [He|Hne].
  - intros Hc. apply Hx. rewrite He, <- Hc. now apply in_map.
  - destruct Hr as [->|Hr]; [exact Hne|now apply IH].
Qed.
Lemma remove_first_id_sorted cid id l : sorted_by_b cid l = true -> sorted_by_b cid (remove_first_id id l) = true.
Proof.
  induction l as [|x t IH]; intros H; [reflexivity|]. cbn [remove_first_id].
  pose proof (sorted_by_b_tl _ _ _ H) as Ht. destruct (rid x =? id); [exact Ht|].
  apply sorted_by_b_cons; [|now apply IH]. intros y Hy. apply remove_first_id_incl in Hy. now apply (sorted_by_b_hd cid x t H).
Qed.
Lemma remove_first_id_length id l : nlen (remove_first_id id l) <= nlen l.
Proof.
  induction l as [|x t IH]; cbn [remove_first_id]; [lia|]. destruct (rid x =? id); rewrite ?nlen_cons; lia.
Qed.

Lemma truncate_aux_sorted cid nodes : forall total maxSize ov,
  sorted_by_b cid nodes = true -> sorted_by_b cid (truncate_aux nodes total maxSize ov) = true.
Proof.
  induction nodes as [|n t IH]; intros total maxSize ov H; cbn [truncate_aux]; [reflexivity|].
  destruct (maxSize <? total + rsize n + ov); [reflexivity|].
  apply sorted_by_b_cons; [|apply IH; now apply (sorted_by_b_tl _ _ _ H)].
  intros y Hy. apply (sorted_by_b_hd cid n t H).
  destruct (truncate_aux_prefix t (total + rsize n + ov) maxSize ov) as [rest Hr]. rewrite Hr. apply in_or_app. now left.
Qed.

Lemma NoDup_app_l {A} (a b : list A) : NoDup (a ++ b) -> NoDup a.
Proof.
  induction a as [|x t IH]; intros H; [constructor|]. cbn [app] in H. apply NoDup_cons_iff in H as [H1 H2].
  constructor; [|now apply IH]. intros Hin. apply H1. apply in_or_app. now left.
Qed.

Lemma firstn_nlen {A} k (l : list A) : nlen (firstn k l) <= N.of_nat k.
Proof. unfold nlen. rewrite firstn_length. lia. Qed.

Lemma rsize_le_enrs_size r l : In r l -> rsize r <= enrs_size l.
Proof.
  induction l as [|x t IH]; [intros []|]. cbn [enrs_size fold_right]. fold (enrs_size t).
  intros [->|H]; [lia|]. specialize (IH H). lia.
Qed.

(* the ENRs branch never fails to encode: at most 32 records, each below the packet size *)
Lemma enrs_branch_marshal_ok nodelist srt requester :
  marshal_enrs_ok (truncate_nodes (remove_first_id requester (find_nodes_close nodelist srt (N.to_nat K_portalFindnodesResultLimit)))
                     findcontent_max_payload enr_overhead) = true.
Proof.
  unfold marshal_enrs_ok. apply andb_true_intro. split.
  - pose proof (truncate_nodes_length (remove_first_id requester (find_nodes_close nodelist srt (N.to_nat K_portalFindnodesResultLimit))) findcontent_max_payload enr_overhead).
    pose proof (remove_first_id_length requester (find_nodes_close nodelist srt (N.to_nat K_portalFindnodesResultLimit))).
    unfold find_nodes_close in *. pose proof (firstn_nlen (N.to_nat K_portalFindnodesResultLimit) (srt nodelist)).
    unfold K_portalFindnodesResultLimit in *. lia.
  - apply forallb_forall. intros r Hr. unfold enr_overhead in Hr.
    pose proof (truncate_nodes_size (remove_first_id requester (find_nodes_close nodelist srt (N.to_nat K_portalFindnodesResultLimit))) findcontent_max_payload).
    pose proof (rsize_le_enrs_size _ _ Hr). destruct max_payload_value. lia.
Qed.

Lemma handle_find_content_found nodelist srt requester c :
  handle_find_content nodelist srt requester (St_Found c) =
  if nlen c <=? findcontent_max_payload then Ok (FC_Raw c) else Ok FC_ConnId.
Proof.
  unfold handle_find_content. destruct (N.leb_spec (nlen c) findcontent_max_payload) as [H|H]; [|reflexivity].
  destruct max_payload_value. destruct (N.leb_spec (nlen c) 2048); [reflexivity|lia].
Qed.

Lemma handle_find_content_fits nodelist srt requester st r reqid s1 s2 :
  handle_find_content nodelist srt requester st = Ok r -> reqid <= 8 ->
  talkresp_datagram reqid s1 (fc_reply_len r) s2 <= K_maxPacketSize.
Proof.
  intros H Hr. apply talkresp_datagram_fits; [exact Hr|].
  destruct max_payload_value as [Hv _]. unfold content_overhead in Hv.
  assert (Hc4 : 4 + K_talkRespOverhead <= K_maxPacketSize) by (vm_compute; discriminate).
  destruct st as [c| |]; [| |discriminate].
  - rewrite handle_find_content_found in H. destruct (N.leb_spec (nlen c) findcontent_max_payload); inversion H; subst; cbn [fc_reply_len]; lia.
  - unfold handle_find_content in H. rewrite enrs_branch_marshal_ok in H. inversion H; subst. cbn [fc_reply_len].
    pose proof (truncate_nodes_size (remove_first_id requester (find_nodes_close nodelist srt (N.to_nat K_portalFindnodesResultLimit))) findcontent_max_payload).
    unfold enr_overhead. lia.
Qed.

Lemma handle_find_content_not_found cid srt : is_sort cid srt -> forall nodelist requester,
  NoDup (map rid nodelist) ->
  exists enrs, handle_find_content nodelist srt requester St_NotFound = Ok (FC_Enrs enrs) /\
    nlen enrs <= 32 /\
    sorted_by_b cid enrs = true /\
    forall r, In r enrs ->
      In r nodelist /\ rid r <> requester /\ In r (firstn 32 (srt nodelist)) /\
      (forall y, In y nodelist -> ~ In y (firstn 32 (srt nodelist)) -> logdist (rid r) cid <= logdist (rid y) cid).
Proof.
  intros Hsort nodelist requester Hnd. unfold handle_find_content. rewrite enrs_branch_marshal_ok.
  eexists. split; [reflexivity|]. destruct (Hsort nodelist) as [Hp Hs].
  set (closest := find_nodes_close nodelist srt (N.to_nat K_portalFindnodesResultLimit)).
  assert (Hc32 : closest = firstn 32 (srt nodelist)) by reflexivity.
  split; [|split].
  - pose proof (truncate_nodes_length (remove_first_id requester closest) findcontent_max_payload enr_overhead).
    pose proof (remove_first_id_length requester closest). pose proof (firstn_nlen 32 (srt nodelist)). rewrite <- Hc32 in H1. lia.
  - unfold truncate_nodes. apply truncate_aux_sorted, remove_first_id_sorted. rewrite Hc32. now apply sorted_by_b_firstn.
  - intros r Hr. apply truncate_nodes_incl in Hr.
    assert (Hnd' : NoDup (map rid closest)).
    { rewrite Hc32. assert (Hnds : NoDup (map rid (srt nodelist))) by (eapply Permutation_NoDup; [apply Permutation_sym, Permutation_map, Hp|exact Hnd]).
      rewrite <- (firstn_skipn 32 (srt nodelist)), map_app in Hnds. now apply NoDup_app_l in Hnds. }
    pose proof (remove_first_id_absent requester closest Hnd' r Hr) as Hne.
    apply remove_first_id_incl in Hr. rewrite Hc32 in Hr.
    assert (In r nodelist).
    { apply (Permutation_in _ Hp). rewrite <- (firstn_skipn 32 (srt nodelist)). apply in_or_app. now left. }
    repeat split; try assumption.
    intros y Hy Hny. apply (firstn_sorted_nearest cid srt 32 nodelist r y Hsort Hr Hy Hny).
Qed.

Lemma handle_find_content_total nodelist srt requester st : handle_find_content nodelist srt requester st <> Panic.
Proof.
  destruct st as [c| |]; [rewrite handle_find_content_found; destruct (_ <=? _); discriminate| |discriminate].
  unfold handle_find_content. rewrite enrs_branch_marshal_ok. discriminate.
Qed.

(* ------------------------------------------------------------ asking side *)
Lemma slice_from {A} (l : list A) k : (k <= length l)%nat -> slice l k (length l) = Ok (skipn k l).
Proof.
  intros H. unfold slice. replace (Nat.leb k (length l) && Nat.leb (length l) (length l))%bool with true.
  - f_equal. rewrite firstn_all2; [reflexivity|]. rewrite skipn_length. lia.
  - symmetry. apply andb_true_intro. split; apply Nat.leb_le; lia.
Qed.

Lemma process_content_raw c s body dec sender :
  b2n c = K_msg_CONTENT -> b2n s = K_sel_Raw -> nlen body <= 2048 ->
  process_content (c :: s :: body) dec sender = Ok (PC_Raw body).
Proof.
  intros Hc Hs Hl. unfold process_content, idx. cbn [nth_error bind]. rewrite Hc, N.eqb_refl. cbn [negb].
  replace ((K_processContent_short_panics =? 0) && (nlen (c :: s :: body) <? 2)) with false
    by (rewrite !nlen_cons; destruct (K_processContent_short_panics =? 0); cbn [andb]; lia).
  cbn [nth_error bind]. rewrite Hs, N.eqb_refl.
  rewrite (slice_from (c :: s :: body) 2) by (cbn [length]; lia). cbn [skipn bind].
  destruct (N.ltb_spec 2048 (nlen body)); [lia|reflexivity].
Qed.

Lemma process_content_connid c s body dec sender :
  b2n c = K_msg_CONTENT -> b2n s = K_sel_ConnId -> nlen body = 2 ->
  process_content (c :: s :: body) dec sender = Ok (PC_ConnId body).
Proof.
  intros Hc Hs Hl. unfold process_content, idx. cbn [nth_error bind]. rewrite Hc, N.eqb_refl. cbn [negb].
  replace ((K_processContent_short_panics =? 0) && (nlen (c :: s :: body) <? 2)) with false
    by (rewrite !nlen_cons; destruct (K_processContent_short_panics =? 0); cbn [andb]; lia).
  cbn [nth_error bind]. rewrite Hs. change (K_sel_ConnId =? K_sel_Raw) with false. cbv iota. rewrite N.eqb_refl.
  rewrite (slice_from (c :: s :: body) 2) by (cbn [length]; lia). cbn [skipn bind]. rewrite Hl. reflexivity.
Qed.

Lemma process_content_enrs c s body enrs sender :
  b2n c = K_msg_CONTENT -> b2n s = K_sel_Enrs ->
  process_content (c :: s :: body) (Ok enrs) sender = Ok (PC_Enrs (filter_nodes sender enrs None)).
Proof.
  intros Hc Hs. unfold process_content, idx. cbn [nth_error bind]. rewrite Hc, N.eqb_refl. cbn [negb].
  replace ((K_processContent_short_panics =? 0) && (nlen (c :: s :: body) <? 2)) with false
    by (rewrite !nlen_cons; destruct (K_processContent_short_panics =? 0); cbn [andb]; lia).
  cbn [nth_error bind]. rewrite Hs. change (K_sel_Enrs =? K_sel_Raw) with false. change (K_sel_Enrs =? K_sel_ConnId) with false. cbv iota.
  rewrite N.eqb_refl. rewrite (slice_from (c :: s :: body) 2) by (cbn [length]; lia). reflexivity.
Qed.

(* with the length guard in place (probed constant = 0) processContent never panics; without it, exactly the one-byte CONTENT response does *)
Lemma process_content_no_panic resp dec sender :
  K_processContent_short_panics = 0 -> dec <> Panic -> process_content resp dec sender <> Panic.
Proof.
  intros Hk Hd. unfold process_content. destruct resp as [|c rest]; [discriminate|].
  unfold idx at 1. cbn [nth_error bind]. destruct (negb (b2n c =? K_msg_CONTENT)); [discriminate|].
  rewrite Hk. change (0 =? 0) with true. cbn [andb].
  destruct rest as [|s body].
  - replace (nlen [c] <? 2) with true by (unfold nlen; cbn [length]; lia). discriminate.
  - replace (nlen (c :: s :: body) <? 2) with false by (rewrite !nlen_cons; lia).
    unfold idx. cbn [nth_error bind]. rewrite (slice_from (c :: s :: body) 2) by (cbn [length]; lia). cbn [bind skipn].
    destruct (b2n s =? K_sel_Raw); [destruct (2048 <? nlen body); discriminate|].
    destruct (b2n s =? K_sel_ConnId); [destruct (negb (nlen body =? 2)); discriminate|].
    destruct (b2n s =? K_sel_Enrs); [|discriminate]. destruct dec; cbn [bind]; congruence.
Qed.

Lemma process_content_one_byte_panics c dec sender :
  K_processContent_short_panics = 1 -> b2n c = K_msg_CONTENT -> process_content [c] dec sender = Panic.
Proof.
  intros Hk Hc. unfold process_content, idx. cbn [nth_error bind]. rewrite Hc, N.eqb_refl, Hk. reflexivity.
Qed.

(* end to end for content that is held: what the asker extracts from the reply is the stored content *)
Lemma inline_content_delivered nodelist srt requester content c s dec sender :
  nlen content <= findcontent_max_payload -> b2n c = K_msg_CONTENT -> b2n s = K_sel_Raw ->
  handle_find_content nodelist srt requester (St_Found content) = Ok (FC_Raw content) /\
  process_content (c :: s :: content) dec sender = Ok (PC_Raw content).
Proof.
  intros Hl Hc Hs. split.
  - rewrite handle_find_content_found. destruct (N.leb_spec (nlen content) findcontent_max_payload); [reflexivity|lia].
  - apply process_content_raw; try assumption. destruct max_payload_value. lia.
Qed.

Lemma large_content_announced nodelist srt requester content :
  findcontent_max_payload < nlen content ->
  handle_find_content nodelist srt requester (St_Found content) = Ok FC_ConnId /\ fc_reply_len FC_ConnId = 4.
Proof.
  intros Hl. split; [|reflexivity]. rewrite handle_find_content_found.
  destruct (N.leb_spec (nlen content) findcontent_max_payload); [lia|reflexivity].
Qed.

(* the three proved links of the large-content path: the reply announces a connection id, the asker accepts it as one,
   and the bytes written to the stream decode to the stored bytes for the version both sides use *)
Lemma large_content_path nodelist srt requester content c s id1 id2 dec sender v :
  findcontent_max_payload < nlen content -> short content ->
  b2n c = K_msg_CONTENT -> b2n s = K_sel_ConnId ->
  handle_find_content nodelist srt requester (St_Found content) = Ok FC_ConnId /\
  process_content [c; s; id1; id2] dec sender = Ok (PC_ConnId [id1; id2]) /\
  decode_utp_content v (encode_utp_content v content) = Ok content.
Proof.
  intros Hl Hs Hc Hsel. split; [apply (large_content_announced nodelist srt requester content Hl)|].
  split; [apply process_content_connid; try assumption; reflexivity|now apply utp_roundtrip].
Qed.

(* a peer whose record has no pv entry (a legacy peer) is spoken to in version 0 by every node whose first version is 0:
   the stream carries the stored bytes unframed in both directions (uses C19's model of the version lookup) *)
From Shisui Require Import Model.Versions.
Lemma legacy_peer_unframed rest (c : vcache) node d :
  c node = None ->
  node_encode_utp (0 :: rest) c node PvMissing d = Ok d /\ node_decode_utp (0 :: rest) c node PvMissing d = Ok d.
Proof.
  intros Hc. unfold node_encode_utp, node_decode_utp, get_or_store. rewrite Hc. unfold idx. cbn [nth_error fst].
  unfold encode_utp_content, decode_utp_content. change (0 =? 1) with false. split; reflexivity.
Qed.
