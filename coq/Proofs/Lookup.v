(* Proofs/Lookup.v : lemmas and proofs for Model/Lookup.v (C10). *)
From Coq Require Import ZifyBool ZifyN ZifyNat Sorting.Sorted Sorting.Permutation.
From Shisui Require Import Base.Bytes Gen.K_table Model.Lookup.

Local Arguments N.add : simpl never.
Local Arguments N.mul : simpl never.
Local Arguments N.compare : simpl never.
Local Arguments N.lxor : simpl never.
Local Arguments N.leb : simpl never.
Local Arguments N.eqb : simpl never.
Local Arguments Z.add : simpl never.
Local Arguments Z.sub : simpl never.
Local Arguments Z.ltb : simpl never.
Local Arguments Z.eqb : simpl never.
Local Arguments Nat.div : simpl never.
Local Arguments Nat.ltb : simpl never.
Local Arguments firstn : simpl nomatch.
Local Arguments skipn : simpl nomatch.

Ltac Zify.zify_post_hook ::= Z.div_mod_to_equations.

(* ------------------------------------------------------------------ small list facts *)
Lemma mem_In x l : mem x l = true <-> In x l.
Proof.
  unfold mem. rewrite existsb_exists. split.
  - intros [y [H1 H2]]. apply N.eqb_eq in H2. now subst.
  - intros H. exists x. split; [assumption | apply N.eqb_refl].
Qed.
Lemma mem_false x l : mem x l = false <-> ~ In x l.
Proof. rewrite <- mem_In. destruct (mem x l); split; congruence. Qed.

Lemma remove1_length x l : In x l -> S (length (remove1 x l)) = length l.
Proof.
  induction l as [|y r IH]; simpl; [easy|]. intros H.
  destruct (N.eqb x y) eqn:E; [reflexivity|]. simpl. f_equal. apply IH.
  destruct H as [H|H]; [subst; rewrite N.eqb_refl in E; discriminate | assumption].
Qed.
Lemma remove1_incl x l : incl (remove1 x l) l.
Proof.
  induction l as [|y r IH]; simpl; [easy|]. destruct (N.eqb x y).
  - apply incl_tl, incl_refl.
  - intros z [H|H]; [now left | right; now apply IH].
Qed.
Lemma remove1_NoDup x l : NoDup l -> NoDup (remove1 x l).
Proof.
  induction 1 as [|y r Hn Hd IH]; simpl; [constructor|].
  destruct (N.eqb x y); [assumption|]. constructor; [|assumption].
  intros H. apply Hn. now apply (remove1_incl x r).
Qed.
Lemma remove1_other x y l : In y l -> y <> x -> In y (remove1 x l).
Proof.
  induction l as [|z r IH]; simpl; [easy|]. intros H Hne.
  destruct (N.eqb x z) eqn:E.
  - apply N.eqb_eq in E. subst z. destruct H; [congruence | assumption].
  - destruct H; [now left | right; now apply IH].
Qed.

Lemma firstn_In {A} k (l : list A) x : In x (firstn k l) -> In x l.
Proof. intros H. rewrite <- (firstn_skipn k l). apply in_or_app. now left. Qed.

Lemma NoDup_app_l {A} (a b : list A) : NoDup (a ++ b) -> NoDup a.
Proof.
  induction a as [|x a IH]; simpl; intros H; [constructor|]. inversion H; subst.
  constructor; [|now apply IH]. intros Hx. apply H2. apply in_or_app. now left.
Qed.

(* ------------------------------------------------------------------ sort.Search *)
Lemma search_aux_spec (f : nat -> res bool) (g : nat -> bool) (n m : nat) :
  (forall k, (k < n)%nat -> f k = Ok (g k)) -> (m <= n)%nat ->
  (forall k, (k < m)%nat -> g k = false) -> (forall k, (m <= k < n)%nat -> g k = true) ->
  forall fuel i j, (i <= m <= j)%nat -> (j <= n)%nat -> (j - i <= fuel)%nat ->
    search_aux fuel f i j = Ok m.
Proof.
  intros Hf Hm Hlo Hhi. induction fuel as [|fu IH]; intros i j Hij Hjn Hfu.
  - assert (i = j) by lia. subst. simpl. replace (Nat.ltb j j) with false by (symmetry; apply Nat.ltb_irrefl).
    f_equal. lia.
  - simpl. destruct (Nat.ltb i j) eqn:E.
    + apply Nat.ltb_lt in E.
      assert (Hh : (i <= Nat.div (i + j) 2 < j)%nat) by (split; [apply Nat.div_le_lower_bound | apply Nat.div_lt_upper_bound]; lia).
      set (h := Nat.div (i + j) 2) in *.
      rewrite (Hf h) by lia. simpl. destruct (g h) eqn:G; simpl.
      * apply IH; try lia. destruct (Nat.le_gt_cases m h); [lia|]. rewrite Hlo in G by lia. discriminate.
      * apply IH; try lia. destruct (Nat.le_gt_cases m h); [|lia]. rewrite Hhi in G by lia. discriminate.
    + apply Nat.ltb_ge in E. f_equal. lia.
Qed.

(* the predicate is only ever evaluated inside [0, n): the result does not depend on f elsewhere *)
Lemma search_aux_ext (f f' : nat -> res bool) (n : nat) :
  (forall k, (k < n)%nat -> f k = f' k) ->
  forall fuel i j, (j <= n)%nat -> search_aux fuel f i j = search_aux fuel f' i j.
Proof.
  intros Hf. induction fuel as [|fu IH]; intros i j Hj; simpl; [reflexivity|].
  destruct (Nat.ltb i j) eqn:E; [|reflexivity]. apply Nat.ltb_lt in E.
  assert (Hh : (Nat.div (i + j) 2 < j)%nat) by (apply Nat.div_lt_upper_bound; lia).
  rewrite Hf by lia. destruct (f' (Nat.div (i + j) 2)) as [b| |]; simpl; [|reflexivity|reflexivity].
  destruct b; simpl; apply IH; lia.
Qed.

Section Keyed.
  Variable key : N -> N.

  Definition leq (x n : N) : bool := N.leb (key x) (key n).

  (* sorted: keys never decrease *)
  Definition sorted (l : list N) : Prop := StronglySorted (fun a b => key a <= key b) l.

  (* insertion after every element that is not farther *)
  Fixpoint ins (n : N) (e : list N) : list N :=
    match e with
    | [] => [n]
    | x :: r => if leq x n then x :: ins n r else n :: x :: r
    end.
  Fixpoint isort (l : list N) : list N :=
    match l with [] => [] | x :: r => ins x (isort r) end.

  Fixpoint le_prefix (n : N) (e : list N) : list N :=
    match e with [] => [] | x :: r => if leq x n then x :: le_prefix n r else [] end.
  Fixpoint gt_suffix (n : N) (e : list N) : list N :=
    match e with [] => [] | x :: r => if leq x n then gt_suffix n r else e end.

  Lemma prefix_suffix n e : e = le_prefix n e ++ gt_suffix n e.
  Proof. induction e as [|x r IH]; simpl; [reflexivity|]. destruct (leq x n); simpl; [f_equal; assumption | reflexivity]. Qed.
  Lemma ins_split n e : ins n e = le_prefix n e ++ n :: gt_suffix n e.
  Proof. induction e as [|x r IH]; simpl; [reflexivity|]. destruct (leq x n); simpl; [f_equal; assumption | reflexivity]. Qed.
  Lemma le_prefix_all n e : Forall (fun x => leq x n = true) (le_prefix n e).
  Proof. induction e as [|x r IH]; simpl; [constructor|]. destruct (leq x n) eqn:E; constructor; assumption. Qed.
  Lemma gt_suffix_all n e : sorted e -> Forall (fun x => leq x n = false) (gt_suffix n e).
  Proof.
    induction 1 as [|x r Hs IH Hx]; simpl; [constructor|].
    destruct (leq x n) eqn:E; [assumption|]. constructor; [assumption|].
    eapply Forall_impl; [|exact Hx]. intros y Hy. unfold leq in *. apply N.leb_gt in E. apply N.leb_gt. lia.
  Qed.

  Lemma sorted_app_inv a b : sorted (a ++ b) -> sorted a /\ sorted b.
  Proof.
    induction a as [|x a IH]; simpl; intros H; [split; [constructor | assumption]|].
    inversion H as [|? ? Hs Hf]; subst. destruct (IH Hs) as [Ha Hb]. split; [|assumption].
    constructor; [assumption|]. apply Forall_app in Hf. tauto.
  Qed.

  Lemma ins_sorted n e : sorted e -> sorted (ins n e).
  Proof.
    induction 1 as [|x r Hs IH Hx]; simpl; [repeat constructor|].
    destruct (leq x n) eqn:E.
    - constructor; [assumption|]. rewrite ins_split. apply Forall_app. split.
      + rewrite (prefix_suffix n r) in Hx. apply Forall_app in Hx. tauto.
      + constructor; [unfold leq in E; apply N.leb_le in E; assumption|].
        rewrite (prefix_suffix n r) in Hx. apply Forall_app in Hx. tauto.
    - unfold leq in E. apply N.leb_gt in E. constructor; [constructor; assumption|].
      constructor; [lia|]. eapply Forall_impl; [|exact Hx]. intros y Hy. simpl in Hy. lia.
  Qed.
  Lemma isort_sorted l : sorted (isort l).
  Proof. induction l; simpl; [constructor | now apply ins_sorted]. Qed.
  Lemma firstn_sorted k l : sorted l -> sorted (firstn k l).
  Proof.
    intros H. rewrite <- (firstn_skipn k l) in H. now apply sorted_app_inv in H.
  Qed.

  Lemma ins_perm n e : Permutation (n :: e) (ins n e).
  Proof.
    induction e as [|x r IH]; simpl; [apply Permutation_refl|].
    destruct (leq x n); [|apply Permutation_refl].
    eapply Permutation_trans; [apply perm_swap|]. now apply perm_skip.
  Qed.
  Lemma isort_perm l : Permutation l (isort l).
  Proof.
    induction l as [|x r IH]; simpl; [constructor|].
    eapply Permutation_trans; [apply perm_skip, IH | apply ins_perm].
  Qed.
  Lemma ins_length n e : length (ins n e) = S (length e).
  Proof. symmetry. apply (Permutation_length (ins_perm n e)). Qed.

  (* keeping only the first k before inserting loses nothing among the first k afterwards *)
  Lemma firstn_ins_firstn n : forall k e, firstn k (ins n (firstn k e)) = firstn k (ins n e).
  Proof.
    induction k as [|k IH]; intros e; [reflexivity|].
    destruct e as [|x r]; [reflexivity|]. simpl firstn at 2. simpl ins.
    destruct (leq x n).
    - simpl. f_equal. apply IH.
    - simpl. f_equal. change (x :: firstn k r) with (firstn (S k) (x :: r)).
      rewrite firstn_firstn. f_equal. lia.
  Qed.

  (* ---------------------------------------------------------------- push = insert and cut *)
  Lemma farther_ok e n k x : nth_error e k = Some x -> farther key e n k = Ok (negb (leq x n)).
  Proof.
    intros H. unfold farther, idx. rewrite H. simpl. f_equal. unfold leq.
    destruct (N.compare (key x) (key n)) eqn:C; symmetry.
    - rewrite N.compare_eq_iff in C. rewrite C. rewrite N.leb_refl. reflexivity.
    - rewrite N.compare_lt_iff in C. apply negb_false_iff, N.leb_le. lia.
    - rewrite N.compare_gt_iff in C. apply negb_true_iff, N.leb_gt. lia.
  Qed.

  Lemma search_pos e n : sorted e -> search (length e) (farther key e n) = Ok (length (le_prefix n e)).
  Proof.
    intros Hs.
    set (g := fun k => match nth_error e k with Some x => negb (leq x n) | None => true end).
    assert (Hf : forall k, (k < length e)%nat -> farther key e n k = Ok (g k)).
    { intros k Hk. unfold g. destruct (nth_error e k) eqn:E; [now apply farther_ok|].
      apply nth_error_None in E. lia. }
    pose proof (prefix_suffix n e) as Hsplit. pose proof (le_prefix_all n e) as Hle. pose proof (gt_suffix_all n e Hs) as Hgt.
    set (a := le_prefix n e) in *. set (b := gt_suffix n e) in *.
    assert (Hlen : length e = (length a + length b)%nat) by (rewrite Hsplit at 1; apply app_length).
    unfold search. apply (search_aux_spec _ g (length e) (length a) Hf); try lia.
    - intros k Hk. unfold g. rewrite Hsplit, nth_error_app1 by assumption.
      destruct (nth_error a k) eqn:E; [|apply nth_error_None in E; lia].
      apply nth_error_In in E. rewrite Forall_forall in Hle. now rewrite (Hle _ E).
    - intros k Hk. unfold g. rewrite Hsplit, nth_error_app2 by lia.
      destruct (nth_error b (k - length a)) eqn:E; [|reflexivity].
      apply nth_error_In in E. rewrite Forall_forall in Hgt. now rewrite (Hgt _ E).
  Qed.

  Lemma shift_insert_ok l ix n : (ix < length l)%nat ->
    shift_insert l ix n = Ok (firstn ix l ++ n :: firstn (length l - ix - 1) (skipn ix l)).
  Proof.
    intros H. unfold shift_insert, slice.
    replace (Nat.leb (ix + 1) (length l) && Nat.leb (length l) (length l))%bool with true
      by (symmetry; apply andb_true_iff; split; apply Nat.leb_le; lia).
    replace (Nat.leb ix (length l) && Nat.leb (length l) (length l))%bool with true
      by (symmetry; apply andb_true_iff; split; apply Nat.leb_le; lia).
    simpl. f_equal. f_equal. f_equal.
    rewrite !firstn_length, !skipn_length.
    replace (Nat.min (Nat.min (length l - (ix + 1)) (length l - (ix + 1))) (Nat.min (length l - ix) (length l - ix)))
      with (length l - ix - 1)%nat by lia.
    rewrite (firstn_all2 (n:=(length l - ix)%nat)) by (rewrite skipn_length; lia).
    rewrite (firstn_all2 (n:=(length l - (ix + 1))%nat)) by (rewrite skipn_length; lia).
    rewrite (skipn_all2 (n:=(length l - ix - 1)%nat)) by (rewrite skipn_length; lia). apply app_nil_r.
  Qed.

  Theorem push_ok e n mx : sorted e -> (length e <= mx)%nat -> push key e n mx = Ok (firstn mx (ins n e)).
  Proof.
    intros Hs Hlen. unfold push. rewrite (search_pos e n Hs). simpl.
    pose proof (prefix_suffix n e) as Hsplit. rewrite ins_split.
    set (a := le_prefix n e) in *. set (b := gt_suffix n e) in *.
    assert (Hl : length e = (length a + length b)%nat) by (rewrite Hsplit at 1; apply app_length).
    destruct (Nat.ltb (length e) mx) eqn:E1.
    - apply Nat.ltb_lt in E1.
      rewrite (firstn_all2 (n:=mx)) by (rewrite app_length; simpl; lia).
      destruct (Nat.ltb (length a) (length e)) eqn:E2.
      + apply Nat.ltb_lt in E2. rewrite shift_insert_ok by (rewrite app_length; simpl; lia).
        f_equal. rewrite Hsplit at 1. rewrite <- app_assoc, firstn_app, firstn_all, Nat.sub_diag. simpl. rewrite app_nil_r.
        f_equal. f_equal. rewrite Hsplit at 2. rewrite <- app_assoc, skipn_app, skipn_all, Nat.sub_diag. simpl.
        rewrite app_length. simpl. rewrite firstn_app.
        replace (length e + 1 - length a - 1)%nat with (length b) by lia.
        rewrite firstn_all, Nat.sub_diag. simpl. apply app_nil_r.
      + apply Nat.ltb_ge in E2. assert (length b = 0)%nat by lia. destruct b; [|discriminate].
        rewrite app_nil_r in Hsplit. rewrite <- Hsplit. reflexivity.
    - apply Nat.ltb_ge in E1. assert (Hmx : mx = length e) by lia.
      destruct (Nat.ltb (length a) (length e)) eqn:E2.
      + apply Nat.ltb_lt in E2. rewrite shift_insert_ok by assumption. f_equal.
        rewrite Hsplit at 1. rewrite firstn_app, firstn_all, Nat.sub_diag. simpl. rewrite app_nil_r.
        rewrite Hsplit at 2. rewrite skipn_app, skipn_all, Nat.sub_diag. simpl.
        rewrite firstn_app. replace (mx - length a)%nat with (S (length b - 1)) by lia.
        rewrite (firstn_all2 (n:=mx)) by lia. simpl. f_equal. f_equal. f_equal. lia.
      + apply Nat.ltb_ge in E2. assert (length b = 0)%nat by lia. destruct b; [|discriminate].
        rewrite app_nil_r in Hsplit. rewrite <- Hsplit.
        rewrite firstn_app. replace (mx - length e)%nat with 0%nat by lia. simpl.
        rewrite firstn_all2 by lia. now rewrite app_nil_r.
  Qed.

  Lemma push_all_ok l : forall e mx, sorted e -> (length e <= mx)%nat ->
    exists r, push_all key e l mx = Ok r /\ sorted r /\ (length r <= mx)%nat /\ incl r (e ++ l).
  Proof.
    induction l as [|n l IH]; intros e mx Hs Hl; simpl.
    - exists e. repeat split; try assumption. rewrite app_nil_r. apply incl_refl.
    - rewrite (push_ok e n mx Hs Hl). simpl.
      destruct (IH (firstn mx (ins n e)) mx) as [r [H1 [H2 [H3 H4]]]].
      + apply firstn_sorted, ins_sorted, Hs.
      + apply firstn_le_length.
      + exists r. repeat split; try assumption.
        intros x Hx. apply H4 in Hx. apply in_app_or in Hx. destruct Hx as [Hx|Hx].
        * apply firstn_In in Hx. apply (Permutation_in _ (Permutation_sym (ins_perm n e))) in Hx.
          destruct Hx; [subst; apply in_or_app; right; now left | apply in_or_app; now left].
        * apply in_or_app. right. now right.
  Qed.

  (* ---------------------------------------------------------------- the k closest, for an injective key *)
  Hypothesis key_inj : forall a b, key a = key b -> a = b.

  Definition topk (k : nat) (s : list N) : list N := firstn k (isort s).

  Lemma topk_cons k n s : firstn k (ins n (topk k s)) = topk k (n :: s).
  Proof. unfold topk. simpl. apply firstn_ins_firstn. Qed.

  Lemma topk_incl k s : incl (topk k s) s.
  Proof. intros x H. apply firstn_In in H. apply (Permutation_in _ (Permutation_sym (isort_perm s))). assumption. Qed.
  Lemma topk_length k s : (length (topk k s) <= k)%nat.
  Proof. apply firstn_le_length. Qed.
  Lemma topk_NoDup k s : NoDup s -> NoDup (topk k s).
  Proof.
    intros H. assert (Hn : NoDup (isort s)) by (eapply Permutation_NoDup; [apply isort_perm | assumption]).
    unfold topk. rewrite <- (firstn_skipn k (isort s)) in Hn. now apply NoDup_app_l in Hn.
  Qed.
  Lemma topk_sorted k s : sorted (topk k s).
  Proof. apply firstn_sorted, isort_sorted. Qed.

  (* strictly increasing distances *)
  Definition ssorted (l : list N) : Prop := StronglySorted (fun a b => key a < key b) l.
  Lemma sorted_NoDup_strict l : sorted l -> NoDup l -> ssorted l.
  Proof.
    induction 1 as [|x r Hs IH Hx]; intros Hn; [constructor|].
    inversion Hn as [|? ? Hnx Hnr]; subst. constructor; [now apply IH|].
    rewrite Forall_forall in *. intros y Hy. specialize (Hx y Hy). simpl in Hx.
    assert (key x <> key y) by (intros E; apply key_inj in E; subst; contradiction). lia.
  Qed.
  Lemma topk_ssorted k s : NoDup s -> ssorted (topk k s).
  Proof. intros H. apply sorted_NoDup_strict; [apply topk_sorted | now apply topk_NoDup]. Qed.

  (* no closer element is left out: whatever is missing is farther than everything returned, and the list is full *)
  Lemma topk_complete k s x : NoDup s -> In x s -> ~ In x (topk k s) ->
    length (topk k s) = k /\ forall r, In r (topk k s) -> key r < key x.
  Proof.
    intros Hn Hx Hnot. unfold topk in *.
    assert (Hs : ssorted (isort s)).
    { apply sorted_NoDup_strict; [apply isort_sorted|]. eapply Permutation_NoDup; [apply isort_perm | assumption]. }
    assert (Hin : In x (isort s)) by (apply (Permutation_in _ (isort_perm s)); assumption).
    rewrite <- (firstn_skipn k (isort s)) in Hin, Hs. apply in_app_or in Hin.
    destruct Hin as [Hin|Hin]; [contradiction|]. split.
    - rewrite firstn_length. destruct (Nat.le_gt_cases k (length (isort s))); [lia|].
      rewrite skipn_all2 in Hin by lia. destruct Hin.
    - intros r Hr. clear Hnot. induction (firstn k (isort s)) as [|y f IH]; [destruct Hr|].
      simpl in Hs. inversion Hs as [|? ? Hs' Hf]; subst. destruct Hr as [->|Hr]; [|now apply IH].
      rewrite Forall_forall in Hf. apply Hf. apply in_or_app. now right.
  Qed.
End Keyed.

(* the code's key is injective *)
Lemma xkey_inj target a b : xkey target a = xkey target b -> a = b.
Proof.
  unfold xkey. intros H.
  assert (E : N.lxor (N.lxor a target) target = N.lxor (N.lxor b target) target) by (now rewrite H).
  now rewrite !N.lxor_assoc, N.lxor_nilpotent, !N.lxor_0_r in E.
Qed.

(* ------------------------------------------------------------------ the loops of the lookup *)
Lemma NoDup_app_intro {A} (a b : list A) : NoDup a -> NoDup b -> (forall x, In x a -> ~ In x b) -> NoDup (a ++ b).
Proof.
  induction a as [|x a IH]; simpl; intros Ha Hb Hd; [assumption|]. inversion Ha; subst.
  constructor.
  - intros H. apply in_app_or in H. destruct H; [contradiction|]. apply (Hd x); [now left | assumption].
  - apply IH; try assumption. intros y Hy. apply Hd. now right.
Qed.

Lemma alpha_pos : (1 <= alphaZ)%Z.
Proof. vm_compute. discriminate. Qed.

Lemma ask_loop_spec : forall l a p q g,
  exists nw, ask_loop l a p q g = (rev nw ++ a, p ++ nw, (q + Z.of_nat (length nw))%Z, rev nw ++ g) /\
    NoDup nw /\ incl nw l /\ (forall x, In x nw -> ~ In x a) /\
    ((q <= alphaZ)%Z -> (q + Z.of_nat (length nw) <= alphaZ)%Z) /\
    ((q < alphaZ)%Z -> (exists x, In x l /\ ~ In x a) -> nw <> []).
Proof.
  induction l as [|n r IH]; intros a p q g; simpl.
  - exists []. simpl. rewrite app_nil_r, Z.add_0_r. repeat split; try constructor; try easy.
    intros _ [x [[] _]].
  - destruct (Z.ltb q alphaZ) eqn:E.
    + apply Z.ltb_lt in E. destruct (mem n a) eqn:M.
      * destruct (IH a p q g) as [nw [H1 [H2 [H3 [H4 [H5 H6]]]]]]. exists nw. rewrite H1.
        repeat split; try assumption; [apply incl_tl; assumption|].
        intros Hq [x [[Hx|Hx] Hn]]; [subst; apply mem_In in M; contradiction|]. apply H6; [assumption|]. now exists x.
      * apply mem_false in M.
        destruct (IH (n :: a) (p ++ [n]) (q + 1)%Z (n :: g)) as [nw [H1 [H2 [H3 [H4 [H5 H6]]]]]].
        exists (n :: nw). rewrite H1. simpl. rewrite <- !app_assoc. simpl.
        replace (q + 1 + Z.of_nat (length nw))%Z with (q + Z.pos (Pos.of_succ_nat (length nw)))%Z by lia.
        repeat split.
        -- constructor; [|assumption]. intros Hin. apply (H4 n Hin). now left.
        -- intros x [Hx|Hx]; [now left | right; now apply H3].
        -- intros x [Hx|Hx]; [now subst|]. intros Ha. apply (H4 x Hx). now right.
        -- intros Hq. lia.
        -- intros _ _. discriminate.
    + apply Z.ltb_ge in E. exists []. simpl. rewrite app_nil_r, Z.add_0_r.
      repeat split; try constructor; try easy; lia.
Qed.

Lemma drain_ok : forall fuel p tp q,
  (q = Z.of_nat (length p) + (match tp with Some _ => 1 | None => 0 end))%Z -> (Z.to_nat q <= fuel)%nat ->
  drain fuel p tp q = Ok ([], None, 0%Z).
Proof.
  induction fuel as [|f IH]; intros p tp q Hq Hf.
  - destruct tp; [lia|]. destruct p; [|simpl length in Hq; lia]. simpl in Hq. subst q. reflexivity.
  - simpl. destruct (Z.ltb 0 q) eqn:E.
    + apply Z.ltb_lt in E. destruct tp as [l|].
      * apply IH; lia.
      * destruct p as [|x r]; [simpl in Hq; lia|]. apply IH; [simpl length in Hq; lia | lia].
    + apply Z.ltb_ge in E. destruct tp; [lia|]. destruct p; [|simpl length in Hq; lia]. simpl in Hq. subst q. reflexivity.
Qed.

Section Sys.
  Variable key : N -> N.
  Hypothesis key_inj : forall a b, key a = key b -> a = b.
  Variable self : N.
  Variable tbl : list N.
  Variable ans : N -> list (option N).
  (* the finite universe: everything the table and the peers can ever mention *)
  Variable U : list N.
  Hypothesis U_tbl : incl tbl U.
  Hypothesis U_ans : forall p x, In (Some x) (ans p) -> In x U.

  Notation topk := (topk key).
  Notation K := bucket_size.

  Lemma absorb_spec : forall nodes sn,
    NoDup sn ->
    exists sn', absorb key nodes sn (topk K sn) = Ok (sn', topk K sn') /\ NoDup sn' /\ incl sn sn' /\
                (forall x, In x sn' -> In x sn \/ In (Some x) nodes).
  Proof.
    induction nodes as [|[n|] r IH]; intros sn Hn; simpl.
    - exists sn. repeat split; auto using incl_refl.
    - destruct (mem n sn) eqn:M.
      + destruct (IH sn Hn) as [sn' [H1 [H2 [H3 H4]]]]. exists sn'. repeat split; try assumption.
        intros x Hx. destruct (H4 x Hx); auto.
      + apply mem_false in M. rewrite push_ok by (apply topk_sorted || apply topk_length). simpl.
        rewrite (topk_cons key).
        destruct (IH (n :: sn)) as [sn' [H1 [H2 [H3 H4]]]]; [now constructor|].
        exists sn'. repeat split; try assumption.
        * intros x Hx. apply H3. now right.
        * intros x Hx. destruct (H4 x Hx) as [[->|H]|H]; auto.
    - destruct (IH sn Hn) as [sn' [H1 [H2 [H3 H4]]]]. exists sn'. repeat split; try assumption.
      intros x Hx. destruct (H4 x Hx); auto.
  Qed.

  Definition tpn (s : lk) : Z := match tpending s with Some _ => 1%Z | None => 0%Z end.

  Record Inv (s : lk) : Prop := {
    I_asked : asked s = qlog s ++ [self];
    I_nodup : NoDup (asked s);
    I_pend : incl (pending s) (qlog s);
    I_pnd : NoDup (pending s);
    I_q : (queries s = (-1)%Z /\ pending s = [] /\ tpending s = None /\ qlog s = [] /\ seen s = [] /\ result s = []) \/
          (queries s = (Z.of_nat (length (pending s)) + tpn s)%Z);
    I_alpha : (queries s <= alphaZ)%Z;
    I_res : result s = topk K (seen s);
    I_seen : NoDup (seen s);
    I_U : incl (seen s) U;
    I_qseen : incl (qlog s) (seen s);
    I_tp : forall l, tpending s = Some l -> incl l tbl;
    I_dead : alive s = false -> pending s = [] /\ tpending s = None
  }.

  Lemma inv_init : Inv (init self).
  Proof.
    constructor; simpl; try easy; try (repeat constructor; easy).
  Qed.

  Lemma findnode_ok : exists l, findnode_by_id key tbl K = Ok l /\ incl l tbl.
  Proof.
    destruct (push_all_ok key tbl [] K) as [r [H1 [_ [_ H4]]]]; [constructor | simpl; lia |].
    exists r. split; assumption.
  Qed.

  (* the three kinds of event never fail in a state satisfying the invariant *)
  Lemma start_progress s : Inv s -> exists s' b, start_queries key tbl s = Ok (s', b).
  Proof.
    intros I. unfold start_queries. destruct (alive s); simpl; [|eauto].
    destruct (Z.eqb (queries s) (-1)).
    - destruct findnode_ok as [l [H _]]. rewrite H. simpl. eauto.
    - destruct (ask_loop (result s) (asked s) (pending s) (queries s) (qlog s)) as [[[a p] q] g]. eauto.
  Qed.
  Lemma table_progress s l : Inv s -> tpending s = Some l -> exists s', deliver_table key s = Ok s'.
  Proof.
    intros I H. unfold deliver_table. rewrite H, (I_res s I).
    destruct (absorb_spec (map Some l) (seen s) (I_seen s I)) as [sn' [H1 _]]. rewrite H1. simpl. eauto.
  Qed.
  Lemma reply_progress s p nodes : Inv s -> In p (pending s) -> exists s', deliver_peer key s p nodes = Ok s'.
  Proof.
    intros I H. unfold deliver_peer. apply mem_In in H. rewrite H, (I_res s I).
    destruct (absorb_spec nodes (seen s) (I_seen s I)) as [sn' [H1 _]]. rewrite H1. simpl. eauto.
  Qed.
  Lemma shutdown_spec s : Inv s ->
    shutdown s = Ok (mkLk (asked s) (seen s) (result s) [] None (if Z.eqb (queries s) (-1) then (-1)%Z else 0%Z) false (qlog s)).
  Proof.
    intros I. unfold shutdown. destruct (I_q s I) as [[Hq [Hp [Ht _]]]|Hq].
    - rewrite Hq, Hp, Ht. reflexivity.
    - rewrite drain_ok; [|unfold tpn in Hq; exact Hq | lia]. simpl.
      replace (Z.eqb (queries s) (-1)) with false; [reflexivity|].
      symmetry. apply Z.eqb_neq. unfold tpn in Hq. destruct (tpending s); lia.
  Qed.

  Lemma inv_step s s' : Inv s -> lstep key ans tbl s s' -> Inv s'.
  Proof.
    intros I St. destruct St as [s s' b H Hne | s s' H | s p s' Hp H | s s' Ha H].
    - (* start *)
      unfold start_queries in H. destruct (alive s) eqn:Al; simpl in H; [|inversion H; subst; contradiction].
      destruct (Z.eqb (queries s) (-1)) eqn:E.
      + apply Z.eqb_eq in E. destruct findnode_ok as [l [Hl Hin]]. rewrite Hl in H. simpl in H. inversion H; subst; clear H.
        destruct (I_q s I) as [[Hq [Hpd [Ht [Hg [Hs Hr]]]]]|Hq]; [|unfold tpn in Hq; destruct (tpending s); lia].
        constructor; simpl; try (apply I); try assumption.
        * right. rewrite Hpd. reflexivity.
        * apply alpha_pos.
        * intros l' Hl'. inversion Hl'; subst. assumption.
        * congruence.
      + apply Z.eqb_neq in E.
        destruct (ask_loop_spec (result s) (asked s) (pending s) (queries s) (qlog s)) as [nw [H1 [H2 [H3 [H4 [H5 H6]]]]]].
        rewrite H1 in H. inversion H; subst; clear H.
        assert (Hq : queries s = (Z.of_nat (length (pending s)) + tpn s)%Z) by (destruct (I_q s I) as [[? _]|?]; [contradiction | assumption]).
        constructor; simpl.
        * rewrite (I_asked s I). apply app_assoc.
        * apply NoDup_app_intro; [now apply NoDup_rev | apply I |].
          intros x Hx. apply H4. now apply in_rev.
        * intros x Hx. apply in_app_or in Hx. apply in_or_app. destruct Hx as [Hx|Hx]; [right; now apply (I_pend s I) | left; now apply -> in_rev].
        * apply NoDup_app_intro; [apply I | assumption |].
          intros x Hx Hn. apply (H4 x Hn). rewrite (I_asked s I). apply in_or_app. left. now apply (I_pend s I).
        * right. rewrite app_length. unfold tpn in *. simpl. lia.
        * apply H5, I.
        * apply I.
        * apply I.
        * apply I.
        * intros x Hx. apply in_app_or in Hx. destruct Hx as [Hx|Hx]; [|now apply (I_qseen s I)].
          apply in_rev in Hx. apply H3 in Hx. rewrite (I_res s I) in Hx. now apply topk_incl in Hx.
        * apply I.
        * congruence.
    - (* table *)
      unfold deliver_table in H. destruct (tpending s) as [l|] eqn:Ht; [|discriminate].
      rewrite (I_res s I) in H. destruct (absorb_spec (map Some l) (seen s) (I_seen s I)) as [sn' [H1 [H2 [H3 H4]]]].
      rewrite H1 in H. simpl in H. inversion H; subst; clear H.
      assert (Hq : queries s = (Z.of_nat (length (pending s)) + 1)%Z).
      { destruct (I_q s I) as [[_ [_ [Hn _]]]|Hq]; [congruence|]. unfold tpn in Hq. now rewrite Ht in Hq. }
      constructor; simpl; try (apply I); try assumption; try reflexivity.
      + right. unfold tpn. simpl. lia.
      + pose proof (I_alpha s I). lia.
      + intros x Hx. destruct (H4 x Hx) as [Hx'|Hx']; [now apply (I_U s I)|].
        apply in_map_iff in Hx'. destruct Hx' as [y [Hy Hy']]. inversion Hy; subst. apply U_tbl. now apply (I_tp s I l).
      + intros x Hx. apply H3. now apply (I_qseen s I).
      + discriminate.
      + intros Hd. destruct (I_dead s I Hd) as [_ Hn]. congruence.
    - (* reply *)
      unfold deliver_peer in H. assert (M : mem p (pending s) = true) by now apply mem_In. rewrite M in H.
      rewrite (I_res s I) in H. destruct (absorb_spec (ans p) (seen s) (I_seen s I)) as [sn' [H1 [H2 [H3 H4]]]].
      rewrite H1 in H. simpl in H. inversion H; subst; clear H.
      pose proof (remove1_length p (pending s) Hp) as Hlen.
      assert (Hq : queries s = (Z.of_nat (length (pending s)) + tpn s)%Z).
      { destruct (I_q s I) as [[_ [Hn _]]|Hq]; [rewrite Hn in Hp; destruct Hp | assumption]. }
      constructor; simpl; try (apply I); try assumption; try reflexivity.
      + intros x Hx. apply (I_pend s I). now apply (remove1_incl p).
      + apply remove1_NoDup, I.
      + right. unfold tpn in *. simpl. lia.
      + pose proof (I_alpha s I). lia.
      + intros x Hx. destruct (H4 x Hx) as [Hx'|Hx']; [now apply (I_U s I) | now apply (U_ans p)].
      + intros x Hx. apply H3. now apply (I_qseen s I).
      + intros Hd. destruct (I_dead s I Hd) as [Hn _]. rewrite Hn in Hp. destruct Hp.
    - (* cancel *)
      rewrite (shutdown_spec s I) in H. inversion H; subst; clear H.
      constructor; simpl; try (apply I); try easy.
      + constructor.
      + destruct (Z.eqb (queries s) (-1)) eqn:E.
        * destruct (I_q s I) as [[Hq [Hpd [Ht [Hg [Hs Hr]]]]]|Hq]; [left; repeat split; assumption|].
          apply Z.eqb_eq in E. unfold tpn in Hq. destruct (tpending s); lia.
        * right. reflexivity.
      + pose proof alpha_pos. destruct (Z.eqb (queries s) (-1)); lia.
  Qed.

  Lemma inv_steps n s : steps key ans tbl n (init self) s -> Inv s.
  Proof.
    remember (init self) as s0. induction 1; subst; [apply inv_init|]. eapply inv_step; [|eassumption]. now apply IHsteps.
  Qed.
  Lemma inv_reachable s : reachable key ans tbl self s -> Inv s.
  Proof. intros [n H]. eapply inv_steps, H. Qed.

  (* ---------------------------------------------------------------- what a reachable state looks like *)
  Theorem reachable_bounds s : reachable key ans tbl self s ->
    (Z.of_nat (length (pending s)) <= alphaZ)%Z /\ incl (pending s) (asked s) /\ NoDup (pending s) /\
    NoDup (asked s) /\ asked s = qlog s ++ [self] /\ ~ In self (qlog s) /\ ~ In self (pending s).
  Proof.
    intros R. pose proof (inv_reachable s R) as I.
    assert (Hns : ~ In self (qlog s)).
    { intros H. pose proof (I_nodup s I) as Hn. rewrite (I_asked s I) in Hn.
      apply NoDup_remove_2 in Hn. apply Hn. rewrite app_nil_r. assumption. }
    repeat split; try apply I; try assumption.
    - pose proof (I_alpha s I). destruct (I_q s I) as [[_ [Hp _]]|Hq].
      + rewrite Hp. simpl. pose proof alpha_pos. lia.
      + unfold tpn in Hq. destruct (tpending s); lia.
    - intros x Hx. rewrite (I_asked s I). apply in_or_app. left. now apply (I_pend s I).
    - intros H. apply Hns. now apply (I_pend s I).
  Qed.

  Theorem reachable_result s : reachable key ans tbl self s ->
    result s = topk K (seen s) /\ NoDup (seen s) /\ ssorted key (result s) /\ NoDup (result s) /\
    (length (result s) <= K)%nat /\ incl (result s) (seen s) /\
    (forall x, In x (seen s) -> ~ In x (result s) ->
       length (result s) = K /\ forall r, In r (result s) -> key r < key x).
  Proof.
    intros R. pose proof (inv_reachable s R) as I. rewrite (I_res s I).
    repeat split; try apply I.
    - apply topk_ssorted; [assumption | apply I].
    - apply topk_NoDup, I.
    - apply topk_length.
    - apply topk_incl.
    - eapply topk_complete; try eassumption. apply I.
    - eapply topk_complete; try eassumption. apply I.
  Qed.

  Theorem reachable_progress s : reachable key ans tbl self s ->
    (exists s' b, start_queries key tbl s = Ok (s', b)) /\
    (forall l, tpending s = Some l -> exists s', deliver_table key s = Ok s') /\
    (forall p, In p (pending s) -> exists s', deliver_peer key s p (ans p) = Ok s') /\
    (exists s', shutdown s = Ok s').
  Proof.
    intros R. pose proof (inv_reachable s R) as I. repeat split.
    - now apply start_progress.
    - intros l. now apply table_progress.
    - intros p. now apply reply_progress.
    - rewrite (shutdown_spec s I). eauto.
  Qed.

  (* ---------------------------------------------------------------- the end of a run *)
  Lemma finished_spec s : Inv s -> finished key tbl s ->
    start_queries key tbl s = Ok (s, false) /\ pending s = [] /\ tpending s = None /\
    (alive s = true -> forall x, In x (result s) -> In x (asked s)).
  Proof.
    intros I [s' H]. unfold start_queries in *. destruct (alive s) eqn:Al; simpl in *.
    - destruct (Z.eqb (queries s) (-1)) eqn:E.
      + destruct findnode_ok as [l [Hl _]]. rewrite Hl in H. simpl in H. discriminate.
      + apply Z.eqb_neq in E.
        destruct (ask_loop_spec (result s) (asked s) (pending s) (queries s) (qlog s)) as [nw [H1 [H2 [H3 [H4 [H5 H6]]]]]].
        rewrite H1 in *. inversion H as [[Hs Hb]]. clear H.
        assert (Hq : queries s = (Z.of_nat (length (pending s)) + tpn s)%Z) by (destruct (I_q s I) as [[? _]|?]; [contradiction | assumption]).
        apply Z.ltb_ge in Hb.
        assert (Hnw : nw = []) by (destruct nw; [reflexivity | simpl length in Hb; unfold tpn in Hq; destruct (tpending s); lia]).
        assert (Hp : pending s = []) by (destruct (pending s); [reflexivity | simpl length in Hq; subst nw; simpl in Hb; unfold tpn in Hq; destruct (tpending s); lia]).
        assert (Ht : tpending s = None) by (unfold tpn in Hq; subst nw; simpl in Hb; destruct (tpending s); [lia | reflexivity]).
        subst nw. simpl. rewrite app_nil_r, Z.add_0_r.
        repeat split; try assumption.
        * f_equal. f_equal. destruct s; simpl in *. congruence.
        * intros _ x Hx. destruct (mem x (asked s)) eqn:M; [now apply mem_In|]. apply mem_false in M.
          exfalso. apply H6; [|now exists x|reflexivity].
          rewrite Hq, Hp. unfold tpn. rewrite Ht. simpl. pose proof alpha_pos. lia.
    - inversion H; subst. destruct (I_dead s' I Al) as [Hp Ht]. repeat split; try assumption. congruence.
  Qed.

  Theorem reachable_finished s : reachable key ans tbl self s -> finished key tbl s ->
    start_queries key tbl s = Ok (s, false) /\ pending s = [] /\ tpending s = None /\
    (alive s = true -> forall x, In x (result s) -> In x (asked s)).
  Proof. intros R. apply finished_spec. now apply inv_reachable. Qed.

  (* cancellation in any reachable state: one step, everything outstanding is drained, the result is kept, the run is over *)
  Theorem reachable_cancel s : reachable key ans tbl self s -> alive s = true ->
    exists s', shutdown s = Ok s' /\ lstep key ans tbl s s' /\ pending s' = [] /\ tpending s' = None /\
               result s' = result s /\ asked s' = asked s /\ finished key tbl s'.
  Proof.
    intros R Al. pose proof (inv_reachable s R) as I. eexists. split; [apply (shutdown_spec s I)|].
    split; [apply LCancel; [assumption | apply (shutdown_spec s I)]|].
    repeat split. eexists. unfold start_queries. simpl. reflexivity.
  Qed.

  (* ---------------------------------------------------------------- termination *)
  Definition Un : list N := nodup N.eq_dec U.
  Definition unasked (g : list N) : nat := length (filter (fun u => negb (mem u g)) Un).
  Definition mu (s : lk) : nat :=
    (2 * unasked (qlog s) + length (pending s) + (match tpending s with Some _ => 1 | None => 0 end) +
     (if Z.eqb (queries s) (-1) then 2 else 0) + (if alive s then 1 else 0))%nat.

  Lemma mem_cons_ne x n g : x <> n -> mem x (n :: g) = mem x g.
  Proof. intros H. unfold mem. simpl. replace (N.eqb x n) with false by (symmetry; now apply N.eqb_neq). reflexivity. Qed.
  Lemma filter_notin_skip n g l : ~ In n l ->
    filter (fun u => negb (mem u (n :: g))) l = filter (fun u => negb (mem u g)) l.
  Proof.
    intros H. apply filter_ext_in. intros x Hx. rewrite mem_cons_ne; [reflexivity|]. intros ->. contradiction.
  Qed.
  Lemma filter_notin_cons n g l : NoDup l -> In n l -> ~ In n g ->
    (length (filter (fun u => negb (mem u (n :: g))) l) + 1 = length (filter (fun u => negb (mem u g)) l))%nat.
  Proof.
    induction 1 as [|x l Hx Hn IH]; intros Hin Hg; [destruct Hin|]. cbn [filter].
    destruct (N.eq_dec x n) as [->|Hne].
    - replace (mem n (n :: g)) with true by (symmetry; apply mem_In; now left).
      replace (mem n g) with false by (symmetry; now apply mem_false). cbn [negb length].
      rewrite filter_notin_skip by assumption. lia.
    - rewrite (mem_cons_ne x n g Hne). destruct Hin as [Hin|Hin]; [congruence|]. specialize (IH Hin Hg).
      destruct (mem x g); cbn [negb length]; lia.
  Qed.
  Lemma unasked_app : forall nw g, NoDup nw -> incl nw Un -> (forall x, In x nw -> ~ In x g) ->
    (unasked (rev nw ++ g) + length nw = unasked g)%nat.
  Proof.
    induction nw as [|x nw IH]; intros g Hn Hi Hd; simpl; [lia|].
    inversion Hn; subst. rewrite <- app_assoc. simpl.
    assert (E : (unasked (x :: g) + 1 = unasked g)%nat).
    { unfold unasked. apply filter_notin_cons; [apply NoDup_nodup | apply Hi; now left | apply Hd; now left]. }
    rewrite <- E. rewrite <- (IH (x :: g)); [lia | assumption | intros y Hy; apply Hi; now right |].
    intros y Hy [->|Hg]; [contradiction | apply (Hd y); [now right | assumption]].
  Qed.

  Lemma mu_step s s' : Inv s -> lstep key ans tbl s s' -> (mu s' < mu s)%nat.
  Proof.
    intros I St. destruct St as [s s' b H Hne | s s' H | s p s' Hp H | s s' Ha H].
    - unfold start_queries in H. destruct (alive s) eqn:Al; simpl in H; [|inversion H; subst; contradiction].
      destruct (Z.eqb (queries s) (-1)) eqn:E.
      + destruct findnode_ok as [l [Hl Hin]]. rewrite Hl in H. simpl in H. inversion H; subst; clear H.
        apply Z.eqb_eq in E.
        destruct (I_q s I) as [[Hq [Hpd [Ht _]]]|Hq]; [|unfold tpn in Hq; destruct (tpending s); lia].
        unfold mu. simpl. rewrite Al, Hpd, Ht, Hq. simpl. lia.
      + apply Z.eqb_neq in E.
        destruct (ask_loop_spec (result s) (asked s) (pending s) (queries s) (qlog s)) as [nw [H1 [H2 [H3 [H4 [H5 H6]]]]]].
        rewrite H1 in H. inversion H; subst; clear H.
        assert (Hq : queries s = (Z.of_nat (length (pending s)) + tpn s)%Z) by (destruct (I_q s I) as [[? _]|?]; [contradiction | assumption]).
        assert (Hnw : nw <> []).
        { intros ->. apply Hne. simpl. rewrite app_nil_r, Z.add_0_r. destruct s; simpl in *. congruence. }
        assert (Hu : (unasked (rev nw ++ qlog s) + length nw = unasked (qlog s))%nat).
        { apply unasked_app; [assumption | |].
          - intros x Hx. apply nodup_In. apply (I_U s I). apply H3 in Hx. rewrite (I_res s I) in Hx. now apply topk_incl in Hx.
          - intros x Hx Hg. apply (H4 x Hx). rewrite (I_asked s I). apply in_or_app. now left. }
        unfold mu. simpl. rewrite Al, app_length.
        replace (Z.eqb (queries s + Z.of_nat (length nw)) (-1)) with false
          by (symmetry; apply Z.eqb_neq; unfold tpn in Hq; destruct (tpending s); lia).
        replace (Z.eqb (queries s) (-1)) with false by (symmetry; now apply Z.eqb_neq).
        destruct nw; [congruence|]. simpl length in *. lia.
    - unfold deliver_table in H. destruct (tpending s) as [l|] eqn:Ht; [|discriminate].
      rewrite (I_res s I) in H. destruct (absorb_spec (map Some l) (seen s) (I_seen s I)) as [sn' [H1 _]].
      rewrite H1 in H. simpl in H. inversion H; subst; clear H.
      assert (Hq : queries s = (Z.of_nat (length (pending s)) + 1)%Z).
      { destruct (I_q s I) as [[_ [_ [Hn _]]]|Hq]; [congruence|]. unfold tpn in Hq. now rewrite Ht in Hq. }
      unfold mu. simpl. rewrite Ht.
      replace (Z.eqb (queries s - 1) (-1)) with false by (symmetry; apply Z.eqb_neq; lia).
      replace (Z.eqb (queries s) (-1)) with false by (symmetry; apply Z.eqb_neq; lia). lia.
    - unfold deliver_peer in H. assert (M : mem p (pending s) = true) by now apply mem_In. rewrite M in H.
      rewrite (I_res s I) in H. destruct (absorb_spec (ans p) (seen s) (I_seen s I)) as [sn' [H1 _]].
      rewrite H1 in H. simpl in H. inversion H; subst; clear H.
      pose proof (remove1_length p (pending s) Hp) as Hlen.
      assert (Hq : queries s = (Z.of_nat (length (pending s)) + tpn s)%Z).
      { destruct (I_q s I) as [[_ [Hn _]]|Hq]; [rewrite Hn in Hp; destruct Hp | assumption]. }
      unfold mu. simpl.
      replace (Z.eqb (queries s - 1) (-1)) with false by (symmetry; apply Z.eqb_neq; unfold tpn in Hq; destruct (tpending s); lia).
      replace (Z.eqb (queries s) (-1)) with false by (symmetry; apply Z.eqb_neq; unfold tpn in Hq; destruct (tpending s); lia). lia.
    - rewrite (shutdown_spec s I) in H. inversion H; subst; clear H.
      unfold mu. simpl. rewrite Ha. destruct (Z.eqb (queries s) (-1)); simpl; destruct (tpending s); lia.
  Qed.

  Lemma mu_init : mu (init self) = (2 * length Un + 3)%nat.
  Proof.
    assert (E : forall (f : N -> bool) (l : list N), (forall x, f x = true) -> filter f l = l).
    { intros f l Hf. induction l as [|y l IH]; [reflexivity|]. cbn [filter]. rewrite Hf, IH. reflexivity. }
    unfold mu, unasked. cbn [init qlog pending tpending queries alive length]. rewrite E by reflexivity. rewrite Z.eqb_refl. lia.
  Qed.

  (* every run, whatever the schedule: at most 2|U|+3 events in total *)
  Theorem run_length n s : steps key ans tbl n (init self) s -> (n + mu s <= 2 * length Un + 3)%nat.
  Proof.
    remember (init self) as s0. induction 1 as [|n s s' s'' St IH L]; subst.
    - rewrite mu_init. lia.
    - specialize (IH eq_refl). pose proof (mu_step s' s'' (inv_steps n s' St) L). lia.
  Qed.

  (* at most one query per peer of the universe, none to the local node *)
  Theorem queries_once s : reachable key ans tbl self s ->
    NoDup (qlog s) /\ incl (qlog s) U /\ (length (qlog s) <= length Un)%nat /\ ~ In self (qlog s).
  Proof.
    intros R. pose proof (inv_reachable s R) as I.
    assert (Hn : NoDup (qlog s)).
    { pose proof (I_nodup s I) as Hn. rewrite (I_asked s I) in Hn. now apply NoDup_app_l in Hn. }
    assert (Hi : incl (qlog s) U) by (intros x Hx; apply (I_U s I), (I_qseen s I), Hx).
    repeat split; try assumption.
    - apply NoDup_incl_length; [assumption|]. intros x Hx. apply nodup_In. now apply Hi.
    - apply (reachable_bounds s R).
  Qed.
End Sys.

(* ------------------------------------------------------------------ run (the executable schedule interpreter) stays inside the transition system *)
Lemma lk_eq_dec (a b : lk) : {a = b} + {a <> b}.
Proof.
  decide equality; try apply (list_eq_dec N.eq_dec); try apply Z.eq_dec; try apply Bool.bool_dec.
  decide equality. apply (list_eq_dec N.eq_dec).
Qed.

Section RunSys.
  Variable key : N -> N.
  Variable self : N.
  Variable tbl : list N.
  Variable ans : N -> list (option N).

  Lemma start_reachable s s' b : reachable key ans tbl self s -> start_queries key tbl s = Ok (s', b) ->
    reachable key ans tbl self s'.
  Proof.
    intros [n R] H. destruct (lk_eq_dec s' s) as [->|Hne]; [now exists n|].
    exists (S n). eapply steps_S; [exact R|]. eapply LStart; eassumption.
  Qed.

  Lemma choice_reachable s c s' : reachable key ans tbl self s -> (c = CCancel -> alive s = true) ->
    apply_choice key ans s c = Ok s' -> reachable key ans tbl self s'.
  Proof.
    intros [n R] Hc H. exists (S n). eapply steps_S; [exact R|]. destruct c as [|p|]; simpl in H.
    - now apply LTable.
    - apply LReply with p; [|assumption]. unfold deliver_peer in H. destruct (mem p (pending s)) eqn:M; [now apply mem_In | discriminate].
    - apply LCancel; [now apply Hc | assumption].
  Qed.

  (* startQueries answers true only while the query function is still there, so a cancel choice is always a real cancel *)
  Lemma start_true_alive s s' : start_queries key tbl s = Ok (s', true) -> alive s' = true.
  Proof.
    unfold start_queries. destruct (alive s) eqn:Al; simpl; [|discriminate].
    destruct (Z.eqb (queries s) (-1)).
    - destruct (findnode_by_id key tbl bucket_size); simpl; [|discriminate|discriminate]. intros H. inversion H. reflexivity.
    - destruct (ask_loop (result s) (asked s) (pending s) (queries s) (qlog s)) as [[[a p] q] g]. intros H. inversion H. reflexivity.
  Qed.

  Theorem run_reachable : forall sched s s' b, reachable key ans tbl self s ->
    run key ans tbl sched s = Ok (s', b) ->
    reachable key ans tbl self s' /\
    (b = true -> exists s0, reachable key ans tbl self s0 /\ start_queries key tbl s0 = Ok (s', false)).
  Proof.
    induction sched as [|c rest IH]; intros s s' b R H; simpl in H.
    - destruct (start_queries key tbl s) as [[s1 more]| |] eqn:E; simpl in H; try discriminate.
      destruct more; simpl in H; inversion H; subst.
      + split; [eapply start_reachable; eassumption | discriminate].
      + split; [eapply start_reachable; eassumption | intros _; now exists s].
    - destruct (start_queries key tbl s) as [[s1 more]| |] eqn:E; simpl in H; try discriminate.
      destruct more; simpl in H.
      + destruct (apply_choice key ans s1 c) as [s2| |] eqn:E2; simpl in H; try discriminate.
        assert (R2 : reachable key ans tbl self s2).
        { eapply choice_reachable; [eapply start_reachable; eassumption | | eassumption].
          intros _. eapply start_true_alive; eassumption. }
        exact (IH s2 s' b R2 H).
      + inversion H; subst. split; [eapply start_reachable; eassumption | intros _; now exists s].
  Qed.
End RunSys.

(* ------------------------------------------------------------------ content lookup: first content wins *)
Section CSys.
  Variable key : N -> N.
  Hypothesis key_inj : forall a b, key a = key b -> a = b.
  Variable self : N.
  Variable tbl : list N.
  Variable cans : N -> canswer.
  Variable U : list N.
  Hypothesis U_tbl : incl tbl U.
  Hypothesis U_ans : forall p x, In (Some x) (cnodes cans p) -> In x U.

  Notation ans := (cnodes cans).
  Notation BInv := (Inv key self tbl U).

  Lemma cbase_reachable s : creachable key cans tbl self s -> reachable key ans tbl self (base s).
  Proof.
    unfold creachable. remember (cinit self) as s0. induction 1 as [|s s' s'' _ IH St]; subst.
    - exists 0%nat. constructor.
    - destruct (IH eq_refl) as [n R]. destruct St as [s1 p Hp Hw | s1 b' r H Hne | s1 b' H | s1 p b' Hp Hw H | s1 b' Ha Hall H]; simpl.
      + unfold cwork. destruct (cans p); [destruct (found s1)|..]; simpl; now exists n.
      + exists (S n). eapply steps_S; [exact R|]. eapply LStart; eassumption.
      + exists (S n). eapply steps_S; [exact R|]. now apply LTable.
      + exists (S n). eapply steps_S; [exact R|]. eapply LReply; eassumption.
      + exists (S n). eapply steps_S; [exact R|]. now apply LCancel.
  Qed.

  Record CInv (s : cl) : Prop := {
    C_started : forall p, In p (qlog (base s)) -> In p (pending (base s)) \/ In p (worked s);
    C_worked : forall p, In p (worked s) -> In p (qlog (base s));
    C_sound : forall c, found s = Some c -> exists p, In p (worked s) /\ cans p = AContent c;
    C_complete : forall p c, In p (worked s) -> cans p = AContent c -> found s <> None;
    C_cancel : cancelled s = true <-> found s <> None
  }.

  Lemma start_shape s s' b : BInv s -> start_queries key tbl s = Ok (s', b) ->
    (forall p, In p (qlog s') -> In p (qlog s) \/ In p (pending s')) /\ incl (pending s) (pending s') /\ incl (qlog s) (qlog s').
  Proof.
    intros I H. unfold start_queries in H. destruct (alive s); simpl in H; [|inversion H; subst; auto using incl_refl].
    destruct (Z.eqb (queries s) (-1)).
    - destruct (findnode_by_id key tbl bucket_size); simpl in H; try discriminate. inversion H; subst; simpl. auto using incl_refl.
    - destruct (ask_loop_spec (result s) (asked s) (pending s) (queries s) (qlog s)) as [nw [H1 _]].
      rewrite H1 in H. inversion H; subst; simpl. repeat split.
      + intros p Hp. apply in_app_or in Hp. destruct Hp as [Hp|Hp]; [right; apply in_or_app; right; now apply in_rev | now left].
      + apply incl_appl, incl_refl.
      + apply incl_appr, incl_refl.
  Qed.

  Lemma cinv_step s s' : creachable key cans tbl self s -> CInv s -> cstep key cans tbl s s' -> CInv s'.
  Proof.
    intros R C St. pose proof (inv_reachable key key_inj self tbl ans U U_tbl U_ans _ (cbase_reachable s R)) as I.
    destruct St as [s p Hp Hw | s b' r H Hne | s b' H | s p b' Hp Hw H | s b' Ha Hall H].
    - (* a worker finishes *)
      assert (Hq : In p (qlog (base s))) by (apply (I_pend _ _ _ _ _ I); assumption).
      assert (Hst : forall q, In q (qlog (base s)) -> In q (pending (base s)) \/ In q (p :: worked s))
        by (intros q Hq'; destruct (C_started s C q Hq'); [now left | right; now right]).
      assert (Hwk : forall q, In q (p :: worked s) -> In q (qlog (base s)))
        by (intros q [->|Hq']; [assumption | now apply (C_worked s C)]).
      assert (Hsd : forall c', found s = Some c' -> exists q, In q (p :: worked s) /\ cans q = AContent c').
      { intros c' Hc'. destruct (C_sound s C c' Hc') as [q [H1 H2]]. exists q. split; [now right | assumption]. }
      unfold cwork. destruct (cans p) as [c| |] eqn:A.
      + destruct (found s) as [c0|] eqn:F.
        * constructor; simpl; try assumption.
          -- intros q c' _ _. discriminate.
          -- rewrite <- F. apply (C_cancel s C).
        * constructor; simpl; try assumption.
          -- intros c' Hc'. inversion Hc'; subst. exists p. split; [now left | assumption].
          -- intros q c' _ _. discriminate.
          -- split; [discriminate | reflexivity].
      + constructor; simpl; try assumption.
        * intros q c' [->|Hq'] Hc'; [congruence | eapply (C_complete s C); eassumption].
        * apply (C_cancel s C).
      + constructor; simpl; try assumption.
        * intros q c' [->|Hq'] Hc'; [congruence | eapply (C_complete s C); eassumption].
        * apply (C_cancel s C).
    - destruct (start_shape _ _ _ I H) as [S1 [S2 S3]].
      constructor; simpl; try apply C.
      + intros p Hp. destruct (S1 p Hp) as [Hq|Hq]; [|now left]. destruct (C_started s C p Hq); [left; now apply S2 | now right].
      + intros p Hp. apply S3. now apply (C_worked s C).
    - unfold deliver_table in H. destruct (tpending (base s)); [|discriminate].
      destruct (absorb key (map Some l) (seen (base s)) (result (base s))) as [[sn rs]| |]; simpl in H; try discriminate.
      inversion H; subst. constructor; simpl; apply C.
    - unfold deliver_peer in H. destruct (mem p (pending (base s))); [|discriminate].
      destruct (absorb key (ans p) (seen (base s)) (result (base s))) as [[sn rs]| |]; simpl in H; try discriminate.
      inversion H; subst. constructor; simpl; try apply C.
      intros q Hq. destruct (C_started s C q Hq) as [Hq'|Hq']; [|now right].
      destruct (N.eq_dec q p) as [->|Hne]; [now right | left; now apply remove1_other].
    - rewrite (shutdown_spec key key_inj self tbl ans U U_ans _ I) in H. inversion H; subst. constructor; simpl; try apply C.
      intros q Hq. destruct (C_started s C q Hq) as [Hq'|Hq']; [right; now apply Hall | now right].
  Qed.

  Lemma cinv_reachable s : creachable key cans tbl self s -> CInv s.
  Proof.
    unfold creachable. remember (cinit self) as s0. induction 1 as [|s s' s'' R IH St]; subst.
    - constructor; simpl; try easy.
    - eapply cinv_step; [exact R | now apply IH | exact St].
  Qed.

  (* ContentLookup returns content iff some queried peer supplied content, and then it is one of those answers *)
  Theorem content_first_wins s : creachable key cans tbl self s -> finished key tbl (base s) ->
    (forall c, content_result s = Some c -> exists p, In p (qlog (base s)) /\ cans p = AContent c) /\
    ((exists p c, In p (qlog (base s)) /\ cans p = AContent c) -> exists c, content_result s = Some c).
  Proof.
    intros R F. pose proof (cinv_reachable s R) as C.
    pose proof (inv_reachable key key_inj self tbl ans U U_tbl U_ans _ (cbase_reachable s R)) as I.
    destruct (finished_spec key key_inj self tbl ans U U_ans _ I F) as [_ [Hp _]].
    unfold content_result. split.
    - intros c Hc. destruct (C_sound s C c Hc) as [p [H1 H2]]. exists p. split; [now apply (C_worked s C) | assumption].
    - intros [p [c [H1 H2]]]. destruct (C_started s C p H1) as [H|H]; [rewrite Hp in H; destruct H|].
      pose proof (C_complete s C p c H H2). destruct (found s) as [c'|]; [now exists c' | congruence].
  Qed.

  (* a worker can always finish, and once all outstanding workers have finished a cancelled content lookup drains *)
  Theorem content_cancel_drains s : creachable key cans tbl self s -> alive (base s) = true ->
    (forall p, In p (pending (base s)) -> In p (worked s)) ->
    exists b', cstep key cans tbl s (with_base s b') /\ pending b' = [] /\ tpending b' = None /\ finished key tbl b'.
  Proof.
    intros R Al Hall. destruct (reachable_cancel key key_inj self tbl ans U U_tbl U_ans _ (cbase_reachable s R) Al)
      as [b' [H1 [_ [H3 [H4 [_ [_ H7]]]]]]].
    exists b'. repeat split; try assumption. now apply CCan.
  Qed.
End CSys.

(* ------------------------------------------------------------------ a run that has not ended is waiting for something that will come *)
Section Live.
  Variable key : N -> N.
  Hypothesis key_inj : forall a b, key a = key b -> a = b.
  Variable self : N.
  Variable tbl : list N.
  Variable ans : N -> list (option N).
  Variable U : list N.
  Hypothesis U_tbl : incl tbl U.
  Hypothesis U_ans : forall p x, In (Some x) (ans p) -> In x U.

  Lemma start_true_queries s s' : start_queries key tbl s = Ok (s', true) -> (0 < queries s')%Z.
  Proof.
    unfold start_queries. destruct (alive s); simpl; [|discriminate].
    destruct (Z.eqb (queries s) (-1)).
    - destruct (findnode_by_id key tbl bucket_size); simpl; [|discriminate|discriminate]. intros H. inversion H. simpl. lia.
    - destruct (ask_loop (result s) (asked s) (pending s) (queries s) (qlog s)) as [[[a p] q] g]. intros H. inversion H. simpl.
      now apply Z.ltb_lt.
  Qed.

  Theorem never_stuck s s' : reachable key ans tbl self s -> start_queries key tbl s = Ok (s', true) ->
    (exists l s'', tpending s' = Some l /\ deliver_table key s' = Ok s'') \/
    (exists p s'', In p (pending s') /\ deliver_peer key s' p (ans p) = Ok s'').
  Proof.
    intros R H. pose proof (start_reachable key self tbl ans s s' true R H) as R'.
    pose proof (inv_reachable key key_inj self tbl ans U U_tbl U_ans s' R') as I.
    pose proof (start_true_queries s s' H) as Hq.
    destruct (tpending s') as [l|] eqn:Ht.
    - left. destruct (table_progress key self tbl U s' l I Ht) as [s'' Hs]. now exists l, s''.
    - right. destruct (I_q _ _ _ _ _ I) as [[Hm _]|Hs]; [lia|].
      unfold tpn in Hs. rewrite Ht in Hs. destruct (pending s') as [|p r] eqn:Hp; [simpl in Hs; lia|].
      assert (Hin : In p (pending s')) by (rewrite Hp; now left).
      destruct (reply_progress key self tbl U s' p (ans p) I Hin) as [s'' Hs'']. exists p, s''. split; [now left | exact Hs''].
  Qed.
End Live.

(* ------------------------------------------------------------------ what lookup.query tells the table *)
Lemma track_success_iff r : track_success r = true <-> r <> [].
Proof. unfold track_success. rewrite Nat.ltb_lt. destruct r; simpl; split; intros H; try lia; easy. Qed.

(* ------------------------------------------------------------------ the reply the real worker hands to the lookup *)
Lemma lookup_worker_reply_spec (key : N -> N) self r :
  exists l, lookup_worker_reply key self r = Ok l /\ ~ In self l /\ (length l <= findnodes_limit)%nat /\
            incl l r /\ sorted key l.
Proof.
  unfold lookup_worker_reply.
  destruct (push_all_ok key (filter (fun n => negb (N.eqb n self)) r) [] findnodes_limit) as [l [H1 [H2 [H3 H4]]]];
    [constructor | simpl; lia |].
  exists l. repeat split; try assumption.
  - intros Hin. apply H4 in Hin. simpl in Hin. apply filter_In in Hin. destruct Hin as [_ Hn].
    rewrite N.eqb_refl in Hn. discriminate.
  - intros x Hx. apply H4 in Hx. simpl in Hx. apply filter_In in Hx. tauto.
Qed.
