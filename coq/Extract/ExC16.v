From Coq Require Import Extraction ExtrOcamlBasic.
From Shisui Require Import Base.Bytes Model.Slots.
Extraction Language OCaml.
Extraction "c16_model.ml" try_acquire offer offer_err out_events in_events calls effective acquired gossip_round sched_run start_offers all_finished seq_sched pops_run stall_scenario ostall_scenario out_phases recv_phases slot_covers erase_phases.
