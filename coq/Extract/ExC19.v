From Coq Require Import Extraction ExtrOcamlBasic.
From Shisui Require Import Base.Bytes Model.Framing Model.Versions.
Extraction Language OCaml.
Extraction "c19_model.ml" find_biggest_same get_or_store get_twice negotiate node_encode_utp node_decode_utp empty_cache accept_kind_of gos_history rec_key.
