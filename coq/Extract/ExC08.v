From Coq Require Import Extraction ExtrOcamlBasic.
From Shisui Require Import Base.Bytes Model.Handlers Model.Framing Model.Versions.
Extraction Language OCaml.
Extraction "c08_model.ml" handle_find_content fc_reply_len process_content pick_sorted talkresp_datagram logdist rec_eqb
  sorted_by_b findcontent_max_payload filter_nodes accept_conditions_b relay_ok encode_utp_content decode_utp_content node_encode_utp node_decode_utp empty_cache.
