From Coq Require Import Extraction ExtrOcamlBasic.
From Shisui Require Import Base.Bytes Gen.K_wire Model.Framing Model.Dispatch.
(* executable instances: what lies behind the dispatch is replaced by functions that never panic, so the
   model's verdict isolates the index / slice expressions of the entry points themselves *)
Definition ok_reply (_ : bytes) : res reply := Ok Reply.
Definition ok_unit (_ : bytes) : res unit := Ok tt.
Definition m_talk (g : bool) (msg : bytes) : res reply :=
  handle_talk_request K_msg_PING K_msg_FINDNODES K_msg_FINDCONTENT K_msg_OFFER ok_reply ok_reply ok_reply ok_reply g msg.
Definition m_pong := process_resp K_msg_PONG ok_unit.
Definition m_nodes := process_resp K_msg_NODES ok_unit.
Definition m_accept := process_resp K_msg_ACCEPT ok_unit.
Definition m_content (g : bool) := process_content K_msg_CONTENT K_sel_ConnId K_sel_Raw K_sel_Enrs ok_unit ok_unit ok_unit g.
Definition m_key (g : bool) (types : list N) (key : bytes) : res unit :=
  key_dispatch (fun _ _ _ => Ok tt) g types key [].
Extraction Language OCaml.
Extraction "c01_model.ml" m_talk m_pong m_nodes m_accept m_content m_key handle_offered_contents
  history_is_ephemeral beacon_get_summaries beacon_put_summaries.
