From Coq Require Import Extraction ExtrOcamlBasic.
From Shisui Require Import Model.Table.
Extraction Language OCaml.
Extraction "table_model.ml" init step steps bucket_of logdist inv_b blocal_b gips_b glists_b gactive_b
  chk_sizes_ents chk_sizes_reps chk_unique chk_self chk_place chk_iplimit_bucket chk_iplimit_table
  fails_step hist_fails consec with_fails fails_read pol_full_b pol_leave_b pol_succ_b pol_record_b pol_endpoint_b pol_kept_b must_leave_b pol_credit_b pol_failed_credit_b pol_failed_gone_b failed_target pol_active_b reval_outcome xinit xstep xresolve start_seq started_after.
