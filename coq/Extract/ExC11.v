From Coq Require Import Extraction ExtrOcamlBasic.
From Shisui Require Import Base.Bytes Model.Handlers.
Extraction Language OCaml.
Extraction "c11_model.ml" handle_find_nodes handle_find_nodes_st collect_table_nodes truncate_nodes pick_perm nodes_reply_len talkresp_datagram relay_ok
  bucket_index from_requested_b entry_of_requested_b process_nodes filter_nodes accept_conditions_b logdist rec_eqb findnodes_max_payload.
