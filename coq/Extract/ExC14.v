From Coq Require Import Extraction ExtrOcamlBasic.
From Shisui Require Import Base.Bytes Base.Ssz Model.Wire Model.WireState.
Extraction Language OCaml.
Extraction "c14_model.ml" enc_any dec_any dec_code dec_spec limits_any wf_any schema
  dec_Forked_oracle code_strict_forked_scope enc_Forked fork_select D_Bellatrix D_Capella D_Deneb D_Electra
  enc_any2 dec_any2 limits_any2 wf_any2 schema2 code_strict_state_fixed_keys
  code_strict_zero_offset code_strict_fixed_scope code_rejects_empty_list
  L_PingPayload L_Distances L_ContentKey L_OfferKeys L_Enr L_Enrs L_Content L_AcceptBits L_AcceptV1Keys
  L_ClientInfo L_Capabilities L_ErrMessage L_CustomPayload.
