From Coq Require Import Extraction ExtrOcamlBasic.
From Shisui Require Import Base.Bytes Model.History.
Extraction Language OCaml.
Extraction "c02_model.ml" validate_content validate_contents run_ops oracle_get_header key_number repaired as_found store_get validate_contents_loop_g getter_g header_of.
