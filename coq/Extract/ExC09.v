From Coq Require Import Extraction ExtrOcamlBasic.
From Shisui Require Import Base.Bytes Model.Framing Model.Versions Model.Offer.
Extraction Language OCaml.
Extraction "c09_model.ml" bl_encode bl_len bit_indices bit_at set_nth_true clear_at handle_offer handle_offer_as_found
  handle_offered_contents process_offer parse_offer_resp get_or_store negotiate empty_cache rx_run rx_accepted encode_contents bytes_eqb select.
