From Coq Require Import Extraction ExtrOcamlBasic.
From Shisui Require Import Base.Bytes Gen.K_table Model.Lookup.
Extraction Language OCaml.
Extraction "c10_model.ml" xkey push push_all findnode_by_id init start_queries deliver_peer deliver_table shutdown run
  cinit cwork nodes_of content_result bucket_size alphaZ track_success lookup_worker_reply lookup_distances logdist.
