From Coq Require Import Extraction ExtrOcamlBasic.
From Shisui Require Import Base.Bytes Gen.K_handlers Model.Handlers Model.Gossip.
Extraction Language OCaml.
Extraction "c20_model.ml" process_event process_add_enr pong_of_ping max_distance cache_get gossip_select gossip_filter gossip_offers find_nodes_close pick_sorted pick_perm
  covered_b in_range logdist rec_eqb last_reported sorted_by_b gossip_candidates
  K_ext_history K_ext_state K_ext_beacon K_ext_default.
