From Coq Require Import Extraction ExtrOcamlBasic.
From Shisui Require Import Base.Bytes Gen.K_storage Model.Storage Model.Hybrid.
Extraction Language OCaml.
Extraction "storage_model.ml" init step put get held cap expect thr open replay xor_key le_to_N be_to_N bcmp
  in_range_code in_range_logdist in_range_spec is_ephemeral logdist K_contentDeletionPPM K_bytesPerMB MAXD sizekey.
