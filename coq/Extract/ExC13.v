From Coq Require Import Extraction ExtrOcamlBasic.
From Shisui Require Import Base.Bytes Model.StateTrie.
Extraction Language OCaml.
Extraction "c13_model.ml" traverse_orig traverse_kind traverse validate_content validate_content_orig put
  content_verdict node_verdict account_verdict ref_along leaf_along expected_stored nibbles_deserialize run_history store_get wf_node is_top bytes_eqb.
