From Coq Require Import Extraction ExtrOcamlBasic.
From Shisui Require Import Base.Bytes Base.Sha256 Base.Merkle Model.LightClient.
Extraction Language OCaml.
Extraction "c12_model.ml" verify apply process bootstrap htr_header htr_lc_header committee_sign_root get_bits participating_keys
  from_update from_finality_update from_optimistic_update from_light_client_update from_light_client_finality_update
  from_light_client_optimistic_update verify_wire apply_wire calc_sync_period sha_pair
  expected_current_slot time_at_slot verify_at conv_of process_wire run_wire store_of_bootstrap process_op run_ops.
