From Coq Require Import Extraction ExtrOcamlBasic.
From Shisui Require Import Base.Bytes Base.Sha256 Base.Merkle Model.HeaderProof Model.HeaderProver Gen.K_header.
Extraction Language OCaml.
Extraction "c03_model.ml" build_accumulator_sha build_proof_sha acc_run_sha acc_new a_chunks validate_sha run_history_sha sparse_fill summary_index decode_post le2n
  K_MergeBlockNumber K_ShanghaiBlockNumber K_CancunNumber K_epochSize K_EpochSize K_capellaForkEpoch K_slotsPerEpoch K_PreMergeEpochs.
