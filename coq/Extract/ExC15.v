From Coq Require Import Extraction ExtrOcamlBasic.
From Shisui Require Import Base.Bytes Model.Framing Model.Dispatch.
Extraction Language OCaml.
Extraction "c15_model.ml" encode_contents decode_contents decode_single encode_utp_content decode_utp_content bytes_eqb handle_offered_contents.
