(* Base/Ssz.v : SSZ building blocks shared by the wire codecs (C14).
   Part 1  little-endian integers <-> N (with the inverse lemmas; these are the only proofs in this file).
   Part 2  ferranbt/fastssz v0.1.4 decoding helpers re-implemented as they are:
           ReadOffset, DivideInt2, ValidateBitlist, DecodeDynamicLength, UnmarshalDynamic
           and the code patterns sszgen emits around them ("byte list with max", "list of byte lists").
   Part 3  protolambda/ztyp v0.2.2 codec.DecodingReader / EncodingWriter re-implemented as they are:
           Read, SubScope (parent index NOT advanced), Container, FixedLenContainer, List (fixed-size items), ByteList.
   Where the library (or the generated pattern) is laxer than SSZ, the combinator takes a [strict : bool]:
   strict = false is the code as it is, strict = true is the intended behaviour.  Lemmas about the
   combinators live in Proofs/Ssz.v so that this file keeps compiling when a proof breaks. *)
From Shisui Require Import Base.Bytes.
From Coq Require Import ZifyBool ZifyN ZifyNat.

(* error classes (informative only) *)
Definition E_SIZE : N := 10.
Definition E_OFFSET : N := 11.
Definition E_BYTESLEN : N := 12.
Definition E_LISTBIG : N := 13.
Definition E_VAROFF : N := 14.
Definition E_BITLIST : N := 15.
Definition E_DIV : N := 16.
Definition E_DYN : N := 17.
Definition E_SCOPE : N := 18.
Definition E_EOF : N := 19.
Definition E_ZLIST : N := 20.
Definition E_STRICT : N := 21.     (* raised only by strict = true variants *)
Definition E_SELECTOR : N := 22.
Definition E_SHAPE : N := 98.      (* driver glue: field dump does not have the shape of the type *)

(* ------------------------------------------------------------------ Part 1: little endian *)

(* binary.LittleEndian.PutUintXX(uintXX(v)) : the conversion to the fixed width is the wrap mod 256^n *)
Fixpoint le_enc (n : nat) (v : N) : bytes :=
  match n with
  | O => []
  | S k => n2b (v mod 256) :: le_enc k (v / 256)
  end.

Fixpoint le_dec (b : bytes) : N :=
  match b with
  | [] => 0
  | x :: r => b2n x + 256 * le_dec r
  end.

Lemma le_enc_length n v : length (le_enc n v) = n.
Proof. revert v; induction n as [|n IH]; intros v; simpl; [reflexivity|]. now rewrite IH. Qed.

Lemma le_dec_lt b : le_dec b < 256 ^ N.of_nat (length b).
Proof.
  induction b as [|x r IH]; [simpl; lia|].
  cbn [le_dec length]. rewrite Nat2N.inj_succ, N.pow_succ_r by lia.
  pose proof (b2n_lt x). lia.
Qed.

Lemma le_dec_enc n v : v < 256 ^ N.of_nat n -> le_dec (le_enc n v) = v.
Proof.
  revert v; induction n as [|n IH]; intros v Hv.
  - simpl in *. lia.
  - cbn [le_enc le_dec]. rewrite Nat2N.inj_succ, N.pow_succ_r in Hv by lia.
    rewrite b2n_n2b, N.mod_mod by lia.
    rewrite IH by (apply N.div_lt_upper_bound; lia).
    pose proof (N.div_mod v 256). lia.
Qed.

Lemma le_enc_dec b : le_enc (length b) (le_dec b) = b.
Proof.
  induction b as [|x r IH]; [reflexivity|].
  cbn [le_dec length le_enc]. pose proof (b2n_lt x).
  assert (Hm : (b2n x + 256 * le_dec r) mod 256 = b2n x).
  { symmetry. apply (N.mod_unique _ _ (le_dec r)); lia. }
  assert (Hd : (b2n x + 256 * le_dec r) / 256 = le_dec r).
  { symmetry. apply (N.div_unique _ _ _ (b2n x)); lia. }
  rewrite Hm, Hd.
  now rewrite n2b_b2n, IH.
Qed.

(* the fixed widths used by the codecs *)
Definition u8_enc (v : N) : bytes := le_enc 1 v.
Definition u16_enc (v : N) : bytes := le_enc 2 v.
Definition u32_enc (v : N) : bytes := le_enc 4 v.
Definition u64_enc (v : N) : bytes := le_enc 8 v.
Definition u256_enc (v : N) : bytes := le_enc 32 v.

Definition two8 : N := 256.
Definition two16 : N := 65536.
Definition two32 : N := 4294967296.
Definition two64 : N := 18446744073709551616.

(* ------------------------------------------------------------------ shared value universe
   Decoded values are printed / parsed by the driver through this small universe, and the ztyp combinators
   (which are generic over an interface in Go) are generic over it here. *)
Inductive field : Type :=
| FN (n : N)               (* unsigned integer *)
| FB (b : bytes)           (* byte string (list or vector) *)
| FL (l : list bytes)      (* list of byte strings *)
| FNL (l : list N).        (* list of unsigned integers *)

Inductive kind : Type := KN | KB | KL | KNL.

(* ------------------------------------------------------------------ Part 2: fastssz *)

(* binary.LittleEndian.Uint32(b): `_ = b[3]` panics on a short slice, extra bytes are ignored *)
Definition read_u32 (s : bytes) : res N :=
  if (length s <? 4)%nat then Panic else Ok (le_dec (firstn 4 s)).
Definition read_u16 (s : bytes) : res N :=
  if (length s <? 2)%nat then Panic else Ok (le_dec (firstn 2 s)).
Definition read_u64 (s : bytes) : res N :=
  if (length s <? 8)%nat then Panic else Ok (le_dec (firstn 8 s)).
Definition read_u8 (s : bytes) : res N :=
  match s with [] => Panic | x :: _ => Ok (b2n x) end.

(* ssz.ReadOffset(buf[lo:lo+4]) *)
Definition read_offset_at (buf : bytes) (lo : nat) : res N :=
  bind (slice buf lo (lo + 4)) read_u32.

(* Go tail[o:] with o a uint64 already compared against len *)
Definition tail_from (buf : bytes) (o : N) : res bytes :=
  if nlen buf <? o then Panic else slice buf (N.to_nat o) (length buf).

(* Go tail[a:b] *)
Definition between (buf : bytes) (a b : N) : res bytes :=
  if (nlen buf <? b) || (b <? a) then Panic else slice buf (N.to_nat a) (N.to_nat b).

(* ssz.DivideInt2(a, b, max) *)
Definition divide_int2 (a b mx : N) : res N :=
  if b =? 0 then Panic
  else if negb (a mod b =? 0) then Err E_DIV
  else if mx <? a / b then Err E_LISTBIG
  else Ok (a / b).

(* ssz.ValidateBitlist(buf, bitLimit); bits.Len8 = N.size *)
Definition validate_bitlist (buf : bytes) (bitLimit : N) : res unit :=
  let byteLen := nlen buf in
  if byteLen =? 0 then Err E_BITLIST
  else if (N.shiftr bitLimit 3 + 1) <? byteLen then Err E_BITLIST
  else bind (idx buf (length buf - 1)) (fun last =>
    if b2n last =? 0 then Err E_BITLIST
    else
      let msb := N.size (b2n last) in
      let numOfBits := 8 * (byteLen - 1) + msb - 1 in
      if bitLimit <? numOfBits then Err E_BITLIST else Ok tt).

(* ssz.DecodeDynamicLength(buf, maxSize) *)
Definition decode_dynamic_length (buf : bytes) (mx : N) : res N :=
  match buf with
  | [] => Ok 0
  | _ =>
      if (length buf <? 4)%nat then Err E_DYN
      else bind (bind (slice buf 0 4) read_u32) (fun offset =>
        if negb (offset mod 4 =? 0) then Err E_DYN
        else if mx <? offset / 4 then Err E_LISTBIG
        else Ok (offset / 4))
  end.

(* the `for` loop of ssz.UnmarshalDynamic: k = remaining `length` (>= 1), dst = unread part of the offset table *)
Fixpoint ud_loop {A} (k : nat) (src dst : bytes) (offset : N) (f : bytes -> res A) : res (list A) :=
  match k with
  | O => Panic                          (* not reachable: the loop is entered with length >= 1 *)
  | S k' =>
      let size := nlen src in
      match k' with
      | O =>                            (* length == 1 : endOffset = len(src), break after the item *)
          let endOffset := size in
          if endOffset <? offset then Err E_OFFSET
          else bind (bind (between src offset endOffset) f) (fun a => Ok [a])
      | S _ =>                          (* length != 1 : safeReadOffset(dst) *)
          if (length dst <? 4)%nat then Err E_DYN
          else bind (read_u32 dst) (fun endOffset =>
            bind (slice dst 4 (length dst)) (fun dst' =>
            if endOffset <? offset then Err E_OFFSET
            else if size <? endOffset then Err E_OFFSET
            else bind (bind (between src offset endOffset) f) (fun a =>
                 bind (ud_loop k' src dst' endOffset f) (fun rest => Ok (a :: rest)))))
      end
  end.

(* ssz.UnmarshalDynamic(src, length, f); the Go callback stores item indx, here the items are returned in order *)
Definition unmarshal_dynamic {A} (src : bytes) (length : N) (f : bytes -> res A) : res (list A) :=
  if length =? 0 then
    (if negb (nlen src =? 0) && negb (nlen src =? 4) then Err E_SIZE else Ok [])
  else
    bind (read_u32 src) (fun offset =>
    bind (slice src 4 (List.length src)) (fun dst =>
    ud_loop (N.to_nat length) src dst offset f)).

(* sszgen pattern for a `[][]byte ssz-max:"mx,..."` field:
     num, err := ssz.DecodeDynamicLength(buf, mx); ...; err = ssz.UnmarshalDynamic(buf, num, item)
   strict = true adds the missing check `num == 0 && len(buf) != 0 -> error` between the two calls
   (as the code is, the 4-byte string 00000000 is accepted as the empty list). *)
Definition dec_dyn_list {A} (strict : bool) (buf : bytes) (mx : N) (item : bytes -> res A) : res (list A) :=
  bind (decode_dynamic_length buf mx) (fun num =>
  if strict && (num =? 0) && negb (nlen buf =? 0) then Err E_STRICT
  else unmarshal_dynamic buf num item).

(* item callback of a byte list with maximum length *)
Definition item_bytes_max (mx : N) (b : bytes) : res bytes :=
  if mx <? nlen b then Err E_BYTESLEN else Ok b.

(* sszgen pattern for marshalling a `[][]byte ssz-max:"mxn,mxb"` field (after the caller wrote the field offset):
     if len(l) > mxn -> ErrListTooBig; offset table from 4*len(l); then each item with `len > mxb -> ErrBytesLength` *)
Fixpoint offsets_from (offset : N) (l : list bytes) : bytes :=
  match l with
  | [] => []
  | x :: r => u32_enc offset ++ offsets_from (offset + nlen x) r
  end.
Fixpoint items_checked (mxb : N) (l : list bytes) : res bytes :=
  match l with
  | [] => Ok []
  | x :: r => if mxb <? nlen x then Err E_BYTESLEN else bind (items_checked mxb r) (fun t => Ok (x ++ t))
  end.
Definition enc_dyn_list (mxn mxb : N) (l : list bytes) : res bytes :=
  if mxn <? nlen l then Err E_LISTBIG
  else bind (items_checked mxb l) (fun body => Ok (offsets_from (4 * nlen l) l ++ body)).

(* `if size := len(x); size > mx -> ErrBytesLength ; dst = append(dst, x...)` *)
Definition enc_bytes_max (mx : N) (b : bytes) : res bytes :=
  if mx <? nlen b then Err E_BYTESLEN else Ok b.
(* `if size := len(x); size != n -> ErrBytesLength ; dst = append(dst, x...)` *)
Definition enc_bytes_exact (n : N) (b : bytes) : res bytes :=
  if negb (nlen b =? n) then Err E_BYTESLEN else Ok b.
(* decoding `[]byte ssz-max` from the tail: `if len(buf) > mx -> ErrBytesLength` *)
Definition dec_bytes_max (mx : N) (b : bytes) : res bytes :=
  if mx <? nlen b then Err E_BYTESLEN else Ok b.

(* cut a byte string into n-byte pieces: buf[ii*n:(ii+1)*n] for ii < num *)
Fixpoint chunks (num : nat) (n : nat) (buf : bytes) (ii : nat) : res (list bytes) :=
  match num with
  | O => Ok []
  | S k => bind (slice buf (ii * n) ((ii + 1) * n)) (fun c =>
           bind (chunks k n buf (S ii)) (fun r => Ok (c :: r)))
  end.

(* fixed-size vector of n-byte items `ssz-size:"cnt,n"`:
     marshal: `if size := len(v); size != cnt -> ErrVectorLength`, each item `len != n -> ErrBytesLength` *)
Fixpoint vec_items (n : N) (l : list bytes) : res bytes :=
  match l with
  | [] => Ok []
  | x :: r => if negb (nlen x =? n) then Err E_BYTESLEN else bind (vec_items n r) (fun t => Ok (x ++ t))
  end.
Definition enc_vector (cnt n : N) (l : list bytes) : res bytes :=
  if negb (nlen l =? cnt) then Err E_LISTBIG else vec_items n l.

(* ------------------------------------------------------------------ Part 3: ztyp *)

(* codec.DecodingReader.  rd_inp is what dr.input can still deliver (the shared bytes.Reader seen through the chain of
   io.LimitReaders), rd_i / rd_max are the fields i / max. *)
Record rd : Type := mkrd { rd_inp : bytes; rd_i : N; rd_max : N }.

(* codec.NewDecodingReader(bytes.NewReader(data), uint64(len(data))) *)
Definition rd_new (data : bytes) : rd := mkrd data 0 (nlen data).

(* dr.Scope() = max - i  (i <= max is maintained by checkedIndexUpdate, so truncated subtraction is exact) *)
Definition rd_scope (r : rd) : N := rd_max r - rd_i r.

(* dr.Read(p) with len(p) = x : checkedIndexUpdate, then read fully from the limited input (short input = io.EOF).
   The uint64 overflow test of checkedIndexUpdate cannot fire for slice lengths and is not modelled. *)
Definition rd_read (r : rd) (x : N) : res (bytes * rd) :=
  if x =? 0 then Ok ([], r)
  else if rd_max r <? rd_i r + x then Err E_SCOPE
  else if nlen (rd_inp r) <? x then Err E_EOF
  else Ok (firstn (N.to_nat x) (rd_inp r), mkrd (skipn (N.to_nat x) (rd_inp r)) (rd_i r + x) (rd_max r)).

Definition deser (A : Type) : Type := rd -> res (A * rd).

(* sub, err := dr.SubScope(count); f.Deserialize(sub).  The parent's index is NOT advanced (UpdateIndexFromScoped is
   never called by Container / List); the bytes the child consumed are gone from the shared input. *)
Definition rd_sub {A} (r : rd) (count : N) (f : deser A) : res (A * rd) :=
  if rd_scope r <? count then Err E_SCOPE
  else
    let sub := mkrd (firstn (N.to_nat count) (rd_inp r)) 0 count in
    match f sub with
    | Ok (a, sub') =>
        Ok (a, mkrd (skipn (length (rd_inp sub) - length (rd_inp sub')) (rd_inp r)) (rd_i r) (rd_max r))
    | Err e => Err e
    | Panic => Panic
    end.

(* a codec.Deserializable: FixedLength() and Deserialize *)
Record zdes : Type := mkzdes { z_fix : N; z_de : deser field }.

(* view.Uint16View / Uint8View / Uint64View : ReadUintXX *)
Definition z_uint (width : N) : zdes :=
  mkzdes width (fun r => bind (rd_read r width) (fun '(b, r') => Ok (FN (le_dec b), r'))).
(* tree.Root, BLS keys, ... : dr.Read(r[:]) *)
Definition z_bytesN (n : N) : zdes :=
  mkzdes n (fun r => bind (rd_read r n) (fun '(b, r') => Ok (FB b, r'))).

(* dr.ByteList(dst, byteLimit) : the whole remaining scope *)
Definition z_bytelist (limit : N) : zdes :=
  mkzdes 0 (fun r =>
    let byteLen := rd_scope r in
    if limit <? byteLen then Err E_BYTESLEN
    else bind (rd_read r byteLen) (fun '(b, r') => Ok (FB b, r'))).

(* dr.List(add, fixedElemSize <> 0, limit) with integer items of that width *)
Fixpoint zlist_loop (k : nat) (r : rd) (w : N) : res (list N * rd) :=
  match k with
  | O => Ok ([], r)
  | S k' =>
      bind (rd_sub r w (z_de (z_uint w))) (fun '(f, r1) =>
      match f with
      | FN v => bind (zlist_loop k' r1 w) (fun '(l, r2) => Ok (v :: l, r2))
      | _ => Panic
      end)
  end.
Definition z_uintlist (w limit : N) : zdes :=
  mkzdes 0 (fun r =>
    let scope := rd_scope r in
    if scope =? 0 then Ok (FNL [], r)
    else if w =? 0 then Panic
    else if negb (scope mod w =? 0) then Err E_ZLIST
    else if limit <? scope / w then Err E_LISTBIG
    else bind (zlist_loop (N.to_nat (scope / w)) r w) (fun '(l, r') => Ok (FNL l, r'))).

(* dr.FixedLenContainer(fields...) : the fields read from the same reader one after the other *)
Fixpoint z_fixed_container (fs : list zdes) (r : rd) : res (list field * rd) :=
  match fs with
  | [] => Ok ([], r)
  | f :: rest =>
      bind (z_de f r) (fun '(v, r1) =>
      bind (z_fixed_container rest r1) (fun '(vs, r2) => Ok (v :: vs, r2)))
  end.

(* dr.Container(fields...), first loop: fixed fields are decoded in a SubScope, dynamic fields get their offset read.
   Returns per field Some value (fixed) or None (dynamic, decoded in the second loop), the offsets, prev. *)
Fixpoint zc_pass1 (fs : list zdes) (r : rd) (prev : N) : res (list (option field) * list N * N * rd) :=
  match fs with
  | [] => Ok ([], [], prev, r)
  | f :: rest =>
      if negb (z_fix f =? 0) then
        bind (rd_sub r (z_fix f) (z_de f)) (fun '(v, r1) =>
        bind (zc_pass1 rest r1 (prev + z_fix f)) (fun '(vs, offs, p, r2) => Ok (Some v :: vs, offs, p, r2)))
      else
        bind (rd_read r 4) (fun '(b, r1) =>
        bind (zc_pass1 rest r1 (prev + 4)) (fun '(vs, offs, p, r2) => Ok (None :: vs, le_dec b :: offs, p, r2)))
  end.

(* second loop: dynamic field i gets the scope offsets[i+1] - offsets[i] (the last one: scope - offsets[i]) *)
Fixpoint zc_pass2 (dyn : list zdes) (offs : list N) (scope : N) (r : rd) : res (list field * rd) :=
  match dyn, offs with
  | f :: drest, off :: orest =>
      let next := match orest with o' :: _ => o' | [] => scope end in
      if next <? off then Err E_OFFSET
      else bind (rd_sub r (next - off) (z_de f)) (fun '(v, r1) =>
           bind (zc_pass2 drest orest scope r1) (fun '(vs, r2) => Ok (v :: vs, r2)))
  | [], [] => Ok ([], r)
  | _, _ => Panic
  end.

Fixpoint zc_merge (slots : list (option field)) (dynvals : list field) : res (list field) :=
  match slots with
  | [] => Ok []
  | Some v :: rest => bind (zc_merge rest dynvals) (fun vs => Ok (v :: vs))
  | None :: rest =>
      match dynvals with
      | d :: drest => bind (zc_merge rest drest) (fun vs => Ok (d :: vs))
      | [] => Panic
      end
  end.

Definition z_container (fs : list zdes) (r : rd) : res (list field * rd) :=
  let scope := rd_scope r in
  bind (zc_pass1 fs r 0) (fun '(slots, offs, prev, r1) =>
  match offs with
  | [] => bind (zc_merge slots []) (fun vs => Ok (vs, r1))       (* len(dynFields) == 0 : return nil *)
  | o0 :: _ =>
      if negb (prev =? o0) then Err E_VAROFF
      else
        let dyn := filter (fun f => z_fix f =? 0) fs in
        bind (zc_pass2 dyn offs scope r1) (fun '(dvals, r2) =>
        bind (zc_merge slots dvals) (fun vs => Ok (vs, r2)))
  end).

(* X.UnmarshalSSZ(data) = X.Deserialize(codec.NewDecodingReader(bytes.NewReader(data), len(data))).
   Nothing checks that the scope was consumed; strict = true adds that check. *)
Definition z_unmarshal (strict : bool) (de : rd -> res (list field * rd)) (data : bytes) : res (list field) :=
  bind (de (rd_new data)) (fun '(vs, r') =>
  if strict && negb (nlen (rd_inp r') =? 0) then Err E_STRICT else Ok vs).

(* ---- ztyp encoding: a Serializable value is its FixedLength, ByteLength and the bytes Serialize writes *)
Record zser : Type := mkzser { s_fix : N; s_bytes : bytes }.

(* ew.WriteOffset(prevOffset, elemLen) panics when a value does not fit uint32 *)
Definition z_write_offset (prevOffset elemLen : N) : res (N * bytes) :=
  if (two32 <=? prevOffset) || (two32 <=? elemLen) || (two32 <=? prevOffset + elemLen) then Panic
  else Ok (prevOffset + elemLen, u32_enc (prevOffset + elemLen)).

Definition zs_fixedlen (fs : list zser) : N :=
  fold_left (fun acc f => if negb (s_fix f =? 0) then acc + s_fix f else acc + 4) fs 0.

Fixpoint zs_pass1 (fs : list zser) (prevOffset prevSize : N) : res bytes :=
  match fs with
  | [] => Ok []
  | f :: rest =>
      if negb (s_fix f =? 0) then bind (zs_pass1 rest prevOffset prevSize) (fun t => Ok (s_bytes f ++ t))
      else bind (z_write_offset prevOffset prevSize) (fun '(off, ob) =>
           bind (zs_pass1 rest off (nlen (s_bytes f))) (fun t => Ok (ob ++ t)))
  end.
Definition zs_dyn (fs : list zser) : bytes :=
  concat (map s_bytes (filter (fun f => s_fix f =? 0) fs)).

(* ew.Container(fields...) *)
Definition zs_container (fs : list zser) : res bytes :=
  bind (zs_pass1 fs (zs_fixedlen fs) 0) (fun fixedpart => Ok (fixedpart ++ zs_dyn fs)).
(* ew.FixedLenContainer(fields...) *)
Definition zs_fixed_container (fs : list zser) : res bytes := Ok (concat (map s_bytes fs)).

(* ---- ztyp dr.List(add, fixedElemSize = 0, limit) with ByteList[itemlimit] items (state.TrieProof) *)
Fixpoint zl_read_offsets (k : nat) (r : rd) : res (list N * rd) :=
  match k with
  | O => Ok ([], r)
  | S k' => bind (rd_read r 4) (fun '(b, r1) => bind (zl_read_offsets k' r1) (fun '(l, r2) => Ok (le_dec b :: l, r2)))
  end.

(* the loop over offsets: `prev` is the previous OFFSET (as in the library), an empty item (next == off) is skipped,
   next - off is a uint64 subtraction: when next < off it wraps to a huge count and SubScope refuses it *)
Fixpoint zl_items (offs : list N) (scope prev : N) (r : rd) (itemlimit : N) : res (list bytes * rd) :=
  match offs with
  | [] => Ok ([], r)
  | off :: rest =>
      if off <? prev then Err E_OFFSET
      else
        let next := match rest with o' :: _ => o' | [] => scope end in
        if next =? off then bind (zl_items rest scope off r itemlimit) (fun '(l, r') => Ok ([] :: l, r'))
        else if next <? off then Err E_SCOPE
        else bind (rd_sub r (next - off) (z_de (z_bytelist itemlimit))) (fun '(f, r1) =>
             match f with
             | FB b => bind (zl_items rest scope off r1 itemlimit) (fun '(l, r') => Ok (b :: l, r'))
             | _ => Panic
             end)
  end.

Definition z_bytelists (itemlimit limit : N) : zdes :=
  mkzdes 0 (fun r =>
    let scope := rd_scope r in
    if scope =? 0 then Ok (FL [], r)
    else bind (rd_read r 4) (fun '(b, r1) =>
      let first := le_dec b in
      if negb (first mod 4 =? 0) then Err E_ZLIST
      else if limit <? first / 4 then Err E_LISTBIG
      else bind (zl_read_offsets (N.to_nat (first / 4) - 1) r1) (fun '(more, r2) =>
           bind (zl_items (first :: more) scope 0 r2 itemlimit) (fun '(l, r3) => Ok (FL l, r3))))).

(* ew.List(item, 0, length): offsets through WriteOffset (panics beyond uint32), then the items *)
Fixpoint zs_list_offsets (prevOffset prevSize : N) (l : list bytes) : res bytes :=
  match l with
  | [] => Ok []
  | x :: rest => bind (z_write_offset prevOffset prevSize) (fun '(off, ob) =>
                 bind (zs_list_offsets off (nlen x) rest) (fun t => Ok (ob ++ t)))
  end.
Definition zs_bytelists (l : list bytes) : res bytes :=
  bind (zs_list_offsets (4 * nlen l) 0 l) (fun offs => Ok (offs ++ concat l)).
