(* Base/Merkle.v : Merkle branches over an arbitrary pair-hash H.
   All soundness statements have the form "property, or here is an explicit collision of H";
   nothing assumes H injective.  Two verification procedures are modelled:
     verify_branch  = zrnt  merkle.VerifyMerkleBranch(leaf, branch, depth, index, root)
     verify_gindex  = fastssz  ssz.VerifyProof(root, {Index, Leaf, Hashes})                       *)
From Shisui Require Import Base.Bytes.
From Coq Require Import ZifyBool ZifyN ZifyNat.

Section Merkle.
  Variable H : bytes -> bytes -> bytes.

  (* an explicit collision of the pair hash *)
  Definition Collision : Prop :=
    exists a b c d, (a, b) <> (c, d) /\ H a b = H c d.

  (* ---------------- procedures as the libraries write them ---------------- *)

  (* one level: bit = true means "we are the right child": value := H sibling value *)
  Definition step (bit : bool) (sib value : bytes) : bytes :=
    if bit then H sib value else H value sib.

  (* zrnt: for i in 0..depth-1 { value = step ((index>>i)&1) branch[i] value }; branch[i] is a checked index *)
  Fixpoint fold_zrnt (fuel : nat) (i : N) (index : N) (branch : list bytes) (value : bytes) : res bytes :=
    match fuel with
    | O => Ok value
    | S f =>
        match nth_error branch (N.to_nat i) with
        | None => Panic                                  (* branch[i] out of range *)
        | Some s => fold_zrnt f (i + 1) index branch (step (N.testbit index i) s value)
        end
    end.
  Definition verify_branch (leaf : bytes) (branch : list bytes) (depth index : N) (root : bytes) : res bool :=
    match fold_zrnt (N.to_nat depth) 0 index branch leaf with
    | Ok v => Ok (bytes_eqb v root)
    | Err e => Err e
    | Panic => Panic
    end.

  (* fastssz: len(hashes) must equal floor(log2 index); level i uses bit i of index *)
  Fixpoint fold_bits (i : N) (index : N) (hashes : list bytes) (value : bytes) : bytes :=
    match hashes with
    | [] => value
    | h :: rest => fold_bits (i + 1) index rest (step (N.testbit index i) h value)
    end.
  Definition E_PROOF_LEN : N := 20.
  Definition verify_gindex (root : bytes) (index : N) (leaf : bytes) (hashes : list bytes) : res bool :=
    if nlen hashes =? N.log2 index then Ok (bytes_eqb (fold_bits 0 index hashes leaf) root)
    else Err E_PROOF_LEN.

  (* ---------------- trees ---------------- *)

  Inductive tree : Type := Leaf (v : bytes) | Node (l r : tree).
  Fixpoint troot (t : tree) : bytes :=
    match t with Leaf v => v | Node l r => H (troot l) (troot r) end.

  (* a top-down path: true = right child *)
  Fixpoint subtree (t : tree) (path : list bool) {struct path} : option tree :=
    match path with
    | [] => Some t
    | b :: p => match t with
                | Leaf _ => None
                | Node l r => subtree (if b then r else l) p
                end
    end.
  (* siblings along a top-down path, top-down *)
  Fixpoint siblings (t : tree) (path : list bool) {struct path} : option (list bytes) :=
    match path with
    | [] => Some []
    | b :: p => match t with
                | Leaf _ => None
                | Node l r =>
                    match siblings (if b then r else l) p with
                    | Some ss => Some (troot (if b then l else r) :: ss)
                    | None => None
                    end
                end
    end.

  (* top-down fold: the value at the top of a list of (bit, sibling) levels given the value at the bottom *)
  Fixpoint fold_td (levels : list (bool * bytes)) (bottom : bytes) : bytes :=
    match levels with
    | [] => bottom
    | (b, s) :: rest => step b s (fold_td rest bottom)
    end.

  (* complete tree of depth d from a leaf function (used for honest accumulators) *)
  Fixpoint build (d : nat) (leafs : N -> bytes) (base : N) : tree :=
    match d with
    | O => Leaf (leafs base)
    | S k => Node (build k leafs (2 * base)) (build k leafs (2 * base + 1))
    end.
End Merkle.
