(* Base/Sha256.v : executable SHA-256 over N words (FIPS 180-4).  No theorem depends on its internals:
   every Merkle statement is parametric in the hash function ("property or explicit collision").
   It is validated against Go's crypto/sha256 by the correspondence runs. *)
From Shisui Require Import Base.Bytes.

Definition w32 : N := 4294967296.
Definition mask32 : N := 4294967295.
Definition add32 (a b : N) : N := (a + b) mod w32.
Definition rotr (n x : N) : N := N.lor (N.shiftr x n) (N.land (N.shiftl x (32 - n)) mask32).
Definition ch (x y z : N) : N := N.lxor (N.land x y) (N.land (N.lxor x mask32) z).
Definition maj (x y z : N) : N := N.lxor (N.lxor (N.land x y) (N.land x z)) (N.land y z).
Definition bsig0 x := N.lxor (N.lxor (rotr 2 x) (rotr 13 x)) (rotr 22 x).
Definition bsig1 x := N.lxor (N.lxor (rotr 6 x) (rotr 11 x)) (rotr 25 x).
Definition ssig0 x := N.lxor (N.lxor (rotr 7 x) (rotr 18 x)) (N.shiftr x 3).
Definition ssig1 x := N.lxor (N.lxor (rotr 17 x) (rotr 19 x)) (N.shiftr x 10).

Definition sha_k : list N :=
 [0x428a2f98; 0x71374491; 0xb5c0fbcf; 0xe9b5dba5; 0x3956c25b; 0x59f111f1; 0x923f82a4; 0xab1c5ed5;
  0xd807aa98; 0x12835b01; 0x243185be; 0x550c7dc3; 0x72be5d74; 0x80deb1fe; 0x9bdc06a7; 0xc19bf174;
  0xe49b69c1; 0xefbe4786; 0x0fc19dc6; 0x240ca1cc; 0x2de92c6f; 0x4a7484aa; 0x5cb0a9dc; 0x76f988da;
  0x983e5152; 0xa831c66d; 0xb00327c8; 0xbf597fc7; 0xc6e00bf3; 0xd5a79147; 0x06ca6351; 0x14292967;
  0x27b70a85; 0x2e1b2138; 0x4d2c6dfc; 0x53380d13; 0x650a7354; 0x766a0abb; 0x81c2c92e; 0x92722c85;
  0xa2bfe8a1; 0xa81a664b; 0xc24b8b70; 0xc76c51a3; 0xd192e819; 0xd6990624; 0xf40e3585; 0x106aa070;
  0x19a4c116; 0x1e376c08; 0x2748774c; 0x34b0bcb5; 0x391c0cb3; 0x4ed8aa4a; 0x5b9cca4f; 0x682e6ff3;
  0x748f82ee; 0x78a5636f; 0x84c87814; 0x8cc70208; 0x90befffa; 0xa4506ceb; 0xbef9a3f7; 0xc67178f2].

Definition sha_h0 : list N :=
 [0x6a09e667; 0xbb67ae85; 0x3c6ef372; 0xa54ff53a; 0x510e527f; 0x9b05688c; 0x1f83d9ab; 0x5be0cd19].

(* message schedule, newest word first *)
Fixpoint sched (fuel : nat) (rev_w : list N) : list N :=
  match fuel with
  | O => rev_w
  | S f =>
      let g i := nth i rev_w 0 in
      let w := add32 (add32 (ssig1 (g 1%nat)) (g 6%nat)) (add32 (ssig0 (g 14%nat)) (g 15%nat)) in
      sched f (w :: rev_w)
  end.

Definition round (st : N * N * N * N * N * N * N * N) (kw : N * N) :=
  let '(a, b, c, d, e, f, g, h) := st in
  let '(k, w) := kw in
  let t1 := add32 (add32 (add32 h (bsig1 e)) (add32 (ch e f g) k)) w in
  let t2 := add32 (bsig0 a) (maj a b c) in
  (add32 t1 t2, a, b, c, add32 d t1, e, f, g).

Definition compress (hs : list N) (block16 : list N) : list N :=
  let ws := rev (sched 48 (rev block16)) in
  match hs with
  | [a; b; c; d; e; f; g; h] =>
      let '(a', b', c', d', e', f', g', h') := fold_left round (combine sha_k ws) (a, b, c, d, e, f, g, h) in
      [add32 a a'; add32 b b'; add32 c c'; add32 d d'; add32 e e'; add32 f f'; add32 g g'; add32 h h']
  | _ => hs
  end.

Fixpoint be_words (l : list N) : list N :=    (* bytes (as N) -> big-endian 32-bit words *)
  match l with
  | a :: b :: c :: d :: r => (a * 16777216 + b * 65536 + c * 256 + d) :: be_words r
  | _ => []
  end.

Definition be64_bytes (n : N) : list N :=
  map (fun i => (N.shiftr n (8 * i)) mod 256) [7; 6; 5; 4; 3; 2; 1; 0].

Definition sha_pad (msg : list N) : list N :=
  let l := N.of_nat (length msg) in
  let zeros := N.to_nat ((119 - (l mod 64)) mod 64) in
  msg ++ [128] ++ repeat 0 zeros ++ be64_bytes (8 * l).

Fixpoint blocks (fuel : nat) (ws : list N) (hs : list N) : list N :=
  match fuel with
  | O => hs
  | S f => match ws with
           | [] => hs
           | _ => blocks f (skipn 16 ws) (compress hs (firstn 16 ws))
           end
  end.

Definition word_bytes (w : N) : list N :=
  [N.shiftr w 24 mod 256; N.shiftr w 16 mod 256; N.shiftr w 8 mod 256; w mod 256].

Definition sha256 (msg : bytes) : bytes :=
  let ws := be_words (sha_pad (map b2n msg)) in
  let hs := blocks (S (length ws / 16)) ws sha_h0 in
  map n2b (flat_map word_bytes hs).

(* hash of two 32-byte chunks, the Merkle node function *)
Definition sha_pair (a b : bytes) : bytes := sha256 (a ++ b).
