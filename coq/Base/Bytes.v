(* Base/Bytes.v : bytes, Go-style results, checked indexing.  Stdlib only. *)
From Coq Require Export List NArith ZArith Bool Lia.
From Coq Require Export Strings.Byte.
From Coq Require Import ZifyBool ZifyN ZifyNat.
Export ListNotations.
Open Scope N_scope.

Definition bytes := list byte.

(* Go: value | returned error | runtime panic *)
Inductive res (A : Type) : Type :=
| Ok (a : A)
| Err (e : N)        (* error class, small enum kept as a number *)
| Panic.
Arguments Ok {A} a.
Arguments Err {A} e.
Arguments Panic {A}.

Definition bind {A B} (r : res A) (f : A -> res B) : res B :=
  match r with Ok a => f a | Err e => Err e | Panic => Panic end.

Definition is_panic {A} (r : res A) : bool := match r with Panic => true | _ => false end.
Definition is_ok {A} (r : res A) : bool := match r with Ok _ => true | _ => false end.
Definition is_err {A} (r : res A) : bool := match r with Err _ => true | _ => false end.

(* Go l[i] *)
Definition idx {A} (l : list A) (i : nat) : res A :=
  match nth_error l i with Some a => Ok a | None => Panic end.
(* Go l[lo:hi] *)
Definition slice {A} (l : list A) (lo hi : nat) : res (list A) :=
  if (Nat.leb lo hi && Nat.leb hi (length l))%bool then Ok (firstn (hi - lo) (skipn lo l)) else Panic.

Definition b2n (b : byte) : N := Byte.to_N b.
Definition n2b (n : N) : byte :=
  match Byte.of_N (n mod 256) with Some b => b | None => x00 end.

Definition nlen {A} (l : list A) : N := N.of_nat (length l).

Lemma b2n_lt b : b2n b < 256.
Proof. unfold b2n. pose proof (Byte.to_N_bounded b). lia. Qed.

Lemma n2b_b2n b : n2b (b2n b) = b.
Proof.
  unfold n2b, b2n. rewrite N.mod_small by (pose proof (Byte.to_N_bounded b); lia).
  now rewrite Byte.of_to_N.
Qed.

Lemma b2n_n2b n : b2n (n2b n) = n mod 256.
Proof.
  unfold n2b, b2n. destruct (Byte.of_N (n mod 256)) eqn:E.
  - now apply Byte.to_of_N.
  - apply Byte.of_N_None_iff in E. pose proof (N.mod_lt n 256). lia.
Qed.

Lemma b2n_n2b_small n : n < 256 -> b2n (n2b n) = n.
Proof. intros. rewrite b2n_n2b. now apply N.mod_small. Qed.

Lemma b2n_inj a b : b2n a = b2n b -> a = b.
Proof. intros H. rewrite <- (n2b_b2n a), <- (n2b_b2n b). now rewrite H. Qed.

Definition byte_eqb (a b : byte) : bool := Byte.eqb a b.
Fixpoint bytes_eqb (a b : bytes) : bool :=
  match a, b with
  | [], [] => true
  | x :: a', y :: b' => Byte.eqb x y && bytes_eqb a' b'
  | _, _ => false
  end.
Lemma bytes_eqb_eq a b : bytes_eqb a b = true <-> a = b.
Proof.
  revert b; induction a as [|x a IH]; intros [|y b]; simpl; split; intros H; try easy.
  - apply andb_true_iff in H as [H1 H2]. apply Byte.byte_dec_bl in H1. apply IH in H2. now subst.
  - inversion H; subst. apply andb_true_iff; split. apply Byte.byte_dec_lb; reflexivity. now apply IH.
Qed.
