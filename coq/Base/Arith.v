(* Base/Arith.v : bit-arithmetic lemmas shared by the codecs. *)
From Shisui Require Import Base.Bytes.
From Coq Require Import ZifyBool ZifyN ZifyNat.

Lemma land_low_shiftl a b s : a < 2 ^ s -> N.land a (N.shiftl b s) = 0.
Proof.
  intros H. apply N.bits_inj; intros n. rewrite N.land_spec, N.bits_0.
  destruct (N.lt_ge_cases n s) as [L|G].
  - rewrite N.shiftl_spec_low by assumption. apply andb_false_r.
  - replace a with (a mod 2 ^ s) by (now apply N.mod_small).
    rewrite N.mod_pow2_bits_high by assumption. reflexivity.
Qed.

Lemma lor_add_shiftl a b s : a < 2 ^ s -> N.lor a (N.shiftl b s) = a + b * 2 ^ s.
Proof.
  intros H. pose proof (land_low_shiftl a b s H) as L.
  rewrite <- N.lxor_lor by assumption.
  rewrite <- N.add_nocarry_lxor by assumption.
  now rewrite N.shiftl_mul_pow2.
Qed.

Lemma land_127 v : N.land v 127 = v mod 128.
Proof. change 127 with (N.ones 7). now rewrite N.land_ones. Qed.

Lemma shiftr_7 v : N.shiftr v 7 = v / 128.
Proof. now rewrite N.shiftr_div_pow2. Qed.

Lemma lor_128 b : b < 128 -> N.lor b 128 = b + 128.
Proof.
  intros H. change 128 with (N.shiftl 1 7) at 1. rewrite lor_add_shiftl by (simpl; lia). simpl; lia.
Qed.

(* finite sweep: a boolean fact checked on 0..n-1 holds for every v < n *)
Fixpoint nrange (n : nat) : list N :=
  match n with O => [] | S k => N.of_nat k :: nrange k end.
Lemma nrange_in n v : v < N.of_nat n -> In v (nrange n).
Proof.
  induction n as [|k IH]; intros H; [lia|]. simpl.
  destruct (N.eq_dec v (N.of_nat k)); [left; congruence | right; apply IH; lia].
Qed.
Lemma sweep (P : N -> bool) (n : nat) :
  forallb P (nrange n) = true -> forall v, v < N.of_nat n -> P v = true.
Proof. intros H v Hv. rewrite forallb_forall in H. apply H, nrange_in, Hv. Qed.

Lemma land_240_small v : v < 16 -> N.land v 240 = 0.
Proof.
  intros H. apply N.eqb_eq. apply (sweep (fun v => N.land v 240 =? 0) 16); [vm_compute; reflexivity | exact H].
Qed.
Lemma land_240_big v : 16 <= v -> v < 128 -> 0 < N.land v 240.
Proof.
  intros H1 H2.
  assert (E : (v <? 16) || (0 <? N.land v 240) = true).
  { apply (sweep (fun v => (v <? 16) || (0 <? N.land v 240)) 128); [vm_compute; reflexivity | exact H2]. }
  lia.
Qed.
Lemma land127_ge128 v : 128 <= v -> v < 256 -> N.land v 127 = v - 128.
Proof. intros. rewrite land_127. 
  replace v with ((v - 128) + 1 * 128) at 1 by lia. rewrite N.mod_add by lia. apply N.mod_small; lia. Qed.
