(* Model/LightClient.v : the beacon light client (C12).
   Mirrors  beacon/light_client.go :
     LightClientStore, GenericUpdate, FromLightClient{,Finality,Optimistic}Update,
     VerifyGenericUpdate, ApplyGenericUpdate, VerifySyncCommitteeSignature, ComputeCommitteeSignRoot,
     ComputeSigningRoot, CalcSyncPeriod, IsFinalityProofValid, IsNextCommitteeProofValid,
     isCurrentCommitteeProofValid, safetyThreshold, hasSyncUpdate, hasFinalityUpdate, getBits,
     getParticipatingKeys, bootstrap, isValidCheckpoint
   and the library pieces they call:
     zrnt  BeaconBlockHeader / ForkData / SigningData HashTreeRoot, ComputeDomain          (real SHA-256, Base/Sha256.v)
     zrnt  merkle.VerifyMerkleBranch                                                       (Base/Merkle.v, verify_branch)
     ztyp  bitfields.GetBit                                                                (checked index)
     blsu  Pubkey/Signature.Deserialize, FastAggregateVerify                               (SYMBOLIC, see below)
     zrnt  SyncCommittee.HashTreeRoot                                                      (value carried by the committee record)
   No proofs in this file.

   Conventions.  Every Go index expression is a checked operation: bits[i>>3], committee.Pubkeys[i], branch[i].
   A nil-pointer dereference the code could reach is Panic as well.  Slots are uint64 in Go; the model uses N and
   performs only comparisons and divisions on them, plus  storePeriod+1  and  bits*3  which cannot wrap
   (period <= 2^64/8192, bits <= 512).

   BLS is symbolic (idealised unforgeability, part of the trusted base): a public key is a key identity, the
   identity point or undecodable bytes; a signature is the aggregate of the signatures of a multiset of key
   identities over one message, or garbage (decodable as a curve point or not).  FastAggregateVerify accepts iff
   the multiset of the given keys equals the multiset of signers and the message is the signed one. *)
From Shisui Require Import Base.Bytes Base.Sha256 Base.Merkle Gen.K_lightclient.

Definition E_PARTICIPATION : N := 1.
Definition E_TIMESTAMP : N := 2.
Definition E_PERIOD : N := 3.
Definition E_NOT_RELEVANT : N := 4.
Definition E_FINALITY : N := 5.
Definition E_NEXT_COMMITTEE : N := 6.
Definition E_SIGNATURE : N := 7.
Definition E_PUBKEY : N := 8.
Definition E_SIGDECODE : N := 9.
Definition E_BOOT_HEADER : N := 10.
Definition E_BOOT_COMMITTEE : N := 11.
Definition E_BOOT_AGE : N := 12.

(* ------------------------------------------------------------------ data *)

Record header : Type := mkHeader {
  h_slot : N; h_proposer : N; h_parent : bytes; h_state : bytes; h_body : bytes }.

Inductive pubkey : Type := PkValid (id : N) | PkIdentity | PkInvalid.

(* c_root is the value of zrnt's SyncCommittee.HashTreeRoot on this committee (harness supplied) *)
Record committee : Type := mkCommittee { c_keys : list pubkey; c_root : bytes }.

Inductive signature : Type :=
| SigOf (signers : list N) (msg : bytes)     (* aggregate of the signers' signatures over msg *)
| SigGarbage (decodes : bool).               (* anything else; decodes = is a valid compressed G2 point *)

Record store : Type := mkStore {
  s_fin : header; s_opt : header; s_cur : committee; s_next : option committee;
  s_prev_max : N; s_cur_max : N }.

(* GenericUpdate: four independent pointers in Go, so four independent options here *)
Record update : Type := mkUpdate {
  u_attested : header;
  u_next : option committee; u_next_branch : option (list bytes);
  u_fin : option header; u_fin_branch : option (list bytes);
  u_bits : bytes; u_sig : signature; u_sigslot : N }.

(* FromLightClientUpdate / FromLightClientFinalityUpdate / FromLightClientOptimisticUpdate.
   Each Go function is a type switch with one struct literal PER FORK CONTAINER TYPE (deneb, capella, altair) and an
   error for every other type; the model has the same case split, one literal per case, so that a change to a single
   case of the Go switch is a change to a single case here. *)
Inductive wire_fork : Type := WDeneb | WCapella | WAltair | WElectra | WOther.
Definition E_UNKNOWN_TYPE : N := 13.

Definition from_light_client_update (f : wire_fork) att next nbr fin fbr bits sg slot : res update :=
  match f with
  | WDeneb => Ok (mkUpdate att (Some next) (Some nbr) (Some fin) (Some fbr) bits sg slot)
  | WCapella => Ok (mkUpdate att (Some next) (Some nbr) (Some fin) (Some fbr) bits sg slot)
  | WAltair => Ok (mkUpdate att (Some next) (Some nbr) (Some fin) (Some fbr) bits sg slot)
  | WElectra => Err E_UNKNOWN_TYPE     (* electra.* containers fall through to the error, like any other type *)
  | WOther => Err E_UNKNOWN_TYPE
  end.
Definition from_light_client_finality_update (f : wire_fork) att fin fbr bits sg slot : res update :=
  match f with
  | WDeneb => Ok (mkUpdate att None None (Some fin) (Some fbr) bits sg slot)
  | WCapella => Ok (mkUpdate att None None (Some fin) (Some fbr) bits sg slot)
  | WAltair => Ok (mkUpdate att None None (Some fin) (Some fbr) bits sg slot)
  | WElectra => Err E_UNKNOWN_TYPE     (* electra.* containers fall through to the error, like any other type *)
  | WOther => Err E_UNKNOWN_TYPE
  end.
Definition from_light_client_optimistic_update (f : wire_fork) att bits sg slot : res update :=
  match f with
  | WDeneb => Ok (mkUpdate att None None None None bits sg slot)
  | WCapella => Ok (mkUpdate att None None None None bits sg slot)
  | WAltair => Ok (mkUpdate att None None None None bits sg slot)
  | WElectra => Err E_UNKNOWN_TYPE     (* electra.* containers fall through to the error, like any other type *)
  | WOther => Err E_UNKNOWN_TYPE
  end.

(* the shapes the three converters are meant to produce (used by Example / older statements) *)
Definition from_update att next nbr fin fbr bits sg slot : update :=
  mkUpdate att (Some next) (Some nbr) (Some fin) (Some fbr) bits sg slot.
Definition from_finality_update att fin fbr bits sg slot : update :=
  mkUpdate att None None (Some fin) (Some fbr) bits sg slot.
Definition from_optimistic_update att bits sg slot : update :=
  mkUpdate att None None None None bits sg slot.

(* VerifyUpdate / VerifyFinalityUpdate / VerifyOptimisticUpdate: convert, on error return it, else VerifyGenericUpdate
   against c.Store (defined after verify, below) *)

(* ------------------------------------------------------------------ SSZ merkleization with real SHA-256 *)

Definition Hp : bytes -> bytes -> bytes := sha_pair.
Definition zero32 : bytes := repeat x00 32.
Definition le64 (n : N) : bytes := map (fun i => n2b (N.shiftr n (8 * i))) [0; 1; 2; 3; 4; 5; 6; 7].
Definition pad32 (b : bytes) : bytes := b ++ repeat x00 (32 - length b).

(* BeaconBlockHeader.HashTreeRoot: 5 fields -> 8 leaves *)
Definition htr_header (h : header) : bytes :=
  Hp (Hp (Hp (pad32 (le64 (h_slot h))) (pad32 (le64 (h_proposer h)))) (Hp (h_parent h) (h_state h)))
     (Hp (Hp (h_body h) zero32) (Hp zero32 zero32)).

(* ForkData{CurrentVersion, GenesisValidatorsRoot}.HashTreeRoot *)
Definition fork_data_root (fork_version genesis_root : bytes) : bytes := Hp (pad32 fork_version) genesis_root.
(* hexutil.MustDecode("0x07000000") *)
Definition domain_type_sync : bytes := [x07; x00; x00; x00].
(* common.ComputeDomain: out[0:4] = type, out[4:32] = forkDataRoot[0:28] *)
Definition compute_domain (domain_type fork_version genesis_root : bytes) : bytes :=
  domain_type ++ firstn 28 (fork_data_root fork_version genesis_root).
(* ComputeSigningRoot: SigningData{ObjectRoot, Domain}.HashTreeRoot *)
Definition compute_signing_root (root domain : bytes) : bytes := Hp root domain.
(* ComputeCommitteeSignRoot *)
Definition committee_sign_root (genesis_root header_root fork_version : bytes) : bytes :=
  compute_signing_root header_root (compute_domain domain_type_sync fork_version genesis_root).

(* CalcSyncPeriod: epoch := slot / 32; return epoch / 256 *)
Definition calc_sync_period (slot : N) : N := (slot / 32) / 256.

(* IsFinalityProofValid / IsNextCommitteeProofValid / isCurrentCommitteeProofValid: literal (depth, index) *)
Definition FIN_DEPTH : N := 6.
Definition FIN_INDEX : N := 41.
Definition NEXT_DEPTH : N := 5.
Definition NEXT_INDEX : N := 23.
Definition CUR_DEPTH : N := 5.
Definition CUR_INDEX : N := 22.
Definition is_finality_proof_valid (att fin : header) (branch : list bytes) : res bool :=
  verify_branch Hp (htr_header fin) branch FIN_DEPTH FIN_INDEX (h_state att).
Definition is_next_committee_proof_valid (att : header) (next : committee) (branch : list bytes) : res bool :=
  verify_branch Hp (c_root next) branch NEXT_DEPTH NEXT_INDEX (h_state att).
Definition is_current_committee_proof_valid (att : header) (cur : committee) (branch : list bytes) : res bool :=
  verify_branch Hp (c_root cur) branch CUR_DEPTH CUR_INDEX (h_state att).

(* ------------------------------------------------------------------ bit vector *)

(* bitfields.GetBit: (b[i>>3] >> (i&7)) & 1 == 1 *)
Definition get_bit (bits : bytes) (i : N) : res bool :=
  bind (idx bits (N.to_nat (N.shiftr i 3))) (fun b => Ok (N.testbit (b2n b) (N.land i 7))).

(* getBits: for i := 0; i < SYNC_COMMITTEE_SIZE; i++ { if GetBit(i) { res++ } } *)
Fixpoint count_bits (n : nat) (i : N) (bits : bytes) (acc : N) : res N :=
  match n with
  | O => Ok acc
  | S k => bind (get_bit bits i) (fun b => count_bits k (i + 1) bits (if b then acc + 1 else acc))
  end.
Definition get_bits (bits : bytes) : res N := count_bits (N.to_nat K_LC_SYNC_COMMITTEE_SIZE) 0 bits 0.

(* getParticipatingKeys: same loop, appends committee.Pubkeys[i] *)
Fixpoint part_keys (n : nat) (i : N) (keys : list pubkey) (bits : bytes) : res (list pubkey) :=
  match n with
  | O => Ok []
  | S k =>
      bind (get_bit bits i) (fun b =>
        if b then bind (idx keys (N.to_nat i)) (fun p => bind (part_keys k (i + 1) keys bits) (fun r => Ok (p :: r)))
        else part_keys k (i + 1) keys bits)
  end.
Definition participating_keys (c : committee) (bits : bytes) : res (list pubkey) :=
  part_keys (N.to_nat K_LC_SYNC_COMMITTEE_SIZE) 0 (c_keys c) bits.

(* ------------------------------------------------------------------ symbolic BLS *)

Fixpoint remove_one (x : N) (l : list N) : option (list N) :=
  match l with
  | [] => None
  | y :: t => if x =? y then Some t
              else match remove_one x t with Some t' => Some (y :: t') | None => None end
  end.
(* multiset equality *)
Fixpoint perm_eqb (a b : list N) : bool :=
  match a with
  | [] => match b with [] => true | _ => false end
  | x :: a' => match remove_one x b with Some b' => perm_eqb a' b' | None => false end
  end.

(* identities of decoded keys; None when one of them is the identity point (FastAggregateVerify returns false) *)
Fixpoint key_ids (pks : list pubkey) : option (list N) :=
  match pks with
  | [] => Some []
  | PkValid id :: r => match key_ids r with Some l => Some (id :: l) | None => None end
  | _ :: _ => None
  end.

(* blsu.FastAggregateVerify on decoded keys and a decoded signature *)
Definition fast_aggregate_verify (pks : list pubkey) (msg : bytes) (sg : signature) : bool :=
  match pks with
  | [] => false
  | _ =>
      match key_ids pks with
      | None => false
      | Some ids =>
          match sg with
          | SigOf signers m => perm_eqb signers ids && bytes_eqb m msg
          | SigGarbage _ => false
          end
      end
  end.

Definition is_invalid_key (p : pubkey) : bool := match p with PkInvalid => true | _ => false end.

(* VerifySyncCommitteeSignature *)
Definition verify_sync_committee_signature (pks : list pubkey) (att : header) (sg : signature)
           (genesis_root fork_version : bytes) : res bool :=
  let header_root := htr_header att in
  let signing_root := committee_sign_root genesis_root header_root fork_version in
  if existsb is_invalid_key pks then Err E_PUBKEY                 (* p.Pubkey() error *)
  else match sg with
       | SigGarbage false => Err E_SIGDECODE                      (* signature.Signature() error *)
       | _ => Ok (fast_aggregate_verify pks signing_root sg)
       end.

(* ------------------------------------------------------------------ VerifyGenericUpdate *)

Definition is_some {A} (o : option A) : bool := match o with Some _ => true | None => false end.
Definition fin_slot_or_0 (u : update) : N := match u_fin u with Some h => h_slot h | None => 0 end.

Definition verify (s : store) (u : update) (now_slot : N) (genesis_root fork_version : bytes) : res unit :=
  bind (get_bits (u_bits u)) (fun bits =>
  if bits =? 0 then Err E_PARTICIPATION else
  let update_finalized_slot := fin_slot_or_0 u in
  let att := u_attested u in
  let valid_time := (u_sigslot u <=? now_slot) && (h_slot att <? u_sigslot u) && (update_finalized_slot <=? h_slot att) in
  if negb valid_time then Err E_TIMESTAMP else
  let store_period := calc_sync_period (h_slot (s_fin s)) in
  let update_sig_period := calc_sync_period (u_sigslot u) in
  let valid_period :=
    match s_next s with
    | Some _ => (update_sig_period =? store_period) || (update_sig_period =? store_period + 1)
    | None => update_sig_period =? store_period
    end in
  if negb valid_period then Err E_PERIOD else
  let update_attested_period := calc_sync_period (h_slot att) in
  let update_has_next_committee :=
    negb (is_some (s_next s)) && is_some (u_next u) && (update_attested_period =? store_period) in
  if (h_slot att <=? h_slot (s_fin s)) && negb update_has_next_committee then Err E_NOT_RELEVANT else
  bind (match u_fin u, u_fin_branch u with
        | Some fh, Some br => bind (is_finality_proof_valid att fh br) (fun ok => if ok then Ok tt else Err E_FINALITY)
        | _, _ => Ok tt
        end) (fun _ =>
  bind (match u_next u, u_next_branch u with
        | Some nc, Some br => bind (is_next_committee_proof_valid att nc br) (fun ok => if ok then Ok tt else Err E_NEXT_COMMITTEE)
        | _, _ => Ok tt
        end) (fun _ =>
  bind (if update_sig_period =? store_period then Ok (s_cur s)
        else match s_next s with Some c => Ok c | None => Panic end) (fun sync_committee =>
  bind (participating_keys sync_committee (u_bits u)) (fun pks =>
  bind (verify_sync_committee_signature pks att (u_sig u) genesis_root fork_version) (fun ok =>
  if ok then Ok tt else Err E_SIGNATURE)))))).

(* ------------------------------------------------------------------ ApplyGenericUpdate *)

Definition safety_threshold (s : store) : N :=
  if s_prev_max s <? s_cur_max s then s_cur_max s / 2 else s_prev_max s / 2.
Definition has_sync_update (u : update) : bool := is_some (u_next u) && is_some (u_next_branch u).
Definition has_finality_update (u : update) : bool := is_some (u_fin u) && is_some (u_fin_branch u).

Definition set_cur_max (s : store) (v : N) : store :=
  mkStore (s_fin s) (s_opt s) (s_cur s) (s_next s) (s_prev_max s) v.
Definition set_opt (s : store) (h : header) : store :=
  mkStore (s_fin s) h (s_cur s) (s_next s) (s_prev_max s) (s_cur_max s).
Definition set_fin (s : store) (h : header) : store :=
  mkStore h (s_opt s) (s_cur s) (s_next s) (s_prev_max s) (s_cur_max s).
Definition set_next (s : store) (n : option committee) : store :=
  mkStore (s_fin s) (s_opt s) (s_cur s) n (s_prev_max s) (s_cur_max s).
Definition rotate (s : store) (cur : committee) (n : option committee) : store :=
  mkStore (s_fin s) (s_opt s) cur n (s_cur_max s) 0.

Definition apply (s : store) (u : update) : res store :=
  bind (get_bits (u_bits u)) (fun bits =>
  let s1 := if s_cur_max s <? bits then set_cur_max s bits else s in
  let should_update_optimistic := (safety_threshold s1 <? bits) && (h_slot (s_opt s1) <? h_slot (u_attested u)) in
  let s2 := if should_update_optimistic then set_opt s1 (u_attested u) else s1 in
  let update_attested_period := calc_sync_period (h_slot (u_attested u)) in
  let update_finalized_slot := fin_slot_or_0 u in
  let update_finalized_period := calc_sync_period update_finalized_slot in
  let update_has_finalized_next_committee :=
    negb (is_some (s_next s2)) && has_sync_update u && has_finality_update u &&
    (update_finalized_period =? update_attested_period) in
  let has_majority := 512 * 2 <=? bits * 3 in
  let update_is_newer := h_slot (s_fin s2) <? update_finalized_slot in
  let good_update := update_is_newer || update_has_finalized_next_committee in
  if has_majority && good_update then
    let store_period := calc_sync_period (h_slot (s_fin s2)) in
    let s3 := match s_next s2 with
              | None => set_next s2 (u_next u)
              | Some nx => if update_finalized_period =? store_period + 1 then rotate s2 nx (u_next u) else s2
              end in
    if h_slot (s_fin s3) <? update_finalized_slot then
      match u_fin u with
      | None => Panic            (* nil header dereference; unreachable: 0 is never > a slot *)
      | Some fh =>
          let s4 := set_fin s3 fh in
          Ok (if h_slot (s_opt s4) <? h_slot (s_fin s4) then set_opt s4 (s_fin s4) else s4)
      end
    else Ok s3
  else Ok s2).

(* Sync()/Advance(): err := Verify...; if err != nil { return err }; Apply... *)
Record step : Type := mkStep { st_update : update; st_now : N; st_genesis : bytes; st_fork : bytes }.
Definition process (s : store) (x : step) : store :=
  match verify s (st_update x) (st_now x) (st_genesis x) (st_fork x) with
  | Ok _ => match apply s (st_update x) with Ok s' => s' | _ => s end
  | _ => s
  end.
Definition run (s : store) (l : list step) : store := fold_left process l s.

(* VerifyUpdate / VerifyFinalityUpdate / VerifyOptimisticUpdate and ApplyUpdate / ... on a converted wire object *)
Definition verify_wire (s : store) (conv : res update) (now_slot : N) (genesis_root fork_version : bytes) : res unit :=
  bind conv (fun u => verify s u now_slot genesis_root fork_version).
Definition apply_wire (s : store) (conv : res update) : res store :=
  match conv with
  | Ok u => apply s u
  | Err _ => Ok s           (* Apply*Update returns the conversion error, the store is untouched *)
  | Panic => Panic
  end.

(* ------------------------------------------------------------------ histories of wire messages
   What Sync()/Advance() feed the client: LightClientUpdate / LightClientFinalityUpdate / LightClientOptimisticUpdate objects
   of any fork container, each converted, verified against the store at that moment and applied only when verification
   succeeded.  The genesis validators root is configuration (fixed for a history); clock and fork version vary per step.
   There is no force-update in this code base (no timeout path that applies a best pending update): the only way the store
   changes is process. *)
Inductive wire_msg : Type :=
| WUpdate (f : wire_fork) (att : header) (next : committee) (nbr : list bytes) (fin : header) (fbr : list bytes)
          (bits : bytes) (sg : signature) (slot : N)
| WFinality (f : wire_fork) (att : header) (fin : header) (fbr : list bytes) (bits : bytes) (sg : signature) (slot : N)
| WOptimistic (f : wire_fork) (att : header) (bits : bytes) (sg : signature) (slot : N).

Definition conv_of (m : wire_msg) : res update :=
  match m with
  | WUpdate f att next nbr fin fbr bits sg slot => from_light_client_update f att next nbr fin fbr bits sg slot
  | WFinality f att fin fbr bits sg slot => from_light_client_finality_update f att fin fbr bits sg slot
  | WOptimistic f att bits sg slot => from_light_client_optimistic_update f att bits sg slot
  end.

Record wire_step : Type := mkWireStep { ws_msg : wire_msg; ws_now : N; ws_fork : bytes }.

Definition process_wire (genesis : bytes) (s : store) (x : wire_step) : store :=
  match conv_of (ws_msg x) with
  | Ok u => process s (mkStep u (ws_now x) genesis (ws_fork x))
  | _ => s
  end.
Definition run_wire (genesis : bytes) (s : store) (l : list wire_step) : store := fold_left (process_wire genesis) l s.

(* ------------------------------------------------------------------ clock
   expectedCurrentSlot = Spec.TimeToSlot(time.Now().Unix(), GenesisTime): 0 before genesis, else (t - genesis) / SECONDS_PER_SLOT;
   Spec.TimeAtSlot: error when slot >= (2^64 - 1 - genesis) / SECONDS_PER_SLOT, else slot * SECONDS_PER_SLOT + genesis (cannot wrap). *)
Definition two64m1 : N := 18446744073709551615.
Definition expected_current_slot (now_time genesis_time : N) : N :=
  if now_time <? genesis_time then 0 else (now_time - genesis_time) / K_LC_SECONDS_PER_SLOT.
Definition E_SLOT_TOO_HIGH : N := 14.
Definition time_at_slot (slot genesis_time : N) : res N :=
  if (two64m1 - genesis_time) / K_LC_SECONDS_PER_SLOT <=? slot then Err E_SLOT_TOO_HIGH
  else Ok (slot * K_LC_SECONDS_PER_SLOT + genesis_time).
(* VerifyUpdate & co. as the node runs them: the clock is read, not passed *)
Definition verify_at (s : store) (u : update) (now_time genesis_time : N) (genesis_root fork_version : bytes) : res unit :=
  verify s u (expected_current_slot now_time genesis_time) genesis_root fork_version.

(* ------------------------------------------------------------------ bootstrap *)

(* electra.LightClientBootstrap: Header is a deneb.LightClientHeader {Beacon, Execution, ExecutionBranch};
   the roots of the execution header and of the execution branch vector are values of the zrnt functions *)
Record bootstrap_data : Type := mkBootstrap {
  b_beacon : header; b_exec_root : bytes; b_exec_branch_root : bytes;
  b_committee : committee; b_branch : list bytes }.

(* bootstrap.Header.HashTreeRoot: the root of the three-field LightClientHeader container *)
Definition htr_lc_header (b : bootstrap_data) : bytes :=
  Hp (Hp (htr_header (b_beacon b)) (b_exec_root b)) (Hp (b_exec_branch_root b) zero32).

Definition two64 : N := 18446744073709551616.
(* isValidCheckpoint for slots far below the TimeAtSlot overflow bound: uint64(slotAge) < MaxCheckpointAge,
   slotAge = currentSlotTimestamp - blockHashSlotTimestamp computed in uint64 (wraps when the slot is in the future) *)
Definition is_valid_checkpoint (now_slot slot max_age : N) : bool :=
  ((now_slot * K_LC_SECONDS_PER_SLOT + two64 - (slot * K_LC_SECONDS_PER_SLOT) mod two64) mod two64) <? max_age.

(* the store bootstrap() writes: a FRESH LightClientStore literal - every field is assigned, the next committee is absent *)
Definition store_of_bootstrap (b : bootstrap_data) : store :=
  mkStore (b_beacon b) (b_beacon b) (b_committee b) None 0 0.

Definition bootstrap (checkpoint : bytes) (b : bootstrap_data) (now_slot max_age : N) (strict : bool) : res store :=
  if negb (is_valid_checkpoint now_slot (h_slot (b_beacon b)) max_age) && strict then Err E_BOOT_AGE else
  bind (is_current_committee_proof_valid (b_beacon b) (b_committee b) (b_branch b)) (fun committee_valid =>
  if negb (bytes_eqb (htr_lc_header b) checkpoint) then Err E_BOOT_HEADER
  else if negb committee_valid then Err E_BOOT_COMMITTEE
  else Ok (store_of_bootstrap b)).

(* ------------------------------------------------------------------ histories with bootstrap as an operation
   Start() retries Sync() up to ten times on the SAME client object, and Sync() begins with bootstrap(): a bootstrap can
   follow any number of applied updates.  It REPLACES the store (c.Store = LightClientStore{...}); when it fails the store is
   left as it was (every error return precedes the assignment). *)
Inductive hist_op : Type :=
| HMsg (x : wire_step)
| HBootstrap (checkpoint : bytes) (b : bootstrap_data) (now_slot max_age : N) (strict : bool).

Definition process_op (genesis : bytes) (s : store) (op : hist_op) : store :=
  match op with
  | HMsg x => process_wire genesis s x
  | HBootstrap cp b now_slot max_age strict =>
      match bootstrap cp b now_slot max_age strict with Ok s' => s' | _ => s end
  end.
Definition run_ops (genesis : bytes) (s : store) (l : list hist_op) : store := fold_left (process_op genesis) l s.
