(* Model/EndToEnd.v : the OFFER path across BOTH nodes, from the OFFER request to the receiver's Put (C09, last sentence:
   "the items handed to validation are exactly the offered contents of the accepted keys paired with those keys in order").
   Composes, without editing them,
     receiver   Model/Offer.v handle_offer                (handleOffer: verdicts, connection id, the receive goroutine)
     offerer    Model/Offer.v process_offer               (processOffer on the receiver's reply: what is dialled and written)
     transport  [deliver : bytes -> bytes]                (what the receiver reads from the uTP stream given what the offerer
                                                           wrote; the identity on the payload = "the stream arrives intact")
     receiver   Model/ContentFull.v history_offered_contents / state_offered_contents
                                                          (handleOfferedContents (C15), then validateContents: C02 over C03,
                                                           resp. C13 behind the key switch, then Put)
   Versions: each side derives its own (Model/Versions.v get_or_store, C19); they are arguments here.
   No proofs in this file. *)
From Shisui Require Import Base.Bytes Model.Framing Model.Versions Model.Offer Model.History Model.StateTrie Model.ContentFull.

(* the exchange, generic in what the receive goroutine does with the stream ([consume awaited_keys stream]) and in what is
   left when no transfer takes place ([idle]).  The offerer offers (keys[i], cs[i]) (a TransientOfferRequest). *)
Definition offer_exchange {R} (ver_offerer ver_receiver : res N) (nv : nodeview) (permit_free : bool) (cid : N)
           (lookup : bytes -> option bytes) (keys cs : list bytes) (deliver : bytes -> bytes)
           (consume : list bytes -> bytes -> R) (idle : R) : res R :=
  bind (handle_offer ver_receiver nv permit_free cid keys) (fun r =>                      (* receiver: TALKRESP + listener *)
  bind (process_offer ver_offerer lookup (or_reply r) (ReqTransient (combine keys cs))) (fun '(_, tx) =>   (* offerer *)
  match tx, or_listen r with
  | Some (dialled, payload), Some (listening, awaited) =>
      if dialled =? listening then Ok (consume awaited (deliver payload)) else Ok idle     (* uTP pairs by connection id *)
  | _, _ => Ok idle
  end)).

(* history network: the receiver's store and the Puts *)
Definition history_exchange (ver_offerer ver_receiver : res N) nv permit_free cid lookup keys cs deliver
           (B : hlib) (A : hacc) (src : bytes -> option History.header) (s : History.store)
  : res (res unit * History.store * list (bytes * bytes)) :=
  offer_exchange ver_offerer ver_receiver nv permit_free cid lookup keys cs deliver
    (fun awaited stream => history_offered_contents B A src awaited stream s) (Ok tt, s, []).

(* state network: the receiver's store *)
Definition state_exchange (ver_offerer ver_receiver : res N) nv permit_free cid lookup keys cs deliver
           (L : slib) (s : StateTrie.store) : res (res unit * StateTrie.store) :=
  offer_exchange ver_offerer ver_receiver nv permit_free cid lookup keys cs deliver
    (fun awaited stream => state_offered_contents L awaited stream s) (Ok tt, s).

(* the two nodes derive their versions from each other's ENR: X (offerer) advertises va and knows the receiver as ny,
   Y (receiver) advertises vb and knows the offerer as nx *)
Definition version_at_offerer (va vb : list N) (cx : vcache) (ny : N) : res N := fst (get_or_store va cx ny (PvList vb)).
Definition version_at_receiver (va vb : list N) (cy : vcache) (nx : N) : res N := fst (get_or_store vb cy nx (PvList va)).

(* order-preserving sub-list: what is Put is taken from the accepted pairs, in their order, possibly skipping some
   (already in the store) and possibly stopping early (first validation error) *)
Inductive subseq {A} : list A -> list A -> Prop :=
| subseq_nil : forall l, subseq [] l
| subseq_keep : forall x a l, subseq a l -> subseq (x :: a) (x :: l)
| subseq_skip : forall x a l, subseq a l -> subseq a (x :: l).

(* ======================================================================================================================
   FINDCONTENT across both nodes, and the content lookup built on it.
     serving node   Model/Handlers.v handle_find_content (C08): held -> the bytes inline if they fit one packet, else a
                    connection id and a goroutine that writes encodeUtpContent(requester, content) to the uTP stream
                    (framing per the version the SERVER derives for the requester, C15 / C19); not held -> ENRs (C08 / C11)
     transport      [deliver : bytes -> bytes] on the uTP bytes (identity = honest transport)
     requester      findContent -> processContent (Model/Handlers.v process_content, C08): raw bytes; connection id -> read
                    the stream, decodeUtpContent with the version the REQUESTER derives for the server; ENRs -> filterNodes
     lookup         ContentLookup (Model/Lookup.v, C10): the FIRST content answer wins (CAS + cancel); it is NOT validated
                    there.  Validation sits in the callers:
                      history GetBlockHeader / GetBlockBody / GetReceipts: ValidateContent BEFORE decode / Put / return
                      (Model/History.v getter, C02);
                      JSON-RPC portal_*GetContent (RecursiveFindContent) / *TraceGetContent, beacon getContent: NO validation,
                      the lookup's result is returned as it is ([api_get_content]). *)
From Shisui Require Import Gen.K_wire Gen.K_handlers Model.Handlers Model.Lookup.

Definition E_NO_STREAM : N := 70.    (* nothing was written / the read failed *)

(* TALKRESP bytes of a CONTENT reply; [connid] = the 2-byte id the uTP socket handed out, [enrs_ssz] = Enrs.MarshalSSZ of the
   records (C14; the records themselves are abstract, see Model/Handlers.v) *)
Definition content_reply_bytes (r : fc_reply) (connid enrs_ssz : bytes) : bytes :=
  match r with
  | FC_Raw c => n2b K_msg_CONTENT :: n2b K_sel_Raw :: c
  | FC_ConnId => n2b K_msg_CONTENT :: n2b K_sel_ConnId :: connid
  | FC_Enrs _ => n2b K_msg_CONTENT :: n2b K_sel_Enrs :: enrs_ssz
  end.
(* what Enrs.UnmarshalSSZ + record decoding gives the requester back for that reply *)
Definition reply_records (r : fc_reply) : res (list nrec) :=
  match r with FC_Enrs enrs => Ok enrs | _ => Err Handlers.E_SSZ end.

(* serving node: the reply and, for a connection-id reply, what the goroutine writes (nothing if the version lookup fails) *)
Definition serve_find_content (nodelist : list nrec) (srt : list nrec -> list nrec) (requester : N) (st : stored)
           (ver_server : res N) : res (fc_reply * option bytes) :=
  bind (handle_find_content nodelist srt requester st) (fun r =>
  match r, st with
  | FC_ConnId, St_Found c =>
      match ver_server with
      | Ok v => Ok (r, Some (encode_utp_content v c))
      | Err _ => Ok (r, None)
      | Panic => Panic
      end
  | _, _ => Ok (r, None)
  end).

(* requester: p.findContent = TALKREQ + processContent; the flag says whether the bytes came over uTP *)
Inductive fc_result : Type := FR_Content (c : bytes) (utp : bool) | FR_Nodes (nodes : list nrec).
Definition request_find_content (ver_requester : res N) (resp : bytes) (dec_enrs : res (list nrec)) (sender : nrec)
           (stream : res bytes) : res fc_result :=
  bind (Handlers.process_content resp dec_enrs sender) (fun r =>
  match r with
  | PC_Raw c => Ok (FR_Content c false)
  | PC_ConnId _ =>
      bind stream (fun data =>                                      (* DialWithCid + ReadToEOF *)
      match ver_requester with                                      (* decodeUtpContent(target, data) *)
      | Ok v => bind (decode_utp_content v data) (fun c => Ok (FR_Content c true))
      | Err e => Err e
      | Panic => Panic
      end)
  | PC_Enrs nodes => Ok (FR_Nodes nodes)
  end).

Definition find_content_exchange (nodelist : list nrec) (srt : list nrec -> list nrec) (server requester : nrec) (st : stored)
           (ver_server ver_requester : res N) (connid enrs_ssz : bytes) (deliver : bytes -> bytes) : res fc_result :=
  bind (serve_find_content nodelist srt (rid requester) st ver_server) (fun '(r, written) =>
  request_find_content ver_requester (content_reply_bytes r connid enrs_ssz) (reply_records r) server
    (match written with Some w => Ok (deliver w) | None => Err E_NO_STREAM end)).

(* what contentLookupWorker makes of a peer, whatever that peer sent (TALKRESP bytes, records, stream: all arbitrary) *)
Definition peer_answer (ver_requester : res N) (resp : bytes) (dec_enrs : res (list nrec)) (sender : nrec) (stream : res bytes)
  : canswer :=
  match request_find_content ver_requester resp dec_enrs sender stream with
  | Ok (FR_Content c _) => AContent c
  | Ok (FR_Nodes nodes) => AEnrs (map (fun n => Some (rid n)) nodes)
  | _ => AError
  end.

(* the network getters of the history network over a drained content lookup [s]: Model/History.v getter with the network
   answer being ContentLookup's return value *)
Definition lookup_of (s : cl) : bytes -> option bytes := fun _ => content_result s.

(* JSON-RPC RecursiveFindContent (portal_historyGetContent / portal_stateGetContent / portal_beaconGetContent) and the beacon
   network's getContent: the local store, else the lookup's result - returned as it is *)
Definition api_get_content (local : option bytes) (s : cl) : option bytes :=
  match local with Some d => Some d | None => content_result s end.
