(* Model/EndToEnd.v : the OFFER path across BOTH nodes, from the OFFER request to the receiver's Put (C09, last sentence:
   "the items handed to validation are exactly the offered contents of the accepted keys paired with those keys in order").
   Composes, without editing them,
     receiver   Model/Offer.v handle_offer                (handleOffer: verdicts, connection id, the receive goroutine)
     offerer    Model/Offer.v process_offer               (processOffer on the receiver's reply: what is dialled and written)
     transport  [deliver : bytes -> bytes]                (what the receiver reads from the uTP stream given what the offerer
                                                           wrote; the identity on the payload = "the stream arrives intact")
     receiver   Model/ContentFull.v history_offered_contents / state_offered_contents
                                                          (handleOfferedContents (C15), then validateContents: C02 over C03,
                                                           resp. C13 behind the key switch, then Put)
   Versions: each side derives its own (Model/Versions.v get_or_store, C19); they are arguments here.
   No proofs in this file. *)
From Shisui Require Import Base.Bytes Model.Framing Model.Versions Model.Offer Model.History Model.StateTrie Model.ContentFull.

(* the exchange, generic in what the receive goroutine does with the stream ([consume awaited_keys stream]) and in what is
   left when no transfer takes place ([idle]).  The offerer offers (keys[i], cs[i]) (a TransientOfferRequest). *)
Definition offer_exchange {R} (ver_offerer ver_receiver : res N) (nv : nodeview) (permit_free : bool) (cid : N)
           (lookup : bytes -> option bytes) (keys cs : list bytes) (deliver : bytes -> bytes)
           (consume : list bytes -> bytes -> R) (idle : R) : res R :=
  bind (handle_offer ver_receiver nv permit_free cid keys) (fun r =>                      (* receiver: TALKRESP + listener *)
  bind (process_offer ver_offerer lookup (or_reply r) (ReqTransient (combine keys cs))) (fun '(_, tx) =>   (* offerer *)
  match tx, or_listen r with
  | Some (dialled, payload), Some (listening, awaited) =>
      if dialled =? listening then Ok (consume awaited (deliver payload)) else Ok idle     (* uTP pairs by connection id *)
  | _, _ => Ok idle
  end)).

(* history network: the receiver's store and the Puts *)
Definition history_exchange (ver_offerer ver_receiver : res N) nv permit_free cid lookup keys cs deliver
           (B : hlib) (A : hacc) (src : bytes -> option History.header) (s : History.store)
  : res (res unit * History.store * list (bytes * bytes)) :=
  offer_exchange ver_offerer ver_receiver nv permit_free cid lookup keys cs deliver
    (fun awaited stream => history_offered_contents B A src awaited stream s) (Ok tt, s, []).

(* state network: the receiver's store *)
Definition state_exchange (ver_offerer ver_receiver : res N) nv permit_free cid lookup keys cs deliver
           (L : slib) (s : StateTrie.store) : res (res unit * StateTrie.store) :=
  offer_exchange ver_offerer ver_receiver nv permit_free cid lookup keys cs deliver
    (fun awaited stream => state_offered_contents L awaited stream s) (Ok tt, s).

(* the two nodes derive their versions from each other's ENR: X (offerer) advertises va and knows the receiver as ny,
   Y (receiver) advertises vb and knows the offerer as nx *)
Definition version_at_offerer (va vb : list N) (cx : vcache) (ny : N) : res N := fst (get_or_store va cx ny (PvList vb)).
Definition version_at_receiver (va vb : list N) (cy : vcache) (nx : N) : res N := fst (get_or_store vb cy nx (PvList va)).

(* order-preserving sub-list: what is Put is taken from the accepted pairs, in their order, possibly skipping some
   (already in the store) and possibly stopping early (first validation error) *)
Inductive subseq {A} : list A -> list A -> Prop :=
| subseq_nil : forall l, subseq [] l
| subseq_keep : forall x a l, subseq a l -> subseq (x :: a) (x :: l)
| subseq_skip : forall x a l, subseq a l -> subseq a (x :: l).
