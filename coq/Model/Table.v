(* Model/Table.v : the Kademlia routing table (C07, C18).
   Mirrors  portalwire/table.go       handleAddNode, addReplacement, pushNode, bumpInBucket, deleteInBucket,
                                       handleTrackRequest, addIP, removeIP, bucket, bucketAtDistance, deleteNode
            portalwire/table_reval.go  nodeAdded, nodeRemoved, nodeEndpointChanged, run, get, startRequest,
                                       handleResponse, moveToList, push, remove
            portalwire/node.go         containsID, deleteNode
            p2p/netutil                DistinctNetSet.AddAddr / RemoveAddr, AddrIsLAN   (IPv4 only)
            p2p/enode                  LogDist, DB.FindFails / UpdateFindFails (as a map)
   Go pointers to tableNode are modelled by node ids (unique in the table, clause of Inv); the one place where
   pointer identity matters (a revalidation answer for a tableNode that was removed meanwhile, possibly with the
   same id re-added since) is carried by the `attached` flag of the in-flight request.
   `option` = None is one of the code's panics (revalidation bookkeeping, index out of range).
   Scheduling times (nextTime / Int63n) are not modelled: whether a list is due is an input of RevalRun.
   No proofs in this file. *)
From Coq Require Import NArith List Bool PeanoNat.
From Shisui Require Import Gen.K_table.
Import ListNotations.
Open Scope N_scope.

(* ---------------------------------------------------------------- generic list helpers (Go slices) *)

(* slices.IndexFunc together with the element found *)
Fixpoint find_ent {A} (p : A -> bool) (l : list A) : option (nat * A) :=
  match l with
  | [] => None
  | x :: r => if p x then Some (O, x)
              else match find_ent p r with Some (i, y) => Some (S i, y) | None => None end
  end.

(* slices.Delete(l, i, i+1) *)
Fixpoint remove_at {A} (i : nat) (l : list A) : list A :=
  match l, i with
  | [], _ => []
  | _ :: r, O => r
  | x :: r, S j => x :: remove_at j r
  end.

(* l[i] = v *)
Fixpoint set_at {A} (i : nat) (v : A) (l : list A) : list A :=
  match l, i with
  | [], _ => []
  | _ :: r, O => v :: r
  | x :: r, S j => x :: set_at j v r
  end.

Fixpoint last_opt {A} (l : list A) : option A :=
  match l with [] => None | [x] => Some x | _ :: r => last_opt r end.

Definition nlen {A} (l : list A) : N := N.of_nat (length l).

(* ---------------------------------------------------------------- nodes, addresses *)

Inductive rlist := Fast | Slow.
Definition rlist_eqb (a b : rlist) : bool :=
  match a, b with Fast, Fast => true | Slow, Slow => true | _, _ => false end.

(* enode.Node as the table sees it: ID(), Seq(), IPAddr(), UDP() *)
Record node := mkNode { nid : N; nseq : N; nip : N; nport : N }.

(* tableNode *)
Record entry := mkEntry { nd : node; checks : N; live : bool; rl : option rlist }.
Definition eid (e : entry) : N := nid (nd e).
Definition set_rl (e : entry) (l : option rlist) : entry := mkEntry (nd e) (checks e) (live e) l.
Definition set_nd (e : entry) (n : node) : entry := mkEntry n (checks e) (live e) (rl e).
Definition set_live (e : entry) (b : bool) : entry := mkEntry (nd e) (checks e) b (rl e).
Definition set_checks (e : entry) (c : N) : entry := mkEntry (nd e) c (live e) (rl e).

(* IPv4 address as a 32 bit number; ip_none = a record without address (netip.Addr{} : !IsValid()) *)
Definition ip_none : N := 4294967296.
Definition ip_valid (ip : N) : bool := ip <? ip_none.
Definition ip_unspec (ip : N) : bool := ip =? 0.
(* netutil.AddrIsLAN: loopback 127/8, private 10/8 172.16/12 192.168/16, link-local 169.254/16 *)
Definition is_lan (ip : N) : bool :=
  ip_valid ip &&
  ((N.shiftr ip 24 =? 127) || (N.shiftr ip 24 =? 10) || (N.shiftr ip 20 =? 2753) ||
   (N.shiftr ip 16 =? 49320) || (N.shiftr ip 16 =? 43518)).
(* DistinctNetSet.key with Subnet = 24 *)
Definition key24 (ip : N) : N := N.shiftr ip 8.

(* netutil.DistinctNetSet.members : map[prefix]uint *)
Definition ipset := list (N * N).
Fixpoint ips_get (s : ipset) (k : N) : option N :=
  match s with [] => None | (k', n) :: r => if k' =? k then Some n else ips_get r k end.
Fixpoint ips_del (s : ipset) (k : N) : ipset :=
  match s with [] => [] | (k', n) :: r => if k' =? k then ips_del r k else (k', n) :: ips_del r k end.
Definition ips_set (s : ipset) (k n : N) : ipset := (k, n) :: ips_del s k.
Definition ips_count (s : ipset) (k : N) : N := match ips_get s k with Some n => n | None => 0 end.
(* AddAddr *)
Definition ips_add (s : ipset) (k lim : N) : ipset * bool :=
  let n := ips_count s k in
  if n <? lim then (ips_set s k (n + 1), true) else (s, false).
(* RemoveAddr *)
Definition ips_remove (s : ipset) (k : N) : ipset :=
  match ips_get s k with
  | Some n => if n =? 1 then ips_del s k else ips_set s k (n - 1)
  | None => s
  end.

(* ---------------------------------------------------------------- state *)

Record bucket := mkBucket { ents : list entry; reps : list entry; bips : ipset }.
Definition set_ents (b : bucket) (l : list entry) : bucket := mkBucket l (reps b) (bips b).
Definition set_reps (b : bucket) (l : list entry) : bucket := mkBucket (ents b) l (bips b).
Definition set_bips (b : bucket) (s : ipset) : bucket := mkBucket (ents b) (reps b) s.

(* the parts of Table that bucket operations touch besides the bucket itself:
   tab.ips, revalidation.fast.nodes / slow.nodes (ids in order), revalidation.activeReq.
   active: (id, attached) - attached = the tableNode the request was started for is still in the table *)
Record glob := mkGlob { tips : ipset; fast : list N; slow : list N; active : list (N * bool) }.
Definition set_tips (g : glob) (s : ipset) : glob := mkGlob s (fast g) (slow g) (active g).
Definition set_active (g : glob) (a : list (N * bool)) : glob := mkGlob (tips g) (fast g) (slow g) a.
Definition rlist_get (g : glob) (l : rlist) : list N := match l with Fast => fast g | Slow => slow g end.
Definition rlist_set (g : glob) (l : rlist) (v : list N) : glob :=
  match l with
  | Fast => mkGlob (tips g) v (slow g) (active g)
  | Slow => mkGlob (tips g) (fast g) v (active g)
  end.

(* fails: enode.DB findnode failure counters keyed by (id, ip) *)
Record table := mkTable { self : N; bks : list bucket; gl : glob; fails : list ((N * N) * N); initd : bool }.

Definition empty_bucket : bucket := mkBucket [] [] [].
Definition init (s : N) : table :=
  mkTable s (repeat empty_bucket (N.to_nat K_nBuckets)) (mkGlob [] [] [] []) [] false.

(* ---------------------------------------------------------------- distance *)

(* enode.LogDist for ids below 2^256: 256 - leading zeros of the xor = number of bits of the xor *)
Definition logdist (a b : N) : N := N.size (N.lxor a b).

(* bucketAtDistance: index into tab.buckets *)
Definition bucket_index (d : N) : nat :=
  if d <=? K_bucketMinDistance then O else N.to_nat (d - K_bucketMinDistance - 1).
Definition bucket_of (s id : N) : nat := bucket_index (logdist s id).

(* ---------------------------------------------------------------- revalidation lists *)

(* list.push(n) : append, n.revalList = list *)
Definition rl_push (g : glob) (l : rlist) (e : entry) : glob * entry :=
  (rlist_set g l (rlist_get g l ++ [eid e]), set_rl e (Some l)).

(* list.remove(n) : panics when n is not in the list; n.revalList = nil *)
Definition rl_remove (g : glob) (l : rlist) (e : entry) : option (glob * entry) :=
  match find_ent (N.eqb (eid e)) (rlist_get g l) with
  | None => None
  | Some (i, _) => Some (rlist_set g l (remove_at i (rlist_get g l)), set_rl e None)
  end.

(* moveToList(dest, n) *)
Definition move_to_list (g : glob) (dest : rlist) (e : entry) : option (glob * entry) :=
  match rl e with
  | Some l =>
      if rlist_eqb l dest then Some (g, e)
      else match rl_remove g l e with
           | None => None
           | Some (g1, e1) => Some (rl_push g1 dest e1)
           end
  | None => Some (rl_push g dest e)
  end.

Definition mark_detached (a : list (N * bool)) (id : N) : list (N * bool) :=
  map (fun p => if fst p =? id then (fst p, false) else p) a.

(* nodeRemoved(n): panics on revalList == nil.  The removed tableNode keeps revalList = nil for ever, which
   is what a pending revalidation answer tests; the model records it in the in-flight request. *)
Definition node_removed (g : glob) (e : entry) : option glob :=
  match rl e with
  | None => None
  | Some l =>
      match rl_remove g l e with
      | None => None
      | Some (g1, _) => Some (set_active g1 (mark_detached (active g1) (eid e)))
      end
  end.

(* ---------------------------------------------------------------- IP limits *)

(* Table.addIP on the two DistinctNetSets (tab.ips, b.ips) *)
Definition add_ip_s (ts bs : ipset) (ip : N) : ipset * ipset * bool :=
  if negb (ip_valid ip) || ip_unspec ip then (ts, bs, false)
  else if is_lan ip then (ts, bs, true)
  else
    let '(ts1, ok) := ips_add ts (key24 ip) K_tableIPLimit in
    if negb ok then (ts, bs, false)
    else
      let '(bs1, ok2) := ips_add bs (key24 ip) K_bucketIPLimit in
      if negb ok2 then (ips_remove ts1 (key24 ip), bs, false)
      else (ts1, bs1, true).
Definition add_ip (g : glob) (b : bucket) (ip : N) : glob * bucket * bool :=
  let '(ts, bs, ok) := add_ip_s (tips g) (bips b) ip in (set_tips g ts, set_bips b bs, ok).

(* Table.removeIP *)
Definition remove_ip_s (ts bs : ipset) (ip : N) : ipset * ipset :=
  if is_lan ip then (ts, bs) else (ips_remove ts (key24 ip), ips_remove bs (key24 ip)).
Definition remove_ip (g : glob) (b : bucket) (ip : N) : glob * bucket :=
  let '(ts, bs) := remove_ip_s (tips g) (bips b) ip in (set_tips g ts, set_bips b bs).

(* ---------------------------------------------------------------- bucket operations *)

(* the IP-limit check of bumpInBucket for a changed address: removeIP(old); addIP(new) or put old back *)
Definition swap_ip (g : glob) (b : bucket) (old new : N) : glob * bucket * bool :=
  let '(g0, b0) := remove_ip g b old in
  let '(g1, b1, ok) := add_ip g0 b0 new in
  if ok then (g1, b1, true)
  else let '(g2, b2, _) := add_ip g1 b1 old in (g2, b2, false).

(* bumpInBucket: returns (.., found, endpointChanged) *)
Definition bump_in_bucket (g : glob) (b : bucket) (nr : node) (inbound : bool)
  : option (glob * bucket * bool * bool) :=
  match find_ent (fun e => eid e =? nid nr) (ents b) with
  | None => Some (g, b, false, false)
  | Some (i, n) =>
      if (nseq nr <=? nseq (nd n)) && negb inbound then Some (g, b, true, false)
      else
        let ipchanged := negb (nip nr =? nip (nd n)) in
        let portchanged := negb (nport nr =? nport (nd n)) in
        let '(g1, b1, fits) :=
          if ipchanged then swap_ip g b (nip (nd n)) (nip nr) else (g, b, true) in
        if negb fits then Some (g1, b1, true, false)
        else
          let n1 := set_nd n nr in
          if ipchanged || portchanged then
            (* nodeEndpointChanged *)
            match move_to_list g1 Fast (set_live n1 false) with
            | None => None
            | Some (g2, n2) => Some (g2, set_ents b1 (set_at i n2 (ents b1)), true, true)
            end
          else Some (g1, set_ents b1 (set_at i n1 (ents b1)), true, false)
  end.

(* pushNode *)
Definition push_node (l : list entry) (n : entry) (max : nat) : option (list entry * option entry) :=
  if (length l <? max)%nat then Some (n :: l, None)
  else match last_opt l with
       | None => None                 (* list[len(list)-1] with an empty list *)
       | Some r => Some (n :: removelast l, Some r)
       end.

(* addReplacement *)
Definition add_replacement (g : glob) (b : bucket) (n : node) : option (glob * bucket) :=
  if existsb (fun r => eid r =? nid n) (reps b) then Some (g, b)
  else
    let '(g1, b1, ok) := add_ip g b (nip n) in
    if negb ok then Some (g1, b1)
    else
      match push_node (reps b1) (mkEntry n 0 false None) (N.to_nat K_maxReplacements) with
      | None => None
      | Some (l, removed) =>
          let b2 := set_reps b1 l in
          match removed with
          | None => Some (g1, b2)
          | Some r => Some (remove_ip g1 b2 (nip (nd r)))
          end
      end.

(* handleAddNode after the self / init checks, on the node's bucket *)
Definition add_node_b (n : node) (inbound force : bool) (g : glob) (b : bucket) : option (glob * bucket) :=
  match bump_in_bucket g b n inbound with
  | None => None
  | Some (g1, b1, found, _) =>
      if found then Some (g1, b1)
      else if K_bucketSize <=? nlen (ents b1) then add_replacement g1 b1 n
      else
        let '(g2, b2, ok) := add_ip g1 b1 (nip n) in
        if negb ok then Some (g2, b2)
        else
          let wn := mkEntry n (if force then 1 else 0) force None in
          (* append to entries, deleteNode(replacements, id), nodeAdded -> fast.push *)
          let '(g3, wn') := rl_push g2 Fast wn in
          Some (g3, mkBucket (ents b2 ++ [wn']) (filter (fun r => negb (eid r =? nid n)) (reps b2)) (bips b2))
  end.

(* deleteInBucket; pick = the value rand.Intn is asked for (taken mod len) *)
Definition delete_in_bucket (id : N) (pick : nat) (g : glob) (b : bucket) : option (glob * bucket) :=
  match find_ent (fun e => eid e =? id) (ents b) with
  | None => Some (g, b)
  | Some (i, n) =>
      let b1 := set_ents b (remove_at i (ents b)) in
      let '(g1, b2) := remove_ip g b1 (nip (nd n)) in
      match node_removed g1 n with
      | None => None
      | Some g2 =>
          match reps b2 with
          | [] => Some (g2, b2)
          | _ =>
              let ri := (pick mod length (reps b2))%nat in
              match nth_error (reps b2) ri with
              | None => None
              | Some rep =>
                  let '(g3, rep') := rl_push g2 Fast rep in
                  Some (g3, mkBucket (ents b2 ++ [rep']) (remove_at ri (reps b2)) (bips b2))
              end
          end
      end
  end.

(* ---------------------------------------------------------------- table level *)

Fixpoint upd_nth {A} (i : nat) (v : A) (l : list A) : list A :=
  match l, i with
  | [], _ => []
  | _ :: r, O => v :: r
  | x :: r, S j => x :: upd_nth j v r
  end.

Definition set_gl (t : table) (g : glob) : table := mkTable (self t) (bks t) g (fails t) (initd t).

(* run a bucket operation on tab.buckets[i] *)
Definition with_bucket (t : table) (i : nat) (f : glob -> bucket -> option (glob * bucket)) : option table :=
  match nth_error (bks t) i with
  | None => None                       (* index out of range *)
  | Some b =>
      match f (gl t) b with
      | None => None
      | Some (g', b') => Some (mkTable (self t) (upd_nth i b' (bks t)) g' (fails t) (initd t))
      end
  end.

(* handleAddNode *)
Definition handle_add_node (t : table) (n : node) (inbound force : bool) : option table :=
  if nid n =? self t then Some t
  else if inbound && negb (initd t) then Some t
  else with_bucket t (bucket_of (self t) (nid n)) (add_node_b n inbound force).

Fixpoint add_all (t : table) (ns : list node) : option table :=
  match ns with
  | [] => Some t
  | n :: r => match handle_add_node t n false false with None => None | Some t1 => add_all t1 r end
  end.

(* deleteNode *)
Definition delete_node (t : table) (id : N) (pick : nat) : option table :=
  with_bucket t (bucket_of (self t) id) (delete_in_bucket id pick).

(* enode.DB.FindFails / UpdateFindFails *)
Fixpoint fails_get (f : list ((N * N) * N)) (id ip : N) : N :=
  match f with
  | [] => 0
  | ((i, a), v) :: r => if (i =? id) && (a =? ip) then v else fails_get r id ip
  end.
Definition fails_set (f : list ((N * N) * N)) (id ip v : N) : list ((N * N) * N) :=
  if ip_valid ip then ((id, ip), v) :: filter (fun x => negb ((fst (fst x) =? id) && (snd (fst x) =? ip))) f
  else f.
Definition fails_read (f : list ((N * N) * N)) (id ip : N) : N := if ip_valid ip then fails_get f id ip else 0.

(* handleTrackRequest *)
Definition track (t : table) (n : node) (success : bool) (found : list node) (pick : nat) : option table :=
  let fl := if success then 0 else fails_read (fails t) (nid n) (nip n) + 1 in
  let t1 := mkTable (self t) (bks t) (gl t) (fails_set (fails t) (nid n) (nip n) fl) (initd t) in
  let bi := bucket_of (self t1) (nid n) in
  match nth_error (bks t1) bi with
  | None => None
  | Some b =>
      match (if (K_maxFindnodeFailures <=? fl) && (K_bucketSize / 4 <=? nlen (ents b))
             then with_bucket t1 bi (delete_in_bucket (nid n) pick) else Some t1) with
      | None => None
      | Some t2 => add_all t2 found
      end
  end.

(* ---- revalidation scheduler *)

Definition draw (picks : list nat) : nat * list nat :=
  match picks with [] => (O, []) | p :: r => (p, r) end.

Definition is_active (a : list (N * bool)) (id : N) : bool := existsb (fun x => fst x =? id) a.

(* revalidationList.get: up to 3*len random probes *)
Fixpoint rl_get (fuel : nat) (nodes : list N) (excl : list (N * bool)) (picks : list nat)
  : option (option N * list nat) :=
  match fuel with
  | O => Some (None, picks)
  | S f =>
      let '(p, rest) := draw picks in
      match nth_error nodes (p mod length nodes)%nat with
      | None => None
      | Some id => if is_active excl id then rl_get f nodes excl rest else Some (Some id, rest)
      end
  end.

Definition get (g : glob) (l : rlist) (picks : list nat) : option (option N * list nat) :=
  match rlist_get g l with
  | [] => Some (None, picks)
  | nodes => rl_get (length nodes * 3) nodes (active g) picks
  end.

(* startRequest: panics on a duplicate *)
Definition start_request (g : glob) (id : N) : option glob :=
  if is_active (active g) id then None else Some (set_active g ((id, true) :: active g)).

(* the closure `reval` of run() for one list; due = (list.nextTime <= now) *)
Definition reval_list (g : glob) (l : rlist) (due : bool) (picks : list nat) : option (glob * list nat) :=
  if due then
    match get g l picks with
    | None => None
    | Some (None, r) => Some (g, r)
    | Some (Some id, r) => match start_request g id with None => None | Some g' => Some (g', r) end
    end
  else Some (g, picks).

(* tableRevalidation.run *)
Definition reval_run (t : table) (due_fast due_slow : bool) (picks : list nat) : option table :=
  match reval_list (gl t) Fast due_fast picks with
  | None => None
  | Some (g1, r) =>
      match reval_list g1 Slow due_slow r with
      | None => None
      | Some (g2, _) => Some (set_gl t g2)
      end
  end.

(* handleResponse on the node's bucket, for a request whose tableNode is still in the table *)
Definition handle_response_b (id : N) (responded : bool) (newrec : option node) (pick : nat)
  (g : glob) (b : bucket) : option (glob * bucket) :=
  match find_ent (fun e => eid e =? id) (ents b) with
  | None => None       (* attached request without its node: excluded by Inv, never a normal value *)
  | Some (i, n) =>
      match rl n with
      | None => Some (g, b)                      (* n.revalList == nil *)
      | Some _ =>
          if negb responded then
            let n1 := set_checks n (checks n / 3) in
            let b1 := set_ents b (set_at i n1 (ents b)) in
            if checks n1 =? 0 then delete_in_bucket id pick g b1
            else match move_to_list g Fast n1 with
                 | None => None
                 | Some (g2, n2) => Some (g2, set_ents b (set_at i n2 (ents b)))
                 end
          else
            let n1 := set_live (set_checks n (checks n + 1)) true in
            let b1 := set_ents b (set_at i n1 (ents b)) in
            match (match newrec with
                   | None => Some (g, b1, false)
                   | Some nr => match bump_in_bucket g b1 nr false with
                                | None => None
                                | Some (g', b', _, ec) => Some (g', b', ec)
                                end
                   end) with
            | None => None
            | Some (g2, b2, ec) =>
                if ec then Some (g2, b2)
                else
                  (* moveToList(&tr.slow, n): n is a pointer, read its current state *)
                  match nth_error (ents b2) i with
                  | None => None
                  | Some n2 =>
                      match move_to_list g2 Slow n2 with
                      | None => None
                      | Some (g3, n3) => Some (g3, set_ents b2 (set_at i n3 (ents b2)))
                      end
                  end
            end
      end
  end.

(* handleResponse for the in-flight request of node id *)
Definition handle_response (t : table) (id : N) (responded : bool) (newrec : option node) (pick : nat)
  : option table :=
  match find (fun a => fst a =? id) (active (gl t)) with
  | None => Some t                              (* no such request: not an event of the system *)
  | Some (_, attached) =>
      let t1 := set_gl t (set_active (gl t) (filter (fun a => negb (fst a =? id)) (active (gl t)))) in
      if negb attached then Some t1               (* n.revalList == nil: node was removed meanwhile *)
      else with_bucket t1 (bucket_of (self t1) id) (handle_response_b id responded newrec pick)
  end.

(* ---------------------------------------------------------------- operations *)

Inductive op :=
| SetInit                                                        (* initDone closed *)
| AddFound (n : node) (force_live : bool)
| AddInbound (n : node)
| BulkAdd (ns : list node)                                       (* loadSeedNodes *)
| Delete (id : N) (pick : nat)
| RevalRun (due_fast due_slow : bool) (picks : list nat)
| RevalResp (id : N) (responded : bool) (newrec : option node) (pick : nat)
| Track (n : node) (success : bool) (found : list node) (pick : nat).

Definition step (t : table) (o : op) : option table :=
  match o with
  | SetInit => Some (mkTable (self t) (bks t) (gl t) (fails t) true)
  | AddFound n f => handle_add_node t n false f
  | AddInbound n => handle_add_node t n true false
  | BulkAdd ns => add_all t ns
  | Delete id p => delete_node t id p
  | RevalRun df ds ps => reval_run t df ds ps
  | RevalResp id r nr p => handle_response t id r nr p
  | Track n s f p => track t n s f p
  end.

Fixpoint steps (t : table) (os : list op) : option table :=
  match os with
  | [] => Some t
  | o :: r => match step t o with None => None | Some t1 => steps t1 r end
  end.

(* ================================================================ executable predicates (monitors)
   Boolean forms of the invariant clauses and of the C18 step policy; Proofs/Table.v relates them to the
   Prop statements.  They are evaluated by the driver on IMPLEMENTATION snapshots. *)

Fixpoint mem_N (x : N) (l : list N) : bool :=
  match l with [] => false | y :: r => (x =? y) || mem_N x r end.
Fixpoint nodup_b (l : list N) : bool :=
  match l with [] => true | x :: r => negb (mem_N x r) && nodup_b r end.
Fixpoint forallb_i {A} (f : nat -> A -> bool) (i : nat) (l : list A) : bool :=
  match l with [] => true | x :: r => f i x && forallb_i f (S i) r end.

Definition bnodes (b : bucket) : list entry := ents b ++ reps b.
(* does a node with address ip count against /24 key k *)
Definition counted (ip k : N) : bool := negb (is_lan ip) && (key24 ip =? k).
Definition true_count (l : list entry) (k : N) : N :=
  nlen (filter (fun e => counted (nip (nd e)) k) l).
Definition ipkeys (l : list entry) : list N := map (fun e => key24 (nip (nd e))) l.
Definition sum_cnt (bs : list bucket) (k : N) : N :=
  fold_right (fun b a => ips_count (bips b) k + a) 0 bs.
Definition rl_is (e : entry) (l : rlist) : bool :=
  match rl e with Some l' => rlist_eqb l' l | None => false end.
Definition two_hash : N := 2 ^ K_hashBits.

Definition bsize_b (b : bucket) : bool :=
  (nlen (ents b) <=? K_bucketSize) && (nlen (reps b) <=? K_maxReplacements).
Definition buniq_b (b : bucket) : bool := nodup_b (map eid (bnodes b)).
Definition bplace_b (s : N) (j : nat) (b : bucket) : bool :=
  forallb (fun e => Nat.eqb (bucket_of s (eid e)) j && negb (eid e =? s)) (bnodes b).
Definition bflags_b (b : bucket) : bool :=
  forallb (fun e => match rl e with None => false | Some _ => true end) (ents b) &&
  forallb (fun e => match rl e with None => true | Some _ => false end) (reps b).
Definition bips_b (b : bucket) : bool :=
  forallb (fun k => (true_count (bnodes b) k <=? ips_count (bips b) k) && (ips_count (bips b) k <=? K_bucketIPLimit))
          (map fst (bips b) ++ ipkeys (bnodes b)).
(* every stored node passed addIP: its address is valid and specified *)
Definition baddr_b (b : bucket) : bool :=
  forallb (fun e => ip_valid (nip (nd e)) && negb (ip_unspec (nip (nd e)))) (bnodes b).
Definition blocal_b (s : N) (j : nat) (b : bucket) : bool :=
  bsize_b b && buniq_b b && bplace_b s j b && bflags_b b && baddr_b b && bips_b b.

Definition gips_b (bs : list bucket) (g : glob) : bool :=
  forallb (fun k => (sum_cnt bs k <=? ips_count (tips g) k) && (ips_count (tips g) k <=? K_tableIPLimit))
          (map fst (tips g) ++ flat_map (fun b => map fst (bips b)) bs).
Definition listed_b (bs : list bucket) (l : rlist) (id : N) : bool :=
  existsb (fun b => existsb (fun e => (eid e =? id) && rl_is e l) (ents b)) bs.
Definition glists_l_b (bs : list bucket) (g : glob) (l : rlist) : bool :=
  forallb (listed_b bs l) (rlist_get g l) &&
  forallb (fun b => forallb (fun e => if rl_is e l then mem_N (eid e) (rlist_get g l) else true) (ents b)) bs.
Definition glists_b (bs : list bucket) (g : glob) : bool :=
  glists_l_b bs g Fast && glists_l_b bs g Slow && nodup_b (fast g) && nodup_b (slow g).
Definition is_entry_b (bs : list bucket) (id : N) : bool :=
  existsb (fun b => existsb (fun e => eid e =? id) (ents b)) bs.
Definition gactive_b (bs : list bucket) (g : glob) : bool :=
  forallb (fun a : N * bool => if snd a then is_entry_b bs (fst a) else true) (active g).

Definition inv_b (t : table) : bool :=
  Nat.eqb (length (bks t)) (N.to_nat K_nBuckets) && (self t <? two_hash) &&
  forallb_i (blocal_b (self t)) O (bks t) &&
  gips_b (bks t) (gl t) && glists_b (bks t) (gl t) && gactive_b (bks t) (gl t).

(* ---- the clauses of the property statement itself, one check each (monitor keys in the driver) *)
Definition all_nodes (t : table) : list entry := flat_map bnodes (bks t).
Definition all_ids (t : table) : list N := map eid (all_nodes t).
(* the numbers of the property statement, literally (not the regenerated constants) *)
Definition chk_sizes_ents (t : table) : bool := forallb (fun b => nlen (ents b) <=? 16) (bks t).
Definition chk_sizes_reps (t : table) : bool := forallb (fun b => nlen (reps b) <=? 10) (bks t).
Definition chk_unique (t : table) : bool := nodup_b (all_ids t).
Definition chk_self (t : table) : bool := negb (mem_N (self t) (all_ids t)).
Definition chk_place (t : table) : bool :=
  forallb_i (fun j b => forallb (fun e => Nat.eqb (bucket_of (self t) (eid e)) j) (bnodes b)) O (bks t).
Definition chk_iplimit_bucket (t : table) : bool :=
  forallb (fun b => forallb (fun k => true_count (bnodes b) k <=? 2) (ipkeys (bnodes b))) (bks t).
Definition chk_iplimit_table (t : table) : bool :=
  forallb (fun k => true_count (all_nodes t) k <=? 10) (ipkeys (all_nodes t)).

(* ---- C18 step policy on a transition t --o--> t' *)
Definition node_eqb (a b : node) : bool :=
  (nid a =? nid b) && (nseq a =? nseq b) && (nip a =? nip b) && (nport a =? nport b).
Definition orl_eqb (a b : option rlist) : bool :=
  match a, b with None, None => true | Some x, Some y => rlist_eqb x y | _, _ => false end.
Definition entry_eqb (a b : entry) : bool :=
  node_eqb (nd a) (nd b) && (checks a =? checks b) && Bool.eqb (live a) (live b) && orl_eqb (rl a) (rl b).
Fixpoint list_eqb {A} (eq : A -> A -> bool) (a b : list A) : bool :=
  match a, b with
  | [], [] => true
  | x :: a', y :: b' => eq x y && list_eqb eq a' b'
  | _, _ => false
  end.

Definition all_ents (t : table) : list entry := flat_map ents (bks t).
Definition entry_ids (t : table) : list N := map eid (all_ents t).
Definition find_entry (t : table) (id : N) : option entry := find (fun e => eid e =? id) (all_ents t).
Definition nbucket (t : table) (id : N) : option bucket := nth_error (bks t) (bucket_of (self t) id).

(* (1) full bucket + unknown node: no entry list changes, the node goes to the front of the replacements
       (capped), or nothing changes (already a replacement / IP limit) *)
Definition pol_full_b (t : table) (o : op) (t' : table) : bool :=
  match o with
  | AddFound n _ | AddInbound n =>
      match nbucket t (nid n), nbucket t' (nid n) with
      | Some b, Some b' =>
          if (16 <=? nlen (ents b)) && negb (existsb (fun e => eid e =? nid n) (ents b))
             && negb (nid n =? self t)
          then list_eqb (list_eqb entry_eqb) (map ents (bks t')) (map ents (bks t)) &&
               (list_eqb entry_eqb (reps b') (reps b) ||
                list_eqb entry_eqb (reps b')
                  (firstn 10 (mkEntry n 0 false None :: reps b)))      (* the property's number, literally *)
          else true
      | _, _ => true
      end
  | _ => true
  end.

(* (2) the only causes for an entry to leave *)
Definition cause_b (t : table) (o : op) (id : N) : bool :=
  match o with
  | Delete id' _ => id' =? id
  | RevalResp id' false _ _ =>
      (id' =? id) && match find_entry t id with Some e => checks e / 3 =? 0 | None => false end
  | Track n false _ _ =>
      (nid n =? id) && (K_maxFindnodeFailures <=? fails_read (fails t) (nid n) (nip n) + 1) &&
      match nbucket t id with Some b => K_bucketSize / 4 <=? nlen (ents b) | None => false end
  | _ => false
  end.
Definition pol_leave_b (t : table) (o : op) (t' : table) : bool :=
  forallb (fun id => mem_N id (entry_ids t') || cause_b t o id) (entry_ids t).

(* (3) a leaver is succeeded by a replacement iff one existed (ops that consist of one deleteInBucket) *)
Definition succession_b (b b' : bucket) (id : N) : bool :=
  let rest := map eid (filter (fun e => negb (eid e =? id)) (ents b)) in
  match reps b with
  | [] => list_eqb N.eqb (map eid (ents b')) rest && list_eqb N.eqb (map eid (reps b')) []
  | _ => existsb (fun r => list_eqb N.eqb (map eid (ents b')) (rest ++ [eid r]) &&
                           list_eqb N.eqb (map eid (reps b'))
                                    (map eid (filter (fun x => negb (eid x =? eid r)) (reps b))))
                 (reps b)
  end.
Definition pol_succ_b (t : table) (o : op) (t' : table) : bool :=
  match o with
  | Delete id _ | RevalResp id false _ _ =>
      match nbucket t id, nbucket t' id with
      | Some b, Some b' =>
          if existsb (fun e => eid e =? id) (ents b) && negb (existsb (fun e => eid e =? id) (ents b'))
          then succession_b b b' id else true
      | _, _ => true
      end
  | _ => true
  end.

(* (4) a stored record changes only to a higher seq, or arbitrarily on inbound contact; the remaining
       possibility is not a change of a stored record: the entry was dropped by the 5-failures rule and the id
       came back as a NEW entry from the found nodes of the same track request *)
Definition readd_b (t : table) (o : op) (id : N) (r' : node) : bool :=
  match o with
  | Track n false found _ => cause_b t o id && existsb (node_eqb r') found
  | _ => false
  end.
Definition pol_record_b (t : table) (o : op) (t' : table) : bool :=
  forallb (fun e =>
    match find_entry t' (eid e) with
    | None => true
    | Some e' =>
        node_eqb (nd e) (nd e') || (nseq (nd e) <? nseq (nd e')) ||
        match o with AddInbound n => node_eqb n (nd e') | _ => false end ||
        readd_b t o (eid e) (nd e')
    end) (all_ents t).

(* (5) an endpoint change clears the verified status and puts the node on the fast list *)
Definition pol_endpoint_b (t : table) (o : op) (t' : table) : bool :=
  forallb (fun e =>
    match find_entry t' (eid e) with
    | None => true
    | Some e' =>
        if (nip (nd e) =? nip (nd e')) && (nport (nd e) =? nport (nd e')) then true
        else negb (live e') && rl_is e' Fast
    end) (all_ents t).

(* ---- the findnode failure counter as a function of the operation history alone.
   fails_step is what handleTrackRequest does to the counters (no other operation touches them); hist_fails
   replays it over a history; consec is the specification: the number of consecutive failed track requests for
   (id, ip) since the last successful one.  Proofs/Table.v shows they agree with the model state; the driver
   evaluates the leave-cause predicate with hist_fails of the executed operations, not with the
   implementation's own counter. *)
Definition fails_step (f : list ((N * N) * N)) (o : op) : list ((N * N) * N) :=
  match o with
  | Track n s _ _ => fails_set f (nid n) (nip n) (if s then 0 else fails_read f (nid n) (nip n) + 1)
  | _ => f
  end.
Definition hist_fails (os : list op) : list ((N * N) * N) := fold_left fails_step os [].
Fixpoint consec (os : list op) (id ip acc : N) : N :=
  match os with
  | [] => acc
  | o :: r =>
      consec r id ip
        (match o with
         | Track n s _ _ => if (nid n =? id) && (nip n =? ip) then (if s then 0 else acc + 1) else acc
         | _ => acc
         end)
  end.
Definition with_fails (t : table) (f : list ((N * N) * N)) : table := mkTable (self t) (bks t) (gl t) f (initd t).

(* (2, converse) the 5-failures rule must fire: after a failed track request with fails+1 >= 5 on a node that is an
   entry of a bucket with >= 4 entries, that entry is gone.  The id may be present again only as a NEW entry
   re-added from the found nodes of the same request (not validated, fast list, record among the found nodes). *)
Definition fresh_b (found : list node) (e' : entry) : bool :=
  existsb (node_eqb (nd e')) found && negb (live e') && rl_is e' Fast.
Definition must_leave_b (t : table) (o : op) : option (N * list node) :=
  match o with
  | Track n false found _ =>
      match nbucket t (nid n) with
      | Some b =>
          if (5 <=? fails_read (fails t) (nid n) (nip n) + 1) && (4 <=? nlen (ents b)) &&
             existsb (fun e => eid e =? nid n) (ents b)
          then Some (nid n, found) else None
      | None => None
      end
  | _ => None
  end.
Definition pol_kept_b (t : table) (o : op) (t' : table) : bool :=
  match must_leave_b t o with
  | None => true
  | Some (id, found) =>
      match find_entry t' id with
      | None => true
      | Some e' => existsb (fun x => nid x =? id) found && fresh_b found e'
      end
  end.

(* ================================================================ doRevalidate (the goroutine between startRequest and handleResponse)
   startRequest captures the node record (node := n.Node); doRevalidate pings it, fetches the record when the PONG
   announces a higher sequence number than the captured record has, and hands (didRespond, newRecord) to
   handleResponse.  The captured sequence numbers are kept next to the table (`started`), the remote node's
   behaviour (PONG or not, announced seq, answer to the ENR request) is the argument of RevalPing. *)

(* what doRevalidate hands over: didRespond iff the ping was answered; a new record only when the announced seq is
   higher than the captured one and the ENR request succeeded (the record is passed on whatever its seq is) *)
Definition reval_outcome (start_seq : N) (ping_ok : bool) (ping_seq : N) (enr : option node) : bool * option node :=
  (ping_ok, if start_seq <? ping_seq then enr else None).

Record xtable := mkX { core : table; started : list (N * N) }.

Inductive xop :=
| Plain (o : op)
| RevalPing (id : N) (ping_ok : bool) (ping_seq : N) (enr : option node) (pick : nat).

Fixpoint start_seq (st : list (N * N)) (id : N) : option N :=
  match st with [] => None | (i, s) :: r => if i =? id then Some s else start_seq r id end.

(* the table operation an extended operation amounts to *)
Definition xresolve (x : xtable) (o : xop) : op :=
  match o with
  | Plain o => o
  | RevalPing id ok sq enr p =>
      match start_seq (started x) id with
      | Some s0 => let '(r, nr) := reval_outcome s0 ok sq enr in RevalResp id r nr p
      | None => RevalResp id ok None p          (* no request in flight: handleResponse is not reached *)
      end
  end.

Definition seq_of (t : table) (id : N) : N :=
  match find_entry t id with Some e => nseq (nd e) | None => 0 end.

(* requests in flight after the step, with the seq captured when they were started *)
Definition started_after (t : table) (st : list (N * N)) (t' : table) : list (N * N) :=
  map (fun a : N * bool =>
         (fst a,
          match (if is_active (active (gl t)) (fst a) then start_seq st (fst a) else None) with
          | Some s => s
          | None => seq_of t (fst a)
          end)) (active (gl t')).

Definition xstep (x : xtable) (o : xop) : option xtable :=
  match step (core x) (xresolve x o) with
  | None => None
  | Some t' => Some (mkX t' (started_after (core x) (started x) t'))
  end.

Fixpoint xsteps (x : xtable) (os : list xop) : option xtable :=
  match os with
  | [] => Some x
  | o :: r => match xstep x o with None => None | Some x1 => xsteps x1 r end
  end.

Definition xinit (s : N) : xtable := mkX (init s) [].

(* (6) an answered liveness check costs no entry its place or credit (operation RevalResp id true .. = what
   handleResponse gets from doRevalidate when the ping was answered) *)
Definition pol_credit_b (t : table) (o : op) (t' : table) : bool :=
  match o with
  | RevalResp _ true _ _ =>
      forallb (fun e => match find_entry t' (eid e) with Some e' => checks e <=? checks e' | None => false end) (all_ents t)
  | _ => true
  end.

(* (2, converse for liveness) a failed revalidation answer for an attached in-flight request must cost credit:
   the entry's livenessChecks become floor(old / 3), and the entry is gone when that is 0 *)
Definition failed_target (t : table) (o : op) : option entry :=
  match o with
  | RevalResp id false _ _ =>
      match find (fun a : N * bool => fst a =? id) (active (gl t)) with
      | Some (_, true) => find_entry t id
      | _ => None
      end
  | _ => None
  end.
Definition pol_failed_credit_b (t : table) (o : op) (t' : table) : bool :=
  match failed_target t o with
  | Some e =>
      if checks e / 3 =? 0 then true
      else match find_entry t' (eid e) with Some e' => checks e' =? checks e / 3 | None => true end
  | None => true
  end.
Definition pol_failed_gone_b (t : table) (o : op) (t' : table) : bool :=
  match failed_target t o with
  | Some e => if checks e / 3 =? 0 then negb (mem_N (eid e) (entry_ids t')) else true
  | None => true
  end.

(* (7) activeReq = the requests that were started and not yet answered: an answer removes its id (whether or not
   the node is still in the table), a revalidation run only adds ids of the two lists that were not active, every
   other operation leaves the set of ids alone (it may only mark requests as detached) *)
Definition aids (g : glob) : list N := map fst (active g).
Definition pol_active_b (t : table) (o : op) (t' : table) : bool :=
  match o with
  | RevalResp id _ _ _ =>
      list_eqb N.eqb (aids (gl t')) (filter (fun x => negb (x =? id)) (aids (gl t)))
  | RevalRun _ _ _ =>
      forallb (fun x => mem_N x (aids (gl t')) ) (aids (gl t)) &&
      forallb (fun x => mem_N x (aids (gl t)) || mem_N x (fast (gl t) ++ slow (gl t))) (aids (gl t'))
  | _ => list_eqb N.eqb (aids (gl t')) (aids (gl t))
  end.
