(* Model/Storage.v : the pebble content store (C04, C05, C06, C17) and the in-range helper (C06).
   Mirrors  storage/pebble/storage.go   NewStorage / Get / Put / prune / inRadius / Radius / xor,
            storage/content_storage.go  SizeKey, MaxDistance,
            portalwire/portal_protocol.go  inRange  (+ enode.LogDist).
   pebble is modelled as an ordered key-value map with atomic batches:  the record under the all-zero
   SizeKey (the smallest 32-byte key, so always the first key of an iteration) is kept in its own field
   `rec`, every other key in the key-sorted association list `kv`;  `apply_op` routes a write by its key.
   The disk is the list of committed batches plus the index up to which they are known durable;
   a crash keeps any prefix that contains the durable part, `open` replays it and runs NewStorage.
   The model is parametric in
     V, vlen   : the type of stored values and their length in bytes (bytes/nlen in the theorems' examples,
                 (id,length) descriptors in the correspondence driver - values of 1 MB are never materialised),
     vhead8    : binary.BigEndian.Uint64 of a value (only reached when a value was written under the SizeKey,
                 i.e. content id = node id; Panic when the value is shorter than 8 bytes),
     dec       : how a 32-byte key is read as a distance.  The code uses uint256.UnmarshalSSZ = little-endian
                 (`le_to_N`) while pebble orders keys as big-endian numbers; see DESIGN.md 6/C06.
   No proofs in this file. *)
From Shisui Require Import Base.Bytes.

Definition E_NOTFOUND : N := 1.
Definition E_RADIUS : N := 2.
Definition E_PRUNE : N := 3.

(* ---------------------------------------------------------------- keys and distances *)

Definition zero32 : bytes := repeat x00 32.
Definition sizekey : bytes := zero32.                      (* storage.SizeKey *)
Definition MAXD : N := 2 ^ 256 - 1.                        (* storage.MaxDistance *)

Definition bxor (a b : byte) : byte := n2b (N.lxor (b2n a) (b2n b)).

Fixpoint xor_bytes (a b : bytes) : bytes :=
  match a, b with
  | x :: a', y :: b' => bxor x y :: xor_bytes a' b'
  | _, _ => []
  end.

(* padding of xor(): a content id whose length differs from the node id's is copied into 32 zero bytes
   (truncated when longer), otherwise used as it is *)
Definition pad_id (id node : bytes) : bytes :=
  if Nat.eqb (length id) (length node) then id else firstn 32 (id ++ zero32).

(* xor(contentId, nodeId):  res[i] = padding[i] ^ nodeId[i] for i in range padding; nodeId[i] panics when the
   node id is shorter than the padding (never the case for an enode.ID) *)
Definition xor_key (id node : bytes) : res bytes :=
  let p := pad_id id node in
  if Nat.leb (length p) (length node) then Ok (xor_bytes p node) else Panic.

(* bytes.Compare : pebble's default comparer *)
Fixpoint bcmp (a b : bytes) : comparison :=
  match a, b with
  | [], [] => Eq
  | [], _ :: _ => Lt
  | _ :: _, [] => Gt
  | x :: a', y :: b' =>
      match N.compare (b2n x) (b2n y) with
      | Eq => bcmp a' b'
      | c => c
      end
  end.
Definition blt (a b : bytes) : Prop := bcmp a b = Lt.

(* uint256.UnmarshalSSZ: four little-endian uint64 limbs = the 32 bytes read little-endian *)
Fixpoint le_to_N (b : bytes) : N :=
  match b with [] => 0 | x :: t => b2n x + 256 * le_to_N t end.
(* the reading the property fixes: big-endian *)
Fixpoint be_to_N (b : bytes) : N :=
  match b with [] => 0 | x :: t => b2n x * 256 ^ nlen t + be_to_N t end.

(* ---------------------------------------------------------------- sorted association lists (pebble's key order) *)

Section Assoc.
  Context {A : Type}.
  Fixpoint lookup (k : bytes) (l : list (bytes * A)) : option A :=
    match l with
    | [] => None
    | (k', a) :: t => if bytes_eqb k k' then Some a else lookup k t
    end.
  Fixpoint ins (k : bytes) (a : A) (l : list (bytes * A)) : list (bytes * A) :=
    match l with
    | [] => [(k, a)]
    | (k', a') :: t =>
        match bcmp k k' with
        | Lt => (k, a) :: l
        | Eq => (k, a) :: t
        | Gt => (k', a') :: ins k a t
        end
    end.
  Fixpoint del (k : bytes) (l : list (bytes * A)) : list (bytes * A) :=
    match l with
    | [] => []
    | (k', a') :: t => if bytes_eqb k k' then t else (k', a') :: del k t
    end.
End Assoc.

(* ---------------------------------------------------------------- the store *)

Section Storage.
  Context {V : Type}.
  Variable vlen : V -> N.
  Variable vhead8 : V -> res N.
  Variable dec : bytes -> N.

  (* what can sit under the SizeKey: the 8-byte counter written by Put/prune, or (content id = node id) a value *)
  Inductive dbval : Type := SizeRec (n : N) | Item (v : V).

  Record db : Type := { rec : option dbval; kv : list (bytes * V) }.
  Definition empty_db : db := {| rec := None; kv := [] |}.

  Inductive bop : Type :=
  | BSetSize (n : N)                 (* batch.Set(storage.SizeKey, buf) *)
  | BSetItem (k : bytes) (v : V)     (* batch.Set(distance, content) *)
  | BDel (k : bytes).                (* batch.Delete(iter.Key()) *)
  Definition batch : Type := list bop.

  Definition apply_op (d : db) (o : bop) : db :=
    match o with
    | BSetSize n => {| rec := Some (SizeRec n); kv := kv d |}
    | BSetItem k v =>
        if bytes_eqb k sizekey then {| rec := Some (Item v); kv := kv d |}
        else {| rec := rec d; kv := ins k v (kv d) |}
    | BDel k =>
        if bytes_eqb k sizekey then {| rec := None; kv := kv d |}
        else {| rec := rec d; kv := del k (kv d) |}
    end.
  Definition apply_batch (d : db) (b : batch) : db := fold_left apply_op b d.
  Definition replay (bs : list batch) : db := fold_left apply_batch bs empty_db.

  Record st : Type := {
    sdb : db;          (* the pebble database *)
    cnt : N;           (* c.size : in-memory usage counter *)
    rad : N;           (* c.radius *)
    capMB : N;         (* config.StorageCapacityMB *)
    ppm : N;           (* contentDeletionFraction in parts per million (K_contentDeletionPPM) *)
    node : bytes       (* c.nodeId *)
  }.
  Definition cap (s : st) : N := capMB s * 1000000.                 (* storageCapacityInBytes *)
  (* uint64(float64(cap) * contentDeletionFraction) and uint64(float64(cap) * (1 - contentDeletionFraction)):
     for cap = capMB * 10^6 < 2^53 and the fraction 0.05 both float products round to the exact integers
     (the relative representation error of 0.05 and of 0.95 is below half an ulp of the result);
     assumed here, checked by the `thr` lines of the correspondence run. *)
  Definition expect (s : st) : N := capMB s * ppm s.
  Definition thr (s : st) : N := capMB s * (1000000 - ppm s).

  Definition with_db (s : st) (d : db) (c r : N) : st :=
    {| sdb := d; cnt := c; rad := r; capMB := capMB s; ppm := ppm s; node := node s |}.

  Definition held_kv (l : list (bytes * V)) : N :=
    fold_right (fun kv a => nlen (fst kv) + vlen (snd kv) + a) 0 l.
  Definition held (s : st) : N := held_kv (kv (sdb s)).

  (* Get *)
  Definition get (s : st) (id : bytes) : res (option dbval) :=
    bind (xor_key id (node s)) (fun k =>
      Ok (if bytes_eqb k sizekey then rec (sdb s) else option_map Item (lookup k (kv (sdb s))))).

  (* the loop of prune(): from the farthest key downwards delete while freed < expect; the first key met
     once enough has been freed becomes the radius.  The SizeKey record is skipped (`continue`): it is not
     in kv, and being the smallest key it would be visited last. Returns (deleted keys, freed, stop key). *)
  Fixpoint drop_far (expect_ freed : N) (rl : list (bytes * V)) : list bytes * N * option bytes :=
    match rl with
    | [] => ([], freed, None)
    | (k, v) :: t =>
        if freed <? expect_ then
          let '(ds, f, stop) := drop_far expect_ (freed + nlen k + vlen v) t in (k :: ds, f, stop)
        else ([], freed, Some k)
    end.

  (* prune(): returns the new state, false for the `size < currentSize` error (nothing committed, but the
     radius already stored), and the committed batch (Sync: true) *)
  Definition prune (s : st) : st * bool * list (batch * bool) :=
    let '(ds, freed, stop) := drop_far (expect s) 0 (rev (kv (sdb s))) in
    let rad' := match stop with Some k => dec k | None => rad s end in
    if cnt s <? freed then (with_db s (sdb s) (cnt s) rad', false, [])
    else
      let n := cnt s - freed in
      let b := map BDel ds ++ [BSetSize n] in
      (with_db s (apply_batch (sdb s) b) n rad', true, [(b, true)]).

  Inductive pres : Type := Stored | Refused | PruneErr.

  (* Put *)
  Definition put (s : st) (id : bytes) (v : V) : res (st * pres * list (batch * bool)) :=
    bind (xor_key id (node s)) (fun k =>
      if negb (dec k <? rad s) then Ok (s, Refused, [])            (* inRadius: radius.Gt(dis) *)
      else
        let n := cnt s + nlen id + vlen v in                       (* c.size.Add(len(contentId)+len(content)) *)
        let b1 := [BSetSize n; BSetItem k v] in
        let s1 := with_db s (apply_batch (sdb s) b1) n (rad s) in
        if cap s <? n then
          let '(s2, ok, bs) := prune s1 in
          Ok (s2, if ok then Stored else PruneErr, (b1, false) :: bs)
        else Ok (s1, Stored, [(b1, false)])).

  (* iter.Last() of NewStorage, ignoring the SizeKey record (fix C17-newstorage-skip-size-record: before it the
     record was taken as an item and an empty, over-counted store reopened with radius dec SizeKey = 0) *)
  Definition last_key (d : db) : option bytes :=
    match rev (kv d) with
    | (k, _) :: _ => Some k
    | [] => None
    end.

  (* NewStorage on an opened database *)
  Definition open (capMB_ ppm_ : N) (node_ : bytes) (d : db) : res (st * list (batch * bool)) :=
    let s0 := {| sdb := d; cnt := 0; rad := MAXD; capMB := capMB_; ppm := ppm_; node := node_ |} in
    match rec d with
    | None => Ok (s0, [])
    | Some r =>
        bind (match r with SizeRec n => Ok n | Item v => vhead8 v end) (fun size =>
        let s1 := with_db s0 d size MAXD in
        bind (if cap s1 <? size
              then let '(s2, ok, bs) := prune s1 in if ok then Ok (s2, bs) else Err E_PRUNE
              else Ok (s1, [])) (fun s2bs =>
        let '(s2, bs) := s2bs in
        if thr s1 <? size then
          match last_key (sdb s2) with
          | Some k => Ok (with_db s2 (sdb s2) (cnt s2) (dec k), bs)
          | None => Ok (s2, bs)
          end
        else Ok (s2, bs)))
    end.

  (* ---------------------------------------------------------------- histories, disk, crashes *)

  Inductive op : Type :=
  | OPut (id : bytes) (v : V)
  | OGet (id : bytes)
  | OReopen                    (* Close (everything committed becomes durable) + NewDB + NewStorage *)
  | OCrash (cut : nat).        (* the process dies; `cut` batches survive (clamped to the allowed range) *)

  Record sys : Type := { mem : st; disk : list batch; synced : nat }.

  Definition any_synced (bs : list (batch * bool)) : bool := existsb snd bs.
  Definition commit (y : sys) (s' : st) (bs : list (batch * bool)) : sys :=
    let d := disk y ++ map fst bs in
    {| mem := s'; disk := d; synced := if any_synced bs then length d else synced y |}.

  Definition clamp_cut (y : sys) (c : nat) : nat := Nat.max (synced y) (Nat.min c (length (disk y))).

  Definition reopen_at (y : sys) (c : nat) : res sys :=
    let d := firstn c (disk y) in
    bind (open (capMB (mem y)) (ppm (mem y)) (node (mem y)) (replay d)) (fun sb =>
      let '(s', bs) := sb in
      Ok (commit {| mem := s'; disk := d; synced := length d |} s' bs)).

  Definition step (y : sys) (o : op) : res sys :=
    match o with
    | OPut id v =>
        bind (put (mem y) id v) (fun r => let '(s', _, bs) := r in Ok (commit y s' bs))
    | OGet id => bind (get (mem y) id) (fun _ => Ok y)
    | OReopen => reopen_at y (length (disk y))
    | OCrash c => reopen_at y (clamp_cut y c)
    end.

  Fixpoint run (y : sys) (ops : list op) : res sys :=
    match ops with
    | [] => Ok y
    | o :: t => bind (step y o) (fun y' => run y' t)
    end.

  (* a new store on an empty database *)
  Definition init (capMB_ ppm_ : N) (node_ : bytes) : sys :=
    {| mem := {| sdb := empty_db; cnt := 0; rad := MAXD; capMB := capMB_; ppm := ppm_; node := node_ |};
       disk := []; synced := 0 |}.

End Storage.

Arguments SizeRec {V} n.
Arguments Item {V} v.
Arguments BSetSize {V} n.
Arguments BSetItem {V} k v.
Arguments BDel {V} k.
Arguments OPut {V} id v.
Arguments OGet {V} id.
Arguments OReopen {V}.
Arguments OCrash {V} cut.
Arguments empty_db {V}.
Arguments Stored : clear implicits.
Arguments Refused : clear implicits.
Arguments PruneErr : clear implicits.

(* ---------------------------------------------------------------- inRange (portalwire/portal_protocol.go) *)

(* enode.LogDist(a, b): 256 - number of leading zero bits of a xor b (byte loop, bits.LeadingZeros8) *)
Fixpoint lead_zeros (a b : bytes) : N :=
  match a, b with
  | x :: a', y :: b' =>
      let v := N.lxor (b2n x) (b2n y) in
      if v =? 0 then 8 + lead_zeros a' b' else 8 - N.size v
  | _, _ => 0
  end.
Definition logdist (a b : bytes) : N := nlen a * 8 - lead_zeros a b.

(* inRange: enode.ID(contentId) panics for a content id shorter than 32 bytes and takes the first 32 otherwise;
   the radius is compared with the XOR distance as a 256-bit big-endian number
   (fix C06-inrange-xor-distance; before it the radius was compared with the LOG distance, in_range_logdist) *)
Definition in_range_code (node : bytes) (radius : N) (cid : bytes) : res bool :=
  if Nat.ltb (length cid) 32 then Panic
  else Ok (be_to_N (xor_bytes node (firstn 32 cid)) <? radius).

(* the helper as it was written before the fix (kept for the refutation and for attributing a regression) *)
Definition in_range_logdist (node : bytes) (radius : N) (cid : bytes) : res bool :=
  if Nat.ltb (length cid) 32 then Panic
  else Ok (logdist node (firstn 32 cid) <? radius).

(* the rule the property fixes: XOR distance read big-endian, strictly below the radius *)
Definition in_range_spec (node : bytes) (radius : N) (cid : bytes) : bool :=
  be_to_N (xor_bytes node cid) <? radius.
