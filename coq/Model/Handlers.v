(* Model/Handlers.v : FINDNODES / NODES and FINDCONTENT / CONTENT handlers (C11, C08).
   Mirrors  portalwire/portal_protocol.go  handleFindNodes, collectTableNodes, truncateNodes, processNodes, filterNodes,
            verifyResponseNode, handleFindContent, findNodesCloseToContent, processContent,
            portalwire/table.go  appendBucketNodes, bucketAtDistance, nodeList,
            p2p/netutil  CheckRelayAddr (over the five address predicates it consults),
            p2p/enode    LogDist.
   A node record is abstracted to the facts the handlers look at (see [nrec]); the harness computes them from the
   real ENR with the same library calls the implementation makes.
   rand.Shuffle and sort.Slice are function arguments ([shuf], [srt]); theorems quantify over every function
   that returns a permutation (resp. a sorted permutation) of its input.
   No proofs in this file. *)
From Shisui Require Import Base.Bytes Gen.K_wire Gen.K_table Gen.K_handlers.

(* error classes (informative only) *)
Definition E_EMPTY : N := 1.       (* ErrEmptyResp *)
Definition E_BADCODE : N := 2.     (* "invalid nodes response" / "invalid content response" *)
Definition E_SSZ : N := 3.         (* decoding / encoding error of an SSZ message *)
Definition E_INVALID : N := 4.     (* record does not decode / signature invalid *)
Definition E_RELAY : N := 5.
Definition E_LOWPORT : N := 6.
Definition E_DIST : N := 7.
Definition E_DUP : N := 8.
Definition E_STORAGE : N := 9.
Definition E_BADRADIUS : N := 10.
Definition E_NOCONTENT : N := 11.

(* ---------------------------------------------------------------- records *)
Record nrec : Type := mkRec {
  rtag : N;      (* identity of the record's bytes (assigned by the harness, unique per distinct ENR) *)
  rid : N;       (* node id, big-endian value of the 32 bytes *)
  rflags : N;    (* address predicates of n.IP(): bit0 valid, bit1 unspecified, bit2 special, bit3 loopback, bit4 LAN *)
  rport : N;     (* n.UDP() *)
  rsize : N;     (* len(rlp.EncodeToBytes(n.Record())) *)
  rvalid : bool  (* rlp.DecodeBytes succeeds and enode.New(validSchemes, r) succeeds (asking side only) *)
}.

Definition rec_eqb (a b : nrec) : bool :=
  (rtag a =? rtag b) && (rid a =? rid b) && (rflags a =? rflags b) && (rport a =? rport b) &&
  (rsize a =? rsize b) && Bool.eqb (rvalid a) (rvalid b).

(* netutil.CheckRelayAddr(sender, addr) == nil, over the address predicates *)
Definition relay_ok (sender addr : N) : bool :=
  if negb (N.testbit addr 0) then false                                  (* errInvalid *)
  else if N.testbit addr 1 then false                                    (* errUnspecified *)
  else if N.testbit addr 2 then false                                    (* errSpecial *)
  else if N.testbit addr 3 && negb (N.testbit sender 3) then false       (* errLoopback *)
  else if N.testbit addr 4 && negb (N.testbit sender 4) then false       (* errLAN *)
  else true.

(* enode.LogDist: 256 - number of leading zero bits of a xor b *)
Definition logdist (a b : N) : N := N.size (N.lxor a b).

(* ---------------------------------------------------------------- routing table view *)
Definition entry : Type := (nrec * bool)%type.        (* tableNode: record, isValidatedLive *)
Definition table : Type := list (list entry).        (* tab.buckets, entries in order *)

(* bucketAtDistance *)
Definition bucket_index (d : N) : nat :=
  if d <=? K_bucketMinDistance then O else N.to_nat (d - K_bucketMinDistance - 1).

(* appendBucketNodes(dist, bn[:0], checkLive) *)
Definition append_bucket_nodes (tab : table) (self : nrec) (shuf : list nrec -> list nrec) (d : N) (check_live : bool)
  : res (list nrec) :=
  if 256 <? d then Ok []
  else if d =? 0 then Ok [self]
  else bind (idx tab (bucket_index d)) (fun b =>
       Ok (shuf (map fst (filter (fun e : entry => negb check_live || snd e) b)))).

(* inner loop of collectTableNodes: relay pre-check, append, return as soon as the limit is reached *)
Fixpoint add_limited (rip : N) (cands nodes : list nrec) (limit : N) : list nrec * bool :=
  match cands with
  | [] => (nodes, false)
  | n :: cs =>
      if negb (relay_ok rip (rflags n)) then add_limited rip cs nodes limit
      else let nodes' := nodes ++ [n] in
           if limit <=? nlen nodes' then (nodes', true) else add_limited rip cs nodes' limit
  end.

(* collectTableNodes; [shuf d] is the shuffle applied when distance d is processed *)
Fixpoint collect_aux (tab : table) (self : nrec) (rip : N) (shuf : N -> list nrec -> list nrec)
         (dists processed : list N) (nodes : list nrec) (limit : N) : res (list nrec) :=
  match dists with
  | [] => Ok nodes
  | d :: rest =>
      if existsb (N.eqb d) processed || (256 <? d) then collect_aux tab self rip shuf rest processed nodes limit
      else
        match append_bucket_nodes tab self (shuf d) d true with
        | Ok bn =>
            match add_limited rip bn nodes limit with
            | (nodes', true) => Ok nodes'
            | (nodes', false) => collect_aux tab self rip shuf rest (d :: processed) nodes' limit
            end
        | Err e => Err e
        | Panic => Panic
        end
  end.
Definition collect_table_nodes tab self rip shuf dists limit : res (list nrec) :=
  collect_aux tab self rip shuf dists [] [] limit.

(* truncateNodes *)
Fixpoint truncate_aux (nodes : list nrec) (total maxSize overhead : N) : list nrec :=
  match nodes with
  | [] => []
  | n :: rest =>
      if maxSize <? total + rsize n + overhead then []
      else n :: truncate_aux rest (total + rsize n + overhead) maxSize overhead
  end.
Definition truncate_nodes (nodes : list nrec) (maxSize overhead : N) : list nrec := truncate_aux nodes 0 maxSize overhead.

Definition enrs_size (enrs : list nrec) : N := fold_right (fun n acc => 4 + rsize n + acc) 0 enrs.

(* the list-of-byte-lists marshaller shared by Nodes.Enrs and Enrs.Enrs: more than 32 items or an item above 2048 bytes is an error *)
Definition marshal_enrs_ok (enrs : list nrec) : bool :=
  (nlen enrs <=? 32) && forallb (fun n => rsize n <=? 2048) enrs.

Definition nodes_overhead : N := 1 + 1 + 4.   (* msg id + total + container offset *)
Definition enr_overhead : N := 4.
Definition findnodes_max_payload : N := K_maxPacketSize - K_talkRespOverhead - nodes_overhead.

(* handleFindNodes: the ENR list put into the NODES message *)
Definition handle_find_nodes (tab : table) (self : nrec) (rip : N) (shuf : N -> list nrec -> list nrec) (dists : list N)
  : res (list nrec) :=
  bind (collect_table_nodes tab self rip shuf dists K_portalFindnodesResultLimit) (fun nodes =>
  let enrs := truncate_nodes nodes findnodes_max_payload enr_overhead in
  if marshal_enrs_ok enrs then Ok enrs else Err E_SSZ).

(* the handler on a table in either phase: [init_done] = Table.isInitDone() (false between Start() and the end of the initial
   seeding).  collectTableNodes computes checkLive := !cfg.NoFindnodeLivenessCheck and does not consult the phase, so the
   flag is taken and ignored; C11's clauses are stated for both values. *)
Definition find_nodes_check_live (no_liveness_check init_done : bool) : bool := negb no_liveness_check.
Definition handle_find_nodes_st (init_done : bool) (tab : table) (self : nrec) (rip : N) (shuf : N -> list nrec -> list nrec)
           (dists : list N) : res (list nrec) :=
  if find_nodes_check_live false init_done then handle_find_nodes tab self rip shuf dists
  else Err E_SSZ.   (* unreachable: NoFindnodeLivenessCheck is false *)

(* handleTalkRequest, FINDNODES case: the address handed to handleFindNodes is the source address of the packet (the addr
   argument of the talk handler), not the endpoint the sender's record advertises (which may differ or be absent) *)
Definition talk_source (packet_src enr_endpoint : N) : N := packet_src.
Definition handle_talk_find_nodes (init_done : bool) (tab : table) (self : nrec) (packet_src enr_endpoint : N)
           (shuf : N -> list nrec -> list nrec) (dists : list N) : res (list nrec) :=
  handle_find_nodes_st init_done tab self (talk_source packet_src enr_endpoint) shuf dists.

(* len(talkRespBytes) = 1 (NODES) + 1 (total) + 4 (offset) + sum (4 + len enr) *)
Definition nodes_reply_len (enrs : list nrec) : N := 1 + 1 + 4 + enrs_size enrs.

(* ---------------------------------------------------------------- datagram arithmetic *)
(* RLP: header of a string / list whose payload is l bytes long *)
Definition be_len (l : N) : N := if l <? 256 then 1 else if l <? 65536 then 2 else if l <? 16777216 then 3 else 4.
Definition rlp_hdr (l : N) : N := if l <=? 55 then 1 else 1 + be_len l.
(* a byte string of length l; [small] = it is a single byte below 0x80 (encoded as itself) *)
Definition rlp_str (l : N) (small : bool) : N := if small && (l =? 1) then 1 else rlp_hdr l + l.
(* discv5 ordinary packet carrying TALKRESP [request-id, response]:
   masking IV (16) + static header (23) + authdata src-id (32) + AES-GCM(message type byte + rlp list) with a 16-byte tag *)
Definition talkresp_datagram (reqid_len : N) (reqid_small : bool) (resp_len : N) (resp_small : bool) : N :=
  let payload := rlp_str reqid_len reqid_small + rlp_str resp_len resp_small in
  16 + (23 + 32) + (1 + (rlp_hdr payload + payload)) + 16.

(* ---------------------------------------------------------------- asking side *)
(* verifyResponseNode (NetRestrict = nil) *)
Definition verify_response_node (sender r : nrec) (dists : option (list N)) (seen : list N) : res nrec :=
  if negb (rvalid r) then Err E_INVALID
  else if negb (relay_ok (rflags sender) (rflags r)) then Err E_RELAY
  else if rport r <=? 1024 then Err E_LOWPORT
  else if match dists with
          | Some ds => negb (existsb (N.eqb (logdist (rid sender) (rid r))) ds)
          | None => false
          end then Err E_DIST
  else if existsb (N.eqb (rid r)) seen then Err E_DUP
  else Ok r.

(* filterNodes *)
Fixpoint filter_nodes_aux (sender : nrec) (enrs : list nrec) (dists : option (list N)) (seen : list N) : list nrec :=
  match enrs with
  | [] => []
  | r :: rest =>
      match verify_response_node sender r dists seen with
      | Ok n => n :: filter_nodes_aux sender rest dists (rid n :: seen)
      | _ => filter_nodes_aux sender rest dists seen
      end
  end.
Definition filter_nodes sender enrs dists : list nrec := filter_nodes_aux sender enrs dists [].

(* processNodes; [decoded] is the result of Nodes.UnmarshalSSZ(resp[1:]) mapped to records (the SSZ codec is C14's subject) *)
Definition process_nodes (resp : bytes) (decoded : res (list nrec)) (sender : nrec) (dists : option (list N)) : res (list nrec) :=
  match resp with
  | [] => Err E_EMPTY
  | _ =>
    bind (idx resp 0) (fun c =>
    if negb (b2n c =? K_msg_NODES) then Err E_BADCODE
    else bind (slice resp 1 (length resp)) (fun _ =>
         bind decoded (fun enrs => Ok (filter_nodes sender enrs dists))))
  end.

(* ---------------------------------------------------------------- FINDCONTENT *)
(* stable insertion sort by log distance to cid: one legal behaviour of sort.Slice, used when no witness order is supplied *)
Fixpoint insert_by (cid : N) (x : nrec) (l : list nrec) : list nrec :=
  match l with
  | [] => [x]
  | y :: t => if logdist (rid y) cid <=? logdist (rid x) cid then y :: insert_by cid x t else x :: l
  end.
Fixpoint isort_by (cid : N) (l : list nrec) : list nrec :=
  match l with [] => [] | x :: t => insert_by cid x (isort_by cid t) end.

(* findNodesCloseToContent: sort.Slice by log distance (as [srt]), first [limit] *)
Definition find_nodes_close (nodelist : list nrec) (srt : list nrec -> list nrec) (limit : nat) : list nrec :=
  firstn limit (srt nodelist).

(* removal of the first entry whose id is the requester's *)
Fixpoint remove_first_id (id : N) (l : list nrec) : list nrec :=
  match l with
  | [] => []
  | x :: t => if rid x =? id then t else x :: remove_first_id id t
  end.

Inductive fc_reply : Type :=
| FC_Raw (content : bytes)        (* CONTENT, selector 1, the bytes *)
| FC_ConnId                       (* CONTENT, selector 0, 2-byte connection id chosen by the uTP socket *)
| FC_Enrs (enrs : list nrec).      (* CONTENT, selector 2, records *)

Inductive stored : Type := St_Found (c : bytes) | St_NotFound | St_Error.

Definition content_overhead : N := 1 + 1.   (* msg id + union selector *)
Definition findcontent_max_payload : N := K_maxPacketSize - K_talkRespOverhead - content_overhead.

(* handleFindContent *)
Definition handle_find_content (nodelist : list nrec) (srt : list nrec -> list nrec) (requester : N) (st : stored) : res fc_reply :=
  match st with
  | St_Error => Err E_STORAGE
  | St_NotFound =>
      let closest := find_nodes_close nodelist srt (N.to_nat K_portalFindnodesResultLimit) in
      let closest := remove_first_id requester closest in
      let enrs := truncate_nodes closest findcontent_max_payload enr_overhead in
      if marshal_enrs_ok enrs then Ok (FC_Enrs enrs) else Err E_SSZ
  | St_Found c =>
      if nlen c <=? findcontent_max_payload then
        (if nlen c <=? 2048 then Ok (FC_Raw c) else Err E_SSZ)        (* Content.MarshalSSZTo limit *)
      else Ok FC_ConnId
  end.

Definition fc_reply_len (r : fc_reply) : N :=
  match r with
  | FC_Raw c => 1 + 1 + nlen c
  | FC_ConnId => 1 + 1 + 2
  | FC_Enrs enrs => 1 + 1 + enrs_size enrs
  end.

Inductive pc_result : Type :=
| PC_Raw (c : bytes)
| PC_ConnId (id : bytes)          (* the asker now dials uTP with this connection id *)
| PC_Enrs (nodes : list nrec).

(* processContent up to the point where a uTP stream is dialled;
   [dec_enrs] is the result of Enrs.UnmarshalSSZ(resp[2:]) mapped to records.
   resp[1] on a one-byte response: the original code indexes without a length check (index out of range: Panic, a C01
   defect); the repaired code returns an error when len(resp) < 2.  Which one the compiled code does is probed on every run
   and regenerated as K_processContent_short_panics (1 / 0). *)
Definition process_content (resp : bytes) (dec_enrs : res (list nrec)) (sender : nrec) : res pc_result :=
  match resp with
  | [] => Err E_EMPTY
  | _ =>
    bind (idx resp 0) (fun c =>
    if negb (b2n c =? K_msg_CONTENT) then Err E_BADCODE
    else if (K_processContent_short_panics =? 0) && (nlen resp <? 2) then Err E_BADCODE
    else bind (idx resp 1) (fun sel =>
      if b2n sel =? K_sel_Raw then
        bind (slice resp 2 (length resp)) (fun body =>
          if 2048 <? nlen body then Err E_SSZ else Ok (PC_Raw body))
      else if b2n sel =? K_sel_ConnId then
        bind (slice resp 2 (length resp)) (fun body =>
          if negb (nlen body =? 2) then Err E_SSZ else Ok (PC_ConnId body))
      else if b2n sel =? K_sel_Enrs then
        bind (slice resp 2 (length resp)) (fun _ =>
          bind dec_enrs (fun enrs => Ok (PC_Enrs (filter_nodes sender enrs None))))
      else Err E_BADCODE))
  end.

(* ---------------------------------------------------------------- witnesses for the nondeterministic steps *)
Fixpoint count_rec (x : nrec) (l : list nrec) : nat :=
  match l with [] => O | y :: t => (if rec_eqb x y then 1 else 0) + count_rec x t end.
Definition is_perm_b (w g : list nrec) : bool :=
  Nat.eqb (length w) (length g) && forallb (fun x => Nat.eqb (count_rec x w) (count_rec x g)) (w ++ g).
(* a shuffle described by a witness: the witness if it is a permutation of the input, the input itself otherwise *)
Definition pick_perm (w : option (list nrec)) (g : list nrec) : list nrec :=
  match w with Some l => if is_perm_b l g then l else g | None => g end.
Fixpoint sorted_by_b (cid : N) (l : list nrec) : bool :=
  match l with
  | [] => true
  | x :: t => match t with [] => true | y :: _ => (logdist (rid x) cid <=? logdist (rid y) cid) && sorted_by_b cid t end
  end.
(* a sort described by a witness: the witness if it is a sorted permutation of the input, insertion sort otherwise *)
Definition pick_sorted (cid : N) (w : list nrec) (g : list nrec) : list nrec :=
  if is_perm_b w g && sorted_by_b cid w then w else isort_by cid g.

(* ---------------------------------------------------------------- property predicates (used by theorems and monitors) *)
(* r is the local record and 0 was requested, or r is a live entry of the bucket of a requested valid distance *)
Definition from_requested_b (tab : table) (self : nrec) (dists : list N) (r : nrec) : bool :=
  (rec_eqb r self && existsb (N.eqb 0) dists) ||
  existsb (fun d => (1 <=? d) && (d <=? 256) &&
                    match nth_error tab (bucket_index d) with
                    | Some b => existsb (fun e : entry => rec_eqb r (fst e) && snd e) b
                    | None => false
                    end) dists.
Definition entry_of_requested_b (tab : table) (self : nrec) (dists : list N) (r : nrec) : bool :=
  (rec_eqb r self && existsb (N.eqb 0) dists) ||
  existsb (fun d => (1 <=? d) && (d <=? 256) &&
                    match nth_error tab (bucket_index d) with
                    | Some b => existsb (fun e : entry => rec_eqb r (fst e)) b
                    | None => false
                    end) dists.
(* the asking side's conditions on a record by itself: validly signed, relay-safe, port above 1024, at a requested distance *)
Definition accept4 (sender : nrec) (dists : option (list N)) (r : nrec) : bool :=
  rvalid r && relay_ok (rflags sender) (rflags r) && (1024 <? rport r) &&
  match dists with Some ds => existsb (N.eqb (logdist (rid sender) (rid r))) ds | None => true end.
(* ... and not a repeat: no earlier record of the response with the same id meets them *)
Definition accept_conditions_b (sender : nrec) (dists : option (list N)) (before : list nrec) (r : nrec) : bool :=
  accept4 sender dists r && negb (existsb (fun q => (rid q =? rid r) && accept4 sender dists q) before).
(* the records of a response that meet the five conditions, in order *)
Fixpoint accepted_spec (sender : nrec) (dists : option (list N)) (before enrs : list nrec) : list nrec :=
  match enrs with
  | [] => []
  | r :: rest => (if accept_conditions_b sender dists before r then [r] else []) ++ accepted_spec sender dists (before ++ [r]) rest
  end.
(* collectTableNodes skips a distance that is above 256 or was already processed: the distances that are looked at *)
Fixpoint clean_dists (dists processed : list N) : list N :=
  match dists with
  | [] => []
  | d :: rest => if existsb (N.eqb d) processed || (256 <? d) then clean_dists rest processed else d :: clean_dists rest (d :: processed)
  end.
