(* Model/HeaderProof.v : header proofs in all four eras (C03).
   Mirrors  validation/header_validator.go   ValidateHeaderAndProof, validatePreMergeHeader, validateMergeToCapellaHeader,
                                              validateCapellaToDenebHeader, validatePostDenebHeader,
                                              verifyBellatrixToDenebExecutionBlockProof, verifyPostDenebExecutionBlockProof,
                                              TurnToPreMergeProof
            validation/historical_summaries_provider.go   GetHistoricalSummary
            types/history/types_encoding.go   UnmarshalSSZ of BlockProofHistoricalRoots / ...SummariesCapella / ...SummariesDeneb
            types/history/types_helper.go     GetEpochIndex, GetHeaderRecordIndex
   Library calls: fastssz ssz.VerifyProof = Base.Merkle.verify_gindex, zrnt merkle.VerifyMerkleBranch = Base.Merkle.verify_branch,
   both over the pair hash H (a Section variable; sha_pair for execution).
   Constants come from Gen/K_header.v (compiled Go constants, regenerated on every run); the literals 3228, 6444, 14, 13 and the
   container layouts 14/13 + 1 + 11/12 chunks + 8 bytes are literals of the Go source and are tied by the correspondence run.
   No proofs in this file. *)
From Shisui Require Import Base.Bytes Base.Merkle Base.Sha256 Gen.K_header.

Definition E_SIZE : N := 1.            (* ssz.ErrSize: fixed-size container with another length *)
Definition E_MULT32 : N := 2.          (* "proof length should be 32*n bytes" *)
Definition E_MERKLE : N := 3.          (* ErrMerkleValidation / "merkle proof validation failed for HistoricalRootsProof" *)
Definition E_EXEC : N := 4.            (* ErrExecutionBlockProof *)
Definition E_ORACLE_NIL : N := 5.      (* "oracle is nil" *)
Definition E_SUMMARY_RANGE : N := 6.   (* "historical summary index out of bounds" *)
Definition E_ROOTS_RANGE : N := 7.     (* repaired code: historical root index out of bounds *)
Definition E_ORACLE : N := 8.          (* the oracle returned an error *)
(* Base.Merkle.E_PROOF_LEN = 20 : fastssz "invalid proof length" *)

Definition two64 : N := 18446744073709551616.

(* Go l[i] with a uint64 index: bounds check, then the element.  (idx needs a nat; a peer-chosen 64-bit index must not be
   turned into a unary number before the check.) *)
Definition idxN {A} (l : list A) (i : N) : res A :=
  if i <? nlen l then idx l (N.to_nat i) else Panic.

(* binary.LittleEndian.Uint64 on an 8-byte slice (any length: little-endian value) *)
Fixpoint le2n (l : bytes) : N :=
  match l with [] => 0 | b :: r => b2n b + 256 * le2n r end.

(* for ii := first; ii < first+n; ii++ { out[ii] = region[ii*32:(ii+1)*32] } *)
Fixpoint chunks_at (n : nat) (ii : nat) (region : bytes) : res (list bytes) :=
  match n with
  | O => Ok []
  | S k => bind (slice region (ii * 32) ((ii + 1) * 32)) (fun c =>
           bind (chunks_at k (S ii) region) (fun r => Ok (c :: r)))
  end.

(* buf[lo:hi][ii*32:(ii+1)*32] for ii < n  (a `ssz-size:"n,32"` vector field) *)
Definition vec32 (n : nat) (buf : bytes) (lo hi : nat) : res (list bytes) :=
  bind (slice buf lo hi) (fun region => chunks_at n 0 region).

(* the three post-merge proof containers: BeaconBlockProof [nb][32], BeaconBlockRoot [32], ExecutionBlockProof [ne][32], Slot uint64 *)
Record post_proof : Type := mk_post { pp_beacon : list bytes; pp_root : bytes; pp_exec : list bytes; pp_slot : N }.

Definition post_size (nb ne : nat) : nat := (nb * 32 + 32 + ne * 32 + 8)%nat.

(* UnmarshalSSZ of BlockProofHistoricalRoots (14, 11: 840 bytes), ...SummariesCapella (13, 11: 808), ...SummariesDeneb (13, 12: 840) *)
Definition decode_post (nb ne : nat) (buf : bytes) : res post_proof :=
  let b_end := (nb * 32)%nat in
  let r_end := (b_end + 32)%nat in
  let e_end := (r_end + ne * 32)%nat in
  let size := (e_end + 8)%nat in
  if negb (Nat.eqb (length buf) size) then Err E_SIZE else
  bind (vec32 nb buf 0 b_end) (fun beacon =>
  bind (slice buf b_end r_end) (fun root =>
  bind (vec32 ne buf r_end e_end) (fun exec =>
  bind (slice buf e_end size) (fun sl =>
  Ok (mk_post beacon root exec (le2n sl)))))).

(* TurnToPreMergeProof *)
Definition turn_to_premerge_proof (proof : bytes) : res (list bytes) :=
  if negb (Nat.eqb (Nat.modulo (length proof) 32) 0) then Err E_MULT32
  else chunks_at (Nat.div (length proof) 32) 0 proof.

(* (slot - capellaForkEpoch*slotsPerEpoch) / epochSize in uint64 arithmetic: the subtraction wraps *)
Definition summary_index (slot : N) : N :=
  ((slot + two64 - (K_capellaForkEpoch * K_slotsPerEpoch) mod two64) mod two64) / K_epochSize.

(* HistoricalSummariesProvider.GetHistoricalSummary.  cache = BlockSummaryRoot of each cached summary;
   oracle = None for a nil oracle, otherwise what oracle.GetHistoricalSummaries returns on this call
   (its BlockSummaryRoots, or an error).  Only the returned value of ONE call is modelled; the replacement of the cache by the
   oracle's answer matters to later calls only. *)
Definition get_historical_summary (cache : list bytes) (oracle : option (res (list bytes))) (slot : N) : res bytes :=
  let i := summary_index slot in
  if i <? nlen cache then idxN cache i
  else match oracle with
       | None => Err E_ORACLE_NIL
       | Some (Err _) => Err E_ORACLE
       | Some Panic => Panic
       | Some (Ok l) => if i <? nlen l then idxN l i else Err E_SUMMARY_RANGE
       end.

(* The same call with the provider's state made explicit: the returned value and the cache AFTER the call.  The cache is
   replaced by the oracle's list exactly when that list contains the requested index (`h.cache = historicalSummaries`);
   in every other case it is left as it was. *)
Definition get_historical_summary_st (cache : list bytes) (oracle : option (res (list bytes))) (slot : N)
  : res bytes * list bytes :=
  let i := summary_index slot in
  if i <? nlen cache then (idxN cache i, cache)
  else match oracle with
       | None => (Err E_ORACLE_NIL, cache)
       | Some (Err _) => (Err E_ORACLE, cache)
       | Some Panic => (Panic, cache)
       | Some (Ok l) => if i <? nlen l then (idxN l i, l) else (Err E_SUMMARY_RANGE, cache)
       end.

Section HeaderProof.
  Variable H : bytes -> bytes -> bytes.
  (* false: the code as it was found (HistoricalRoots[slot/8192] unguarded);  true: with fixes/C03-historical-roots-bounds.diff *)
  Variable guard_roots : bool.

  Definition lift_verdict (r : res bool) (e : N) : res unit :=
    match r with
    | Ok true => Ok tt
    | Ok false => Err e
    | Err e' => Err e'
    | Panic => Panic
    end.

  (* verifyBellatrixToDenebExecutionBlockProof (gindex 3228) / verifyPostDenebExecutionBlockProof (gindex 6444):
     depth = len(elProof) *)
  Definition verify_exec (gindex : N) (hash : bytes) (el_proof : list bytes) (root : bytes) : res bool :=
    verify_branch H hash el_proof (nlen el_proof) gindex root.

  Definition validate_pre_merge (epochs : list bytes) (number : N) (hash proof : bytes) : res unit :=
    let epoch_index := number / K_EpochSize in
    bind (idxN epochs epoch_index) (fun root =>
    let record_index := number mod K_EpochSize in
    let index := K_epochSize * 2 * 2 + record_index * 2 in
    bind (turn_to_premerge_proof proof) (fun branches =>
    lift_verdict (verify_gindex H root index hash branches) E_MERKLE)).

  Definition validate_merge_to_capella (roots : list bytes) (hash : bytes) (p : post_proof) : res unit :=
    bind (lift_verdict (verify_exec 3228 hash (pp_exec p) (pp_root p)) E_EXEC) (fun _ =>
    let block_root_index := pp_slot p mod K_epochSize in
    let gen_index := 2 * K_epochSize + block_root_index in
    let historical_root_index := pp_slot p / K_epochSize in
    if guard_roots && (nlen roots <=? historical_root_index) then Err E_ROOTS_RANGE else
    bind (idxN roots historical_root_index) (fun historical_root =>
    lift_verdict (verify_branch H (pp_root p) (pp_beacon p) 14 gen_index historical_root) E_MERKLE)).

  Definition validate_summaries (exec_gindex : N) (summaries : list bytes) (oracle : option (res (list bytes)))
                                (hash : bytes) (p : post_proof) : res unit :=
    bind (lift_verdict (verify_exec exec_gindex hash (pp_exec p) (pp_root p)) E_EXEC) (fun _ =>
    bind (get_historical_summary summaries oracle (pp_slot p)) (fun summary_root =>
    let block_root_index := pp_slot p mod K_epochSize in
    let gen_index := K_epochSize + block_root_index in
    lift_verdict (verify_branch H (pp_root p) (pp_beacon p) 13 gen_index summary_root) E_MERKLE)).

  Definition validate_capella_to_deneb := validate_summaries 3228.
  Definition validate_post_deneb := validate_summaries 6444.

  (* ValidateHeaderAndProof: number = header.Number.Uint64(), hash = header.Hash() *)
  Definition validate_header_and_proof (epochs roots summaries : list bytes) (oracle : option (res (list bytes)))
                                       (number : N) (hash proof : bytes) : res unit :=
    if number <? K_MergeBlockNumber then validate_pre_merge epochs number hash proof
    else if number <? K_ShanghaiBlockNumber then
      bind (decode_post 14 11 proof) (validate_merge_to_capella roots hash)
    else if number <? K_CancunNumber then
      bind (decode_post 13 11 proof) (validate_capella_to_deneb summaries oracle hash)
    else
      bind (decode_post 13 12 proof) (validate_post_deneb summaries oracle hash).

  (* ---- one HeaderValidator instance over a HISTORY of validations: the summaries cache is state ---- *)

  (* validateCapellaToDenebHeader / validatePostDenebHeader with the cache threaded through: the provider is only consulted
     after the execution stage passed *)
  Definition validate_summaries_st (exec_gindex : N) (cache : list bytes) (oracle : option (res (list bytes)))
                                   (hash : bytes) (p : post_proof) : res unit * list bytes :=
    match lift_verdict (verify_exec exec_gindex hash (pp_exec p) (pp_root p)) E_EXEC with
    | Ok _ =>
        let (r, cache') := get_historical_summary_st cache oracle (pp_slot p) in
        (bind r (fun summary_root =>
           let block_root_index := pp_slot p mod K_epochSize in
           let gen_index := K_epochSize + block_root_index in
           lift_verdict (verify_branch H (pp_root p) (pp_beacon p) 13 gen_index summary_root) E_MERKLE), cache')
    | Err e => (Err e, cache)
    | Panic => (Panic, cache)
    end.

  (* one event = what the oracle would answer during this call, and the call's arguments *)
  Definition event : Type := (option (res (list bytes)) * N * bytes * bytes)%type.

  (* ValidateHeaderAndProof on a validator whose provider currently caches `cache`: verdict and cache afterwards *)
  Definition validate_step (epochs roots : list bytes) (cache : list bytes) (ev : event) : res unit * list bytes :=
    let '(oracle, number, hash, proof) := ev in
    if number <? K_MergeBlockNumber then (validate_pre_merge epochs number hash proof, cache)
    else if number <? K_ShanghaiBlockNumber then
      (bind (decode_post 14 11 proof) (validate_merge_to_capella roots hash), cache)
    else if number <? K_CancunNumber then
      match decode_post 13 11 proof with
      | Ok p => validate_summaries_st 3228 cache oracle hash p
      | Err e => (Err e, cache)
      | Panic => (Panic, cache)
      end
    else
      match decode_post 13 12 proof with
      | Ok p => validate_summaries_st 6444 cache oracle hash p
      | Err e => (Err e, cache)
      | Panic => (Panic, cache)
      end.

  (* the verdict of every call of a history and the cache after it *)
  Fixpoint run_history (epochs roots : list bytes) (cache : list bytes) (evs : list event) : list (res unit * list bytes) :=
    match evs with
    | [] => []
    | ev :: rest =>
        let (v, cache') := validate_step epochs roots cache ev in
        (v, cache') :: run_history epochs roots cache' rest
    end.
End HeaderProof.

(* the instances that run: SHA-256 pair hash; as found / repaired *)
Definition validate_sha (guard : bool) := validate_header_and_proof sha_pair guard.
Definition run_history_sha (guard : bool) := run_history sha_pair guard.

(* sparse accumulators for the driver: n entries, all `zero` except the listed (index, value) pairs *)
Fixpoint sparse_lookup (l : list (N * bytes)) (i : N) (zero : bytes) : bytes :=
  match l with
  | [] => zero
  | (j, v) :: r => if i =? j then v else sparse_lookup r i zero
  end.
Fixpoint sparse_fill (n : nat) (i : N) (l : list (N * bytes)) (zero : bytes) : list bytes :=
  match n with
  | O => []
  | S k => sparse_lookup l i zero :: sparse_fill k (i + 1) l zero
  end.
