(* Model/Slots.v : uTP transfer slots (C16).
   Mirrors  portalwire/utp_transport.go  (utpController: two semaphore.Weighted of size MaxUtpConnSize, TryAcquire(1);
   ReleasePermit.Release = CompareAndSwap(false,true) then Release(1); NoPermit.Release = nothing)  and the places of
   portalwire/portal_protocol.go  that take a slot and must give it back:
     outbound:  GossipAndReturnPeers (GetOutboundPermit per target, `select { case offerQueue <- ..: default: }`)
                -> offerWorker -> offer() -> processOffer() -> transfer goroutine
     inbound:   handleOffer (GetInboundPermit only when >= 1 key is accepted) -> receive goroutine.
   Every flow is a function from an OUTCOME (which exit the code takes) to the list of slot events it performs.
   The boolean `fixed` selects the flow of the repaired code (true: what /repo contains now) or the code as found (false).
   No proofs in this file. *)
From Shisui Require Import Base.Bytes.

(* ------------------------------------------------------------------ semaphore.Weighted, weight 1 *)

(* TryAcquire(1): success iff cur + 1 <= size *)
Definition try_acquire (limit cur : N) : option N :=
  if cur <? limit then Some (cur + 1) else None.

(* Release(1): cur -= 1; if cur < 0 { panic("semaphore: released more than held") } *)
Definition sem_release (cur : N) : res N :=
  if cur =? 0 then Panic else Ok (cur - 1).

(* raw use of the semaphore: any sequence of TryAcquire / Release *)
Inductive sem_op : Type := OpTryAcquire | OpRelease.

Definition sem_apply (limit : N) (cur : N) (o : sem_op) : res N :=
  match o with
  | OpTryAcquire => match try_acquire limit cur with Some c => Ok c | None => Ok cur end
  | OpRelease => sem_release cur
  end.

(* all counter values visited (the run stops at a panic) *)
Fixpoint sem_trace (limit : N) (ops : list sem_op) (cur : N) : list N :=
  cur :: match ops with
         | [] => []
         | o :: r => match sem_apply limit cur o with Ok c => sem_trace limit r c | _ => [] end
         end.

(* `n` successful acquisitions in a row *)
Fixpoint acquire_many (limit : N) (n : nat) (cur : N) : option N :=
  match n with
  | O => Some cur
  | S m => match try_acquire limit cur with Some c => acquire_many limit m c | None => None end
  end.

(* ------------------------------------------------------------------ permits *)

Inductive permit : Type :=
| NoPermit                          (* &NoPermit{} : Release does nothing *)
| ReleasePermit (released : bool).  (* &ReleasePermit{action: sem.Release(1)} *)

(* GetInboundPermit / GetOutboundPermit *)
Definition get_permit (limit cur : N) : permit * bool * N :=
  match try_acquire limit cur with
  | Some c => (ReleasePermit false, true, c)
  | None => (NoPermit, false, cur)
  end.

(* permit.Release() *)
Definition permit_release (p : permit) (cur : N) : permit * res N :=
  match p with
  | NoPermit => (NoPermit, Ok cur)
  | ReleasePermit true => (ReleasePermit true, Ok cur)             (* CompareAndSwap fails: no-op *)
  | ReleasePermit false => (ReleasePermit true, sem_release cur)   (* CompareAndSwap succeeds: action() *)
  end.

(* ------------------------------------------------------------------ slot events of one offer *)

Inductive ev : Type :=
| Acquire      (* a successful Get..Permit *)
| Release.     (* one CALL of permit.Release() (effective or not) *)

Definition is_acquire (e : ev) : bool := match e with Acquire => true | Release => false end.
Definition is_release (e : ev) : bool := match e with Release => true | Acquire => false end.

Definition acquired (evs : list ev) : bool := existsb is_acquire evs.
Definition calls (evs : list ev) : nat := length (filter is_release evs).

(* the permit seen by one offer: state of the permit and how often action() ran *)
Definition exec_ev (st : permit * nat) (e : ev) : permit * nat :=
  match e with
  | Acquire => (ReleasePermit false, snd st)
  | Release => match fst st with
               | ReleasePermit false => (ReleasePermit true, S (snd st))
               | _ => st
               end
  end.
Definition exec (p0 : permit) (evs : list ev) : permit * nat := fold_left exec_ev evs (p0, O).
(* number of times the semaphore was really released on behalf of this offer *)
Definition effective (evs : list ev) : nat := snd (exec NoPermit evs).

(* ------------------------------------------------------------------ outbound flow *)

(* the transfer goroutine of processOffer:  `defer permit.Release()` first, then the loop whose every arm returns *)
Inductive transfer : Type :=
| TShutdown      (* case <-ctx.Done(): return *)
| TDialFail      (* DialWithCid error *)
| TWriteFail     (* conn.Write error *)
| TSuccess.
Definition transfer_goroutine (t : transfer) : list ev :=
  match t with
  | TShutdown => []
  | TDialFail => []
  | TWriteFail => []
  | TSuccess => []
  end ++ [Release].                                   (* the deferred call *)

(* processOffer: `notStartedUtp := true; defer func(){ if notStartedUtp { permit.Release() } }()`, checks in code order *)
Inductive reply : Type :=
| REmpty                 (* len(resp) == 0                       -> ErrEmptyResp *)
| RWrongCode             (* resp[0] != ACCEPT *)
| RUndecodable           (* parseOfferResp error (version lookup or UnmarshalSSZ) *)
| RWrongCount            (* accept.GetKeyLength() != contentKeysNumber *)
| RAllDeclined           (* len(acceptIndices) == 0              -> returns the verdicts, nil *)
| RAccepted (t : transfer).
Definition process_offer (r : reply) : list ev :=
  let deferred (notStartedUtp : bool) : list ev := if notStartedUtp then [Release] else [] in
  match r with
  | REmpty => deferred true
  | RWrongCode => deferred true
  | RUndecodable => deferred true
  | RWrongCount => deferred true
  | RAllDeclined => deferred true
  | RAccepted t => deferred false ++ transfer_goroutine t
  end.
(* does processOffer return an error *)
Definition process_offer_err (r : reply) : bool :=
  match r with RAllDeclined => false | RAccepted _ => false | _ => true end.

(* offer(): MarshalSSZ, TalkRequest, processOffer *)
Inductive offer_step : Type :=
| SMarshalErr            (* offer.MarshalSSZ() fails: more than 64 keys or a key longer than 2048 bytes *)
| STalkErr               (* DiscV5.TalkRequest error: RPC timeout (silent peer), transport closed *)
| SReply (r : reply).
Definition offer (fixed : bool) (s : offer_step) : list ev :=
  match s with
  | SMarshalErr => if fixed then [Release] else []       (* as found: `return nil, err` and nothing else *)
  | STalkErr => if fixed then [Release] else []          (* as found: `return nil, err` and nothing else *)
  | SReply r => process_offer r
  end.
Definition offer_err (s : offer_step) : bool :=
  match s with SMarshalErr => true | STalkErr => true | SReply r => process_offer_err r end.

(* one gossip target after its permit was obtained *)
Inductive out_path : Type :=
| PQueueFull             (* select default: the request is dropped *)
| PShutdownQueued        (* closeCtx is cancelled while the request is still in the queue: no worker takes it out *)
| PWorker (s : offer_step).   (* offerWorker: p.offer(node, request, permit) *)
Definition gossip_path (fixed : bool) (p : out_path) : list ev :=
  match p with
  | PQueueFull => if fixed then [Release] else []        (* as found: log + metric only *)
  | PShutdownQueued => []
  | PWorker s => offer fixed s
  end.

Inductive out_outcome : Type :=
| ONoPermit              (* GetOutboundPermit failed: `continue` *)
| OGot (p : out_path).
Definition out_events (fixed : bool) (o : out_outcome) : list ev :=
  match o with
  | ONoPermit => []
  | OGot p => Acquire :: gossip_path fixed p
  end.

(* One pass of `for _, n := range finalGossipNodes` over `targets` nodes, on the real semaphore.
   room = free places in the offer queue.  Result: semaphore, room, (queued, dropped, skipped). *)
Fixpoint gossip_round (fixed : bool) (limit : N) (targets : nat) (sem room : N) (acc : N * N * N) : res (N * N * (N * N * N)) :=
  match targets with
  | O => Ok (sem, room, acc)
  | S t =>
      let '(q, d, s) := acc in
      match get_permit limit sem with
      | (_, false, _) => gossip_round fixed limit t sem room (q, d, s + 1)
      | (p, true, c) =>
          if 0 <? room then gossip_round fixed limit t c (room - 1) (q + 1, d, s)
          else if fixed then
            match permit_release p c with
            | (_, Ok c') => gossip_round fixed limit t c' room (q, d + 1, s)
            | (_, Err e) => Err e
            | (_, Panic) => Panic
            end
          else gossip_round fixed limit t c room (q, d + 1, s)
      end
  end.

(* ------------------------------------------------------------------ inbound flow *)

(* handleOfferedContents *)
Inductive handled : Type :=
| HDecodeErr             (* decodeContents error            -> error *)
| HCountMismatch         (* keyLen != contentLen            -> error *)
| HEnqueued              (* contentQueue <- element         -> nil *)
| HQueueFull.            (* select default: discarded       -> nil *)
Definition handled_err (h : handled) : bool :=
  match h with HDecodeErr => true | HCountMismatch => true | _ => false end.

(* one iteration of the `for { select { ... } }` of the receive goroutine *)
Inductive recv_iter : Type :=
| RShutdown              (* case <-bctx.Done(): return *)
| RAcceptFail            (* AcceptWithCid error (nobody connects within 15 s, or cancelled): return *)
| RRead (h : handled).   (* ReadToEOF (whatever it returns); conn.Close(); releasePermit.Release(); handleOfferedContents *)

(* The loop: an iteration whose handleOfferedContents succeeds does NOT return, the loop goes round again
   (accepting once more on the same connection id).  Result: the Release calls made inside the loop and
   whether the goroutine has returned (false: the iteration list ended while it is still looping). *)
Fixpoint recv_loop (its : list recv_iter) : list ev * bool :=
  match its with
  | [] => ([], false)
  | RShutdown :: _ => ([], true)
  | RAcceptFail :: _ => ([], true)
  | RRead h :: rest =>
      if handled_err h then ([Release], true)
      else let (e, f) := recv_loop rest in (Release :: e, f)
  end.
(* `defer releasePermit.Release()` runs when the goroutine returns *)
Definition recv_goroutine (its : list recv_iter) : list ev * bool :=
  let (e, f) := recv_loop its in
  (if f then e ++ [Release] else e, f).

Inductive in_outcome : Type :=
| IVersionErr            (* getOrStoreHighestVersion error *)
| IFilterErr             (* filterContentKeys error *)
| INoKeyAccepted         (* len(contentKeys) == 0: no permit is asked for *)
| INoPermit              (* GetInboundPermit failed: verdicts become RateLimited (v1), connection id 0 *)
| IGot (its : list recv_iter).
(* events and "everything this offer started has returned" *)
Definition in_events (o : in_outcome) : list ev * bool :=
  match o with
  | IVersionErr => ([], true)
  | IFilterErr => ([], true)
  | INoKeyAccepted => ([], true)
  | INoPermit => ([], true)
  | IGot its => let (e, f) := recv_goroutine its in (Acquire :: e, f)
  end.

(* ------------------------------------------------------------------ any number of offers under any schedule *)

(* An offer is reduced to what matters for the semaphore: it asks for a permit once and, if it got one, calls Release
   k times (k = calls of its flow); without a permit it makes no call (gossip: continue; handleOffer: no goroutine). *)
Inductive local : Type :=
| LPending (k : nat)                  (* has not asked yet *)
| LRunning (p : permit) (k : nat).    (* k calls of p.Release() still to come; k = 0: finished *)

Definition local_step (limit sem : N) (l : local) : res (N * local) :=
  match l with
  | LPending k =>
      match get_permit limit sem with
      | (p, true, c) => Ok (c, LRunning p k)
      | (p, false, c) => Ok (c, LRunning p O)
      end
  | LRunning p O => Ok (sem, l)
  | LRunning p (S k) =>
      match permit_release p sem with
      | (p', Ok c) => Ok (c, LRunning p' k)
      | (_, Err e) => Err e
      | (_, Panic) => Panic
      end
  end.

Fixpoint upd {A} (l : list A) (i : nat) (x : A) : list A :=
  match l, i with
  | [], _ => []
  | _ :: r, O => x :: r
  | y :: r, S j => y :: upd r j x
  end.

(* the scheduler lets offer number i take its next step; an index naming no offer is a stutter *)
Definition sched_step (limit : N) (g : N * list local) (i : nat) : res (N * list local) :=
  match nth_error (snd g) i with
  | None => Ok g
  | Some l =>
      match local_step limit (fst g) l with
      | Ok (c, l') => Ok (c, upd (snd g) i l')
      | Err e => Err e
      | Panic => Panic
      end
  end.
Fixpoint sched_run (limit : N) (sched : list nat) (g : N * list local) : res (N * list local) :=
  match sched with
  | [] => Ok g
  | i :: r => match sched_step limit g i with Ok g' => sched_run limit r g' | Err e => Err e | Panic => Panic end
  end.

Definition local_finished (l : local) : bool := match l with LRunning _ O => true | _ => false end.
Definition all_finished (ls : list local) : bool := forallb local_finished ls.
Definition local_holding (l : local) : bool := match l with LRunning (ReleasePermit false) _ => true | _ => false end.

(* offers as they start: one per flow, k = Release calls of the flow *)
Definition start_offers (flows : list (list ev)) : list local := map (fun e => LPending (calls e)) flows.
(* sequential composition: offer 0 runs to its end, then offer 1, ... *)
Fixpoint seq_sched (i : nat) (ks : list nat) : list nat :=
  match ks with
  | [] => []
  | k :: r => repeat i (S k) ++ seq_sched (S i) r
  end.

(* ------------------------------------------------------------------ inbound transfer phases *)

(* The receive goroutine of handleOffer with the order of its steps made explicit.  An inbound transfer is IN PROGRESS
   from the moment its slot is taken until the read of its stream has ended (ReadToEOF + Close returned) or the goroutine
   gave up (shutdown / nobody connected).  PRelease is one CALL of releasePermit.Release(). *)
Inductive phase : Type :=
| PAcquire        (* GetInboundPermit succeeded (handleOffer, before the goroutine is started) *)
| PConnected      (* AcceptWithCid returned a stream *)
| PReadDone       (* ReadToEOF and conn.Close() have returned *)
| PGaveUp         (* case <-bctx.Done() / AcceptWithCid error: the goroutine returns without a (further) stream *)
| PRelease.       (* a call of releasePermit.Release() *)

(* early = false: the code as it is ("release permit fast" stands AFTER ReadToEOF/Close);
   early = true : the ordering in which that call stands right after AcceptWithCid (used only to show that the
                  in-progress theorem does distinguish the two).
   loops = false: the repaired code (fixes/C16-receive-goroutine-returns-after-success.diff): the goroutine returns after a
                  successfully handled stream;
   loops = true : the code as found: it goes round the loop and accepts again on the same connection id. *)
Fixpoint recv_phases_loop (early loops : bool) (its : list recv_iter) : list phase * bool :=
  match its with
  | [] => ([], false)
  | RShutdown :: _ => ([PGaveUp], true)
  | RAcceptFail :: _ => ([PGaveUp], true)
  | RRead h :: rest =>
      let one := if early then [PConnected; PRelease; PReadDone] else [PConnected; PReadDone; PRelease] in
      if handled_err h || negb loops then (one, true)
      else let (e, f) := recv_phases_loop early loops rest in (one ++ e, f)
  end.
Definition recv_phases (early loops : bool) (its : list recv_iter) : list phase * bool :=
  let (e, f) := recv_phases_loop early loops its in
  (PAcquire :: (if f then e ++ [PRelease] else e), f).        (* the deferred Release when the goroutine returns *)

(* forgetting the phases gives back the slot events of in_events *)
Definition phase_ev (p : phase) : list ev :=
  match p with PAcquire => [Acquire] | PRelease => [Release] | _ => [] end.
Definition erase_phases (ps : list phase) : list ev := flat_map phase_ev ps.

(* "the slot is held whenever the transfer is in progress", checked along a phase list from a state (held, inprog) *)
Fixpoint slot_covers (held inprog : bool) (ps : list phase) : bool :=
  (implb inprog held) &&
  match ps with
  | [] => true
  | PAcquire :: r => negb held && slot_covers true true r      (* a slot is asked for once, before anything else *)
  | PConnected :: r => slot_covers held true r      (* a (further) stream on the same connection id: a transfer is in progress *)
  | PReadDone :: r => slot_covers held false r
  | PGaveUp :: r => slot_covers held false r
  | PRelease :: r => slot_covers false inprog r
  end.

(* several inbound offers, each with its phase list, interleaved by a scheduler on the real semaphore *)
Record itransfer : Type := { it_held : bool; it_inprog : bool; it_rest : list phase }.

Definition it_step (limit sem : N) (t : itransfer) : res (N * itransfer) :=
  match it_rest t with
  | [] => Ok (sem, t)
  | PAcquire :: r =>
      match try_acquire limit sem with
      | Some c => Ok (c, {| it_held := true; it_inprog := true; it_rest := r |})
      | None => Ok (sem, {| it_held := false; it_inprog := false; it_rest := [] |})   (* rate limited: no goroutine *)
      end
  | PConnected :: r => Ok (sem, {| it_held := it_held t; it_inprog := true; it_rest := r |})
  | PReadDone :: r => Ok (sem, {| it_held := it_held t; it_inprog := false; it_rest := r |})
  | PGaveUp :: r => Ok (sem, {| it_held := it_held t; it_inprog := false; it_rest := r |})
  | PRelease :: r =>
      if it_held t then
        match sem_release sem with
        | Ok c => Ok (c, {| it_held := false; it_inprog := it_inprog t; it_rest := r |})
        | Err e => Err e
        | Panic => Panic
        end
      else Ok (sem, {| it_held := false; it_inprog := it_inprog t; it_rest := r |})
  end.

Definition isched_step (limit : N) (g : N * list itransfer) (i : nat) : res (N * list itransfer) :=
  match nth_error (snd g) i with
  | None => Ok g
  | Some t =>
      match it_step limit (fst g) t with
      | Ok (c, t') => Ok (c, upd (snd g) i t')
      | Err e => Err e
      | Panic => Panic
      end
  end.
Fixpoint isched_run (limit : N) (sched : list nat) (g : N * list itransfer) : res (N * list itransfer) :=
  match sched with
  | [] => Ok g
  | i :: r => match isched_step limit g i with Ok g' => isched_run limit r g' | Err e => Err e | Panic => Panic end
  end.

Definition it_start (ps : list phase) : itransfer := {| it_held := false; it_inprog := false; it_rest := ps |}.
Definition n_inprog (ts : list itransfer) : nat := length (filter it_inprog ts).
Definition n_held (ts : list itransfer) : nat := length (filter it_held ts).

(* The scenario the harness plays on a receiver with `limit` slots of which `held0` are taken by the harness:
   offer 1 is accepted and its sender connects and stalls; then the free slots are counted and a second offer arrives;
   then the first sender completes.  Result: (free slots during the stall, second offer got a slot, free slots at the end). *)
Definition stall_scenario (early loops : bool) (limit held0 : N) : res (N * bool * N) :=
  let t1 := it_start (fst (recv_phases early loops [RRead HEnqueued; RAcceptFail])) in
  let t2 := it_start (fst (recv_phases early loops [RAcceptFail])) in
  (* offer 1: acquire, connected (and, in the early ordering, the release that directly follows) *)
  let pre := if early then [0; 0; 0]%nat else [0; 0]%nat in
  match isched_run limit pre (held0, [t1; t2]) with
  | Ok (sem1, ts1) =>
      let free_during := limit - sem1 in
      match isched_run limit [1%nat] (sem1, ts1) with
      | Ok (sem2, ts2) =>
          let second := match nth_error ts2 1 with Some t => it_held t | None => false end in
          (* everything runs to its end *)
          match isched_run limit (repeat 0%nat 8 ++ repeat 1%nat 8) (sem2, ts2) with
          | Ok (sem3, _) => Ok (free_during, second, limit - sem3)
          | Err e => Err e
          | Panic => Panic
          end
      | Err e => Err e
      | Panic => Panic
      end
  | Err e => Err e
  | Panic => Panic
  end.

(* ------------------------------------------------------------------ outbound transfer phases *)

(* The same phase alphabet for the outbound side.  An outbound transfer is IN PROGRESS from the moment its slot is taken
   (gossip) until the offer has ended: offer()/processOffer returned without starting a transfer (PGaveUp), or the transfer
   goroutine has finished dialling and writing (PConnected = DialWithCid returned a stream, PReadDone = conn.Write and
   conn.Close returned) or gave up (PGaveUp: shutdown, dial failure).
   early = false: the code as it is (the deferred closure of processOffer reads notStartedUtp when it RUNS);
   early = true : the closure gets the flag as an argument, i.e. evaluated at the defer statement: the Release happens when
                  processOffer returns although the transfer goroutine has been started. *)
Definition transfer_phases (t : transfer) : list phase :=
  match t with
  | TShutdown => [PGaveUp]
  | TDialFail => [PGaveUp]
  | TWriteFail => [PConnected; PReadDone]
  | TSuccess => [PConnected; PReadDone]
  end ++ [PRelease].                                  (* the goroutine's deferred call *)
Definition process_offer_phases (early : bool) (r : reply) : list phase :=
  match r with
  | RAccepted t => (if early then [PRelease] else []) ++ transfer_phases t
  | _ => [PGaveUp; PRelease]
  end.
Definition offer_phases (early : bool) (s : offer_step) : list phase :=
  match s with
  | SMarshalErr => [PGaveUp; PRelease]
  | STalkErr => [PGaveUp; PRelease]
  | SReply r => process_offer_phases early r
  end.
Definition out_phases (early : bool) (o : out_outcome) : list phase :=
  match o with
  | ONoPermit => []
  | OGot PQueueFull => [PAcquire; PGaveUp; PRelease]
  | OGot PShutdownQueued => [PAcquire]
  | OGot (PWorker s) => PAcquire :: offer_phases early s
  end.

(* the scenario the harness plays: `held0` outbound slots taken, one accepted offer whose receiver never lets the uTP
   stream come up (the transfer goroutine keeps dialling); free slots while it dials, free slots at the end *)
Definition ostall_scenario (early : bool) (limit held0 : N) : res (N * N) :=
  let t1 := it_start (out_phases early (OGot (PWorker (SReply (RAccepted TDialFail))))) in
  let pre := if early then [0; 0]%nat else [0]%nat in
  match isched_run limit pre (held0, [t1]) with
  | Ok (sem1, ts1) =>
      match isched_run limit (repeat 0%nat 6) (sem1, ts1) with
      | Ok (sem2, _) => Ok (limit - sem1, limit - sem2)
      | Err e => Err e
      | Panic => Panic
      end
  | Err e => Err e
  | Panic => Panic
  end.

(* ------------------------------------------------------------------ stale handles: any sequence of Get / Release on ANY permit *)

(* The controller hands out permit objects; the protocol code keeps a handle and may call Release on it again later
   (handleOffer does: "release permit fast" and then the deferred call).  A handle that has been released stays released
   for ever: a second Release through it is a no-op, whatever permits have been handed out in between. *)
Inductive pop : Type :=
| PopGet                 (* Get..Permit: appends the permit it returns (NoPermit on failure) to the list of handles *)
| PopRelease (i : nat)   (* Release through the i-th handle ever handed out (no such handle: nothing happens) *)
| PopRestart.            (* UtpTransportService.Start() called again (every sub-network's PortalProtocol.Start() calls it on
                            the shared service): startOnce makes it a no-op, the slot controller and its counters stay *)

Definition pop_step (limit : N) (st : N * list permit) (o : pop) : res (N * list permit * bool) :=
  let (sem, hs) := st in
  match o with
  | PopGet => let '(p, ok, c) := get_permit limit sem in Ok (c, hs ++ [p], ok)
  | PopRelease i =>
      match nth_error hs i with
      | None => Ok (sem, hs, true)
      | Some p =>
          match permit_release p sem with
          | (p', Ok c) => Ok (c, upd hs i p', true)
          | (_, Err e) => Err e
          | (_, Panic) => Panic
          end
      end
  | PopRestart => Ok (sem, hs, true)
  end.

(* per step: (Get succeeded / n.a., slots in use after the step) *)
Fixpoint pops_run (limit : N) (ops : list pop) (st : N * list permit) : res (list (bool * N)) :=
  match ops with
  | [] => Ok []
  | o :: r =>
      match pop_step limit st o with
      | Ok (c, hs, ok) =>
          match pops_run limit r (c, hs) with
          | Ok l => Ok ((ok, c) :: l)
          | Err e => Err e
          | Panic => Panic
          end
      | Err e => Err e
      | Panic => Panic
      end
  end.

Definition handle_live (p : permit) : bool := match p with ReleasePermit false => true | _ => false end.
Definition n_live (hs : list permit) : nat := length (filter handle_live hs).
