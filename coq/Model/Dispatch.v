(* Model/Dispatch.v : the entry points a remote peer can reach, at the level of their index / slice
   expressions and dispatch (C01).  Mirrors
     portalwire/portal_protocol.go  handleTalkRequest, processPong, processNodes, processContent, processOffer,
                                    handleOfferedContents
     history/storage.go isEphemeralOfferType, history/validation.go ValidateContent (dispatch only)
     beacon/storage.go Get / Put (dispatch, HistoricalSummaries record handling, reverseCompare), beacon/validation.go
     state/storage.go Put, state/validation.go ValidateContent (dispatch only)
   Every Go x[i] / x[a:b] is the checked idx / slice of Base/Bytes.v.  What lies behind the dispatch (SSZ decoders,
   handlers, validators) is a Section function: the deeper logic is the subject of the other properties.
   The flag g says whether the length guards added by the "fix:" commits are present (g = true is the current code,
   g = false is the code as found, kept so that the refutations stay machine-checked). *)
From Shisui Require Import Base.Bytes Model.Framing.

Inductive reply := Reply | Empty.

Definition E_EMPTY_RESP : N := 30.
Definition E_BAD_CODE : N := 31.
Definition E_BAD_KEY : N := 32.
Definition E_NOT_FOUND : N := 33.
Definition E_COUNT : N := 34.
Definition E_UNKNOWN_TYPE : N := 35.

Definition tail1 (b : bytes) : res bytes := slice b 1 (length b).     (* Go b[1:] *)

Section Dispatch.
  (* message codes / selectors (regenerated constants are compared with these in Proofs/Dispatch.v) *)
  Variable PING PONG FINDNODES NODES FINDCONTENT CONTENT OFFER ACCEPT : N.
  Variable SEL_CONNID SEL_RAW SEL_ENRS : N.

  (* what happens after the dispatch, as total functions of the remaining bytes *)
  Variable h_ping h_findnodes h_findcontent h_offer : bytes -> res reply.
  Variable p_pong p_nodes p_accept p_raw p_connid p_enrs : bytes -> res unit.

  Definition handle_talk_request (g : bool) (msg : bytes) : res reply :=
    if g && Nat.eqb (length msg) 0 then Ok Empty else
    bind (idx msg 0) (fun code =>
    let c := b2n code in
    if c =? PING then bind (tail1 msg) h_ping
    else if c =? FINDNODES then bind (tail1 msg) h_findnodes
    else if c =? FINDCONTENT then bind (tail1 msg) h_findcontent
    else if c =? OFFER then bind (tail1 msg) h_offer
    else Ok Empty).

  (* processPong / processNodes / processOffer share the shape: empty check, code check, body = resp[1:] *)
  Definition process_resp (code : N) (k : bytes -> res unit) (resp : bytes) : res unit :=
    if Nat.eqb (length resp) 0 then Err E_EMPTY_RESP else
    bind (idx resp 0) (fun c =>
    if negb (b2n c =? code) then Err E_BAD_CODE else bind (tail1 resp) k).
  Definition process_pong := process_resp PONG p_pong.
  Definition process_nodes := process_resp NODES p_nodes.
  Definition process_offer := process_resp ACCEPT p_accept.

  Definition process_content (g : bool) (resp : bytes) : res unit :=
    if Nat.eqb (length resp) 0 then Err E_EMPTY_RESP else
    bind (idx resp 0) (fun c =>
    if negb (b2n c =? CONTENT) then Err E_BAD_CODE else
    if g && Nat.ltb (length resp) 2 then Err E_BAD_CODE else
    bind (idx resp 1) (fun s =>
    let sel := b2n s in
    if sel =? SEL_RAW then bind (slice resp 2 (length resp)) p_raw
    else if sel =? SEL_CONNID then bind (slice resp 2 (length resp)) p_connid
    else if sel =? SEL_ENRS then bind (slice resp 2 (length resp)) p_enrs
    else Err E_BAD_CODE)).

  (* handleOfferedContents: decode the stream, compare counts, enqueue (or drop when the queue is full) *)
  Definition handle_offered_contents (nkeys : nat) (payload : bytes) : res (option (list bytes)) :=
    match decode_contents payload with
    | Ok cs => if Nat.eqb nkeys (length cs) then Ok (Some cs) else Err E_COUNT
    | Err e => Err e
    | Panic => Panic
    end.
End Dispatch.

(* ---------------- storage adapters and validators: dispatch on contentKey[0] ---------------- *)

Section Adapters.
  Variable k_sub : N -> bytes -> bytes -> res unit.   (* per-type work on (key body, content): decoders, validators, db *)

  (* a dispatch of the shape  switch T(contentKey[0]) { case ...: f(contentKey[1:], content) }  *)
  Definition key_dispatch (g : bool) (types : list N) (key content : bytes) : res unit :=
    if g && Nat.eqb (length key) 0 then Err E_BAD_KEY else
    bind (idx key 0) (fun t =>
    if existsb (N.eqb (b2n t)) types then bind (tail1 key) (fun body => k_sub (b2n t) body content)
    else Err E_UNKNOWN_TYPE).
End Adapters.

(* history/storage.go: isEphemeralOfferType *)
Definition history_is_ephemeral (g : bool) (offer_ephemeral : N) (key : bytes) : res bool :=
  if g && Nat.eqb (length key) 0 then Ok false else
  bind (idx key 0) (fun t => Ok (b2n t =? offer_ephemeral)).

(* beacon/storage.go: reverseCompare(a, b): for i := len(a)-1; i >= 0; i-- { a[i] vs b[i] } *)
Fixpoint reverse_compare_aux (n : nat) (a b : bytes) : res Z :=
  match n with
  | O => Ok 0%Z
  | S i =>
      bind (idx a i) (fun x => bind (idx b i) (fun y =>
      if b2n y <? b2n x then Ok 1%Z else if b2n x <? b2n y then Ok (-1)%Z else reverse_compare_aux i a b))
  end.
Definition reverse_compare (a b : bytes) : res Z := reverse_compare_aux (length a) a b.

(* beacon Get, HistoricalSummaries case: stored = the record under the constant key, if any.
   Returns the bytes handed back (record without its 8-byte epoch prefix) or not-found. *)
Definition beacon_get_summaries (g : bool) (key : bytes) (stored : option bytes) : res bytes :=
  match stored with
  | None => Err E_NOT_FOUND
  | Some data =>
      if g then
        if Nat.leb 8 (length data) && Nat.eqb (length key) 9 then
          bind (slice data 0 8) (fun ep => bind (tail1 key) (fun kb => bind (reverse_compare ep kb) (fun c =>
          if (c =? -1)%Z then Err E_NOT_FOUND else slice data 8 (length data))))
        else Err E_NOT_FOUND
      else
        bind (slice data 0 8) (fun ep => bind (tail1 key) (fun kb => bind (reverse_compare ep kb) (fun c =>
        if (c =? -1)%Z then Err E_NOT_FOUND else slice data 8 (length data))))
  end.

(* beacon Put, HistoricalSummaries case: returns the new stored record *)
Definition beacon_put_summaries (g : bool) (key content : bytes) (stored : option bytes) : res (option bytes) :=
  if g && negb (Nat.eqb (length key) 9) then Err E_BAD_KEY else
  bind (tail1 key) (fun kb =>
  match stored with
  | None => Ok (Some (kb ++ content))
  | Some data =>
      if g then
        if Nat.ltb (length data) 8 then Ok (Some (kb ++ content)) else
        bind (slice data 0 8) (fun ep => bind (reverse_compare kb ep) (fun c =>
        if (c =? 1)%Z then Ok (Some (kb ++ content)) else Ok stored))
      else
        bind (slice data 0 8) (fun ep => bind (reverse_compare kb ep) (fun c =>
        if (c =? 1)%Z then Ok (Some (kb ++ content)) else Ok stored))
  end).
