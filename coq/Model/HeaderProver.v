(* Model/HeaderProver.v : the prover side of C03 - the pre-merge accumulator builder and the proof builder.
   Mirrors  history/accumulator.go   epoch.add, Accumulator.Update, Accumulator.Finish, MixInLength, BuildProof
            history/types_encoding.go EpochAccumulator.HashTreeRootWith (Vector[HeaderRecord, 8192] = 16384 chunks, merkleized),
                                       HeaderRecord = BlockHash (32) ++ TotalDifficulty (uint256, little endian)
   Library: fastssz Merkleize / ProofTree(...).Prove over the pair hash H (Section variable; sha_pair for execution).
   The epoch tree is never materialised: an epoch is kept as the flat list of the chunks added so far
   (hash_0, td_0, hash_1, td_1, ...); the zero padding of Finish is implicit (a missing chunk is the zero chunk) and roots of
   empty subtrees are the zero hashes, which is what makes a partial epoch cheap to run.
   No proofs in this file. *)
From Shisui Require Import Base.Bytes Base.Merkle Base.Sha256 Gen.K_header.

Definition E_NOT_PREMERGE : N := 30.     (* ErrNotPreMergeHeader *)

Definition zero_chunk : bytes := repeat x00 32.
Definition two256 : N := 2 ^ 256.

(* k bytes little endian (uint256.MarshalSSZ for k = 32; PutUint32 into a zeroed 32-byte buffer for values < 2^32) *)
Fixpoint le_bytes (k : nat) (n : N) : bytes :=
  match k with O => [] | S k' => n2b (n mod 256) :: le_bytes k' (n / 256) end.

(* number of leaves of a complete subtree of depth k *)
Definition half (k : nat) : nat := N.to_nat (2 ^ N.of_nat k).

Section Prover.
  Variable H : bytes -> bytes -> bytes.

  Fixpoint zero_hash (d : nat) : bytes :=
    match d with O => zero_chunk | S k => let z := zero_hash k in H z z end.

  (* root of the complete depth-d tree whose first leaves are l, all others the zero chunk *)
  Fixpoint sroot (d : nat) (l : list bytes) : bytes :=
    match d with
    | O => nth 0 l zero_chunk
    | S k => match l with
             | [] => zero_hash (S k)
             | _ => H (sroot k (firstn (half k) l)) (sroot k (skipn (half k) l))
             end
    end.

  (* the siblings on the way to leaf number (idx mod 2^d), root side first *)
  Fixpoint ssibs (d : nat) (l : list bytes) (idx : N) : list bytes :=
    match d with
    | O => []
    | S k =>
        let lo := firstn (half k) l in
        let hi := skipn (half k) l in
        if N.testbit idx (N.of_nat k) then sroot k lo :: ssibs k hi idx else sroot k hi :: ssibs k lo idx
    end.

  (* the same two functions with the zero hashes taken from a table computed once ([zero_hash d; ...; zero_hash 0]);
     these are the ones that run (Proofs/HeaderProver.v: sroot_t_eq, ssibs_t_eq) *)
  Fixpoint zero_table (d : nat) : list bytes :=
    match d with
    | O => [zero_chunk]
    | S k => let t := zero_table k in let z := hd zero_chunk t in H z z :: t
    end.
  Fixpoint sroot_t (t : list bytes) (d : nat) (l : list bytes) : bytes :=
    match d with
    | O => nth 0 l zero_chunk
    | S k => match l with
             | [] => hd zero_chunk t
             | _ => H (sroot_t (tl t) k (firstn (half k) l)) (sroot_t (tl t) k (skipn (half k) l))
             end
    end.
  Fixpoint ssibs_t (t : list bytes) (d : nat) (l : list bytes) (idx : N) : list bytes :=
    match d with
    | O => []
    | S k =>
        let lo := firstn (half k) l in
        let hi := skipn (half k) l in
        if N.testbit idx (N.of_nat k) then sroot_t (tl t) k lo :: ssibs_t (tl t) k hi idx
        else sroot_t (tl t) k hi :: ssibs_t (tl t) k lo idx
    end.

  (* MixInLength(root, length) *)
  Definition mix_in_length (root : bytes) (length : N) : bytes := H root (le_bytes 32 length).

  (* EpochAccumulator{records}.HashTreeRoot() then MixInLength(root, epochSize) - what Update and Finish append *)
  Definition epoch_root (chunks : list bytes) : bytes := mix_in_length (sroot_t (zero_table 14) 14 chunks) K_proverEpochSize.

  Record acc_st : Type := mk_acc { a_hist : list bytes; a_chunks : list bytes; a_count : N; a_diff : N }.
  Definition acc_new : acc_st := mk_acc [] [] 0 0.

  (* Accumulator.Update(header): header = (Number, Hash(), Difficulty) *)
  Definition acc_update (a : acc_st) (h : N * bytes * N) : res acc_st :=
    let '(number, hash, diff) := h in
    if K_proverMergeBlockNumber <=? number then Err E_NOT_PREMERGE else
    let a' := if a_count a =? K_proverEpochSize
              then mk_acc (a_hist a ++ [epoch_root (a_chunks a)]) [] 0 0      (* close the epoch, newEpoch() *)
              else a in
    (* epoch.add: total difficulty accumulates inside the epoch object (uint256 arithmetic) *)
    let d := (a_diff a' + diff) mod two256 in
    Ok (mk_acc (a_hist a') (a_chunks a' ++ [hash; le_bytes 32 d]) (a_count a' + 1) d).

  Fixpoint acc_run (a : acc_st) (hs : list (N * bytes * N)) : res acc_st :=
    match hs with
    | [] => Ok a
    | h :: r => bind (acc_update a h) (fun a' => acc_run a' r)
    end.

  (* Accumulator.Finish(): pad with zero records, close the last epoch *)
  Definition acc_finish (a : acc_st) : list bytes := a_hist a ++ [epoch_root (a_chunks a)].

  Definition build_accumulator (hs : list (N * bytes * N)) : res (list bytes) :=
    bind (acc_run acc_new hs) (fun a => Ok (acc_finish a)).

  (* BuildProof(header, epochAccumulator): 14 hashes from tree.Prove(epochSize*2 + index*2), leaf side first, then the size chunk *)
  Definition build_proof (chunks : list bytes) (number : N) : list bytes :=
    let index := number mod K_proverEpochSize in
    let proof_index := K_proverEpochSize * 2 + index * 2 in
    rev (ssibs_t (zero_table 14) 14 chunks proof_index) ++ [le_bytes 32 K_proverEpochSize].
End Prover.

Definition build_accumulator_sha := build_accumulator sha_pair.
Definition build_proof_sha := build_proof sha_pair.
Definition acc_run_sha := acc_run sha_pair.
