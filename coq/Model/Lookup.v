(* Model/Lookup.v : the iterative node lookup and the content lookup built on it (C10).
   Mirrors  portalwire/lookup.go   newLookup / run / advance / shutdown / startQueries / query,
            portalwire/node.go     nodesByDistance.push  (with sort.Search written out),
            portalwire/table.go    findnodeByID (preferLive = false: a fold of push over the bucket entries),
            portalwire/portal_protocol.go  ContentLookup / contentLookupWorker (first content wins, CAS + cancel).
   Node identifiers are N (the big-endian value of the 32 bytes); enode.DistCmp(target, a, b) compares a xor target
   with b xor target bytewise from the most significant byte, i.e. numerically.
   Not modelled: it.replyBuffer and the boolean of advance() (only lookupIterator uses them; run() ignores both),
   the side effects of tab.trackRequest / addFoundNode on the table (the table is a fixed list here), the 1 s slowdown
   of an empty table (time), uTP transfers in processContent (a content answer is just bytes).  The query goroutines
   are the `pending` list: which one replies next is the scheduler's choice, i.e. the argument of the transition.
   No proofs in this file. *)
From Shisui Require Import Base.Bytes Gen.K_table Gen.K_wire.

Definition E_BLOCKED : N := 1.       (* a channel receive that nobody will ever satisfy *)
Definition E_NOT_PENDING : N := 2.   (* schedule names a reply that is not outstanding (driver input error) *)

Definition alphaZ : Z := Z.of_N K_alpha.
Definition bucket_size : nat := N.to_nat K_bucketSize.

Definition findnodes_limit : nat := N.to_nat K_portalFindnodesResultLimit.
Definition lookup_request_limit : nat := N.to_nat K_lookupRequestLimit.

(* enode.LogDist(a, b) = 256 - leading zero bits of a xor b = the bit length of a xor b *)
Definition logdist (a b : N) : Z := Z.of_N (N.size (N.lxor a b)).

(* lookupDistances(target, dest): dists = [td]; for i := 1; len(dists) < lookupRequestLimit; i++ {
     if td+i <= 256 { append td+i }; if td-i > 0 { append td-i } }            (fuel: i never needs to pass 257) *)
Fixpoint lookup_dists_loop (fuel : nat) (td i : Z) (dists : list Z) : list Z :=
  match fuel with
  | O => dists
  | S f =>
      if Nat.ltb (length dists) lookup_request_limit then
        let d1 := if Z.leb (td + i) 256 then dists ++ [(td + i)%Z] else dists in
        let d2 := if Z.ltb 0 (td - i) then d1 ++ [(td - i)%Z] else d1 in
        lookup_dists_loop f td (i + 1)%Z d2
      else dists
  end.
Definition lookup_distances (target dest : N) : list Z :=
  let td := logdist target dest in lookup_dists_loop 600 td 1 [td].

Definition mem (x : N) (l : list N) : bool := existsb (N.eqb x) l.

(* remove the first occurrence *)
Fixpoint remove1 (x : N) (l : list N) : list N :=
  match l with
  | [] => []
  | y :: r => if N.eqb x y then r else y :: remove1 x r
  end.

(* sort.Search(n, f): i, j := 0, n; for i < j { h := int(uint(i+j) >> 1); if !f(h) { i = h + 1 } else { j = h } }; return i.
   f may index a slice, hence res.  fuel = n iterations always suffice (proved); exhaustion is Panic. *)
Fixpoint search_aux (fuel : nat) (f : nat -> res bool) (i j : nat) : res nat :=
  if Nat.ltb i j then
    match fuel with
    | O => Panic
    | S fu =>
        let h := Nat.div (i + j) 2 in
        bind (f h) (fun b => if negb b then search_aux fu f (h + 1) j else search_aux fu f i h)
    end
  else Ok i.
Definition search (n : nat) (f : nat -> res bool) : res nat := search_aux n f 0 n.

(* copy(l[ix+1:], l[ix:]); l[ix] = n       copy moves min(len dst, len src) elements, overlap handled like memmove *)
Definition shift_insert (l : list N) (ix : nat) (n : N) : res (list N) :=
  bind (slice l (ix + 1) (length l)) (fun dst =>
  bind (slice l ix (length l)) (fun src =>
  let k := Nat.min (length dst) (length src) in
  Ok (firstn ix l ++ n :: firstn k src ++ skipn k dst))).

Section Keyed.
  (* key x = distance of x to the target; the code's key is x xor target (xkey below) *)
  Variable key : N -> N.

  (* enode.DistCmp(h.target, h.entries[i].ID(), n.ID()) > 0 *)
  Definition farther (e : list N) (n : N) (i : nat) : res bool :=
    bind (idx e i) (fun x => Ok (match N.compare (key x) (key n) with Gt => true | _ => false end)).

  (* nodesByDistance.push *)
  Definition push (e : list N) (n : N) (maxElems : nat) : res (list N) :=
    bind (search (length e) (farther e n)) (fun ix =>
    let end_ := length e in
    let e1 := if Nat.ltb (length e) maxElems then e ++ [n] else e in
    if Nat.ltb ix end_ then shift_insert e1 ix n else Ok e1).

  Fixpoint push_all (e : list N) (l : list N) (maxElems : nat) : res (list N) :=
    match l with
    | [] => Ok e
    | n :: r => bind (push e n maxElems) (fun e' => push_all e' r maxElems)
    end.

  (* PortalProtocol.lookupWorker, after findNodes returned r:
       nodes := nodesByDistance{target}; for _, n := range r { if n.ID() != self { addFoundNode(n); nodes.push(n, portalFindnodesResultLimit) } }
       return nodes.entries                 -- this is the reply lookup.query hands to the lookup *)
  Definition lookup_worker_reply (self : N) (r : list N) : res (list N) :=
    push_all [] (filter (fun n => negb (N.eqb n self)) r) findnodes_limit.

  (* Table.findnodeByID(target, nresults, false) over the bucket entries in visiting order *)
  Definition findnode_by_id (tbl : list N) (nresults : nat) : res (list N) := push_all [] tbl nresults.

  Record lk := mkLk {
    asked : list N;            (* keys of it.asked in the order they were set, newest first *)
    seen : list N;             (* keys of it.seen, newest first *)
    result : list N;           (* it.result.entries *)
    pending : list N;          (* peers whose query goroutine has not been received from replyCh yet *)
    tpending : option (list N);(* the table's "reply" (closest.entries) while it sits in replyCh *)
    queries : Z;               (* it.queries *)
    alive : bool;              (* it.queryfunc != nil *)
    qlog : list N              (* ghost: every n for which `go it.query(n, ...)` ran, newest first *)
  }.

  (* newLookup *)
  Definition init (self : N) : lk :=
    mkLk [self] [] [] [] None (-1) true [].

  (* for i := 0; i < len(it.result.entries) && it.queries < alpha; i++ { n := entries[i]; if !asked[n] {...} } *)
  Fixpoint ask_loop (l : list N) (a p : list N) (q : Z) (g : list N) : list N * list N * Z * list N :=
    match l with
    | [] => (a, p, q, g)
    | n :: r =>
        if Z.ltb q alphaZ then
          if mem n a then ask_loop r a p q g
          else ask_loop r (n :: a) (p ++ [n]) (q + 1)%Z (n :: g)
        else (a, p, q, g)
    end.

  (* startQueries; the boolean is its return value *)
  Definition start_queries (tbl : list N) (s : lk) : res (lk * bool) :=
    if negb (alive s) then Ok (s, false)
    else if Z.eqb (queries s) (-1) then
      bind (findnode_by_id tbl bucket_size) (fun closest =>
      Ok (mkLk (asked s) (seen s) (result s) (pending s) (Some closest) 1 (alive s) (qlog s), true))
    else
      match ask_loop (result s) (asked s) (pending s) (queries s) (qlog s) with
      | (a, p, q, g) => Ok (mkLk a (seen s) (result s) p (tpending s) q (alive s) g, Z.ltb 0 q)
      end.

  (* for _, n := range nodes { if n != nil && !seen[n] { seen[n] = true; result.push(n, bucketSize); replyBuffer = append(...) } } *)
  Fixpoint absorb (nodes : list (option N)) (sn rs : list N) : res (list N * list N) :=
    match nodes with
    | [] => Ok (sn, rs)
    | None :: r => absorb r sn rs
    | Some n :: r =>
        if mem n sn then absorb r sn rs
        else bind (push rs n bucket_size) (fun rs' => absorb r (n :: sn) rs')
    end.

  (* lookup.query: success := len(r) > 0; it.tab.trackRequest(n, success, r)  -- the flag the table's failure counter sees.
     (Skipped altogether when the query function reports errClosed.) *)
  Definition track_success (r : list (option N)) : bool := Nat.ltb 0 (length r).

  (* case nodes := <-it.replyCh  for the reply of peer p *)
  Definition deliver_peer (s : lk) (p : N) (nodes : list (option N)) : res lk :=
    if mem p (pending s) then
      bind (absorb nodes (seen s) (result s)) (fun '(sn, rs) =>
      Ok (mkLk (asked s) sn rs (remove1 p (pending s)) (tpending s) (queries s - 1)%Z (alive s) (qlog s)))
    else Err E_NOT_PENDING.

  (* case nodes := <-it.replyCh  for the table's reply *)
  Definition deliver_table (s : lk) : res lk :=
    match tpending s with
    | Some l =>
        bind (absorb (map Some l) (seen s) (result s)) (fun '(sn, rs) =>
        Ok (mkLk (asked s) sn rs (pending s) None (queries s - 1)%Z (alive s) (qlog s)))
    | None => Err E_NOT_PENDING
    end.

  (* shutdown: for it.queries > 0 { <-it.replyCh; it.queries-- }; it.queryfunc = nil.
     Each receive takes one outstanding reply (the content is dropped); with nothing outstanding it blocks for ever. *)
  Fixpoint drain (fuel : nat) (p : list N) (tp : option (list N)) (q : Z) : res (list N * option (list N) * Z) :=
    if Z.ltb 0 q then
      match fuel with
      | O => Panic
      | S f =>
          match tp, p with
          | Some _, _ => drain f p None (q - 1)%Z
          | None, _ :: r => drain f r None (q - 1)%Z
          | None, [] => Err E_BLOCKED
          end
      end
    else Ok (p, tp, q).
  Definition shutdown (s : lk) : res lk :=
    bind (drain (Z.to_nat (queries s)) (pending s) (tpending s) (queries s)) (fun '(p, tp, q) =>
    Ok (mkLk (asked s) (seen s) (result s) p tp q false (qlog s))).

  (* ---- one run of lookup.run under a schedule: which outstanding reply the select receives next ---- *)
  Inductive choice := CTable | CReply (p : N) | CCancel.

  Definition apply_choice (ans : N -> list (option N)) (s : lk) (c : choice) : res lk :=
    match c with
    | CTable => deliver_table s
    | CReply p => deliver_peer s p (ans p)
    | CCancel => shutdown s
    end.

  (* run: for it.advance() {}; return it.result.entries.  The boolean says whether startQueries returned false
     (the lookup ended) before the schedule was used up. *)
  Fixpoint run (ans : N -> list (option N)) (tbl : list N) (sched : list choice) (s : lk) : res (lk * bool) :=
    bind (start_queries tbl s) (fun '(s1, more) =>
    if negb more then Ok (s1, true)
    else match sched with
         | [] => Ok (s1, false)
         | c :: rest => bind (apply_choice ans s1 c) (fun s2 => run ans tbl rest s2)
         end).

  (* ---- the lookup as a transition system: every order of events, not only the ones `run` produces ---- *)
  Section Steps.
    Variable ans : N -> list (option N).   (* what peer p answers: arbitrary (duplicates, the asker, cycles, nil entries, nothing) *)
    Variable tbl : list N.                 (* table entries in findnodeByID visiting order *)
    Inductive lstep : lk -> lk -> Prop :=
    | LStart s s' b : start_queries tbl s = Ok (s', b) -> s' <> s -> lstep s s'       (* startQueries did something *)
    | LTable s s' : deliver_table s = Ok s' -> lstep s s'                            (* the table's reply is received *)
    | LReply s p s' : In p (pending s) -> deliver_peer s p (ans p) = Ok s' -> lstep s s'   (* any outstanding reply is received next *)
    | LCancel s s' : alive s = true -> shutdown s = Ok s' -> lstep s s'.             (* the context is cancelled *)
    Inductive steps : nat -> lk -> lk -> Prop :=
    | steps_O s : steps 0 s s
    | steps_S n s s' s'' : steps n s s' -> lstep s' s'' -> steps (S n) s s''.
    Definition reachable (self : N) (s : lk) : Prop := exists n, steps n (init self) s.
    (* lookup.run returns here: startQueries answers false *)
    Definition finished (s : lk) : Prop := exists s', start_queries tbl s = Ok (s', false).
  End Steps.

  (* ---- content lookup ---- *)
  Inductive canswer := AContent (c : bytes) | AEnrs (nodes : list (option N)) | AError.

  (* what contentLookupWorker returns to lookup.query as nodes *)
  Definition nodes_of (a : canswer) : list (option N) :=
    match a with AEnrs nodes => nodes | _ => [] end.

  Record cl := mkCl {
    base : lk;
    worked : list N;          (* peers whose contentLookupWorker has run to its return *)
    found : option bytes;     (* hasResult == 1 with result.Content *)
    cancelled : bool          (* cancel() has been called by the winner *)
  }.
  Definition cinit (self : N) : cl := mkCl (init self) [] None false.

  (* contentLookupWorker for peer p: on content, CompareAndSwap(done, 0, 1) decides; the winner publishes and cancels *)
  Definition cwork (cans : N -> canswer) (s : cl) (p : N) : cl :=
    match cans p with
    | AContent c =>
        match found s with
        | None => mkCl (base s) (p :: worked s) (Some c) true
        | Some _ => mkCl (base s) (p :: worked s) (found s) (cancelled s)
        end
    | _ => mkCl (base s) (p :: worked s) (found s) (cancelled s)
    end.

  Definition with_base (s : cl) (b : lk) : cl := mkCl b (worked s) (found s) (cancelled s).

  Section CSteps.
    Variable cans : N -> canswer.          (* content / closer nodes / error, per peer *)
    Variable tbl : list N.
    Definition cnodes (p : N) : list (option N) := nodes_of (cans p).
    Inductive cstep : cl -> cl -> Prop :=
    | CWork s p : In p (pending (base s)) -> ~ In p (worked s) -> cstep s (cwork cans s p)     (* a worker finishes *)
    | CStart s b' r : start_queries tbl (base s) = Ok (b', r) -> b' <> base s -> cstep s (with_base s b')
    | CTbl s b' : deliver_table (base s) = Ok b' -> cstep s (with_base s b')
    | CRep s p b' : In p (pending (base s)) -> In p (worked s) ->                                (* only a finished worker has replied *)
                    deliver_peer (base s) p (cnodes p) = Ok b' -> cstep s (with_base s b')
    | CCan s b' : alive (base s) = true -> (forall p, In p (pending (base s)) -> In p (worked s)) ->   (* shutdown waits for the workers *)
                  shutdown (base s) = Ok b' -> cstep s (with_base s b').
    Inductive csteps : cl -> cl -> Prop :=
    | csteps_O s : csteps s s
    | csteps_S s s' s'' : csteps s s' -> cstep s' s'' -> csteps s s''.
    Definition creachable (self : N) (s : cl) : Prop := csteps (cinit self) s.
  End CSteps.

  (* ContentLookup's return value once the lookup has drained *)
  Definition content_result (s : cl) : option bytes := found s.
End Keyed.

(* the code's key: xor distance to the target *)
Definition xkey (target : N) (x : N) : N := N.lxor x target.
