(* Model/Versions.v : protocol version negotiation (C19).
   Mirrors  portalwire/portal_protocol_v1.go  findBiggestSameNumber, getOrStoreHighestVersion
   (the expirable versions cache is an argument: any content = any expiry history),
   and the version switch of filterContentKeys / parseOfferResp / encodeUtpContent / decodeUtpContent.
   No proofs in this file. *)
From Shisui Require Import Base.Bytes Model.Framing.

Definition E_EMPTY_SLICE : N := 20.      (* "empty slice provided" *)
Definition E_NO_COMMON : N := 21.        (* "no common values found" *)
Definition E_ENR_LOAD : N := 22.         (* node.Load(&versions) failed with something else than "missing ENR key" *)
Definition E_UNSUPPORTED_VERSION : N := 23.

Fixpoint memN (x : N) (l : list N) : bool :=
  match l with [] => false | y :: r => (x =? y) || memN x r end.

(* the second loop of findBiggestSameNumber: for _, val := range b { if valuesInA[val] { foundCommon = true; if val > maxCommon {..} } } *)
Fixpoint fbs_loop (a b : list N) (found : bool) (maxc : N) : bool * N :=
  match b with
  | [] => (found, maxc)
  | v :: r => if memN v a then fbs_loop a r true (if maxc <? v then v else maxc) else fbs_loop a r found maxc
  end.

(* findBiggestSameNumber returns (uint8, error); the uint8 is 0 whenever the error is set and the
   caller stores it in the cache all the same, so both components are modelled. *)
Definition find_biggest_same (a b : list N) : N * option N :=
  match a, b with
  | [], _ => (0, Some E_EMPTY_SLICE)
  | _, [] => (0, Some E_EMPTY_SLICE)
  | _, _ =>
      let (found, m) := fbs_loop a b false 0 in
      if found then (m, None) else (0, Some E_NO_COMMON)
  end.

(* what node.Load(&protocolVersions{}) sees in the peer's record *)
Inductive pv_entry : Type :=
| PvMissing                    (* enr.IsNotFound *)
| PvMalformed                  (* any other decoding error *)
| PvList (l : list N).         (* RLP byte string = the advertised versions *)

(* The cache key is the identity of the RECORD OBJECT the call is made with (the code keys the cache by *enode.Node
   pointer): a peer that republishes its record is a NEW key, whatever its node id.  rec_key names such an object by
   (node id, record sequence number). *)
Definition vcache := N -> option N.      (* record object -> cached version; expiry = any smaller map *)
Definition rec_key (id seq : N) : N := id * 18446744073709551616 + seq.      (* seq is a uint64 *)
Definition vcache_set (c : vcache) (node v : N) : vcache := fun n => if n =? node then Some v else c n.

(* getOrStoreHighestVersion: result and the cache afterwards.  own = p.currentVersions. *)
Definition get_or_store (own : list N) (c : vcache) (node : N) (e : pv_entry) : res N * vcache :=
  match c node with
  | Some v => (Ok v, c)
  | None =>
      match e with
      | PvMissing =>
          match idx own 0 with                            (* p.currentVersions[0] *)
          | Ok v => (Ok v, vcache_set c node v)
          | _ => (Panic, c)
          end
      | PvMalformed => (Err E_ENR_LOAD, c)
      | PvList l =>
          let (v, err) := find_biggest_same own l in      (* cache.Set happens before the error is looked at *)
          (match err with None => Ok v | Some e => Err e end, vcache_set c node v)
      end
  end.

Definition empty_cache : vcache := fun _ => None.

(* the negotiated version of a first contact (empty cache) *)
Definition negotiate (own peer : list N) : res N := fst (get_or_store own empty_cache 0 (PvList peer)).

(* which ACCEPT encoding the version selects: filterContentKeys / parseOfferResp switch *)
Inductive accept_kind : Type := AcceptBitlist | AcceptCodes.
Definition accept_kind_of (version : N) : res accept_kind :=
  if version =? 0 then Ok AcceptBitlist
  else if version =? 1 then Ok AcceptCodes
  else Err E_UNSUPPORTED_VERSION.

(* encodeUtpContent / decodeUtpContent including the version lookup (error: no transfer) *)
Definition node_encode_utp (own : list N) (c : vcache) (node : N) (e : pv_entry) (d : bytes) : res bytes :=
  match fst (get_or_store own c node e) with
  | Ok v => Ok (encode_utp_content v d)
  | Err x => Err x
  | Panic => Panic
  end.
Definition node_decode_utp (own : list N) (c : vcache) (node : N) (e : pv_entry) (d : bytes) : res bytes :=
  match fst (get_or_store own c node e) with
  | Ok v => decode_utp_content v d
  | Err x => Err x
  | Panic => Panic
  end.

(* two calls in a row on the same peer record (second one sees the cache the first one left) *)
Definition get_twice (own : list N) (c : vcache) (node : N) (e : pv_entry) : res N * res N :=
  let (r1, c1) := get_or_store own c node e in
  let (r2, _) := get_or_store own c1 node e in
  (r1, r2).

(* a history of getOrStoreHighestVersion calls on ONE protocol instance: (peer id, what its record carries) per call.
   own (p.currentVersions) is an argument that no call changes: findBiggestSameNumber only reads its slices. *)
Fixpoint gos_history (own : list N) (c : vcache) (steps : list (N * pv_entry)) : list (res N) * vcache :=
  match steps with
  | [] => ([], c)
  | (node, e) :: r =>
      let (x, c1) := get_or_store own c node e in
      let (xs, c2) := gos_history own c1 r in
      (x :: xs, c2)
  end.
