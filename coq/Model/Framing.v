(* Model/Framing.v : content stream framing (C15).
   Mirrors  portalwire/common.go  encodeSingleContent / decodeSingleContent,
            portalwire/portal_protocol.go  encodeContents / decodeContents,
            portalwire/portal_protocol_v1.go  encodeUtpContent / decodeUtpContent (version as argument),
            tetratelabs/wabin leb128  EncodeUint32 / DecodeUint32.
   No proofs in this file. *)
From Shisui Require Import Base.Bytes.

Definition E_EOF : N := 1.
Definition E_OVERFLOW32 : N := 2.
Definition E_INSUFFICIENT : N := 3.
Definition E_LEN_MISMATCH : N := 4.

Definition two32 : N := 4294967296.

(* leb128.EncodeUint64: do { b = v & 0x7f; v >>= 7; if v != 0 { b |= 0x80 }; emit b } while (b & 0x80) != 0.
   fuel bounds the loop; 10 iterations always suffice for a uint64, 5 for a uint32. *)
Fixpoint leb_enc_aux (fuel : nat) (v : N) : bytes :=
  match fuel with
  | O => []
  | S f =>
      let b := N.land v 127 in
      let v' := N.shiftr v 7 in
      if N.eqb v' 0 then [n2b b] else n2b (N.lor b 128) :: leb_enc_aux f v'
  end.

(* leb128.EncodeUint32(uint32 value) *)
Definition leb_encode_u32 (v : N) : bytes := leb_enc_aux 10 (v mod two32).

(* leb128.DecodeUint32: i = iteration number 0..4, s = shift, ret = accumulator (uint32).
   Returns (value, bytesRead, rest-of-input). *)
Fixpoint leb_dec_aux (fuel : nat) (i : N) (s : N) (ret : N) (data : bytes) : res (N * N * bytes) :=
  match fuel with
  | O => Err E_OVERFLOW32                       (* loop ran maxVarintLen32 times *)
  | S f =>
      match data with
      | [] => Err E_EOF
      | b :: rest =>
          let bn := b2n b in
          if bn <? 128 then
            if (i =? 4) && (0 <? N.land bn 240) then Err E_OVERFLOW32
            else Ok ((N.lor ret (N.shiftl bn s)) mod two32, i + 1, rest)
          else
            leb_dec_aux f (i + 1) (s + 7) ((N.lor ret (N.shiftl (N.land bn 127) s)) mod two32) rest
      end
  end.

Definition leb_decode_u32 (data : bytes) : res (N * N * bytes) := leb_dec_aux 5 0 0 0 data.

(* encodeSingleContent: uint32(len(data)) is the explicit wrap *)
Definition encode_single (d : bytes) : bytes := leb_encode_u32 (nlen d) ++ d.

(* decodeSingleContent: header, bounds check, two slices *)
Definition decode_single (data : bytes) : res (bytes * bytes) :=
  match leb_decode_u32 data with
  | Ok (clen, hsz, rest) =>
      if nlen data <? hsz + clen then Err E_INSUFFICIENT
      else
        let h := N.to_nat hsz in let c := N.to_nat clen in
        bind (slice data h (h + c)) (fun content =>
        bind (slice data (h + c) (length data)) (fun remaining =>
        Ok (content, remaining)))
  | Err e => Err e
  | Panic => Panic
  end.

Definition encode_contents (l : list bytes) : bytes := concat (map encode_single l).

(* decodeContents: for len(remaining) > 0 { ... }.  fuel = number of loop iterations allowed;
   each iteration consumes at least one byte so length payload suffices (proved in Proofs/Framing.v). *)
Fixpoint decode_contents_aux (fuel : nat) (data : bytes) : res (list bytes) :=
  match data with
  | [] => Ok []
  | _ =>
      match fuel with
      | O => Panic        (* unreachable with fuel = length data; never a normal value *)
      | S f =>
          match decode_single data with
          | Ok (c, rem) =>
              match decode_contents_aux f rem with
              | Ok cs => Ok (c :: cs)
              | Err e => Err e
              | Panic => Panic
              end
          | Err e => Err e
          | Panic => Panic
          end
      end
  end.
Definition decode_contents (data : bytes) : res (list bytes) := decode_contents_aux (length data) data.

(* encodeUtpContent / decodeUtpContent with the negotiated version as argument *)
Definition encode_utp_content (version : N) (d : bytes) : bytes :=
  if version =? 1 then encode_single d else d.

Definition decode_utp_content (version : N) (data : bytes) : res bytes :=
  if version =? 1 then
    match decode_single data with
    | Ok (c, rem) => match rem with [] => Ok c | _ => Err E_LEN_MISMATCH end
    | Err e => Err e
    | Panic => Panic
    end
  else Ok data.
