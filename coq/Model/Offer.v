(* Model/Offer.v : OFFER verdicts and pairing of accepted content (C09).
   Mirrors  portalwire/portal_protocol_v1.go  filterContentKeysV0 / filterContentKeysV1 / parseOfferResp / Accept*.Get*,
            portalwire/portal_protocol.go     handleOffer / handleOfferedContents / processOffer (the part before and the
                                              payload construction inside the transfer goroutine),
            portalwire/types_encoding.go      Accept / AcceptV1 MarshalSSZ / UnmarshalSSZ,
            fastssz ValidateBitlist / DivideInt2, go-bitfield Bitlist (NewBitlist, SetBitAt, Len, BitAt, BitIndices).
   The go-bitfield value built by NewBitlist/SetBitAt is modelled by its logical content (list bool) and serialised by
   bl_encode; peer-supplied bytes are read with byte-level bl_len / bit_at / bit_indices.  All five library functions are in the
   correspondence corpus themselves.  No proofs in this file. *)
From Shisui Require Import Base.Bytes Model.Framing Model.Versions Gen.K_wire.

Definition E_NIL_CONTENT_KEY : N := 30.
Definition E_EMPTY_RESP : N := 31.
Definition E_NOT_ACCEPT : N := 32.
Definition E_SSZ_SIZE : N := 33.
Definition E_SSZ_OFFSET : N := 34.
Definition E_BITLIST : N := 35.
Definition E_LIST_TOO_BIG : N := 36.
Definition E_KEY_COUNT : N := 37.
Definition E_CONTENT_COUNT : N := 38.

(* ---------------------------------------------------------------- bits of a byte, least significant first *)
Definition byte_bits (b : byte) : list bool :=
  let '(b0, (b1, (b2, (b3, (b4, (b5, (b6, b7))))))) := Byte.to_bits b in [b0; b1; b2; b3; b4; b5; b6; b7].
Definition bits_byte (l : list bool) : byte :=
  Byte.of_bits (nth 0 l false, (nth 1 l false, (nth 2 l false, (nth 3 l false,
               (nth 4 l false, (nth 5 l false, (nth 6 l false, nth 7 l false))))))).

(* index of the last true, scanning from position i *)
Fixpoint last_true_from (i : nat) (l : list bool) (acc : option nat) : option nat :=
  match l with [] => acc | x :: r => last_true_from (S i) r (if x then Some i else acc) end.
(* bits.Len8 *)
Definition len8 (b : byte) : nat :=
  match last_true_from 0 (byte_bits b) None with Some i => S i | None => O end.
(* b &^ (1 << (Len8(b)-1)) ; for b = 0 the shift count is 255 and nothing is cleared *)
Fixpoint clear_at (i : nat) (l : list bool) : list bool :=
  match l, i with
  | [], _ => []
  | _ :: r, O => false :: r
  | x :: r, S j => x :: clear_at j r
  end.
Definition clear_msb (l : list bool) : list bool :=
  match last_true_from 0 l None with Some i => clear_at i l | None => l end.
(* positions (counted from off) of the true entries *)
Fixpoint positions (off : nat) (l : list bool) : list nat :=
  match l with [] => [] | x :: r => if x then off :: positions (S off) r else positions (S off) r end.

(* ---------------------------------------------------------------- go-bitfield Bitlist *)
(* serialisation of a bitlist with logical content bs: the bits, then the length bit, zero padded to a byte boundary.
   fuel = number of bytes to produce at most; length bs / 8 + 1 are needed. *)
Fixpoint bl_encode_aux (fuel : nat) (bs : list bool) : bytes :=
  match fuel with
  | O => []
  | S f =>
      match bs with
      | b0 :: b1 :: b2 :: b3 :: b4 :: b5 :: b6 :: b7 :: r =>
          Byte.of_bits (b0, (b1, (b2, (b3, (b4, (b5, (b6, b7))))))) :: bl_encode_aux f r
      | _ => [bits_byte (bs ++ [true])]
      end
  end.
Definition bl_encode (bs : list bool) : bytes := bl_encode_aux (S (length bs)) bs.

(* NewBitlist(n) / SetBitAt(i, true) on the logical content *)
Definition bl_new (n : nat) : list bool := repeat false n.
Fixpoint set_nth_true (i : nat) (l : list bool) : list bool :=
  match l, i with
  | [], _ => []                                 (* idx >= Len: do nothing *)
  | _ :: r, O => true :: r
  | x :: r, S j => x :: set_nth_true j r
  end.

(* Bitlist.Len on raw bytes: 0 for the empty slice and for a zero last byte, else 8*(len-1) + Len8(last) - 1 *)
Fixpoint bl_len_opt (b : bytes) : option nat :=
  match b with
  | [] => None
  | [x] => match len8 x with O => None | S m => Some m end
  | _ :: r => match bl_len_opt r with Some n => Some (8 + n)%nat | None => None end
  end.
Definition bl_len (b : bytes) : nat := match bl_len_opt b with Some n => n | None => O end.

Fixpoint flat (b : bytes) : list bool := match b with [] => [] | x :: r => byte_bits x ++ flat r end.
(* Bitlist.BitAt *)
Definition bit_at (b : bytes) (i : nat) : bool := if Nat.ltb i (bl_len b) then nth i (flat b) false else false.

(* Bitlist.BitIndices: every set bit, the most significant set bit of the LAST byte excepted *)
Fixpoint bit_indices_from (off : nat) (b : bytes) : list nat :=
  match b with
  | [] => []
  | [x] => positions off (clear_msb (byte_bits x))
  | x :: r => positions off (byte_bits x) ++ bit_indices_from (8 + off) r
  end.
Definition bit_indices (b : bytes) : list nat := bit_indices_from 0 b.

(* fastssz ValidateBitlist(buf, bitLimit): empty -> error; more than bitLimit/8+1 bytes -> error; last byte zero -> error;
   numOfBits = 8*(byteLen-1) + Len8(last) - 1 > bitLimit -> error.  bl_len_opt is exactly "numOfBits unless the last byte is 0". *)
Definition validate_bitlist (buf : bytes) (bit_limit : nat) : res unit :=
  match buf with
  | [] => Err E_BITLIST
  | _ =>
      if Nat.ltb (bit_limit / 8 + 1) (length buf) then Err E_BITLIST
      else match bl_len_opt buf with
           | None => Err E_BITLIST
           | Some n => if Nat.ltb bit_limit n then Err E_BITLIST else Ok tt
           end
  end.

(* ---------------------------------------------------------------- ACCEPT payloads *)
Definition accept_keys_limit : nat := 64.        (* ssz-max:"64" of Accept.ContentKeys / AcceptV1.ContentKeys *)

Definition be16 (v : N) : bytes := [n2b (v / 256); n2b v].
Definition be16_dec (b : bytes) : res N :=        (* binary.BigEndian.Uint16 *)
  bind (idx b 1) (fun lo => bind (idx b 0) (fun hi => Ok (b2n hi * 256 + b2n lo))).
Definition le32_dec (b : bytes) : res N :=        (* ssz.ReadOffset *)
  bind (idx b 3) (fun b3 => bind (idx b 0) (fun b0 => bind (idx b 1) (fun b1 => bind (idx b 2) (fun b2 =>
  Ok (b2n b0 + 256 * b2n b1 + 65536 * b2n b2 + 16777216 * b2n b3))))).

(* Accept.MarshalSSZ / AcceptV1.MarshalSSZ : connection id (2 bytes, checked), offset 6, body (at most 64 bytes / codes) *)
Definition marshal_accept (connid : bytes) (body : bytes) : res bytes :=
  if negb (Nat.eqb (length connid) 2) then Err E_SSZ_SIZE
  else if Nat.ltb accept_keys_limit (length body) then Err E_LIST_TOO_BIG
  else Ok (connid ++ [x06; x00; x00; x00] ++ body).

(* the common prefix of both UnmarshalSSZ: returns (connection id, body) *)
Definition unmarshal_accept_head (buf : bytes) : res (bytes * bytes) :=
  if Nat.ltb (length buf) 6 then Err E_SSZ_SIZE
  else
    bind (slice buf 0 2) (fun connid =>
    bind (slice buf 2 6) (fun ob =>
    bind (le32_dec ob) (fun o1 =>
    if nlen buf <? o1 then Err E_SSZ_OFFSET
    else if negb (o1 =? 6) then Err E_SSZ_OFFSET
    else bind (slice buf 6 (length buf)) (fun body => Ok (connid, body))))).

Definition unmarshal_accept_v0 (buf : bytes) : res (bytes * bytes) :=
  bind (unmarshal_accept_head buf) (fun '(connid, body) =>
  bind (validate_bitlist body accept_keys_limit) (fun _ => Ok (connid, body))).

Definition unmarshal_accept_v1 (buf : bytes) : res (bytes * bytes) :=
  bind (unmarshal_accept_head buf) (fun '(connid, body) =>
  if Nat.ltb accept_keys_limit (length body) then Err E_LIST_TOO_BIG      (* DivideInt2(len, 1, 64) *)
  else Ok (connid, body)).

(* ---------------------------------------------------------------- the receiving node *)
(* what the filters consult, per offered key, in the order the code consults it *)
Record nodeview : Type := {
  nv_nilid : bytes -> bool;        (* toContentId(key) == nil *)
  nv_inrange : bytes -> bool;      (* inRange(self, radius, contentId) *)
  nv_stored : bytes -> bool;       (* storage.Get(key, id) returned no error *)
  nv_inflight : bytes -> bool;     (* transferringKeyCache.Has(key) *)
  nv_queue_room : bool             (* len(contentQueue) < cap(contentQueue) *)
}.

Definition acceptable_v0 (nv : nodeview) (k : bytes) : bool := nv_inrange nv k && negb (nv_stored nv k).
Definition acceptable_v1 (nv : nodeview) (k : bytes) : bool :=
  nv_inrange nv k && negb (nv_stored nv k) && negb (nv_inflight nv k).

(* filterContentKeysV0: loop with index i over the keys, bitlist bits, accepted keys acc *)
Fixpoint filter_v0_loop (nv : nodeview) (keys : list bytes) (i : nat) (bits : list bool) (acc : list bytes)
  : res (list bool * list bytes) :=
  match keys with
  | [] => Ok (bits, acc)
  | k :: r =>
      if nv_nilid nv k then Err E_NIL_CONTENT_KEY
      else if negb (nv_inrange nv k) then filter_v0_loop nv r (S i) bits acc
      else if nv_stored nv k then filter_v0_loop nv r (S i) bits acc
      else filter_v0_loop nv r (S i) (set_nth_true i bits) (acc ++ [k])
  end.
Definition filter_v0 (nv : nodeview) (keys : list bytes) : res (list bool * list bytes) :=
  let bits0 := bl_new (length keys) in
  if nv_queue_room nv then filter_v0_loop nv keys 0 bits0 [] else Ok (bits0, []).

(* filterContentKeysV1 *)
Fixpoint filter_v1_loop (nv : nodeview) (keys : list bytes) (codes : list N) (acc : list bytes) : res (list N * list bytes) :=
  match keys with
  | [] => Ok (codes, acc)
  | k :: r =>
      if nv_nilid nv k then Err E_NIL_CONTENT_KEY
      else if negb (nv_inrange nv k) then filter_v1_loop nv r (codes ++ [K_acc_NotWithinRadius]) acc
      else if nv_stored nv k then filter_v1_loop nv r (codes ++ [K_acc_AlreadyStored]) acc
      else if nv_inflight nv k then filter_v1_loop nv r (codes ++ [K_acc_InboundTransferInProgress]) acc
      else filter_v1_loop nv r (codes ++ [K_acc_Accepted]) (acc ++ [k])
  end.
Definition filter_v1 (nv : nodeview) (keys : list bytes) : res (list N * list bytes) := filter_v1_loop nv keys [] [].

(* what handleOffer leaves behind *)
Record offer_result : Type := {
  or_reply : bytes;                              (* TALKRESP payload *)
  or_listen : option (N * list bytes);           (* the receive goroutine: connection id it accepts on, keys it awaits *)
  or_permit_taken : bool
}.

(* handleOffer.  ver = result of getOrStoreHighestVersion; permit_free = GetInboundPermit would succeed;
   cid = connection id handed out by the uTP socket (uint16).
   clear_v0 = false is the code as found (no permit: the version-0 bitlist keeps its accepted bits),
   clear_v0 = true the repaired code (bitlist replaced by an all-zero one of the same length). *)
Definition handle_offer_gen (clear_v0 : bool) (ver : res N) (nv : nodeview) (permit_free : bool) (cid : N) (keys : list bytes)
  : res offer_result :=
  match ver with
  | Err e => Err e
  | Panic => Panic
  | Ok v =>
      match accept_kind_of v with
      | Err e => Err e
      | Panic => Panic
      | Ok AcceptBitlist =>
          bind (filter_v0 nv keys) (fun '(bits, akeys) =>
          let listen := match akeys with [] => false | _ => permit_free end in
          let bits' := match akeys with
                       | [] => bits
                       | _ => if permit_free then bits else if clear_v0 then bl_new (length keys) else bits
                       end in
          bind (marshal_accept (be16 (if listen then cid else 0)) (bl_encode bits')) (fun m =>
          Ok {| or_reply := n2b K_msg_ACCEPT :: m;
                or_listen := if listen then Some (cid, akeys) else None;
                or_permit_taken := listen |}))
      | Ok AcceptCodes =>
          bind (filter_v1 nv keys) (fun '(codes, akeys) =>
          let listen := match akeys with [] => false | _ => permit_free end in
          let codes' := match akeys with
                        | [] => codes
                        | _ => if permit_free then codes else repeat K_acc_RateLimited (length codes)
                        end in
          bind (marshal_accept (be16 (if listen then cid else 0)) (map n2b codes')) (fun m =>
          Ok {| or_reply := n2b K_msg_ACCEPT :: m;
                or_listen := if listen then Some (cid, akeys) else None;
                or_permit_taken := listen |}))
      end
  end.
Definition handle_offer := handle_offer_gen true.
Definition handle_offer_as_found := handle_offer_gen false.

(* handleOfferedContents: Ok (Some element) = enqueued, Ok None = decoded fine but queue full (dropped) *)
Definition handle_offered_contents (keys : list bytes) (payload : bytes) (queue_room : bool)
  : res (option (list bytes * list bytes)) :=
  match decode_contents payload with
  | Err e => Err e
  | Panic => Panic
  | Ok contents =>
      if negb (Nat.eqb (length keys) (length contents)) then Err E_CONTENT_COUNT
      else if queue_room then Ok (Some (keys, contents)) else Ok None
  end.

(* ---------------------------------------------------------------- the offering node *)
Inductive offer_req : Type :=
| ReqTransient (items : list (bytes * bytes))        (* TransientOfferRequest: (key, content) *)
| ReqTrace (key content : bytes)                     (* TransientOfferRequestWithResult *)
| ReqPersist (keys : list bytes).                    (* PersistOfferRequest: contents come from storage *)

Definition req_keys (r : offer_req) : list bytes :=     (* getContentKeys *)
  match r with
  | ReqTransient items => map fst items
  | ReqTrace k _ => [k]
  | ReqPersist ks => ks
  end.
Definition req_key_count (r : offer_req) : nat :=
  match r with
  | ReqTransient items => length items
  | ReqTrace _ _ => 1%nat
  | ReqPersist ks => length ks
  end.

(* parseOfferResp + GetKeyLength + GetAcceptIndices: (connection id bytes, body, key length, accepted indices) *)
Fixpoint code_indices (off : nat) (codes : bytes) : list nat :=
  match codes with
  | [] => []
  | c :: r => if b2n c =? K_acc_Accepted then off :: code_indices (S off) r else code_indices (S off) r
  end.
Definition parse_offer_resp (ver : res N) (data : bytes) : res (bytes * bytes * nat * list nat) :=
  match ver with
  | Err e => Err e
  | Panic => Panic
  | Ok v =>
      match accept_kind_of v with
      | Err e => Err e
      | Panic => Panic
      | Ok AcceptBitlist =>
          bind (unmarshal_accept_v0 data) (fun '(connid, body) => Ok (connid, body, bl_len body, bit_indices body))
      | Ok AcceptCodes =>
          bind (unmarshal_accept_v1 data) (fun '(connid, body) => Ok (connid, body, length body, code_indices 0 body))
      end
  end.

(* contents[index] for each accepted index; Go indexing panics when out of range *)
Fixpoint gather {A} (l : list A) (ixs : list nat) : res (list A) :=
  match ixs with
  | [] => Ok []
  | i :: r => bind (idx l i) (fun a => bind (gather l r) (fun t => Ok (a :: t)))
  end.

(* processOffer: returns the ContentKeys field of the ACCEPT and, when something was accepted, what the transfer goroutine
   dials and writes: (connection id, stream payload).  lookup = toContentId + storage.Get of the offering node
   (None = nil id or storage error -> an empty item is sent). *)
Definition process_offer (ver : res N) (lookup : bytes -> option bytes) (resp : bytes) (req : offer_req)
  : res (bytes * option (N * bytes)) :=
  match resp with
  | [] => Err E_EMPTY_RESP
  | c :: rest =>
      if negb (b2n c =? K_msg_ACCEPT) then Err E_NOT_ACCEPT
      else
        bind (parse_offer_resp ver rest) (fun '(connid, body, klen, ixs) =>
        if negb (Nat.eqb klen (req_key_count req)) then Err E_KEY_COUNT
        else match ixs with
        | [] => Ok (body, None)
        | _ =>
            bind (be16_dec connid) (fun cid =>
            bind (match req with
                  | ReqTransient items => gather (map snd items) ixs
                  | ReqTrace _ content => Ok [content]
                  | ReqPersist ks =>
                      bind (gather ks ixs) (fun sel =>
                      Ok (map (fun k => match lookup k with Some c => c | None => [] end) sel))
                  end) (fun contents =>
            Ok (body, Some (cid, encode_contents contents))))
        end)
  end.

(* the items a list of flags selects *)
Fixpoint select {A} (flags : list bool) (l : list A) : list A :=
  match flags, l with
  | f :: fr, x :: r => if f then x :: select fr r else select fr r
  | _, _ => []
  end.

(* ---------------------------------------------------------------- the in-flight mark is set by the receive goroutine *)
(* receiver-side schedule of a version-1 node with ample permits: an OFFER is answered with the marks present at that
   moment; the keys it accepted are marked only when its goroutine starts running (cacheTransferringKeys is the first
   statement of the goroutine, not of handleOffer). *)
Inductive rx_event : Type :=
| EvOffer (keys : list bytes)
| EvGoroutineRuns (n : nat)             (* the n-th pending receive goroutine reaches cacheTransferringKeys *)
| EvTransferEnds (n : nat)              (* the n-th receive goroutine returns: deferred deleteTransferringContentKeys(contentKeys),
                                           contentKeys = the keys THAT offer accepted *)
| EvOfferV0 (keys : list bytes)         (* an OFFER from a version-0 peer: filterContentKeysV0 does not consult the marks
                                           (the property says "not, in version 1, already being received"), but its receive
                                           goroutine sets and clears them like any other *)
| EvOfferNoSlot (keys : list bytes).    (* an OFFER (either version) answered without a free inbound slot: every key declined,
                                           no goroutine, nothing marked and nothing un-marked *)

Record rx_state : Type := {
  rx_marked : list bytes;               (* transferringKeyCache *)
  rx_pending : list (list bytes);       (* accepted key lists of goroutines that have not marked yet *)
  rx_accepted : list (list bytes)       (* per OFFER so far: the keys it accepted (newest first) *)
}.
Definition rx_init : rx_state := {| rx_marked := []; rx_pending := []; rx_accepted := [] |}.

Fixpoint mem_bytes (k : bytes) (l : list bytes) : bool :=
  match l with [] => false | x :: r => bytes_eqb k x || mem_bytes k r end.
(* transferringKeyCache.Del(key) for every key of ks *)
Definition unmark (ks marked : list bytes) : list bytes := filter (fun m => negb (mem_bytes m ks)) marked.

(* sync_mark = true models a handleOffer that marks before it replies *)
Definition rx_step (sync_mark : bool) (s : rx_state) (e : rx_event) : rx_state :=
  match e with
  | EvOffer keys =>
      let acc := filter (fun k => negb (mem_bytes k (rx_marked s))) keys in
      {| rx_marked := if sync_mark then acc ++ rx_marked s else rx_marked s;
         rx_pending := rx_pending s ++ [acc];
         rx_accepted := acc :: rx_accepted s |}
  | EvGoroutineRuns n =>
      match nth_error (rx_pending s) n with
      | Some ks => {| rx_marked := ks ++ rx_marked s; rx_pending := rx_pending s; rx_accepted := rx_accepted s |}
      | None => s
      end
  | EvTransferEnds n =>
      match nth_error (rx_pending s) n with
      | Some ks => {| rx_marked := unmark ks (rx_marked s); rx_pending := rx_pending s; rx_accepted := rx_accepted s |}
      | None => s
      end
  | EvOfferV0 keys =>
      {| rx_marked := if sync_mark then keys ++ rx_marked s else rx_marked s;
         rx_pending := rx_pending s ++ [keys];
         rx_accepted := keys :: rx_accepted s |}
  | EvOfferNoSlot _ =>
      {| rx_marked := rx_marked s; rx_pending := rx_pending s ++ [[]]; rx_accepted := [] :: rx_accepted s |}
  end.
Definition rx_run (sync_mark : bool) (evs : list rx_event) : rx_state := fold_left (rx_step sync_mark) evs rx_init.
