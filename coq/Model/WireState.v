(* Model/WireState.v : state-network content keys and containers, and the one ztyp beacon key (C14).  No proofs here.
   Mirrors /repo/state/types.go (Nibbles, AccountTrieNodeKey, ContractStorageTrieNodeKey, ContractBytecodeKey, TrieNode,
   TrieProof, ContractBytecodeContainer, AccountTrieNodeWithProof, ContractStorageTrieNodeWithProof,
   ContractBytecodeWithProof) and types/beacon/types.go HistoricalSummariesWithProofKey, all written with the ztyp codec.
   enc_X = X.Serialize into a bytes.Buffer, dec_X = X.Deserialize(codec.NewDecodingReader(bytes.NewReader(data), len(data)))
   on a fresh value (this is how state/network.go, state/validation.go and beacon/... call them).
   These types form a second table (ty2): they are tied to the code by the correspondence run; see Properties/C14.v for
   which of them have theorems. *)
From Shisui Require Import Base.Bytes Base.Ssz Model.Wire.

Definition L_Nibbles : N := 64.
Definition L_TrieNode : N := 1024.
Definition L_TrieProof : N := 65.
Definition L_Bytecode : N := 32768.

(* ---- Nibbles.  A Go value is the []byte of unpacked nibbles. *)
(* n.Nibbles[i]<<4 | n.Nibbles[i+1]  (byte arithmetic: the shift wraps) *)
Definition pack_pair (a b : byte) : byte := n2b (N.lor ((b2n a * 16) mod 256) (b2n b)).
Fixpoint pack_pairs (l : bytes) : res bytes :=
  match l with
  | [] => Ok []
  | a :: b :: rest => bind (pack_pairs rest) (fun t => Ok (pack_pair a b :: t))
  | [_] => Panic                     (* n.Nibbles[i+1] out of range: not reachable, the callers fix the parity *)
  end.
(* Nibbles.Serialize *)
Definition ser_Nibbles (n : bytes) : res bytes :=
  if Nat.even (length n) then bind (pack_pairs n) (fun t => Ok (x00 :: t))
  else match n with
       | [] => Panic
       | f :: rest => bind (pack_pairs rest) (fun t => Ok (n2b (N.lor 16 (b2n f)) :: t))
       end.
(* unpackNibblePair *)
Definition unpack_pairs (l : bytes) : bytes :=
  flat_map (fun b => [n2b (N.shiftr (b2n b) 4); n2b (N.land (b2n b) 15)]) l.
(* Nibbles.Deserialize: ReadByte, then the whole remaining scope, flag / first checks, FromUnpackedNibbles (<= 64) *)
Definition z_nibbles : zdes :=
  mkzdes 0 (fun r =>
    bind (rd_read r 1) (fun '(fb, r1) =>
    bind (rd_read r1 (rd_scope r1)) (fun '(packed, r2) =>
    match fb with
    | [firstByte] =>
        let flag := N.shiftr (b2n firstByte) 4 in
        let first := N.land (b2n firstByte) 15 in
        let head := if flag =? 0 then (if first =? 0 then Ok [] else Err E_SELECTOR)
                    else if flag =? 1 then Ok [n2b first] else Err E_SELECTOR in
        bind head (fun h =>
        let nibbles := h ++ unpack_pairs packed in
        if L_Nibbles <? nlen nibbles then Err E_LISTBIG else Ok (FB nibbles, r2))
    | _ => Panic
    end))).

Definition zser_dyn (r : res bytes) (k : zser -> res bytes) : res bytes := bind r (fun b => k (mkzser 0 b)).

(* ---- keys *)
(* AccountTrieNodeKey : Path Nibbles, NodeHash Bytes32 ; dr.Container *)
Definition enc_AccountTrieNodeKey (v : bytes * bytes) : res bytes :=
  let '(path, h) := v in zser_dyn (ser_Nibbles path) (fun p => zs_container [p; mkzser 32 h]).
Definition dec_AccountTrieNodeKey (data : bytes) : res (bytes * bytes) :=
  bind (z_unmarshal false (z_container [z_nibbles; z_bytesN 32]) data) (fun vs =>
  match vs with [FB p; FB h] => Ok (p, h) | _ => Panic end).

(* ContractStorageTrieNodeKey : AddressHash Bytes32, Path Nibbles, NodeHash Bytes32 ; dr.Container *)
Definition enc_StorageTrieNodeKey (v : bytes * bytes * bytes) : res bytes :=
  let '(a, path, h) := v in zser_dyn (ser_Nibbles path) (fun p => zs_container [mkzser 32 a; p; mkzser 32 h]).
Definition dec_StorageTrieNodeKey (data : bytes) : res (bytes * bytes * bytes) :=
  bind (z_unmarshal false (z_container [z_bytesN 32; z_nibbles; z_bytesN 32]) data) (fun vs =>
  match vs with [FB a; FB p; FB h] => Ok (a, p, h) | _ => Panic end).

(* ContractBytecodeKey : AddressHash Bytes32, CodeHash Bytes32 ; dr.FixedLenContainer (no check that the scope is consumed).
   strict = true adds `scope must be 64` (not in the code) *)
Definition enc_BytecodeKey (v : bytes * bytes) : res bytes :=
  let '(a, c) := v in zs_fixed_container [mkzser 32 a; mkzser 32 c].
Definition dec_BytecodeKey (strict : bool) (data : bytes) : res (bytes * bytes) :=
  if strict && negb (nlen data =? 64) then Err E_STRICT else
  bind (z_unmarshal false (z_fixed_container [z_bytesN 32; z_bytesN 32]) data) (fun vs =>
  match vs with [FB a; FB c] => Ok (a, c) | _ => Panic end).

(* ---- containers *)
(* TrieNode : Node ByteList[1024] ; dr.Container *)
Definition enc_TrieNode (v : bytes) : res bytes := zs_container [mkzser 0 v].
Definition dec_TrieNode (data : bytes) : res bytes :=
  bind (z_unmarshal false (z_container [z_bytelist L_TrieNode]) data) (fun vs =>
  match vs with [FB n] => Ok n | _ => Panic end).

(* TrieProof : List[ByteList[1024], 65] on its own *)
Definition enc_TrieProof (v : list bytes) : res bytes := zs_bytelists v.
Definition dec_TrieProof (data : bytes) : res (list bytes) :=
  bind (z_unmarshal false (fun r => bind (z_de (z_bytelists L_TrieNode L_TrieProof) r) (fun '(f, r') => Ok ([f], r'))) data) (fun vs =>
  match vs with [FL l] => Ok l | _ => Panic end).

(* ContractBytecodeContainer : Code ByteList[32768] ; dr.Container *)
Definition enc_BytecodeContainer (v : bytes) : res bytes := zs_container [mkzser 0 v].
Definition dec_BytecodeContainer (data : bytes) : res bytes :=
  bind (z_unmarshal false (z_container [z_bytelist L_Bytecode]) data) (fun vs =>
  match vs with [FB c] => Ok c | _ => Panic end).

(* AccountTrieNodeWithProof : Proof TrieProof, BlockHash Bytes32 *)
Definition enc_AccountTrieNodeWithProof (v : list bytes * bytes) : res bytes :=
  let '(proof, h) := v in zser_dyn (zs_bytelists proof) (fun p => zs_container [p; mkzser 32 h]).
Definition dec_AccountTrieNodeWithProof (data : bytes) : res (list bytes * bytes) :=
  bind (z_unmarshal false (z_container [z_bytelists L_TrieNode L_TrieProof; z_bytesN 32]) data) (fun vs =>
  match vs with [FL p; FB h] => Ok (p, h) | _ => Panic end).

(* ContractStorageTrieNodeWithProof : StorageProof TrieProof, AccountProof TrieProof, BlockHash Bytes32 *)
Definition enc_StorageTrieNodeWithProof (v : list bytes * list bytes * bytes) : res bytes :=
  let '(sp, ap, h) := v in
  zser_dyn (zs_bytelists sp) (fun s => zser_dyn (zs_bytelists ap) (fun a => zs_container [s; a; mkzser 32 h])).
Definition dec_StorageTrieNodeWithProof (data : bytes) : res (list bytes * list bytes * bytes) :=
  bind (z_unmarshal false (z_container [z_bytelists L_TrieNode L_TrieProof; z_bytelists L_TrieNode L_TrieProof; z_bytesN 32]) data) (fun vs =>
  match vs with [FL s; FL a; FB h] => Ok (s, a, h) | _ => Panic end).

(* ContractBytecodeWithProof : Code ByteList[32768], AccountProof TrieProof, BlockHash Bytes32 *)
Definition enc_BytecodeWithProof (v : bytes * list bytes * bytes) : res bytes :=
  let '(c, ap, h) := v in zser_dyn (zs_bytelists ap) (fun a => zs_container [mkzser 0 c; a; mkzser 32 h]).
Definition dec_BytecodeWithProof (data : bytes) : res (bytes * list bytes * bytes) :=
  bind (z_unmarshal false (z_container [z_bytelist L_Bytecode; z_bytelists L_TrieNode L_TrieProof; z_bytesN 32]) data) (fun vs =>
  match vs with [FB c; FL a; FB h] => Ok (c, a, h) | _ => Panic end).

(* ---- beacon HistoricalSummariesWithProofKey : Epoch uint64 through r.ReadUint64() (no check that the scope is consumed) *)
Definition enc_HistSummariesKey (v : N) : res bytes := Ok (u64_enc v).
Definition dec_HistSummariesKey (strict : bool) (data : bytes) : res N :=
  if strict && negb (nlen data =? 8) then Err E_STRICT else
  bind (rd_read (rd_new data) 8) (fun '(b, _) => Ok (le_dec b)).

(* ---- ping_ext CustomPayloadExtensionsFormatPayload (portalwire/ping_ext/basic.go): ByteList[1100] on its own;
        Serialize = w.Write, Deserialize = dr.ByteList(limit) on a reader scoped to the whole input *)
Definition enc_CustomPayload (v : bytes) : res bytes := Ok v.
Definition dec_CustomPayload (data : bytes) : res bytes :=
  bind (z_unmarshal false (fun r => bind (z_de (z_bytelist L_CustomPayload) r) (fun '(f, r') => Ok ([f], r'))) data) (fun vs =>
  match vs with [FB b] => Ok b | _ => Panic end).

(* ------------------------------------------------------------------ what the code does today *)
Definition code_strict_state_fixed_keys : bool := true.    (* false (as found): ContractBytecodeKey / HistoricalSummariesWithProofKey ignore trailing bytes *)

(* ------------------------------------------------------------------ generic layer *)
Inductive ty2 : Type :=
| TAccountTrieNodeKey | TStorageTrieNodeKey | TBytecodeKey | TTrieNode | TTrieProof | TBytecodeContainer
| TAccountTrieNodeWithProof | TStorageTrieNodeWithProof | TBytecodeWithProof | THistSummariesKey | TCustomPayload.

Definition schema2 (t : ty2) : list kind :=
  match t with
  | TAccountTrieNodeKey => [KB; KB]
  | TStorageTrieNodeKey => [KB; KB; KB]
  | TBytecodeKey => [KB; KB]
  | TTrieNode | TBytecodeContainer => [KB]
  | TTrieProof => [KL]
  | TAccountTrieNodeWithProof => [KL; KB]
  | TStorageTrieNodeWithProof => [KL; KL; KB]
  | TBytecodeWithProof => [KB; KL; KB]
  | THistSummariesKey => [KN]
  | TCustomPayload => [KB]
  end.

Definition enc_any2 (t : ty2) (fs : list field) : res bytes :=
  match t, fs with
  | TAccountTrieNodeKey, [FB p; FB h] => enc_AccountTrieNodeKey (p, h)
  | TStorageTrieNodeKey, [FB a; FB p; FB h] => enc_StorageTrieNodeKey (a, p, h)
  | TBytecodeKey, [FB a; FB c] => enc_BytecodeKey (a, c)
  | TTrieNode, [FB n] => enc_TrieNode n
  | TTrieProof, [FL l] => enc_TrieProof l
  | TBytecodeContainer, [FB c] => enc_BytecodeContainer c
  | TAccountTrieNodeWithProof, [FL p; FB h] => enc_AccountTrieNodeWithProof (p, h)
  | TStorageTrieNodeWithProof, [FL s; FL a; FB h] => enc_StorageTrieNodeWithProof (s, a, h)
  | TBytecodeWithProof, [FB c; FL a; FB h] => enc_BytecodeWithProof (c, a, h)
  | THistSummariesKey, [FN n] => enc_HistSummariesKey n
  | TCustomPayload, [FB b] => enc_CustomPayload b
  | _, _ => Err E_SHAPE
  end.

Definition dec_any2 (fs : bool) (t : ty2) (b : bytes) : res (list field) :=
  match t with
  | TAccountTrieNodeKey => rmap (fun '(p, h) => [FB p; FB h]) (dec_AccountTrieNodeKey b)
  | TStorageTrieNodeKey => rmap (fun '(a, p, h) => [FB a; FB p; FB h]) (dec_StorageTrieNodeKey b)
  | TBytecodeKey => rmap (fun '(a, c) => [FB a; FB c]) (dec_BytecodeKey fs b)
  | TTrieNode => rmap (fun n => [FB n]) (dec_TrieNode b)
  | TTrieProof => rmap (fun l => [FL l]) (dec_TrieProof b)
  | TBytecodeContainer => rmap (fun c => [FB c]) (dec_BytecodeContainer b)
  | TAccountTrieNodeWithProof => rmap (fun '(p, h) => [FL p; FB h]) (dec_AccountTrieNodeWithProof b)
  | TStorageTrieNodeWithProof => rmap (fun '(s, a, h) => [FL s; FL a; FB h]) (dec_StorageTrieNodeWithProof b)
  | TBytecodeWithProof => rmap (fun '(c, a, h) => [FB c; FL a; FB h]) (dec_BytecodeWithProof b)
  | THistSummariesKey => rmap (fun n => [FN n]) (dec_HistSummariesKey fs b)
  | TCustomPayload => rmap (fun x => [FB x]) (dec_CustomPayload b)
  end.

Definition all_lt16 (b : bytes) : bool := forallb (fun x => b2n x <? 16) b.
Definition proof_ok (l : list bytes) : bool := (nlen l <=? L_TrieProof) && all_len_le L_TrieNode l.

Definition limits_any2 (t : ty2) (fs : list field) : list bool :=
  match t, fs with
  | TAccountTrieNodeKey, [FB p; FB h] => [nlen p <=? L_Nibbles; true]
  | TStorageTrieNodeKey, [FB a; FB p; FB h] => [true; nlen p <=? L_Nibbles; true]
  | TBytecodeKey, [FB a; FB c] => [true; true]
  | TTrieNode, [FB n] => [len_le L_TrieNode n]
  | TTrieProof, [FL l] => [proof_ok l]
  | TBytecodeContainer, [FB c] => [len_le L_Bytecode c]
  | TAccountTrieNodeWithProof, [FL p; FB h] => [proof_ok p; true]
  | TStorageTrieNodeWithProof, [FL s; FL a; FB h] => [proof_ok s; proof_ok a; true]
  | TBytecodeWithProof, [FB c; FL a; FB h] => [len_le L_Bytecode c; proof_ok a; true]
  | THistSummariesKey, [FN n] => [true]
  | TCustomPayload, [FB b] => [len_le L_CustomPayload b]
  | _, _ => [false]
  end.

Definition wf_any2 (t : ty2) (fs : list field) : bool :=
  match t, fs with
  | TAccountTrieNodeKey, [FB p; FB h] => all_lt16 p && (nlen h =? 32)
  | TStorageTrieNodeKey, [FB a; FB p; FB h] => (nlen a =? 32) && all_lt16 p && (nlen h =? 32)
  | TBytecodeKey, [FB a; FB c] => (nlen a =? 32) && (nlen c =? 32)
  | TAccountTrieNodeWithProof, [FL p; FB h] => nlen h =? 32
  | TStorageTrieNodeWithProof, [FL s; FL a; FB h] => nlen h =? 32
  | TBytecodeWithProof, [FB c; FL a; FB h] => nlen h =? 32
  | THistSummariesKey, [FN n] => n <? two64
  | _, _ => true
  end.

(* ------------------------------------------------------------------ beacon Forked* wrappers (types/beacon/types.go)
   ForkedLightClientBootstrap / Update / FinalityUpdate / OptimisticUpdate and ForkedHistoricalSummariesWithProof:
   Deserialize reads the 4-byte fork digest, a switch on the digest selects the zrnt payload type (or fails with
   "unknown fork digest"), the payload is decoded from the rest of the scope by the library.  The payload codec is
   opaque here: pdec k / penc k are the library's Deserialize / Serialize for the k-th payload type of the wrapper. *)
Definition D_Bellatrix : bytes := [x00; x00; x00; x00].
Definition D_Capella : bytes := [xbb; xa4; xda; x96].
Definition D_Deneb : bytes := [x6a; x95; xa1; xa9].
Definition D_Electra : bytes := [xad; x53; x2c; xeb].

Inductive wrapper : Type := WBootstrap | WUpdate | WFinality | WOptimistic | WHistSummaries.

(* index of the payload type the switch selects: 0 altair, 1 capella, 2 deneb, 3 electra *)
Definition fork_select (w : wrapper) (d : bytes) : option N :=
  match w with
  | WHistSummaries => Some 0                           (* no switch at all: every digest is accepted *)
  | WOptimistic =>
      if bytes_eqb d D_Bellatrix then Some 0 else if bytes_eqb d D_Capella then Some 1
      else if bytes_eqb d D_Deneb then Some 2 else if bytes_eqb d D_Electra then Some 2   (* `case Deneb, Electra:` *)
      else None
  | _ =>
      if bytes_eqb d D_Bellatrix then Some 0 else if bytes_eqb d D_Capella then Some 1
      else if bytes_eqb d D_Deneb then Some 2 else if bytes_eqb d D_Electra then Some 3
      else None
  end.

Section Forked.
  Variable P : Type.
  Variable pdec : N -> bytes -> res P.
  Variable penc : N -> P -> bytes.

  (* strict = the check `scope == 4 + payload.ByteLength(spec)` after the payload decode (repair): the fixed-size zrnt
     containers (the altair light-client types) do not notice bytes after them.  ForkedHistoricalSummariesWithProof has
     no such check (its payload ends in a dynamic field). *)
  Definition dec_Forked (strict : bool) (w : wrapper) (data : bytes) : res (bytes * N * P) :=
    bind (rd_read (rd_new data) 4) (fun '(d, r1) =>
    match fork_select w d with
    | None => Err E_SELECTOR
    | Some k => bind (pdec k (rd_inp r1)) (fun p =>
        let checked := match w with WHistSummaries => false | _ => strict end in
        if checked && negb (nlen data =? 4 + nlen (penc k p)) then Err E_STRICT else Ok (d, k, p))
    end).
  (* Serialize: w.Write(ForkDigest[:]) then the payload (no consistency check between digest and payload type) *)
  Definition enc_Forked (v : bytes * N * P) : res bytes := let '(d, k, p) := v in Ok (d ++ penc k p).
End Forked.

(* instance used by the driver: the payload value is its canonical byte string, the decoder is an oracle list
   (per candidate type: Some canonical bytes = the library accepts the rest, None = it rejects) *)
Definition code_strict_forked_scope : bool := true.   (* false (as found): bytes after a fixed-size light-client payload are ignored *)

Definition dec_Forked_oracle (strict : bool) (w : wrapper) (oracle : list (option bytes)) (data : bytes) : res (bytes * N * bytes) :=
  dec_Forked bytes (fun k _ => match nth_error oracle (N.to_nat k) with Some (Some b) => Ok b | _ => Err E_SHAPE end) (fun _ p => p) strict w data.
