(* Model/Gossip.v : radius bookkeeping and gossip target selection (C20).
   Mirrors  portalwire/portal_protocol.go  handlePing + processPing, processPong + processPongPayload,
            updateRadiusCacheIfNeeded, processClientInfo / processBasicRadius / processHistoryRadius (radius part),
            GossipAndReturnPeers, inRange (AS THE CODE HAS IT, see [in_range] and C06),
            findNodesCloseToContent (from Model/Handlers.v).
   The radius cache is an association list id -> value, newest first.  A cached value that is 32 bytes long is kept as the
   number uint256.UnmarshalSSZ reads from it (little-endian); any other length is [RBad].
   No proofs in this file. *)
From Shisui Require Import Base.Bytes Gen.K_wire Gen.K_handlers Model.Handlers.

Inductive cval : Type := RGood (r : N) | RBad.
Definition cache : Type := list (N * cval).

Definition cache_get (c : cache) (id : N) : option cval :=
  match find (fun e : N * cval => fst e =? id) c with Some e => Some (snd e) | None => None end.
Definition cache_set (c : cache) (id : N) (v : cval) : cache := (id, v) :: c.

(* updateRadiusCacheIfNeeded *)
Definition update_radius_cache (c : cache) (id : N) (incoming : N) : cache :=
  match cache_get c id with
  | Some (RGood r) => if r =? incoming then c else cache_set c id (RGood incoming)
  | _ => cache_set c id (RGood incoming)
  end.

(* one PING served / one PONG processed.
   ev_present : table.getNodeOrReplacement(sender) != nil when the payload is processed
                (for a PING: after handleTalkRequest's addInboundNode; for a PONG: after processPong's addFoundNode);
   ev_ptype   : payload type of the message;
   ev_radius  : DataRadius of the payload as decoded by the decoder of that type, None if it does not decode. *)
Record event : Type := mkEvent { ev_pong : bool; ev_id : N; ev_present : bool; ev_ptype : N; ev_radius : option N }.

Definition carries_radius (t : N) : bool :=
  (t =? K_ext_ClientInfo) || (t =? K_ext_BasicRadius) || (t =? K_ext_HistoryRadius).

(* handlePing (which payloads reach processPing) followed by processPing *)
Definition process_ping (supported : list N) (c : cache) (e : event) : cache :=
  if negb (existsb (N.eqb (ev_ptype e)) supported) then c            (* pong carries ErrorNotSupported *)
  else if carries_radius (ev_ptype e) then
    match ev_radius e with
    | None => c                                                       (* ErrorDecodePayload *)
    | Some r =>
        (* go processPing *)
        if ev_present e then
          if negb (existsb (N.eqb (ev_ptype e)) supported) then c
          else update_radius_cache c (ev_id e) r
        else c
    end
  else c.                                                             (* pingext.Error: system error pong; nothing processed *)

(* processPongPayload *)
Definition process_pong (supported : list N) (c : cache) (e : event) : cache :=
  if ev_present e then
    if negb (existsb (N.eqb (ev_ptype e)) supported) then c          (* ErrPayloadTypeIsNotSupported *)
    else if carries_radius (ev_ptype e) then
      match ev_radius e with
      | None => c                                                     (* decode error *)
      | Some r => update_radius_cache c (ev_id e) r
      end
    else c                                                            (* default: ErrPayloadTypeIsNotSupported *)
  else c.

Definition process_event (supported : list N) (c : cache) (e : event) : cache :=
  if ev_pong e then process_pong supported c e else process_ping supported c e.

(* PortalProtocol.AddEnr: table.addFoundNode(n, true); only when that returns true (the node was not yet in the table and
   found room) is its radius entry set to MaxDistance; a node that is already in the table (same record or a newer one,
   which only replaces the stored record) keeps the radius it reported *)
Definition max_distance : N := 2 ^ 256 - 1.
Definition process_add_enr (c : cache) (id : N) (added : bool) : cache :=
  if added then cache_set c id (RGood max_distance) else c.

(* handlePing: payload type of the PONG and the radius it announces.  [decodes]: the ping payload decodes with the decoder of
   its type; [own_radius]: p.storage.Radius() at the time of the request *)
Definition pong_of_ping (supported : list N) (ptype : N) (decodes : bool) (own_radius : N) : N * option N :=
  if negb (existsb (N.eqb ptype) supported) then (K_ext_Error, None)      (* ErrorNotSupported *)
  else if carries_radius ptype then
    if decodes then (ptype, Some own_radius)                             (* handleClientInfo / handleBasicRadius / handleHistoryRadius *)
    else (K_ext_Error, None)                                             (* ErrorDecodePayload *)
  else (ptype, None).                                                    (* pingext.Error: createPong(ping.PayloadType, system error) *)

Definition run_events (supported : list N) (evs : list event) (c : cache) : cache := fold_left (process_event supported) evs c.

(* ---------------------------------------------------------------- gossip *)
(* inRange(nodeId, nodeRadius, contentId), as the code has it.  Two versions of the rule exist:
     nodeRadius > LogDist(nodeId, contentId)        (the original code; C06 shows it is not the XOR-metric rule)
     nodeRadius > nodeId xor contentId              (the repaired code)
   Which one the compiled code applies is probed on every run and regenerated as K_inRange_xor (0 / 1); every theorem of
   C20 holds for either. *)
Definition in_range (id radius cid : N) : bool :=
  if K_inRange_xor =? 1 then N.lxor id cid <? radius else logdist id cid <? radius.

Definition not_source (src : option N) (id : N) : bool := match src with None => true | Some s => negb (id =? s) end.

(* the loop over closestLocalNodes; a cached value that is not 32 bytes makes UnmarshalSSZ fail and the call return the error *)
Fixpoint gossip_filter (closest : list nrec) (c : cache) (src : option N) (cid : N) : res (list nrec) :=
  match closest with
  | [] => Ok []
  | n :: rest =>
      match cache_get c (rid n) with
      | None => gossip_filter rest c src cid
      | Some RBad => Err E_BADRADIUS
      | Some (RGood r) =>
          match gossip_filter rest c src cid with
          | Ok tl => if in_range (rid n) r cid && not_source src (rid n) then Ok (n :: tl) else Ok tl
          | Err e => Err e
          | Panic => Panic
          end
      end
  end.

Definition max_closest : nat := 4.
Definition max_farther : nat := 4.
Definition gossip_candidates : nat := 32.

(* GossipAndReturnPeers: the nodes returned.  ncontent = len(content), nkeys = len(contentKeys) *)
Definition gossip_select (nodelist : list nrec) (srt shuf : list nrec -> list nrec) (c : cache) (src : option N) (cid : N)
           (ncontent nkeys : N) : res (list nrec) :=
  if ncontent =? 0 then Err E_NOCONTENT
  else if nkeys <? ncontent then Panic                 (* contentKeys[i] for i < len(content) *)
  else
    let closest := find_nodes_close nodelist srt gossip_candidates in
    bind (gossip_filter closest c src cid) (fun g =>
    match g with
    | [] => Ok []
    | _ =>
      if Nat.ltb max_closest (length g) then
        let farther := shuf (skipn max_closest g) in
        Ok (firstn max_closest g ++ firstn (Nat.min max_farther (length farther)) farther)
      else Ok g
    end).

(* the offers enqueued for the returned nodes: one outbound permit each, nodes without a permit are skipped *)
Fixpoint gossip_offers (final : list nrec) (permits : nat) : list nrec :=
  match final with
  | [] => []
  | n :: rest => match permits with O => gossip_offers rest O | S p => n :: gossip_offers rest p end
  end.

(* ---------------------------------------------------------------- specification functions used in the theorems and monitors *)
(* does the event change the sender's entry, and to what *)
Definition reported (supported : list N) (e : event) : option N :=
  if ev_present e && existsb (N.eqb (ev_ptype e)) supported && carries_radius (ev_ptype e) then ev_radius e else None.
(* the radius most recently reported by [id] while it was in the table *)
Fixpoint last_reported (supported : list N) (evs : list event) (id : N) : option N :=
  match evs with
  | [] => None
  | e :: rest =>
      match last_reported supported rest id with
      | Some r => Some r
      | None => if ev_id e =? id then reported supported e else None
      end
  end.
(* a node is a legitimate gossip target: its cached radius covers the content (in-range test as the code has it) and it is not the source *)
Definition covered_b (c : cache) (src : option N) (cid : N) (n : nrec) : bool :=
  match cache_get c (rid n) with
  | Some (RGood r) => in_range (rid n) r cid && not_source src (rid n)
  | _ => false
  end.
Definition no_bad_entries (c : cache) (l : list nrec) : bool :=
  forallb (fun n => match cache_get c (rid n) with Some RBad => false | _ => true end) l.
