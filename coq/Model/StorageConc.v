(* Model/StorageConc.v : Put of storage/pebble/storage.go as small steps, one per shared access, for the
   concurrent clause of C05.  Scope: the part of Put below capacity (radius check, counter add, batch commit);
   the interleaving of two prune() passes over one iterator snapshot is NOT modelled here.
   No proofs in this file. *)
From Shisui Require Import Base.Bytes Model.Storage.

Section Conc.
  Context {V : Type}.
  Variable vlen : V -> N.
  Variable dec : bytes -> N.

  (* program counter of one goroutine inside Put:
     T0 -- inRadius (radius load) --> T1 -- c.size.Add --> T2 newSize -- batch.Commit --> TDone *)
  Inductive tpc : Type := T0 | T1 | T2 (n : N) | TDone | TRefused.
  Record thread : Type := { t_id : bytes; t_val : V; t_pc : tpc }.
  Record cstate : Type := { cdb : db (V:=V); ccnt : N; crad : N; cnode : bytes; threads : list thread }.

  Definition set_pc (t : thread) (p : tpc) : thread := {| t_id := t_id t; t_val := t_val t; t_pc := p |}.

  (* one step of one goroutine on the shared state *)
  Definition tstep (c : cstate) (t : thread) : cstate * thread :=
    match t_pc t with
    | T0 =>
        match xor_key (t_id t) (cnode c) with
        | Ok k => if dec k <? crad c then (c, set_pc t T1) else (c, set_pc t TRefused)
        | _ => (c, set_pc t TRefused)
        end
    | T1 =>
        let n := ccnt c + nlen (t_id t) + vlen (t_val t) in
        ({| cdb := cdb c; ccnt := n; crad := crad c; cnode := cnode c; threads := threads c |}, set_pc t (T2 n))
    | T2 n =>
        match xor_key (t_id t) (cnode c) with
        | Ok k =>
            ({| cdb := apply_batch (cdb c) [BSetSize n; BSetItem k (t_val t)]; ccnt := ccnt c; crad := crad c;
                cnode := cnode c; threads := threads c |}, set_pc t TDone)
        | _ => (c, t)
        end
    | _ => (c, t)
    end.

  Fixpoint replace_nth {A} (l : list A) (i : nat) (x : A) : list A :=
    match l, i with
    | [], _ => []
    | _ :: t, O => x :: t
    | h :: t, S j => h :: replace_nth t j x
    end.

  (* the scheduler picks goroutine i for the next step *)
  Definition sched_step (c : cstate) (i : nat) : option cstate :=
    match nth_error (threads c) i with
    | None => None
    | Some t =>
        let '(c', t') := tstep c t in
        Some {| cdb := cdb c'; ccnt := ccnt c'; crad := crad c'; cnode := cnode c'; threads := replace_nth (threads c) i t' |}
    end.

  Fixpoint exec_sched (c : cstate) (sched : list nat) : option cstate :=
    match sched with
    | [] => Some c
    | i :: r => match sched_step c i with Some c' => exec_sched c' r | None => None end
    end.

  Definition all_done (c : cstate) : bool :=
    forallb (fun t => match t_pc t with TDone | TRefused => true | _ => false end) (threads c).

  (* with a lock around Put each Put is one atomic step of the sequential model: the schedule is the order in
     which the goroutines obtain the lock *)
  Variable vhead8 : V -> res N.
  Fixpoint exec_locked (y : sys (V:=V)) (sched : list (bytes * V)) : res sys :=
    match sched with
    | [] => Ok y
    | (id, v) :: r => bind (step vlen vhead8 dec y (OPut id v)) (fun y' => exec_locked y' r)
    end.
End Conc.
