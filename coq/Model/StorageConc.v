(* Model/StorageConc.v : Put of storage/pebble/storage.go as small steps, one per shared access, run by N goroutines
   under an arbitrary scheduler - for the concurrent clause of C05.
   One Put is the sequence
     MCheck      inRadius: load the radius, compare
     MAdd        c.size.Add(len(contentId)+len(content))
     MCommit     batch {size record, item} committed; newSize > capacity ?
     MPruneScan  prune(): NewIter (a snapshot of the database), the deletion loop, radius store
     MPruneLoad  size := c.size.Load()
     MPruneStore c.size.Store(size - freed) and the synced batch {deletes, size record}  (one step)
     MDone       the call returns
   `micro` performs one of them on the shared store.  The machine `cstep locked` lets any goroutine take its next
   step; with `locked = true` a Put starts by acquiring the mutex (blocked while another goroutine holds it) and
   releases it when it returns (c.putLock.Lock(); defer c.putLock.Unlock() of fix C05-put-mutex); with
   `locked = false` it is the code before the fix.  `log` is a ghost: the order in which Puts started.
   No proofs in this file. *)
From Shisui Require Import Base.Bytes Model.Storage.

Section Conc.
  Context {V : Type}.
  Variable vlen : V -> N.
  Variable dec : bytes -> N.

  Inductive mpc : Type :=
  | MCheck
  | MAdd (k : bytes)
  | MCommit (k : bytes) (n : N)
  | MPruneScan
  | MPruneLoad (ds : list bytes) (freed : N)
  | MPruneStore (ds : list bytes) (freed : N) (size : N)
  | MDone (r : pres).

  Definition set_cnt (s : st (V:=V)) (c : N) : st := with_db s (sdb s) c (rad s).
  Definition set_rad (s : st (V:=V)) (r : N) : st := with_db s (sdb s) (cnt s) r.
  Definition set_sdb (s : st (V:=V)) (d : db (V:=V)) : st := with_db s d (cnt s) (rad s).

  (* one shared access of the Put of (id, v) *)
  Definition micro (s : st (V:=V)) (id : bytes) (v : V) (pc : mpc) : st * mpc :=
    match pc with
    | MCheck =>
        match xor_key id (node s) with
        | Ok k => if dec k <? rad s then (s, MAdd k) else (s, MDone Refused)
        | _ => (s, MDone Refused)            (* unreachable for a 32-byte node id *)
        end
    | MAdd k =>
        let n := cnt s + nlen id + vlen v in
        (set_cnt s n, MCommit k n)
    | MCommit k n =>
        let s1 := set_sdb s (apply_batch (sdb s) [BSetSize n; BSetItem k v]) in
        (s1, if cap s <? n then MPruneScan else MDone Stored)
    | MPruneScan =>
        let '(ds, freed, stop) := drop_far vlen (expect s) 0 (rev (kv (sdb s))) in
        (set_rad s (match stop with Some k => dec k | None => rad s end), MPruneLoad ds freed)
    | MPruneLoad ds freed => (s, MPruneStore ds freed (cnt s))
    | MPruneStore ds freed size =>
        if size <? freed then (s, MDone PruneErr)
        else
          let n := size - freed in
          (with_db s (apply_batch (sdb s) (map BDel ds ++ [BSetSize n])) n (rad s), MDone Stored)
    | MDone r => (s, MDone r)
    end.

  Fixpoint micro_iter (k : nat) (s : st (V:=V)) (id : bytes) (v : V) (pc : mpc) : st * mpc :=
    match k with
    | O => (s, pc)
    | S j => let '(s', pc') := micro s id v pc in micro_iter j s' id v pc'
    end.

  (* a goroutine: the Puts it still has to issue, and the Put it is inside of *)
  Record thread : Type := { todo : list (bytes * V); cur : option (bytes * V * mpc) }.
  Record cstate : Type := {
    sh : st (V:=V);                 (* the shared store *)
    lock : option nat;              (* c.putLock: the goroutine holding it *)
    thrs : list thread;
    log : list (bytes * V)          (* ghost: the Puts in the order they started (= lock acquisition order) *)
  }.

  Fixpoint replace_nth {A} (l : list A) (i : nat) (x : A) : list A :=
    match l, i with
    | [], _ => []
    | _ :: t, O => x :: t
    | h :: t, S j => h :: replace_nth t j x
    end.

  Definition holds (c : cstate) (i : nat) : bool :=
    match lock c with Some h => Nat.eqb h i | None => false end.
  Definition taken (c : cstate) : bool := match lock c with Some _ => true | None => false end.
  Definition is_add (pc : mpc) : bool := match pc with MAdd _ => true | _ => false end.

  (* the scheduler lets goroutine i take its next step (a blocked or finished goroutine does nothing).
     locked  : Put takes c.putLock (fix C05-put-mutex) or not (the code before it);
     outside : where inRadius sits relative to Lock().  false = as the code is: Lock() first, the radius check is the
               first step inside; true = the check is made before Lock() (the seeded variant refuted below): the
               goroutine starts with MCheck without the lock and acquires it when it reaches MAdd. *)
  Definition cstep (locked outside : bool) (c : cstate) (i : nat) : cstate :=
    match nth_error (thrs c) i with
    | None => c
    | Some t =>
        match cur t with
        | None =>
            match todo t with
            | [] => c
            | (id, v) :: rest =>
                if outside then
                  {| sh := sh c; lock := lock c;
                     thrs := replace_nth (thrs c) i {| todo := rest; cur := Some (id, v, MCheck) |}; log := log c |}
                else if locked && taken c then c                                                 (* Lock() blocks *)
                else {| sh := sh c; lock := if locked then Some i else lock c;
                        thrs := replace_nth (thrs c) i {| todo := rest; cur := Some (id, v, MCheck) |};
                        log := log c ++ [(id, v)] |}
            end
        | Some (id, v, MDone _) =>                                                   (* return; deferred Unlock() *)
            {| sh := sh c; lock := if locked && holds c i then None else lock c;
               thrs := replace_nth (thrs c) i {| todo := todo t; cur := None |}; log := log c |}
        | Some (id, v, pc) =>
            if outside && locked && is_add pc && negb (holds c i) then
              (* the check was made outside: Lock() here *)
              if taken c then c
              else {| sh := sh c; lock := Some i; thrs := thrs c; log := log c ++ [(id, v)] |}
            else
              let '(s', pc') := micro (sh c) id v pc in
              {| sh := s'; lock := lock c;
                 thrs := replace_nth (thrs c) i {| todo := todo t; cur := Some (id, v, pc') |}; log := log c |}
        end
    end.

  Definition exec (locked outside : bool) (c : cstate) (sched : list nat) : cstate :=
    fold_left (cstep locked outside) sched c.

  Definition quiescent (c : cstate) : bool :=
    forallb (fun t => match cur t, todo t with None, [] => true | _, _ => false end) (thrs c).

  (* the sequential reference: the state after Put, and after a list of Puts one after another *)
  Definition put_state (s : st (V:=V)) (p : bytes * V) : st :=
    match put vlen dec s (fst p) (snd p) with
    | Ok (s', _, _) => s'
    | _ => s
    end.
  Definition seq_puts (s : st (V:=V)) (l : list (bytes * V)) : st := fold_left put_state l s.

  Definition start (s : st (V:=V)) (work : list (list (bytes * V))) : cstate :=
    {| sh := s; lock := None; thrs := map (fun w => {| todo := w; cur := None |}) work; log := [] |}.
End Conc.
