(* Model/StateTrie.v : state-network proof validation (C13).
   Mirrors  state/trie/utils.go   TraverseTrieNode (+ TraverseTrieNodeKind added by the C13 fixes),
            state/validation.go   ValidateContent, validateTrieProof, checkNodeHash, validateNodeTrieProof, validateAccountState,
            state/storage.go      Put (putAccountTrieNode, putContractStorageTrieNode, putContractBytecode),
            state/types.go        Nibbles.Deserialize, FromUnpackedNibbles, unpackNibblePair, the three content keys (decoded form).
   keccak-256, the RLP node decoder, types.FullAccount and the header source are function arguments (Section variables);
   the harness supplies their values per case by calling the same library functions.
   This file also holds the executable specification predicates (ref_along, leaf_along, *_verdict) that the monitors run.
   No proofs in this file. *)
From Shisui Require Import Base.Bytes.

(* decoded trie node: trie/node.go  fullNode{Children [17]node} | shortNode{Key, Val} | hashNode | valueNode | nil *)
Inductive node : Type :=
| Full (children : list node)
| Short (key : bytes) (val : node)
| Hash (h : bytes)
| Value (v : bytes)
| Nil.

Definition E_EMPTY_PATH : N := 1.       (* "path should not be empty in fullnode" *)
Definition E_EMPTY_LEAF_KEY : N := 2.   (* ErrEmptyLeafKey *)
Definition E_DIFF_LEAF : N := 3.        (* ErrDifferentLeafPrefix *)
Definition E_DIFF_EXT : N := 4.         (* ErrDifferentExtensionPrefix *)
Definition E_UNKNOWN_TYPE : N := 5.     (* "unknown type" *)
Definition E_EMPTY_PROOF : N := 6.      (* "proof should not be empty" *)
Definition E_HASH : N := 7.             (* checkNodeHash *)
Definition E_PATH_TOO_LONG : N := 8.    (* "path is too long" *)
Definition E_CODE_HASH : N := 9.        (* "account state is invalid" / Put: hash does not match key *)
Definition E_NIBBLES : N := 10.         (* Nibbles.Deserialize / FromUnpackedNibbles *)
Definition E_EMPTY_EXT : N := 11.       (* ErrEmptyExtensionPrefix (C13 fix: short node with empty key) *)
Definition E_VALUE_IN_PROOF : N := 12.  (* C13 fix: an inner proof step ended in a leaf value *)
Definition E_NOT_A_LEAF : N := 13.      (* C13 fix: the account proof does not end in a leaf value *)

(* Go l[i] with a signed index expression (len-1 may be -1) *)
Definition idxz {A} (l : list A) (i : Z) : res A :=
  if (i <? 0)%Z then Panic else idx l (Z.to_nat i).
(* Go l[lo:hi] with signed bounds *)
Definition slicez {A} (l : list A) (lo hi : Z) : res (list A) :=
  if ((lo <? 0) || (hi <? 0))%bool%Z then Panic else slice l (Z.to_nat lo) (Z.to_nat hi).

Definition zlen {A} (l : list A) : Z := Z.of_nat (length l).

(* for index, key := range v.Key { if path[index] != key { return ErrDifferentExtensionPrefix } } *)
Fixpoint ext_loop (key : bytes) (index : nat) (path : bytes) : res unit :=
  match key with
  | [] => Ok tt
  | k :: key' =>
      bind (idx path index) (fun p =>
      if byte_eqb p k then ext_loop key' (S index) path else Err E_DIFF_EXT)
  end.

Definition x16 : byte := x10.   (* the terminator nibble 16 *)

(* ------------------------------------------------------------------------------------------------
   TraverseTrieNode AS ORIGINALLY WRITTEN (before the C13 fixes).  Kept to state what was wrong
   (Proofs/StateTrie.v: traverse_orig_* refutations) and to attribute monitor failures on an unrepaired tree. *)
Fixpoint traverse_orig (n : node) (path : bytes) {struct n} : res (bytes * bytes) :=
  match n with
  | Full children =>
      if Nat.eqb (length path) 0 then Err E_EMPTY_PATH
      else
        bind (idx path 0) (fun first =>
        bind (slice path 1 (length path)) (fun remaining =>
        (fix pick (l : list node) (k : nat) {struct l} : res (bytes * bytes) :=
           match l with
           | [] => Panic                                   (* v.Children[first] out of range *)
           | c :: t => match k with O => traverse_orig c remaining | S k' => pick t k' end
           end) children (N.to_nat (b2n first))))
  | Short key val =>
      let length_ := zlen key in
      bind (idxz key (length_ - 1)) (fun lastKey =>            (* v.Key[length-1] : panics on an empty key *)
      bind (slicez key 0 (length_ - 1)) (fun prePath =>
      if byte_eqb lastKey x16 then
        if Nat.eqb (length prePath) 0 then Err E_EMPTY_LEAF_KEY
        else if negb (bytes_eqb prePath path) then Err E_DIFF_LEAF
        else match val with Value v => Ok (v, path) | _ => Panic end     (* (v.Val).(valueNode) *)
      else
        bind (ext_loop key 0 path) (fun _ =>                     (* path[index] : panics when the key is longer than the path *)
        bind (slice path (length key) (length path)) (fun rest =>
        traverse_orig val rest))))
  | Hash h => Ok (h, path)
  | Value _ => Err E_UNKNOWN_TYPE
  | Nil => Err E_UNKNOWN_TYPE
  end.

(* ------------------------------------------------------------------------------------------------
   TraverseTrieNodeKind: the repaired traversal.  Third component: true = ended in a leaf value, false = in a hash reference. *)
Fixpoint traverse_kind (n : node) (path : bytes) {struct n} : res (bytes * bytes * bool) :=
  match n with
  | Full children =>
      if Nat.eqb (length path) 0 then Err E_EMPTY_PATH
      else
        bind (idx path 0) (fun first =>
        bind (slice path 1 (length path)) (fun remaining =>
        (fix pick (l : list node) (k : nat) {struct l} : res (bytes * bytes * bool) :=
           match l with
           | [] => Panic
           | c :: t => match k with O => traverse_kind c remaining | S k' => pick t k' end
           end) children (N.to_nat (b2n first))))
  | Short key val =>
      let length_ := zlen key in
      if (length_ =? 0)%Z then Err E_EMPTY_EXT                  (* fix: empty key *)
      else
      bind (idxz key (length_ - 1)) (fun lastKey =>
      bind (slicez key 0 (length_ - 1)) (fun prePath =>
      if byte_eqb lastKey x16 then
        if Nat.eqb (length prePath) 0 then Err E_EMPTY_LEAF_KEY
        else if negb (bytes_eqb prePath path) then Err E_DIFF_LEAF
        else match val with Value v => Ok (v, path, true) | _ => Panic end
      else
        if (zlen path <? length_)%Z then Err E_DIFF_EXT          (* fix: key longer than the remaining path *)
        else
        bind (ext_loop key 0 path) (fun _ =>
        bind (slice path (length key) (length path)) (fun rest =>
        traverse_kind val rest))))
  | Hash h => Ok (h, path, false)
  | Value _ => Err E_UNKNOWN_TYPE
  | Nil => Err E_UNKNOWN_TYPE
  end.

(* TraverseTrieNode after the fix: the wrapper that drops the kind *)
Definition traverse (n : node) (path : bytes) : res (bytes * bytes) :=
  bind (traverse_kind n path) (fun '(r, rest, _) => Ok (r, rest)).

(* inner proof step of the repaired validateTrieProof: a leaf value is not a child reference *)
Definition step_fixed (n : node) (path : bytes) : res (bytes * bytes) :=
  bind (traverse_kind n path) (fun '(r, rest, is_value) =>
  if is_value then Err E_VALUE_IN_PROOF else Ok (r, rest)).

(* last step of the repaired validateAccountState: must end in a leaf value *)
Definition final_fixed (n : node) (path : bytes) : res bytes :=
  bind (traverse_kind n path) (fun '(r, _, is_value) =>
  if is_value then Ok r else Err E_NOT_A_LEAF).

Definition final_orig (n : node) (path : bytes) : res bytes :=
  bind (traverse_orig n path) (fun '(r, _) => Ok r).

(* unpackNibblePair *)
Definition unpack_pair (b : byte) : byte * byte := (n2b (b2n b / 16), n2b (b2n b mod 16)).
Fixpoint unpack_nibbles (l : bytes) : bytes :=
  match l with [] => [] | b :: t => let '(hi, lo) := unpack_pair b in hi :: lo :: unpack_nibbles t end.

(* FromUnpackedNibbles *)
Definition from_unpacked_nibbles (nib : bytes) : res bytes :=
  if (64 <? length nib)%nat then Err E_NIBBLES
  else if forallb (fun x => b2n x <=? 15) nib then Ok nib else Err E_NIBBLES.

(* Nibbles.Deserialize *)
Definition nibbles_deserialize (b : bytes) : res bytes :=
  match b with
  | [] => Err E_NIBBLES
  | first :: packed =>
      let '(flag, lo) := unpack_pair first in
      if b2n flag =? 0 then
        if negb (b2n lo =? 0) then Err E_NIBBLES else from_unpacked_nibbles (unpack_nibbles packed)
      else if b2n flag =? 1 then from_unpacked_nibbles (lo :: unpack_nibbles packed)
      else Err E_NIBBLES
  end.

(* SSZ Container{ByteList}: one 4-byte offset (= 4) then the bytes: TrieNode / ContractBytecodeContainer *)
Definition ssz_single_bytelist (b : bytes) : bytes := [x04; x00; x00; x00] ++ b.

(* decoded (content key, content value) pairs; the SSZ layer is C14's *)
Inductive request : Type :=
| RAccountNode (path node_hash : bytes) (proof : list bytes) (block_hash : bytes)
| RStorageNode (addr_hash path node_hash : bytes) (storage_proof account_proof : list bytes) (block_hash : bytes)
| RBytecode (addr_hash code_hash code : bytes) (account_proof : list bytes) (block_hash : bytes).

Section Validation.
  Variable node_hash : bytes -> bytes.                       (* crypto.Keccak256 *)
  Variable decode : bytes -> res node.                       (* trie.DecodeTrieNode(nil, .) *)
  Variable decode_account : bytes -> res (bytes * bytes).    (* types.FullAccount: (storage root as 32 bytes, code hash) *)
  Variable header : bytes -> res bytes.                      (* validationOracle.GetBlockHeaderByHash(.).Root *)

  (* checkNodeHash *)
  Definition check_node_hash (n : bytes) (h : bytes) : res unit :=
    if bytes_eqb (node_hash n) h then Ok tt else Err E_HASH.

  Section Generic.
    (* the two places where the traversal is used, so that the original and the repaired code share the rest *)
    Variable step : node -> bytes -> res (bytes * bytes).
    Variable final : node -> bytes -> res bytes.

    (* the loop of validateTrieProof: for _, nextNode := range proof[1:] *)
    Fixpoint vtp_loop (cur : bytes) (remaining : bytes) (rest : list bytes) : res (bytes * bytes) :=
      match rest with
      | [] => Ok (cur, remaining)
      | next :: rest' =>
          bind (decode cur) (fun n =>
          bind (step n remaining) (fun '(h, p) =>
          bind (check_node_hash next h) (fun _ =>
          vtp_loop next p rest')))
      end.

    Definition validate_trie_proof_gen (root : bytes) (path : bytes) (proof : list bytes) : res (bytes * bytes) :=
      match proof with
      | [] => Err E_EMPTY_PROOF
      | first :: rest =>
          bind (check_node_hash first root) (fun _ => vtp_loop first path rest)
      end.

    Definition validate_node_trie_proof_gen (root node_hash_ : bytes) (path : bytes) (proof : list bytes) : res unit :=
      bind (validate_trie_proof_gen root path proof) (fun '(last, p) =>
      if negb (Nat.eqb (length p) 0) then Err E_PATH_TOO_LONG
      else check_node_hash last node_hash_).

    Definition validate_account_state_gen (root addr_hash : bytes) (proof : list bytes) : res (bytes * bytes) :=
      let path := unpack_nibbles addr_hash in
      bind (validate_trie_proof_gen root path proof) (fun '(last, p) =>
      bind (decode last) (fun n =>
      bind (final n p) (fun state_bytes =>
      decode_account state_bytes))).

    (* ValidateContent after the key-type switch and the two SSZ decodes (FromUnpackedNibbles is the last step of the key decode) *)
    Definition validate_content_gen (r : request) : res unit :=
      match r with
      | RAccountNode path nh proof bh =>
          bind (from_unpacked_nibbles path) (fun _ =>
          bind (header bh) (fun root =>
          validate_node_trie_proof_gen root nh path proof))
      | RStorageNode addr path nh sproof aproof bh =>
          bind (from_unpacked_nibbles path) (fun _ =>
          bind (header bh) (fun root =>
          bind (validate_account_state_gen root addr aproof) (fun '(sroot, _) =>
          validate_node_trie_proof_gen sroot nh path sproof)))
      | RBytecode addr ch code aproof bh =>
          bind (header bh) (fun root =>
          bind (validate_account_state_gen root addr aproof) (fun '(_, code_hash) =>
          if negb (bytes_eqb code_hash ch) then Err E_CODE_HASH else Ok tt))
      end.
  End Generic.

  Definition validate_trie_proof := validate_trie_proof_gen step_fixed.
  Definition validate_node_trie_proof := validate_node_trie_proof_gen step_fixed.
  Definition validate_account_state := validate_account_state_gen step_fixed final_fixed.
  Definition validate_content := validate_content_gen step_fixed final_fixed.

  (* the code before the C13 fixes *)
  Definition validate_node_trie_proof_orig := validate_node_trie_proof_gen traverse_orig.
  Definition validate_content_orig := validate_content_gen traverse_orig final_orig.

  (* Storage.Put: what is written under the content id.  length := len(proof); lastProof := proof[length-1] *)
  Definition put_last (proof : list bytes) (key_hash : bytes) : res bytes :=
    bind (idxz proof (zlen proof - 1)) (fun last_proof =>
    if negb (bytes_eqb (node_hash last_proof) key_hash) then Err E_CODE_HASH
    else Ok (ssz_single_bytelist last_proof)).

  Definition put (r : request) : res bytes :=
    match r with
    | RAccountNode path nh proof _ => bind (from_unpacked_nibbles path) (fun _ => put_last proof nh)
    | RStorageNode _ path nh sproof _ _ => bind (from_unpacked_nibbles path) (fun _ => put_last sproof nh)
    | RBytecode _ ch code _ _ =>
        if negb (bytes_eqb (node_hash code) ch) then Err E_CODE_HASH else Ok (ssz_single_bytelist code)
    end.

  (* ---------------------------------------------------------------------------------------------
     Executable specification (what the property says), independent of the traversal code above:
     ref_along n path = Some (h, rest): node n, followed along path, REFERENCES the child with hash h, rest is left.
     A leaf value is never a reference. *)
  Definition is_ext_key (key : bytes) : bool :=
    match rev key with [] => false | l :: _ => negb (byte_eqb l x16) end.

  Fixpoint strip_prefix (key path : bytes) : option bytes :=
    match key with
    | [] => Some path
    | k :: key' => match path with
                   | [] => None
                   | p :: path' => if byte_eqb p k then strip_prefix key' path' else None
                   end
    end.

  Fixpoint ref_along (n : node) (path : bytes) {struct n} : option (bytes * bytes) :=
    match n with
    | Hash h => Some (h, path)
    | Full children =>
        match path with
        | [] => None
        | i :: p =>
            (fix pick (l : list node) (k : nat) {struct l} : option (bytes * bytes) :=
               match l with
               | [] => None
               | c :: t => match k with O => ref_along c p | S k' => pick t k' end
               end) children (N.to_nat (b2n i))
        end
    | Short key val =>
        if is_ext_key key then
          match strip_prefix key path with Some p => ref_along val p | None => None end
        else None
    | Value _ => None
    | Nil => None
    end.

  (* leaf_along n path = Some v: following path through n ends exactly at a leaf holding v (the whole path is used up,
     the leaf's own key part is not empty - the code refuses a leaf whose key is only the terminator) *)
  Fixpoint leaf_along (n : node) (path : bytes) {struct n} : option bytes :=
    match n with
    | Full children =>
        match path with
        | [] => None
        | i :: p =>
            (fix pick (l : list node) (k : nat) {struct l} : option bytes :=
               match l with
               | [] => None
               | c :: t => match k with O => leaf_along c p | S k' => pick t k' end
               end) children (N.to_nat (b2n i))
        end
    | Short key val =>
        if is_ext_key key then
          match strip_prefix key path with Some p => leaf_along val p | None => None end
        else
          match val with
          | Value v => if (negb (Nat.eqb (length path) 0) && bytes_eqb key (path ++ [x16]))%bool then Some v else None
          | _ => None
          end
    | _ => None
    end.

  (* verdicts for the monitors *)
  Definition V_OK : N := 0.
  Definition V_EMPTY_PROOF : N := 1.
  Definition V_WRONG_ROOT : N := 2.
  Definition V_BROKEN_LINK : N := 3.
  Definition V_PATH_NOT_CONSUMED : N := 4.
  Definition V_WRONG_FINAL_HASH : N := 5.
  Definition V_NO_ACCOUNT_LEAF : N := 6.
  Definition V_ACCOUNT_UNDECODABLE : N := 7.
  Definition V_NO_HEADER : N := 8.
  Definition V_BAD_NIBBLES : N := 9.

  (* walk the hash-linked chain: Some (last node, rest of path) or None at the first broken link *)
  Fixpoint walk (cur : bytes) (path : bytes) (rest : list bytes) : option (bytes * bytes) :=
    match rest with
    | [] => Some (cur, path)
    | next :: rest' =>
        match decode cur with
        | Ok n =>
            match ref_along n path with
            | Some (h, p) => if bytes_eqb (node_hash next) h then walk next p rest' else None
            | None => None
            end
        | _ => None
        end
    end.

  Definition chain_verdict (root : bytes) (path : bytes) (proof : list bytes) : N * option (bytes * bytes) :=
    match proof with
    | [] => (V_EMPTY_PROOF, None)
    | first :: rest =>
        if negb (bytes_eqb (node_hash first) root) then (V_WRONG_ROOT, None)
        else match walk first path rest with
             | None => (V_BROKEN_LINK, None)
             | Some lp => (V_OK, Some lp)
             end
    end.

  Definition node_verdict (root key_hash : bytes) (path : bytes) (proof : list bytes) : N :=
    match chain_verdict root path proof with
    | (_, Some (last, p)) =>
        if negb (Nat.eqb (length p) 0) then V_PATH_NOT_CONSUMED
        else if negb (bytes_eqb (node_hash last) key_hash) then V_WRONG_FINAL_HASH
        else V_OK
    | (v, None) => v
    end.

  Definition account_verdict (root addr_hash : bytes) (proof : list bytes) : N * option (bytes * bytes) :=
    match chain_verdict root (unpack_nibbles addr_hash) proof with
    | (_, Some (last, p)) =>
        match decode last with
        | Ok n =>
            match leaf_along n p with
            | Some v => match decode_account v with
                        | Ok a => (V_OK, Some a)
                        | _ => (V_ACCOUNT_UNDECODABLE, None)
                        end
            | None => (V_NO_ACCOUNT_LEAF, None)
            end
        | _ => (V_NO_ACCOUNT_LEAF, None)
        end
    | (v, None) => (v, None)
    end.

  (* (stage, verdict): stage 0 = key / header, 1 = account proof, 2 = node proof / code hash *)
  Definition content_verdict (r : request) : N * N :=
    match r with
    | RAccountNode path nh proof bh =>
        match from_unpacked_nibbles path with
        | Ok _ => match header bh with
                  | Ok root => (2, node_verdict root nh path proof)
                  | _ => (0, V_NO_HEADER)
                  end
        | _ => (0, V_BAD_NIBBLES)
        end
    | RStorageNode addr path nh sproof aproof bh =>
        match from_unpacked_nibbles path with
        | Ok _ => match header bh with
                  | Ok root =>
                      match account_verdict root addr aproof with
                      | (_, Some (sroot, _)) => (2, node_verdict sroot nh path sproof)
                      | (v, None) => (1, v)
                      end
                  | _ => (0, V_NO_HEADER)
                  end
        | _ => (0, V_BAD_NIBBLES)
        end
    | RBytecode addr ch code aproof bh =>
        match header bh with
        | Ok root =>
            match account_verdict root addr aproof with
            | (_, Some (_, code_hash)) => (2, if bytes_eqb code_hash ch then V_OK else V_WRONG_FINAL_HASH)
            | (v, None) => (1, v)
            end
        | _ => (0, V_NO_HEADER)
        end
    end.

  (* what Put may store for an accepted request: the final node of the (storage) proof / the code, SSZ-wrapped *)
  Definition expected_stored (r : request) : option bytes :=
    match r with
    | RAccountNode _ _ proof _ => match rev proof with l :: _ => Some (ssz_single_bytelist l) | [] => None end
    | RStorageNode _ _ _ sproof _ _ => match rev sproof with l :: _ => Some (ssz_single_bytelist l) | [] => None end
    | RBytecode _ _ code _ _ => Some (ssz_single_bytelist code)
    end.
End Validation.

(* shape of what the real decoder returns (checked by the driver on every harness-supplied dump):
   a full node has 17 children, a short node whose key ends in the terminator holds a value *)
Fixpoint wf_node (n : node) : bool :=
  match n with
  | Full children =>
      (Nat.eqb (length children) 17 &&
       (fix all (l : list node) : bool := match l with [] => true | c :: t => wf_node c && all t end) children)%bool
  | Short key val =>
      (wf_node val &&
       (if is_ext_key key then true else match key with [] => true | _ => match val with Value _ => true | _ => false end end))%bool
  | _ => true
  end.
(* DecodeTrieNode returns a full or a short node, never a bare hash / value / nil *)
Definition is_top (n : node) : bool := match n with Full _ | Short _ _ => true | _ => false end.

(* ------------------------------------------------------------------------------------------------
   Histories: ONE validator instance and ONE state storage driven through a sequence of items (state/network.go
   validateContents: ValidateContent, and Put only after it returned nil).  Each event carries the header source's
   behaviour DURING THAT STEP (serve by hash / fail the lookup / serve some other header), the content id and the decoded
   item.  The real StateValidator has no mutable state: its model state is unit, threaded through the steps so that the
   theorems say "the verdict of step i depends on step i's inputs only".  The storage state is the id -> value map. *)
(* ev_store_ok = false: the backing store's Put fails during this step (e.g. ErrInsufficientRadius); state.Storage.Put logs
   it and still returns nil, nothing is written *)
Record event : Type := { ev_header : bytes -> res bytes; ev_id : bytes; ev_req : request; ev_store_ok : bool }.

Definition vstate : Type := unit.                 (* fields of StateValidator that change between calls: none *)
Definition store : Type := list (bytes * bytes).  (* content id -> stored value, latest first *)

Fixpoint store_get (s : store) (id : bytes) : option bytes :=
  match s with [] => None | (k, v) :: t => if bytes_eqb k id then Some v else store_get t id end.
Definition store_put (s : store) (id v : bytes) : store := (id, v) :: s.

Section History.
  Variable node_hash : bytes -> bytes.
  Variable decode : bytes -> res node.
  Variable decode_account : bytes -> res (bytes * bytes).

  (* StateValidator.ValidateContent as a step of the validator instance *)
  Definition validate_step (st : vstate) (ev : event) : vstate * res unit :=
    (st, validate_content node_hash decode decode_account (ev_header ev) (ev_req ev)).

  (* one item: validate, then Put iff accepted.  Output: (validator verdict, Put result if Put ran) *)
  Definition item_step (st : vstate * store) (ev : event) : (vstate * store) * (res unit * option (res bytes)) :=
    let '(vs, s) := st in
    let '(vs', v) := validate_step vs ev in
    match v with
    | Ok _ =>
        let p := put node_hash (ev_req ev) in
        match p with
        | Ok b => ((vs', if ev_store_ok ev then store_put s (ev_id ev) b else s), (v, Some p))
        | _ => ((vs', s), (v, Some p))
        end
    | _ => ((vs', s), (v, None))
    end.

  Fixpoint run_history (st : vstate * store) (evs : list event) : (vstate * store) * list (res unit * option (res bytes)) :=
    match evs with
    | [] => (st, [])
    | ev :: rest =>
        let '(st', o) := item_step st ev in
        let '(st'', os) := run_history st' rest in
        (st'', o :: os)
    end.
End History.
