(* Model/Hybrid.v : the routing layers in front of the pebble content store (C04).
   Mirrors  history/storage.go  Storage.Get / Put / Radius, isEphemeralOfferType  (the hybrid history store:
            keys of type OfferEphemeralType go to the ephemeral store, everything else to the eternal pebble store)
            state/storage.go    Storage.Get / Radius (pass-through to the wrapped store).
   The ephemeral store is opaque: a state type E with arbitrary get/put functions (Section variables).
   No proofs in this file. *)
From Shisui Require Import Base.Bytes Gen.K_storage Model.Storage.

(* isEphemeralOfferType: false for the empty key, otherwise a test of the first byte only *)
Definition is_ephemeral (key : bytes) : bool :=
  match key with
  | [] => false
  | t :: _ => b2n t =? K_offerEphemeralType
  end.

Section Hybrid.
  Context {V E : Type}.
  Variable vlen : V -> N.
  Variable dec : bytes -> N.
  Variable eph_get : E -> bytes -> bytes -> res (option V).
  Variable eph_put : E -> bytes -> bytes -> V -> res E.

  Record hstore : Type := { eternal : st (V:=V); eph : E }.

  Inductive hres : Type :=
  | FromEternal (r : option (dbval (V:=V)))
  | FromEphemeral (r : option V).

  (* Storage.Get *)
  Definition hget (h : hstore) (key id : bytes) : res hres :=
    if is_ephemeral key then bind (eph_get (eph h) key id) (fun r => Ok (FromEphemeral r))
    else bind (get (eternal h) id) (fun r => Ok (FromEternal r)).

  (* Storage.Put *)
  Definition hput (h : hstore) (key id : bytes) (v : V) : res (hstore * pres * list (batch (V:=V) * bool)) :=
    if is_ephemeral key then
      bind (eph_put (eph h) key id v) (fun e' => Ok ({| eternal := eternal h; eph := e' |}, Stored, []))
    else
      bind (put vlen dec (eternal h) id v) (fun r =>
        let '(s', pr, bs) := r in Ok ({| eternal := s'; eph := eph h |}, pr, bs)).

  (* Storage.Radius: the ephemeral store has none *)
  Definition hradius (h : hstore) : N := rad (eternal h).

  (* state.Storage.Get: pass-through, the content key is not used *)
  Definition state_get (s : st (V:=V)) (key id : bytes) : res (option (dbval (V:=V))) := get s id.
End Hybrid.
Arguments FromEternal {V} r.
Arguments FromEphemeral {V} r.
