(* Model/History.v : history content bound to its key (C02).
   Mirrors  history/validation.go        HistoryValidator.ValidateContent
            history/history_network.go   validateBlockBody / ValidateBlockBodyBytes / ValidatePortalReceiptsBytes,
                                         Network.validateContents, GetBlockHeader / GetBlockBody / GetReceipts
            validation/oracle.go         ValidationOracle.GetBlockHeaderByHash
            types/history/types_helper.go  DecodeBlockHeaderWithProof / DecodeBlockHeader / DecodeHeaderWithProof
   Library behaviour (keccak of a header, RLP / SSZ decoding, DeriveSha, CalcUncleHash, the header PROOF check of
   validation/header_validator.go = C03) is a Section variable; the harness obtains the per-case values by calling
   the same library functions.  The header source is an ARBITRARY function (it may lie).
   The model is parametrised by one flag per check that the code as found lacked (see `variant`): the
   correspondence runs against `repaired` (the current tree), the `_refuted` lemmas are about `as_found`.
   No proofs in this file. *)
From Shisui Require Import Base.Bytes.

Definition E_DECODE : N := 1.     (* ssz / rlp decoding of the content failed *)
Definition E_HASH : N := 2.       (* ErrInvalidBlockHash *)
Definition E_NUMBER : N := 3.     (* ErrInvalidBlockNumber *)
Definition E_SOURCE : N := 5.     (* the header source returned an error *)
Definition E_UNCLE : N := 6.
Definition E_TX : N := 7.
Definition E_WD : N := 8.
Definition E_RCPT : N := 9.
Definition E_NONEMPTY : N := 10.  (* "content should be empty" *)
Definition E_UNKNOWN : N := 11.   (* unknown content type *)
Definition E_KEY : N := 12.       (* empty key / key number shorter than 8 bytes *)
Definition E_LOOKUP : N := 13.    (* ErrInternalError of the getters *)
Definition E_PROOF : N := 14.     (* class used by harness-supplied proof results *)

(* the fields of types.Header the validator reads.  h_rest stands for everything else (so two headers with the
   same roots need not be equal); h_wd = None is a nil *common.Hash WithdrawalsHash. *)
Record header := mkHeader {
  h_rest : bytes; h_number : N; h_uncle : bytes; h_tx : bytes; h_rcpt : bytes; h_wd : option bytes }.

(* one flag per check that the code as found did not make *)
Record variant := mkVariant {
  v_bind : bool;    (* validator: header.Hash() of the header obtained from the source == key[1:]   (finding i)  *)
  v_wd : bool;      (* validateBlockBody: withdrawals present exactly when the header has a root     (findings ii, iii) *)
  v_key : bool;     (* ValidateContent: len(contentKey) == 0 is an error instead of contentKey[0]    *)
  v_obind : bool;   (* ValidationOracle.GetBlockHeaderByHash: returned header hashes to the request  (finding i, oracle side) *)
  v_numlen : bool }. (* ValidateContent, by-number key: len(contentKey) == 9 (as found: bytes after the 8-byte number were ignored) *)
Definition repaired : variant := mkVariant true true true true true.
Definition as_found : variant := mkVariant false false false false false.

Definition two64 : N := 18446744073709551616.

Fixpoint le_n (l : bytes) : N := match l with [] => 0 | b :: r => b2n b + 256 * le_n r end.

(* view.Uint64View.Deserialize over a reader scoped to len(key[1:]): 8 bytes little endian, trailing bytes ignored *)
Definition key_number (kh : bytes) : option N :=
  if Nat.ltb (length kh) 8 then None else Some (le_n (firstn 8 kh)).

Definition store := list (bytes * bytes).
Fixpoint store_get (s : store) (k : bytes) : option bytes :=
  match s with
  | [] => None
  | (k', c) :: r => if bytes_eqb k' k then Some c else store_get r k
  end.
Definition store_put (s : store) (k c : bytes) : store := (k, c) :: s.

Definition E_STORE : N := 15.     (* the storage returned an error other than "not found" *)

(* The glue of history_network.go around the validator, generic in the validator (Network.validator is an interface)
   and with scripted storage faults: gfail = every storage.Get of the call fails with an error other than
   ErrContentNotFound, pfail = every storage.Put fails.  Inside the Section the same two functions are written out for
   ValidateContent without faults (validate_contents_loop, getter); Proofs/History.v shows they are the instances
   validate := validate_content get_header, gfail = pfail = false of the generic ones. *)

(* Network.validateContents: for i, content := range contents { contentKey := contentKeys[i]; ... }.
   A Get error of any kind is "not in the db"; the result of Put is ignored.  Returns the result, the store and the
   successful Puts in order. *)
Fixpoint validate_contents_loop_g (validate : bytes -> bytes -> res unit) (gfail pfail : bool) (keys : list bytes) (i : nat)
         (contents : list bytes) (s : store) (puts : list (bytes * bytes)) : res unit * store * list (bytes * bytes) :=
  match contents with
  | [] => (Ok tt, s, puts)
  | c :: rest =>
      match idx keys i with
      | Panic => (Panic, s, puts)
      | Err e => (Err e, s, puts)
      | Ok k =>
          match (if gfail then None else store_get s k) with
          | Some _ => validate_contents_loop_g validate gfail pfail keys (S i) rest s puts      (* exists in db: continue *)
          | None =>
              match validate k c with
              | Ok _ =>
                  if pfail then validate_contents_loop_g validate gfail pfail keys (S i) rest s puts
                  else validate_contents_loop_g validate gfail pfail keys (S i) rest (store_put s k c) (puts ++ [(k, c)])
              | Err e => (Err e, s, puts)
              | Panic => (Panic, s, puts)
              end
          end
      end
  end.

(* the three getters: local storage first (returned as decoded, it was validated when it was put), else the
   network lookup (an arbitrary function: the network is adversarial), validate, decode, Put (a failing Put is only logged) *)
Definition getter_g {A} (validate : bytes -> bytes -> res unit) (gfail pfail : bool) (sel : byte) (decode : bytes -> option A)
           (lookup : bytes -> option bytes) (s : store) (hash : bytes)
  : res A * store * list (bytes * bytes) :=
  let key := sel :: hash in
  if gfail then (Err E_STORE, s, []) else
  match store_get s key with
  | Some local => (match decode local with Some a => Ok a | None => Err E_DECODE end, s, [])
  | None =>
      match lookup key with
      | None => (Err E_LOOKUP, s, [])
      | Some content =>
          match validate key content with
          | Panic => (Panic, s, [])
          | Err _ => (Err E_LOOKUP, s, [])
          | Ok _ =>
              match decode content with
              | None => (Err E_LOOKUP, s, [])
              | Some a => if pfail then (Ok a, s, []) else (Ok a, store_put s key content, [(key, content)])
              end
          end
      end
  end.

Section History.
  Variables body receipts : Type.
  Variable hdr_hash : header -> bytes.                       (* header.Hash() *)
  Variable dec_hwp : bytes -> option (bytes * bytes).        (* DecodeBlockHeaderWithProof: (header rlp, proof) *)
  Variable dec_header : bytes -> option header.              (* DecodeBlockHeader *)
  Variable proof_check : header -> bytes -> res unit.        (* HeaderValidator.ValidateHeaderAndProof (C03) *)
  Variable dec_body : bytes -> option body.                  (* DecodePortalBlockBodyBytes *)
  Variable uncle_hash : body -> bytes.                       (* types.CalcUncleHash(body.Uncles) *)
  Variable tx_root : body -> bytes.                          (* types.DeriveSha(body.Transactions) *)
  Variable wd_root : body -> option bytes.                   (* None: body.Withdrawals == nil; else DeriveSha *)
  Variable dec_receipts : bytes -> option receipts.          (* DecodeReceipts *)
  Variable receipt_root : receipts -> bytes.                 (* types.DeriveSha(receipts) *)
  Variable empty_receipt_hash : bytes.
  Variable v : variant.

  (* DecodeHeaderWithProof = DecodeBlockHeaderWithProof ; DecodeBlockHeader *)
  Definition dec_header_with_proof (content : bytes) : option (header * bytes) :=
    match dec_hwp content with
    | None => None
    | Some (hb, proof) => match dec_header hb with None => None | Some h => Some (h, proof) end
    end.

  (* validateBlockBody *)
  Definition validate_block_body (b : body) (h : header) : res unit :=
    if negb (bytes_eqb (uncle_hash b) (h_uncle h)) then Err E_UNCLE
    else if negb (bytes_eqb (tx_root b) (h_tx h)) then Err E_TX
    else if v_wd v then
      match wd_root b, h_wd h with
      | None, None => Ok tt
      | Some w, Some hw => if bytes_eqb w hw then Ok tt else Err E_WD
      | _, _ => Err E_WD
      end
    else
      match wd_root b with
      | None => Ok tt                                   (* as found: body.Withdrawals == nil -> return nil *)
      | Some w =>
          match h_wd h with
          | None => Panic                                (* header.WithdrawalsHash.Bytes() on a nil pointer *)
          | Some hw => if bytes_eqb w hw then Ok tt else Err E_WD
          end
      end.

  (* ValidateBlockBodyBytes *)
  Definition validate_block_body_bytes (content : bytes) (h : header) : res unit :=
    match dec_body content with None => Err E_DECODE | Some b => validate_block_body b h end.

  (* ValidatePortalReceiptsBytes *)
  Definition validate_receipts_bytes (content root : bytes) : res unit :=
    match dec_receipts content with
    | None => Err E_DECODE
    | Some r => if bytes_eqb (receipt_root r) root then Ok tt else Err E_RCPT
    end.

  (* h.validationOracle.GetBlockHeaderByHash(contentKey[1:]) followed (repaired code) by the hash comparison *)
  Definition source_header (get_header : bytes -> option header) (kh : bytes) : res header :=
    match get_header kh with
    | None => Err E_SOURCE
    | Some h => if v_bind v && negb (bytes_eqb (hdr_hash h) kh) then Err E_HASH else Ok h
    end.

  (* HistoryValidator.ValidateContent *)
  Definition validate_content (get_header : bytes -> option header) (key content : bytes) : res unit :=
    if v_key v && match key with [] => true | _ => false end then Err E_KEY
    else
    bind (idx key 0) (fun s =>                                  (* contentKey[0] *)
    let kh := tl key in                                         (* contentKey[1:] *)
    if Byte.eqb s x00 then
      match dec_hwp content with
      | None => Err E_DECODE
      | Some (hb, proof) =>
          match dec_header hb with
          | None => Err E_DECODE
          | Some h => if negb (bytes_eqb (hdr_hash h) kh) then Err E_HASH else proof_check h proof
          end
      end
    else if Byte.eqb s x03 then
      if v_numlen v && negb (Nat.eqb (length kh) 8) then Err E_KEY else
      match dec_header_with_proof content with
      | None => Err E_DECODE
      | Some (h, proof) =>
          match key_number kh with
          | None => Err E_KEY
          | Some n => if negb (h_number h mod two64 =? n) then Err E_NUMBER else proof_check h proof
          end
      end
    else if Byte.eqb s x01 then
      bind (source_header get_header kh) (fun h => validate_block_body_bytes content h)
    else if Byte.eqb s x02 then
      bind (source_header get_header kh) (fun h =>
        if bytes_eqb (h_rcpt h) empty_receipt_hash then
          match content with [] => Ok tt | _ => Err E_NONEMPTY end
        else validate_receipts_bytes content (h_rcpt h))
    else Err E_UNKNOWN).

  (* Network.validateContents: for i, content := range contents { contentKey := contentKeys[i]; ... }.
     Returns the result, the store and the Puts in order. *)
  Fixpoint validate_contents_loop (get_header : bytes -> option header) (keys : list bytes) (i : nat)
           (contents : list bytes) (s : store) (puts : list (bytes * bytes)) : res unit * store * list (bytes * bytes) :=
    match contents with
    | [] => (Ok tt, s, puts)
    | c :: rest =>
        match idx keys i with
        | Panic => (Panic, s, puts)
        | Err e => (Err e, s, puts)
        | Ok k =>
            match store_get s k with
            | Some _ => validate_contents_loop get_header keys (S i) rest s puts      (* exists in db: continue *)
            | None =>
                match validate_content get_header k c with
                | Ok _ => validate_contents_loop get_header keys (S i) rest (store_put s k c) (puts ++ [(k, c)])
                | Err e => (Err e, s, puts)
                | Panic => (Panic, s, puts)
                end
            end
        end
    end.
  Definition validate_contents get_header keys contents s := validate_contents_loop get_header keys 0 contents s [].

  (* the three getters: local storage first (returned as decoded, it was validated when it was put), else the
     network lookup (an arbitrary function: the network is adversarial), ValidateContent, decode, Put *)
  Definition getter {A} (sel : byte) (decode : bytes -> option A)
             (get_header : bytes -> option header) (lookup : bytes -> option bytes) (s : store) (hash : bytes)
    : res A * store * list (bytes * bytes) :=
    let key := sel :: hash in
    match store_get s key with
    | Some local => (match decode local with Some a => Ok a | None => Err E_DECODE end, s, [])
    | None =>
        match lookup key with
        | None => (Err E_LOOKUP, s, [])
        | Some content =>
            match validate_content get_header key content with
            | Panic => (Panic, s, [])
            | Err _ => (Err E_LOOKUP, s, [])
            | Ok _ =>
                match decode content with
                | None => (Err E_LOOKUP, s, [])
                | Some a => (Ok a, store_put s key content, [(key, content)])
                end
            end
        end
    end.
  Definition header_of (content : bytes) : option header :=
    match dec_header_with_proof content with Some (h, _) => Some h | None => None end.
  Definition get_block_header := getter x00 header_of.
  Definition get_block_body := getter x01 dec_body.
  Definition get_receipts := getter x02 dec_receipts.

  (* ValidationOracle.GetBlockHeaderByHash: portal_historyGetContent(0x00 ++ hash) answered by `serve` *)
  Definition oracle_get_header (serve : bytes -> option bytes) (hash : bytes) : option header :=
    match serve (x00 :: hash) with
    | None => None
    | Some data =>
        match header_of data with
        | None => None
        | Some h => if v_obind v && negb (bytes_eqb (hdr_hash h) hash) then None else Some h
        end
    end.

  (* histories: every step has its own header source / network answer *)
  Inductive op :=
  | OpOffer (src : bytes -> option header) (keys contents : list bytes)
  | OpGet (t : N) (src : bytes -> option header) (lookup : bytes -> option bytes) (hash : bytes).
  Inductive obs :=
  | ObsOffer (r : res unit) (puts : list (bytes * bytes))
  | ObsHeader (r : res header) (puts : list (bytes * bytes))
  | ObsBody (r : res body) (puts : list (bytes * bytes))
  | ObsReceipts (r : res receipts) (puts : list (bytes * bytes)).

  Definition step (o : op) (s : store) : obs * store :=
    match o with
    | OpOffer src keys contents =>
        let '(r, s', p) := validate_contents src keys contents s in (ObsOffer r p, s')
    | OpGet t src lookup hash =>
        if t =? 0 then let '(r, s', p) := get_block_header src lookup s hash in (ObsHeader r p, s')
        else if t =? 1 then let '(r, s', p) := get_block_body src lookup s hash in (ObsBody r p, s')
        else let '(r, s', p) := get_receipts src lookup s hash in (ObsReceipts r p, s')
    end.
  Fixpoint run_ops (ops : list op) (s : store) : list obs * store :=
    match ops with
    | [] => ([], s)
    | o :: rest => let '(ob, s') := step o s in let '(obs', s'') := run_ops rest s' in (ob :: obs', s'')
    end.
End History.
