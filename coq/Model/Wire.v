(* Model/Wire.v : the SSZ codecs of the portal wire protocol (C14).  No proofs in this file.
   Mirrors, function by function and in the order of the Go text:
     portalwire/types_encoding.go   Ping Pong FindNodes FindContent Offer Nodes ConnectionId Accept AcceptV1
     portalwire/types.go            Content Enrs                       (hand-edited fastssz code)
     portalwire/ping_ext/types.go + basic.go   ClientInfoAndCapabilitiesPayload BasicRadiusPayload HistoryRadiusPayload
                                    ErrorPayload CapabilitiesPayload   (ztyp codec)
     types/history/types.go + types_encoding.go, history/types.go + types_encoding.go   (see part 3)
   enc_T = T.MarshalSSZ (ssz.MarshalSSZ -> MarshalSSZTo on an empty buffer), dec_T = T.UnmarshalSSZ into a fresh value.
   A Go value of type T is a tuple: uintN fields are N, []byte / [k]byte fields are bytes, [][]byte fields are list bytes.
   [strict] = false is the code as it was found, [strict] = true the code after the C14 repairs (fixes/C14-*.diff);
   the flags code_* below say which one the tree has. *)
From Shisui Require Import Base.Bytes Base.Ssz.

(* limits as they are written in the Go text (struct tags / literals of the hand-edited code); the harness prints the
   struct tags and exported constants of the compiled code next to these (`const` lines of the correspondence) *)
Definition L_PingPayload : N := 1100.
Definition L_Distances : N := 256.
Definition L_ContentKey : N := 2048.
Definition L_OfferKeys : N := 64.
Definition L_Enr : N := 2048.
Definition L_Enrs : N := 32.
Definition L_Content : N := 2048.
Definition L_AcceptBits : N := 64.
Definition L_AcceptBytes : N := 64.      (* the marshal check of Accept.ContentKeys compares the BYTE length with 64 *)
Definition L_AcceptV1Keys : N := 64.
Definition L_ClientInfo : N := 200.
Definition L_Capabilities : N := 400.
Definition L_ErrMessage : N := 300.
Definition L_CustomPayload : N := 1100.

(* ------------------------------------------------------------------ part 1: portalwire (fastssz) *)

(* Ping / Pong : EnrSeq uint64, PayloadType uint16, Payload []byte ssz-max:"1100" *)
Definition Ping : Type := (N * N * bytes)%type.

Definition enc_Ping (v : Ping) : res bytes :=
  let '(seq, pt, payload) := v in
  let dst := u64_enc seq ++ u16_enc pt ++ u32_enc 14 in
  bind (enc_bytes_max L_PingPayload payload) (fun p => Ok (dst ++ p)).

Definition dec_Ping (buf : bytes) : res Ping :=
  let size := nlen buf in
  if size <? 14 then Err E_SIZE
  else
    bind (bind (slice buf 0 8) read_u64) (fun seq =>
    bind (bind (slice buf 8 10) read_u16) (fun pt =>
    bind (read_offset_at buf 10) (fun o2 =>
    if size <? o2 then Err E_OFFSET
    else if negb (o2 =? 14) then Err E_VAROFF
    else
      bind (tail_from buf o2) (fun t =>
      bind (dec_bytes_max L_PingPayload t) (fun p => Ok (seq, pt, p)))))).

Definition enc_Pong := enc_Ping.
Definition dec_Pong := dec_Ping.

(* FindNodes : Distances [][2]byte ssz-max:"256,2" *)
Definition FindNodes : Type := list bytes.

Definition enc_FindNodes (v : FindNodes) : res bytes :=
  let dst := u32_enc 4 in
  if L_Distances <? nlen v then Err E_LISTBIG
  else Ok (dst ++ concat v).

Definition dec_FindNodes (buf : bytes) : res FindNodes :=
  let size := nlen buf in
  if size <? 4 then Err E_SIZE
  else
    bind (read_offset_at buf 0) (fun o0 =>
    if size <? o0 then Err E_OFFSET
    else if negb (o0 =? 4) then Err E_VAROFF
    else
      bind (tail_from buf o0) (fun t =>
      bind (divide_int2 (nlen t) 2 L_Distances) (fun num =>
      chunks (N.to_nat num) 2 t 0))).

(* FindContent : ContentKey []byte ssz-max:"2048" *)
Definition FindContent : Type := bytes.

Definition enc_FindContent (v : FindContent) : res bytes :=
  let dst := u32_enc 4 in
  bind (enc_bytes_max L_ContentKey v) (fun k => Ok (dst ++ k)).

Definition dec_FindContent (buf : bytes) : res FindContent :=
  let size := nlen buf in
  if size <? 4 then Err E_SIZE
  else
    bind (read_offset_at buf 0) (fun o0 =>
    if size <? o0 then Err E_OFFSET
    else if negb (o0 =? 4) then Err E_VAROFF
    else bind (tail_from buf o0) (dec_bytes_max L_ContentKey)).

(* Offer : ContentKeys [][]byte ssz-max:"64,2048" *)
Definition Offer : Type := list bytes.

Definition enc_Offer (v : Offer) : res bytes :=
  let dst := u32_enc 4 in
  bind (enc_dyn_list L_OfferKeys L_ContentKey v) (fun l => Ok (dst ++ l)).

Definition dec_Offer (strict : bool) (buf : bytes) : res Offer :=
  let size := nlen buf in
  if size <? 4 then Err E_SIZE
  else
    bind (read_offset_at buf 0) (fun o0 =>
    if size <? o0 then Err E_OFFSET
    else if negb (o0 =? 4) then Err E_VAROFF
    else
      bind (tail_from buf o0) (fun t =>
      dec_dyn_list strict t L_OfferKeys (item_bytes_max L_ContentKey))).

(* Nodes : Total uint8, Enrs [][]byte ssz-max:"32,2048" *)
Definition Nodes : Type := (N * list bytes)%type.

Definition enc_Nodes (v : Nodes) : res bytes :=
  let '(total, enrs) := v in
  let dst := u8_enc total ++ u32_enc 5 in
  bind (enc_dyn_list L_Enrs L_Enr enrs) (fun l => Ok (dst ++ l)).

Definition dec_Nodes (strict : bool) (buf : bytes) : res Nodes :=
  let size := nlen buf in
  if size <? 5 then Err E_SIZE
  else
    bind (bind (slice buf 0 1) read_u8) (fun total =>
    bind (read_offset_at buf 1) (fun o1 =>
    if size <? o1 then Err E_OFFSET
    else if negb (o1 =? 5) then Err E_VAROFF
    else
      bind (tail_from buf o1) (fun t =>
      bind (dec_dyn_list strict t L_Enrs (item_bytes_max L_Enr)) (fun enrs => Ok (total, enrs))))).

(* ConnectionId : Id []byte ssz-size:"2" *)
Definition ConnectionId : Type := bytes.

Definition enc_ConnectionId (v : ConnectionId) : res bytes := enc_bytes_exact 2 v.

Definition dec_ConnectionId (buf : bytes) : res ConnectionId :=
  if negb (nlen buf =? 2) then Err E_SIZE else slice buf 0 2.

(* Content : Content []byte ssz-max:"2048"  (hand-written: the whole buffer is the field) *)
Definition Content : Type := bytes.
Definition enc_Content (v : Content) : res bytes := enc_bytes_max L_Content v.
Definition dec_Content (buf : bytes) : res Content := dec_bytes_max L_Content buf.

(* Enrs : Enrs [][]byte ssz-max:"32,2048"  (hand-written: no leading offset) *)
Definition Enrs : Type := list bytes.
Definition enc_Enrs (v : Enrs) : res bytes := enc_dyn_list L_Enrs L_Enr v.
Definition dec_Enrs (strict : bool) (buf : bytes) : res Enrs :=
  dec_dyn_list strict buf L_Enrs (item_bytes_max L_Enr).

(* Accept : ConnectionId []byte ssz-size:"2", ContentKeys []byte ssz:"bitlist" ssz-max:"64" *)
Definition Accept : Type := (bytes * bytes)%type.

Definition enc_Accept (v : Accept) : res bytes :=
  let '(cid, keys) := v in
  bind (enc_bytes_exact 2 cid) (fun c =>
  let dst := c ++ u32_enc 6 in
  bind (enc_bytes_max L_AcceptBytes keys) (fun k => Ok (dst ++ k))).

Definition dec_Accept (buf : bytes) : res Accept :=
  let size := nlen buf in
  if size <? 6 then Err E_SIZE
  else
    bind (slice buf 0 2) (fun cid =>
    bind (read_offset_at buf 2) (fun o1 =>
    if size <? o1 then Err E_OFFSET
    else if negb (o1 =? 6) then Err E_VAROFF
    else
      bind (tail_from buf o1) (fun t =>
      bind (validate_bitlist t L_AcceptBits) (fun _ => Ok (cid, t))))).

(* AcceptV1 : ConnectionId []byte ssz-size:"2", ContentKeys []uint8 ssz-max:"64" *)
Definition AcceptV1 : Type := (bytes * bytes)%type.

Definition enc_AcceptV1 (v : AcceptV1) : res bytes :=
  let '(cid, keys) := v in
  bind (enc_bytes_exact 2 cid) (fun c =>
  let dst := c ++ u32_enc 6 in
  if L_AcceptV1Keys <? nlen keys then Err E_LISTBIG else Ok (dst ++ keys)).

Definition dec_AcceptV1 (buf : bytes) : res AcceptV1 :=
  let size := nlen buf in
  if size <? 6 then Err E_SIZE
  else
    bind (slice buf 0 2) (fun cid =>
    bind (read_offset_at buf 2) (fun o1 =>
    if size <? o1 then Err E_OFFSET
    else if negb (o1 =? 6) then Err E_VAROFF
    else
      bind (tail_from buf o1) (fun t =>
      bind (divide_int2 (nlen t) 1 L_AcceptV1Keys) (fun num =>
      bind (chunks (N.to_nat num) 1 t 0) (fun cs => Ok (cid, concat cs)))))).

(* ------------------------------------------------------------------ part 2: ping_ext (ztyp) *)

Definition zd_ClientInfo : list zdes := [z_bytelist L_ClientInfo; z_bytesN 32; z_uintlist 2 L_Capabilities].
Definition zd_BasicRadius : list zdes := [z_bytesN 32].
Definition zd_HistoryRadius : list zdes := [z_bytesN 32; z_uint 2].
Definition zd_ErrorPayload : list zdes := [z_uint 2; z_bytelist L_ErrMessage].

Definition u16s_enc (l : list N) : bytes := concat (map u16_enc l).

(* ClientInfoAndCapabilitiesPayload : ClientInfo ByteList[200], DataRadius Root, Capabilities List[uint16, 400]
   Deserialize = dr.Container(...), Serialize = w.Container(...) (no limit is checked when encoding) *)
Definition ClientInfo : Type := (bytes * bytes * list N)%type.
Definition enc_ClientInfo (v : ClientInfo) : res bytes :=
  let '(ci, radius, caps) := v in
  zs_container [mkzser 0 ci; mkzser 32 radius; mkzser 0 (u16s_enc caps)].
Definition dec_ClientInfo (data : bytes) : res ClientInfo :=
  bind (z_unmarshal false (z_container zd_ClientInfo) data) (fun vs =>
  match vs with [FB ci; FB radius; FNL caps] => Ok (ci, radius, caps) | _ => Panic end).

(* BasicRadiusPayload : DataRadius Root ; dr.FixedLenContainer / w.FixedLenContainer *)
Definition BasicRadius : Type := bytes.
Definition enc_BasicRadius (v : BasicRadius) : res bytes := zs_fixed_container [mkzser 32 v].
(* strict: `if uint64(len(data)) != basic.ByteLength() -> error` in front (repair); ByteLength() = 32 *)
Definition dec_BasicRadius (strict : bool) (data : bytes) : res BasicRadius :=
  if strict && negb (nlen data =? 32) then Err E_STRICT else
  bind (z_unmarshal false (z_fixed_container zd_BasicRadius) data) (fun vs =>
  match vs with [FB radius] => Ok radius | _ => Panic end).

(* HistoryRadiusPayload : DataRadius Root, EphemeralHeaderCount uint16 ; dr.Container / w.Container *)
Definition HistoryRadius : Type := (bytes * N)%type.
Definition enc_HistoryRadius (v : HistoryRadius) : res bytes :=
  let '(radius, cnt) := v in zs_container [mkzser 32 radius; mkzser 2 (u16_enc cnt)].
(* strict: `if uint64(len(data)) != his.ByteLength() -> error` in front (repair); ByteLength() = 34 *)
Definition dec_HistoryRadius (strict : bool) (data : bytes) : res HistoryRadius :=
  if strict && negb (nlen data =? 34) then Err E_STRICT else
  bind (z_unmarshal false (z_container zd_HistoryRadius) data) (fun vs =>
  match vs with [FB radius; FN cnt] => Ok (radius, cnt) | _ => Panic end).

(* ErrorPayload : ErrorCode uint16, Message ByteList[300] *)
Definition ErrorPayload : Type := (N * bytes)%type.
Definition enc_ErrorPayload (v : ErrorPayload) : res bytes :=
  let '(code, msg) := v in zs_container [mkzser 2 (u16_enc code); mkzser 0 msg].
Definition dec_ErrorPayload (data : bytes) : res ErrorPayload :=
  bind (z_unmarshal false (z_container zd_ErrorPayload) data) (fun vs =>
  match vs with [FN code; FB msg] => Ok (code, msg) | _ => Panic end).

(* CapabilitiesPayload : List[uint16, 400] on its own *)
Definition Capabilities : Type := list N.
Definition enc_Capabilities (v : Capabilities) : res bytes := Ok (u16s_enc v).
Definition dec_Capabilities (data : bytes) : res Capabilities :=
  bind (z_unmarshal false (fun r => bind (z_de (z_uintlist 2 L_Capabilities) r) (fun '(f, r') => Ok ([f], r'))) data) (fun vs =>
  match vs with [FNL caps] => Ok caps | _ => Panic end).


(* ------------------------------------------------------------------ part 3: history network containers (fastssz)
   types/history/types.go + types_encoding.go, history/types.go + types_encoding.go.
   Theorems: Proofs/Wire.v (codec_ok per type). *)
Definition L_Header : N := 8192.
Definition L_HeaderProof : N := 1024.
Definition L_EphPayloadCount : N := 256.
Definition L_EphHeader : N := 2048.
Definition L_Receipts : N := 16384.
Definition L_Receipt : N := 134217728.

(* buf[lo:hi][ii*32:(ii+1)*32] for ii < cnt *)
Definition dec_vec (buf : bytes) (lo hi cnt : nat) : res (list bytes) :=
  bind (slice buf lo hi) (fun s => chunks cnt 32 s 0).

(* BlockProofHistoricalHashesAccumulator : Proof [][]byte ssz-size:"15,32" *)
Definition enc_HashesAcc (v : list bytes) : res bytes := enc_vector 15 32 v.
Definition dec_HashesAcc (buf : bytes) : res (list bytes) :=
  if negb (nlen buf =? 480) then Err E_SIZE else dec_vec buf 0 480 15.

(* BlockProofHistoricalRoots (14, 11) / SummariesCapella (13, 11) / SummariesDeneb (13, 12):
   BeaconBlockProof [c1][32], BeaconBlockRoot [32], ExecutionBlockProof [c2][32], Slot uint64 *)
Definition Proof4 : Type := (list bytes * bytes * list bytes * N)%type.
Definition enc_Proof4 (c1 c2 : N) (v : Proof4) : res bytes :=
  let '(p1, root, p2, slot) := v in
  bind (enc_vector c1 32 p1) (fun a =>
  bind (enc_bytes_exact 32 root) (fun r =>
  bind (enc_vector c2 32 p2) (fun c => Ok (a ++ r ++ c ++ u64_enc slot)))).
Definition dec_Proof4 (c1 c2 : nat) (buf : bytes) : res Proof4 :=
  let n1 := (c1 * 32)%nat in let n2 := (n1 + 32)%nat in let n3 := (n2 + c2 * 32)%nat in let total := (n3 + 8)%nat in
  if negb (nlen buf =? N.of_nat total) then Err E_SIZE
  else
    bind (dec_vec buf 0 n1 c1) (fun p1 =>
    bind (slice buf n1 n2) (fun root =>
    bind (dec_vec buf n2 n3 c2) (fun p2 =>
    bind (bind (slice buf n3 total) read_u64) (fun slot => Ok (p1, root, p2, slot))))).

(* BlockHeaderWithProof : Header []byte ssz-max:"8192", Proof []byte ssz-max:"1024" *)
Definition enc_HeaderWithProof (v : bytes * bytes) : res bytes :=
  let '(header, proof) := v in
  let dst := u32_enc 8 ++ u32_enc (8 + nlen header) in
  bind (enc_bytes_max L_Header header) (fun h =>
  bind (enc_bytes_max L_HeaderProof proof) (fun p => Ok (dst ++ h ++ p))).
Definition dec_HeaderWithProof (buf : bytes) : res (bytes * bytes) :=
  let size := nlen buf in
  if size <? 8 then Err E_SIZE
  else
    bind (read_offset_at buf 0) (fun o0 =>
    if size <? o0 then Err E_OFFSET
    else if negb (o0 =? 8) then Err E_VAROFF
    else
      bind (read_offset_at buf 4) (fun o1 =>
      if (size <? o1) || (o1 <? o0) then Err E_OFFSET
      else
        bind (bind (between buf o0 o1) (dec_bytes_max L_Header)) (fun header =>
        bind (bind (tail_from buf o1) (dec_bytes_max L_HeaderProof)) (fun proof => Ok (header, proof))))).

(* FindContentEphemeralHeadersKey : BlockHash [32], AncestorCount uint8 *)
Definition enc_FindEphKey (v : bytes * N) : res bytes :=
  let '(h, n) := v in bind (enc_bytes_exact 32 h) (fun x => Ok (x ++ u8_enc n)).
Definition dec_FindEphKey (buf : bytes) : res (bytes * N) :=
  if negb (nlen buf =? 33) then Err E_SIZE
  else bind (slice buf 0 32) (fun h => bind (bind (slice buf 32 33) read_u8) (fun n => Ok (h, n))).

(* EphemeralHeaderPayload : Payload [][]byte ssz-max:"256,2048" ; hand-written, `size < 4 -> ErrSize` first *)
Definition enc_EphPayload (v : list bytes) : res bytes := enc_dyn_list L_EphPayloadCount L_EphHeader v.
(* rej = true: the `size < 4 -> ErrSize` test the code had in front (it rejected the encoding of the empty list) *)
Definition dec_EphPayload (rej strict : bool) (buf : bytes) : res (list bytes) :=
  if rej && (nlen buf <? 4) then Err E_SIZE else dec_dyn_list strict buf L_EphPayloadCount (item_bytes_max L_EphHeader).

(* OfferEphemeralHeaderKey : BlockHash [32] *)
Definition enc_OfferEphKey (v : bytes) : res bytes := enc_bytes_exact 32 v.
Definition dec_OfferEphKey (buf : bytes) : res bytes :=
  if negb (nlen buf =? 32) then Err E_SIZE else slice buf 0 32.

(* OfferEphemeralHeader : Header []byte ssz-max:"2048" *)
Definition enc_OfferEphHeader (v : bytes) : res bytes :=
  let dst := u32_enc 4 in bind (enc_bytes_max L_EphHeader v) (fun k => Ok (dst ++ k)).
Definition dec_OfferEphHeader (buf : bytes) : res bytes :=
  let size := nlen buf in
  if size <? 4 then Err E_SIZE
  else
    bind (read_offset_at buf 0) (fun o0 =>
    if size <? o0 then Err E_OFFSET
    else if negb (o0 =? 4) then Err E_VAROFF
    else bind (tail_from buf o0) (dec_bytes_max L_EphHeader)).

(* history.PortalReceipts : Receipts [][]byte ssz-max:"16384,134217728" ; hand-written, `size < 4 -> ErrSize` first *)
Definition enc_Receipts (v : list bytes) : res bytes := enc_dyn_list L_Receipts L_Receipt v.
Definition dec_Receipts (rej strict : bool) (buf : bytes) : res (list bytes) :=
  if rej && (nlen buf <? 4) then Err E_SIZE else dec_dyn_list strict buf L_Receipts (item_bytes_max L_Receipt).

(* history.HeaderRecord : BlockHash [32], TotalDifficulty [32] *)
Definition enc_HeaderRecord (v : bytes * bytes) : res bytes :=
  let '(h, td) := v in bind (enc_bytes_exact 32 h) (fun a => bind (enc_bytes_exact 32 td) (fun b => Ok (a ++ b))).
Definition dec_HeaderRecord (buf : bytes) : res (bytes * bytes) :=
  if negb (nlen buf =? 64) then Err E_SIZE
  else bind (slice buf 0 32) (fun h => bind (slice buf 32 64) (fun td => Ok (h, td))).


(* ------------------------------------------------------------------ part 4: beacon content keys (fastssz)
   types/beacon/types.go + types_encoding.go *)
(* LightClientUpdateKey : StartPeriod uint64, Count uint64 *)
Definition enc_LcUpdateKey (v : N * N) : res bytes := let '(a, c) := v in Ok (u64_enc a ++ u64_enc c).
Definition dec_LcUpdateKey (buf : bytes) : res (N * N) :=
  if negb (nlen buf =? 16) then Err E_SIZE
  else bind (bind (slice buf 0 8) read_u64) (fun a => bind (bind (slice buf 8 16) read_u64) (fun c => Ok (a, c))).
(* LightClientBootstrapKey : BlockHash []byte ssz-size:"32" *)
Definition enc_LcBootstrapKey (v : bytes) : res bytes := enc_bytes_exact 32 v.
Definition dec_LcBootstrapKey (buf : bytes) : res bytes :=
  if negb (nlen buf =? 32) then Err E_SIZE else slice buf 0 32.
(* LightClientFinalityUpdateKey / LightClientOptimisticUpdateKey : one uint64 *)
Definition enc_LcSlotKey (v : N) : res bytes := Ok (u64_enc v).
Definition dec_LcSlotKey (buf : bytes) : res N :=
  if negb (nlen buf =? 8) then Err E_SIZE else bind (slice buf 0 8) read_u64.


(* ------------------------------------------------------------------ part 5: history block bodies and the epoch accumulator (fastssz)
   history/types.go + types_encoding.go *)
Definition L_Txs : N := 16384.
Definition L_Tx : N := 16777216.
Definition L_Uncles : N := 131072.
Definition L_Withdrawals : N := 16.
Definition L_Withdrawal : N := 192.

(* size of the encoding of a list of variable-size items: 4 bytes of offset per item plus the items *)
Fixpoint items_total (l : list bytes) : N := match l with [] => 0 | x :: r => nlen x + items_total r end.
Definition dyn_size (l : list bytes) : N := 4 * nlen l + items_total l.

(* BlockBodyLegacy : Transactions [][]byte ssz-max:"16384,16777216", Uncles []byte ssz-max:"131072"
   (the two field offsets are written first; WriteOffset truncates to uint32) *)
Definition enc_BodyLegacy (v : list bytes * bytes) : res bytes :=
  let '(txs, uncles) := v in
  let dst := u32_enc 8 ++ u32_enc (8 + dyn_size txs) in
  bind (enc_dyn_list L_Txs L_Tx txs) (fun t =>
  bind (enc_bytes_max L_Uncles uncles) (fun u => Ok (dst ++ t ++ u))).
Definition dec_BodyLegacy (strict : bool) (buf : bytes) : res (list bytes * bytes) :=
  let size := nlen buf in
  if size <? 8 then Err E_SIZE
  else
    bind (read_offset_at buf 0) (fun o0 =>
    if size <? o0 then Err E_OFFSET
    else if negb (o0 =? 8) then Err E_VAROFF
    else
      bind (read_offset_at buf 4) (fun o1 =>
      if (size <? o1) || (o1 <? o0) then Err E_OFFSET
      else
        bind (bind (between buf o0 o1) (fun t => dec_dyn_list strict t L_Txs (item_bytes_max L_Tx))) (fun txs =>
        bind (bind (tail_from buf o1) (dec_bytes_max L_Uncles)) (fun uncles => Ok (txs, uncles))))).

(* PortalBlockBodyShanghai : Transactions, Uncles, Withdrawals [][]byte ssz-max:"16,192" *)
Definition enc_BodyShanghai (v : list bytes * bytes * list bytes) : res bytes :=
  let '(txs, uncles, ws) := v in
  let dst := u32_enc 12 ++ u32_enc (12 + dyn_size txs) ++ u32_enc (12 + dyn_size txs + nlen uncles) in
  bind (enc_dyn_list L_Txs L_Tx txs) (fun t =>
  bind (enc_bytes_max L_Uncles uncles) (fun u =>
  bind (enc_dyn_list L_Withdrawals L_Withdrawal ws) (fun w => Ok (dst ++ t ++ u ++ w)))).
Definition dec_BodyShanghai (strict : bool) (buf : bytes) : res (list bytes * bytes * list bytes) :=
  let size := nlen buf in
  if size <? 12 then Err E_SIZE
  else
    bind (read_offset_at buf 0) (fun o0 =>
    if size <? o0 then Err E_OFFSET
    else if negb (o0 =? 12) then Err E_VAROFF
    else
      bind (read_offset_at buf 4) (fun o1 =>
      if (size <? o1) || (o1 <? o0) then Err E_OFFSET
      else
        bind (read_offset_at buf 8) (fun o2 =>
        if (size <? o2) || (o2 <? o1) then Err E_OFFSET
        else
          bind (bind (between buf o0 o1) (fun t => dec_dyn_list strict t L_Txs (item_bytes_max L_Tx))) (fun txs =>
          bind (bind (between buf o1 o2) (dec_bytes_max L_Uncles)) (fun uncles =>
          bind (bind (tail_from buf o2) (fun t => dec_dyn_list strict t L_Withdrawals (item_bytes_max L_Withdrawal))) (fun ws =>
          Ok (txs, uncles, ws))))))).

(* EpochAccumulator : HeaderRecords [][]byte ssz-size:"8192,64".
   buf[0:524288][ii*64:(ii+1)*64] for ii < 8192, written as a walk over the buffer (linear in the extracted model) *)
Fixpoint split_chunks (k n : nat) (buf : bytes) : res (list bytes) :=
  match k with
  | O => Ok []
  | S k' =>
      let c := firstn n buf in
      if (length c <? n)%nat then Panic
      else bind (split_chunks k' n (skipn n buf)) (fun r => Ok (c :: r))
  end.
Definition enc_EpochAcc (v : list bytes) : res bytes := enc_vector 8192 64 v.
Definition dec_EpochAcc (buf : bytes) : res (list bytes) :=
  if negb (nlen buf =? 524288) then Err E_SIZE else split_chunks (N.to_nat 8192) 64 buf.


(* ------------------------------------------------------------------ part 6: prover-side history containers (fastssz)
   history/types.go + types_encoding.go: BlockHeaderWithProof (package history; same generated code and limits as
   types/history.BlockHeaderWithProof: enc_HeaderWithProof / dec_HeaderWithProof above), SSZProof, MasterAccumulator *)
Definition L_Witnesses : N := 65536.
Definition L_HistoricalEpochs : N := 1897.

(* SSZProof : Leaf []byte ssz-size:"32", Witnesses [][]byte ssz-max:"65536,32" ssz-size:"?,32" *)
Definition enc_SSZProof (v : bytes * list bytes) : res bytes :=
  let '(leaf, ws) := v in
  bind (enc_bytes_exact 32 leaf) (fun l =>
  let dst := l ++ u32_enc 36 in
  if L_Witnesses <? nlen ws then Err E_LISTBIG
  else bind (vec_items 32 ws) (fun w => Ok (dst ++ w))).
Definition dec_SSZProof (buf : bytes) : res (bytes * list bytes) :=
  let size := nlen buf in
  if size <? 36 then Err E_SIZE
  else
    bind (slice buf 0 32) (fun leaf =>
    bind (read_offset_at buf 32) (fun o1 =>
    if size <? o1 then Err E_OFFSET
    else if negb (o1 =? 36) then Err E_VAROFF
    else
      bind (tail_from buf o1) (fun t =>
      bind (divide_int2 (nlen t) 32 L_Witnesses) (fun num =>
      bind (split_chunks (N.to_nat num) 32 t) (fun ws => Ok (leaf, ws)))))).

(* MasterAccumulator : HistoricalEpochs [][]byte ssz-max:"1897,32" ssz-size:"?,32" *)
Definition enc_MasterAcc (v : list bytes) : res bytes :=
  let dst := u32_enc 4 in
  if L_HistoricalEpochs <? nlen v then Err E_LISTBIG
  else bind (vec_items 32 v) (fun w => Ok (dst ++ w)).
Definition dec_MasterAcc (buf : bytes) : res (list bytes) :=
  let size := nlen buf in
  if size <? 4 then Err E_SIZE
  else
    bind (read_offset_at buf 0) (fun o0 =>
    if size <? o0 then Err E_OFFSET
    else if negb (o0 =? 4) then Err E_VAROFF
    else
      bind (tail_from buf o0) (fun t =>
      bind (divide_int2 (nlen t) 32 L_HistoricalEpochs) (fun num =>
      split_chunks (N.to_nat num) 32 t))).

(* ------------------------------------------------------------------ what the code does today *)
(* As found: false / false / true.  The values below are those of the tree with fixes/C14-*.diff applied. *)
Definition code_strict_zero_offset : bool := true.    (* false: dec_dyn_list accepts 00000000 as the empty list *)
Definition code_strict_fixed_scope : bool := true.    (* false: fixed-size ztyp ping payloads ignore trailing bytes *)
Definition code_rejects_empty_list : bool := false.   (* true: EphemeralHeaderPayload / PortalReceipts reject the empty string *)

(* ------------------------------------------------------------------ generic layer used by the driver *)
Inductive ty : Type :=
| TPing | TPong | TFindNodes | TFindContent | TOffer | TNodes | TConnectionId | TContent | TEnrs | TAccept | TAcceptV1
| TClientInfo | TBasicRadius | THistoryRadius | TErrorPayload | TCapabilities
| THashesAcc | TProofRoots | TProofCapella | TProofDeneb | THeaderWithProof | TFindEphKey | TEphPayload | TOfferEphKey
| TOfferEphHeader | TReceipts | THeaderRecord
| TLcUpdateKey | TLcBootstrapKey | TLcFinalityKey | TLcOptimisticKey
| TBodyLegacy | TBodyShanghai | TEpochAcc
| THeaderWithProofH | TSSZProof | TMasterAcc.

Definition schema (t : ty) : list kind :=
  match t with
  | TPing | TPong => [KN; KN; KB]
  | TFindNodes => [KL]
  | TFindContent => [KB]
  | TOffer => [KL]
  | TNodes => [KN; KL]
  | TConnectionId => [KB]
  | TContent => [KB]
  | TEnrs => [KL]
  | TAccept | TAcceptV1 => [KB; KB]
  | TClientInfo => [KB; KB; KNL]
  | TBasicRadius => [KB]
  | THistoryRadius => [KB; KN]
  | TErrorPayload => [KN; KB]
  | TCapabilities => [KNL]
  | THashesAcc => [KL]
  | TProofRoots | TProofCapella | TProofDeneb => [KL; KB; KL; KN]
  | THeaderWithProof => [KB; KB]
  | TFindEphKey => [KB; KN]
  | TEphPayload | TReceipts => [KL]
  | TOfferEphKey | TOfferEphHeader => [KB]
  | THeaderRecord => [KB; KB]
  | TLcUpdateKey => [KN; KN]
  | TLcBootstrapKey => [KB]
  | TLcFinalityKey | TLcOptimisticKey => [KN]
  | TBodyLegacy => [KL; KB]
  | TBodyShanghai => [KL; KB; KL]
  | TEpochAcc => [KL]
  | THeaderWithProofH => [KB; KB]
  | TSSZProof => [KB; KL]
  | TMasterAcc => [KL]
  end.

Definition rmap {A B} (f : A -> B) (r : res A) : res B := bind r (fun a => Ok (f a)).

Definition enc_any (t : ty) (fs : list field) : res bytes :=
  match t, fs with
  | TPing, [FN s; FN p; FB b] => enc_Ping (s, p, b)
  | TPong, [FN s; FN p; FB b] => enc_Pong (s, p, b)
  | TFindNodes, [FL l] => enc_FindNodes l
  | TFindContent, [FB b] => enc_FindContent b
  | TOffer, [FL l] => enc_Offer l
  | TNodes, [FN n; FL l] => enc_Nodes (n, l)
  | TConnectionId, [FB b] => enc_ConnectionId b
  | TContent, [FB b] => enc_Content b
  | TEnrs, [FL l] => enc_Enrs l
  | TAccept, [FB c; FB k] => enc_Accept (c, k)
  | TAcceptV1, [FB c; FB k] => enc_AcceptV1 (c, k)
  | TClientInfo, [FB c; FB r; FNL l] => enc_ClientInfo (c, r, l)
  | TBasicRadius, [FB r] => enc_BasicRadius r
  | THistoryRadius, [FB r; FN n] => enc_HistoryRadius (r, n)
  | TErrorPayload, [FN c; FB m] => enc_ErrorPayload (c, m)
  | TCapabilities, [FNL l] => enc_Capabilities l
  | THashesAcc, [FL l] => enc_HashesAcc l
  | TProofRoots, [FL a; FB r; FL c; FN n] => enc_Proof4 14 11 (a, r, c, n)
  | TProofCapella, [FL a; FB r; FL c; FN n] => enc_Proof4 13 11 (a, r, c, n)
  | TProofDeneb, [FL a; FB r; FL c; FN n] => enc_Proof4 13 12 (a, r, c, n)
  | THeaderWithProof, [FB h; FB p] => enc_HeaderWithProof (h, p)
  | TFindEphKey, [FB h; FN n] => enc_FindEphKey (h, n)
  | TEphPayload, [FL l] => enc_EphPayload l
  | TOfferEphKey, [FB h] => enc_OfferEphKey h
  | TOfferEphHeader, [FB h] => enc_OfferEphHeader h
  | TReceipts, [FL l] => enc_Receipts l
  | THeaderRecord, [FB h; FB t] => enc_HeaderRecord (h, t)
  | TLcUpdateKey, [FN a; FN c] => enc_LcUpdateKey (a, c)
  | TLcBootstrapKey, [FB h] => enc_LcBootstrapKey h
  | TLcFinalityKey, [FN n] => enc_LcSlotKey n
  | TLcOptimisticKey, [FN n] => enc_LcSlotKey n
  | TBodyLegacy, [FL t; FB u] => enc_BodyLegacy (t, u)
  | TBodyShanghai, [FL t; FB u; FL w] => enc_BodyShanghai (t, u, w)
  | TEpochAcc, [FL l] => enc_EpochAcc l
  | THeaderWithProofH, [FB h; FB p] => enc_HeaderWithProof (h, p)
  | TSSZProof, [FB l; FL w] => enc_SSZProof (l, w)
  | TMasterAcc, [FL l] => enc_MasterAcc l
  | _, _ => Err E_SHAPE
  end.

(* zs = strictness of the list-of-variable-items decoders, fs = strictness of the fixed-size ztyp payloads,
   rej = the `size < 4` test in front of the two hand-written list containers *)
Definition dec_any (zs fs rej : bool) (t : ty) (b : bytes) : res (list field) :=
  match t with
  | TPing => rmap (fun '(s, p, x) => [FN s; FN p; FB x]) (dec_Ping b)
  | TPong => rmap (fun '(s, p, x) => [FN s; FN p; FB x]) (dec_Pong b)
  | TFindNodes => rmap (fun l => [FL l]) (dec_FindNodes b)
  | TFindContent => rmap (fun x => [FB x]) (dec_FindContent b)
  | TOffer => rmap (fun l => [FL l]) (dec_Offer zs b)
  | TNodes => rmap (fun '(n, l) => [FN n; FL l]) (dec_Nodes zs b)
  | TConnectionId => rmap (fun x => [FB x]) (dec_ConnectionId b)
  | TContent => rmap (fun x => [FB x]) (dec_Content b)
  | TEnrs => rmap (fun l => [FL l]) (dec_Enrs zs b)
  | TAccept => rmap (fun '(c, k) => [FB c; FB k]) (dec_Accept b)
  | TAcceptV1 => rmap (fun '(c, k) => [FB c; FB k]) (dec_AcceptV1 b)
  | TClientInfo => rmap (fun '(c, r, l) => [FB c; FB r; FNL l]) (dec_ClientInfo b)
  | TBasicRadius => rmap (fun r => [FB r]) (dec_BasicRadius fs b)
  | THistoryRadius => rmap (fun '(r, n) => [FB r; FN n]) (dec_HistoryRadius fs b)
  | TErrorPayload => rmap (fun '(c, m) => [FN c; FB m]) (dec_ErrorPayload b)
  | TCapabilities => rmap (fun l => [FNL l]) (dec_Capabilities b)
  | THashesAcc => rmap (fun l => [FL l]) (dec_HashesAcc b)
  | TProofRoots => rmap (fun '(a, r, c, n) => [FL a; FB r; FL c; FN n]) (dec_Proof4 14 11 b)
  | TProofCapella => rmap (fun '(a, r, c, n) => [FL a; FB r; FL c; FN n]) (dec_Proof4 13 11 b)
  | TProofDeneb => rmap (fun '(a, r, c, n) => [FL a; FB r; FL c; FN n]) (dec_Proof4 13 12 b)
  | THeaderWithProof => rmap (fun '(h, p) => [FB h; FB p]) (dec_HeaderWithProof b)
  | TFindEphKey => rmap (fun '(h, n) => [FB h; FN n]) (dec_FindEphKey b)
  | TEphPayload => rmap (fun l => [FL l]) (dec_EphPayload rej zs b)
  | TOfferEphKey => rmap (fun h => [FB h]) (dec_OfferEphKey b)
  | TOfferEphHeader => rmap (fun h => [FB h]) (dec_OfferEphHeader b)
  | TReceipts => rmap (fun l => [FL l]) (dec_Receipts rej zs b)
  | THeaderRecord => rmap (fun '(h, t) => [FB h; FB t]) (dec_HeaderRecord b)
  | TLcUpdateKey => rmap (fun '(a, c) => [FN a; FN c]) (dec_LcUpdateKey b)
  | TLcBootstrapKey => rmap (fun h => [FB h]) (dec_LcBootstrapKey b)
  | TLcFinalityKey => rmap (fun n => [FN n]) (dec_LcSlotKey b)
  | TLcOptimisticKey => rmap (fun n => [FN n]) (dec_LcSlotKey b)
  | TBodyLegacy => rmap (fun '(t, u) => [FL t; FB u]) (dec_BodyLegacy zs b)
  | TBodyShanghai => rmap (fun '(t, u, w) => [FL t; FB u; FL w]) (dec_BodyShanghai zs b)
  | TEpochAcc => rmap (fun l => [FL l]) (dec_EpochAcc b)
  | THeaderWithProofH => rmap (fun '(h, p) => [FB h; FB p]) (dec_HeaderWithProof b)
  | TSSZProof => rmap (fun '(l, w) => [FB l; FL w]) (dec_SSZProof b)
  | TMasterAcc => rmap (fun l => [FL l]) (dec_MasterAcc b)
  end.

(* the decoder the code has today *)
Definition dec_code (t : ty) (b : bytes) : res (list field) :=
  dec_any code_strict_zero_offset code_strict_fixed_scope code_rejects_empty_list t b.
(* the intended decoder *)
Definition dec_spec (t : ty) (b : bytes) : res (list field) := dec_any true true false t b.

(* ---- limits, as boolean predicates per field (the driver's monitors evaluate them on what the implementation decoded) *)
Definition len_le (mx : N) (b : bytes) : bool := nlen b <=? mx.
Definition all_len_le (mx : N) (l : list bytes) : bool := forallb (len_le mx) l.
Definition all_len_eq (n : N) (l : list bytes) : bool := forallb (fun b => nlen b =? n) l.
Definition all_lt (bound : N) (l : list N) : bool := forallb (fun v => v <? bound) l.

(* number of bits of a bitlist value (position of the delimiter bit) *)
Definition bitlist_ok (limit : N) (b : bytes) : bool :=
  match validate_bitlist b limit with Ok _ => true | _ => false end.

(* per field: is the declared limit respected *)
Definition limits_any (t : ty) (fs : list field) : list bool :=
  match t, fs with
  | TPing, [FN s; FN p; FB b] | TPong, [FN s; FN p; FB b] => [true; true; len_le L_PingPayload b]
  | TFindNodes, [FL l] => [nlen l <=? L_Distances]
  | TFindContent, [FB b] => [len_le L_ContentKey b]
  | TOffer, [FL l] => [(nlen l <=? L_OfferKeys) && all_len_le L_ContentKey l]
  | TNodes, [FN n; FL l] => [true; (nlen l <=? L_Enrs) && all_len_le L_Enr l]
  | TConnectionId, [FB b] => [nlen b =? 2]
  | TContent, [FB b] => [len_le L_Content b]
  | TEnrs, [FL l] => [(nlen l <=? L_Enrs) && all_len_le L_Enr l]
  | TAccept, [FB c; FB k] => [nlen c =? 2; bitlist_ok L_AcceptBits k]
  | TAcceptV1, [FB c; FB k] => [nlen c =? 2; len_le L_AcceptV1Keys k]
  | TClientInfo, [FB c; FB r; FNL l] => [len_le L_ClientInfo c; true; nlen l <=? L_Capabilities]
  | TBasicRadius, [FB r] => [true]
  | THistoryRadius, [FB r; FN n] => [true; true]
  | TErrorPayload, [FN c; FB m] => [true; len_le L_ErrMessage m]
  | TCapabilities, [FNL l] => [nlen l <=? L_Capabilities]
  | THashesAcc, [FL l] => [(nlen l =? 15) && all_len_eq 32 l]
  | TProofRoots, [FL a; FB r; FL c; FN n] => [(nlen a =? 14) && all_len_eq 32 a; nlen r =? 32; (nlen c =? 11) && all_len_eq 32 c; true]
  | TProofCapella, [FL a; FB r; FL c; FN n] => [(nlen a =? 13) && all_len_eq 32 a; nlen r =? 32; (nlen c =? 11) && all_len_eq 32 c; true]
  | TProofDeneb, [FL a; FB r; FL c; FN n] => [(nlen a =? 13) && all_len_eq 32 a; nlen r =? 32; (nlen c =? 12) && all_len_eq 32 c; true]
  | THeaderWithProof, [FB h; FB p] => [len_le L_Header h; len_le L_HeaderProof p]
  | TFindEphKey, [FB h; FN n] => [nlen h =? 32; true]
  | TEphPayload, [FL l] => [(nlen l <=? L_EphPayloadCount) && all_len_le L_EphHeader l]
  | TOfferEphKey, [FB h] => [nlen h =? 32]
  | TOfferEphHeader, [FB h] => [len_le L_EphHeader h]
  | TReceipts, [FL l] => [(nlen l <=? L_Receipts) && all_len_le L_Receipt l]
  | THeaderRecord, [FB h; FB t] => [nlen h =? 32; nlen t =? 32]
  | TLcUpdateKey, [FN a; FN c] => [true; true]
  | TLcBootstrapKey, [FB h] => [nlen h =? 32]
  | TLcFinalityKey, [FN n] | TLcOptimisticKey, [FN n] => [true]
  | TBodyLegacy, [FL t; FB u] => [(nlen t <=? L_Txs) && all_len_le L_Tx t; len_le L_Uncles u]
  | TBodyShanghai, [FL t; FB u; FL w] =>
      [(nlen t <=? L_Txs) && all_len_le L_Tx t; len_le L_Uncles u; (nlen w <=? L_Withdrawals) && all_len_le L_Withdrawal w]
  | TEpochAcc, [FL l] => [(nlen l =? 8192) && all_len_eq 64 l]
  | THeaderWithProofH, [FB h; FB p] => [len_le L_Header h; len_le L_HeaderProof p]
  | TSSZProof, [FB l; FL w] => [nlen l =? 32; (nlen w <=? L_Witnesses) && all_len_eq 32 w]
  | TMasterAcc, [FL l] => [(nlen l <=? L_HistoricalEpochs) && all_len_eq 32 l]
  | _, _ => [false]
  end.

(* Go-type well-formedness (not a limit: the Go type cannot hold anything else) *)
Definition wf_any (t : ty) (fs : list field) : bool :=
  match t, fs with
  | TPing, [FN s; FN p; FB b] | TPong, [FN s; FN p; FB b] => (s <? two64) && (p <? two16)
  | TFindNodes, [FL l] => all_len_eq 2 l
  | TNodes, [FN n; FL l] => n <? two8
  | TClientInfo, [FB c; FB r; FNL l] => (nlen r =? 32) && all_lt two16 l
  | TBasicRadius, [FB r] => nlen r =? 32
  | THistoryRadius, [FB r; FN n] => (nlen r =? 32) && (n <? two16)
  | TErrorPayload, [FN c; FB m] => c <? two16
  | TCapabilities, [FNL l] => all_lt two16 l
  | TProofRoots, [FL a; FB r; FL c; FN n] | TProofCapella, [FL a; FB r; FL c; FN n] | TProofDeneb, [FL a; FB r; FL c; FN n] => n <? two64
  | TFindEphKey, [FB h; FN n] => n <? two8
  | TLcUpdateKey, [FN a; FN c] => (a <? two64) && (c <? two64)
  | TLcFinalityKey, [FN n] | TLcOptimisticKey, [FN n] => n <? two64
  | _, _ => true
  end.

(* the literal limits, for the `const` lines of the correspondence *)
Definition model_limits : list N :=
  [L_PingPayload; L_Distances; L_ContentKey; L_OfferKeys; L_Enr; L_Enrs; L_Content; L_AcceptBits; L_AcceptV1Keys;
   L_ClientInfo; L_Capabilities; L_ErrMessage; L_CustomPayload].
