(* Model/ContentFull.v : the content path behind the entry points of Model/Dispatch.v, composed (C01, second half:
   "an offered or looked-up content item together with its content key never panics").
   What arrives over the uTP stream of an accepted OFFER goes through
     handleOfferedContents (stream decoding + count check: Model/Dispatch.v over Model/Framing.v, C15), the content queue,
     <network>.validateContents: per (key, content) pair the network's validator, then portalProtocol.Put = the storage adapter;
   what a lookup returns goes through the same validator in the history getters.
   Mirrors  history/history_network.go   validateContents, GetBlockHeader / GetBlockBody / GetReceipts   (= Model/History.v, C02)
            history/validation.go        ValidateContent with headerValidator.ValidateHeaderAndProof     (= Model/HeaderProof.v, C03)
            history/storage.go           Storage.Put / Get: isEphemeralOfferType                          (Model/Dispatch.v)
            state/network.go             validateContents
            state/validation.go          ValidateContent: key type switch, the two Deserialize calls, then Model/StateTrie.v (C13)
            state/storage.go             Put: key type switch, the two Deserialize calls, then StateTrie.put (C13)
            beacon/beacon_network.go     validateContents
            beacon/validation.go         ValidateContent: key type switch, key decoders of Model/Wire.v / WireState.v (C14)
            beacon/storage.go            Get / Put: key type switch, historical-summaries record (Model/Dispatch.v)
   Other people's models are used as they are (wrapped, not edited).  Library functions stay function arguments:
     history   the record [hlib] (keccak of a header, RLP / SSZ decoders, root derivations) and the accumulators [hacc]
               (pair hash, embedded accumulators, summaries cache and oracle answer per call);
     state     keccak, the RLP node decoder, types.FullAccount, the header source, the content id function and
               [dec_item] = the two ztyp Deserialize calls of a (key, content) pair; [state_dec_item] / [slib_concrete] fix it
               to the decoders of Model/WireState.v (total by C14_decoders_total_state);
     beacon    [content_info] = Deserialize of the Forked* content types + the checks made on the decoded value (fork digest,
               bootstrap age, the summaries Merkle branch) reduced to the one number compared with the key.
   No proofs in this file. *)
From Shisui Require Import Base.Bytes Base.Ssz Gen.K_header.
From Shisui Require Import Model.Framing Model.Dispatch Model.Wire Model.WireState Model.History Model.HeaderProof Model.StateTrie.

Definition E_DROPPED : N := 60.        (* content queue full: the element is dropped (no validation happens) *)
Definition E_MISMATCH : N := 61.       (* beacon: decoded content does not match the key *)

(* content types as written in the Go sources (types/history/types.go, state/types.go, types/beacon/types.go) *)
Definition T_OfferEphemeral : N := 5.
Definition T_AccountTrieNode : N := 32.            (* 0x20 *)
Definition T_ContractStorageTrieNode : N := 33.    (* 0x21 *)
Definition T_ContractByteCode : N := 34.           (* 0x22 *)
Definition state_types : list N := [T_AccountTrieNode; T_ContractStorageTrieNode; T_ContractByteCode].
Definition T_LcBootstrap : N := 16.                (* 0x10 *)
Definition T_LcUpdate : N := 17.
Definition T_LcFinalityUpdate : N := 18.
Definition T_LcOptimisticUpdate : N := 19.
Definition T_HistoricalSummaries : N := 20.        (* 0x14 *)
Definition beacon_types : list N := [T_LcBootstrap; T_LcUpdate; T_LcFinalityUpdate; T_LcOptimisticUpdate; T_HistoricalSummaries].

(* ---------------------------------------------------------------- handleOfferedContents, then the consumer of the queue *)
(* [k] = what processContentLoop does with the element; [fail] = what is left when nothing is enqueued *)
Definition with_offered_contents {R} (keys : list bytes) (payload : bytes) (k : list bytes -> R) (fail : res unit -> R) : R :=
  match Dispatch.handle_offered_contents (length keys) payload with
  | Ok (Some contents) => k contents
  | Ok None => fail (Err E_DROPPED)
  | Err e => fail (Err e)
  | Panic => fail Panic
  end.

(* Dispatch.key_dispatch with the value of the continuation kept:  switch T(key[0]) { case ...: f(key[1:], content) } *)
Definition key_dispatch_t {A} (k_sub : N -> bytes -> bytes -> res A) (g : bool) (types : list N) (key content : bytes) : res A :=
  if g && Nat.eqb (length key) 0 then Err Dispatch.E_BAD_KEY else
  bind (idx key 0) (fun t =>
  if existsb (N.eqb (b2n t)) types then bind (tail1 key) (fun body => k_sub (b2n t) body content)
  else Err Dispatch.E_UNKNOWN_TYPE).

(* state / beacon validateContents: for i, content := range contents { key := keys[i]; ValidateContent; Put }.
   St = what Put changes; the step index is passed on (the header source / oracle may answer differently each time) *)
Section OfferLoop.
  Variable St : Type.
  Variable validate : nat -> St -> bytes -> bytes -> res unit.
  Variable put : nat -> St -> bytes -> bytes -> res St.
  Fixpoint offer_loop (keys : list bytes) (i : nat) (contents : list bytes) (s : St) : res unit * St :=
    match contents with
    | [] => (Ok tt, s)
    | c :: rest =>
        match idx keys i with                                        (* contentKeys[i] *)
        | Ok k =>
            match validate i s k c with
            | Ok _ =>
                match put i s k c with
                | Ok s' => offer_loop keys (S i) rest s'
                | Err e => (Err e, s)
                | Panic => (Panic, s)
                end
            | Err e => (Err e, s)
            | Panic => (Panic, s)
            end
        | Err e => (Err e, s)
        | Panic => (Panic, s)
        end
    end.
End OfferLoop.

(* ================================================================ HISTORY *)
(* the library functions of Model/History.v's Section, the header proof check excepted *)
Record hlib : Type := {
  hl_body : Type; hl_receipts : Type;
  hl_hdr_hash : History.header -> bytes;                 (* header.Hash() *)
  hl_dec_hwp : bytes -> option (bytes * bytes);          (* DecodeBlockHeaderWithProof *)
  hl_dec_header : bytes -> option History.header;        (* DecodeBlockHeader *)
  hl_dec_body : bytes -> option hl_body;                 (* DecodePortalBlockBodyBytes *)
  hl_uncle_hash : hl_body -> bytes;
  hl_tx_root : hl_body -> bytes;
  hl_wd_root : hl_body -> option bytes;
  hl_dec_receipts : bytes -> option hl_receipts;
  hl_receipt_root : hl_receipts -> bytes;
  hl_empty_receipt_hash : bytes }.

(* what HeaderValidator holds: the pair hash, the two embedded accumulators, and per call the summaries cache and the
   answer of oracle.GetHistoricalSummaries (arbitrary functions of the call: any cache history, any oracle) *)
Record hacc : Type := {
  ha_H : bytes -> bytes -> bytes;
  ha_epochs : list bytes;                                (* preMergeAcc.HistoricalEpochs *)
  ha_roots : list bytes;                                 (* historicalRootsAcc *)
  ha_sums : History.header -> bytes -> list bytes;
  ha_oracle : History.header -> bytes -> option (res (list bytes)) }.

(* HeaderValidator.ValidateHeaderAndProof(header, proof): blockNumber = header.Number.Uint64(), hash = header.Hash();
   guard_roots = true is the current code *)
Definition c03_proof_check (B : hlib) (A : hacc) (h : History.header) (proof : bytes) : res unit :=
  validate_header_and_proof (ha_H A) true (ha_epochs A) (ha_roots A) (ha_sums A h proof) (ha_oracle A h proof)
    (h_number h mod History.two64) (hl_hdr_hash B h) proof.

(* HistoryValidator.ValidateContent of the current tree (variant [repaired]) with that proof check *)
Definition history_validate (B : hlib) (A : hacc) : (bytes -> option History.header) -> bytes -> bytes -> res unit :=
  History.validate_content (hl_body B) (hl_receipts B) (hl_hdr_hash B) (hl_dec_hwp B) (hl_dec_header B) (c03_proof_check B A)
    (hl_dec_body B) (hl_uncle_hash B) (hl_tx_root B) (hl_wd_root B) (hl_dec_receipts B) (hl_receipt_root B)
    (hl_empty_receipt_hash B) repaired.

(* Network.validateContents (Model/History.v: skip what the store has, validate, Put) *)
Definition history_validate_contents (B : hlib) (A : hacc) :=
  History.validate_contents (hl_body B) (hl_receipts B) (hl_hdr_hash B) (hl_dec_hwp B) (hl_dec_header B) (c03_proof_check B A)
    (hl_dec_body B) (hl_uncle_hash B) (hl_tx_root B) (hl_wd_root B) (hl_dec_receipts B) (hl_receipt_root B)
    (hl_empty_receipt_hash B) repaired.

(* stream payload of an accepted OFFER -> result of validateContents, the store, the Puts in order *)
Definition history_offered_contents (B : hlib) (A : hacc) (src : bytes -> option History.header)
           (keys : list bytes) (payload : bytes) (s : History.store) : res unit * History.store * list (bytes * bytes) :=
  with_offered_contents keys payload (fun contents => history_validate_contents B A src keys contents s)
                        (fun r => (r, s, [])).

(* history Storage.Put / Get route on the key: true = the ephemeral store, false = the eternal (pebble) store *)
Definition history_storage_route (key : bytes) : res bool := history_is_ephemeral true T_OfferEphemeral key.

(* looked-up content: GetBlockHeader / GetBlockBody / GetReceipts *)
Definition history_get_header (B : hlib) (A : hacc) :=
  History.get_block_header (hl_body B) (hl_receipts B) (hl_hdr_hash B) (hl_dec_hwp B) (hl_dec_header B) (c03_proof_check B A)
    (hl_dec_body B) (hl_uncle_hash B) (hl_tx_root B) (hl_wd_root B) (hl_dec_receipts B) (hl_receipt_root B)
    (hl_empty_receipt_hash B) repaired.
Definition history_get_body (B : hlib) (A : hacc) :=
  History.get_block_body (hl_body B) (hl_receipts B) (hl_hdr_hash B) (hl_dec_hwp B) (hl_dec_header B) (c03_proof_check B A)
    (hl_dec_body B) (hl_uncle_hash B) (hl_tx_root B) (hl_wd_root B) (hl_dec_receipts B) (hl_receipt_root B)
    (hl_empty_receipt_hash B) repaired.
Definition history_get_receipts (B : hlib) (A : hacc) :=
  History.get_receipts (hl_body B) (hl_receipts B) (hl_hdr_hash B) (hl_dec_hwp B) (hl_dec_header B) (c03_proof_check B A)
    (hl_dec_body B) (hl_uncle_hash B) (hl_tx_root B) (hl_wd_root B) (hl_dec_receipts B) (hl_receipt_root B)
    (hl_empty_receipt_hash B) repaired.

(* ================================================================ STATE *)
Record slib : Type := {
  sl_node_hash : bytes -> bytes;                         (* crypto.Keccak256 *)
  sl_decode : bytes -> res node;                         (* trie.DecodeTrieNode *)
  sl_decode_account : bytes -> res (bytes * bytes);      (* types.FullAccount *)
  sl_header : nat -> bytes -> res bytes;                 (* validationOracle.GetBlockHeaderByHash(.).Root while item i is validated *)
  sl_cid : bytes -> bytes;                               (* portalProtocol.ToContentId *)
  sl_dec_item : N -> bytes -> bytes -> res request }.    (* key type, key[1:], content -> the decoded pair *)

(* the two Deserialize calls per key type, with the ztyp decoders of Model/WireState.v *)
Definition state_dec_item (t : N) (body content : bytes) : res request :=
  if t =? T_AccountTrieNode then
    bind (dec_AccountTrieNodeKey body) (fun '(path, nh) =>
    bind (dec_AccountTrieNodeWithProof content) (fun '(proof, bh) => Ok (RAccountNode path nh proof bh)))
  else if t =? T_ContractStorageTrieNode then
    bind (dec_StorageTrieNodeKey body) (fun '(addr, path, nh) =>
    bind (dec_StorageTrieNodeWithProof content) (fun '(sproof, aproof, bh) => Ok (RStorageNode addr path nh sproof aproof bh)))
  else
    bind (dec_BytecodeKey code_strict_state_fixed_keys body) (fun '(addr, ch) =>
    bind (dec_BytecodeWithProof content) (fun '(code, aproof, bh) => Ok (RBytecode addr ch code aproof bh))).

(* the state library with the two Deserialize calls fixed to the decoders of Model/WireState.v *)
Definition slib_concrete (node_hash : bytes -> bytes) (decode : bytes -> res node) (decode_account : bytes -> res (bytes * bytes))
           (header : nat -> bytes -> res bytes) (cid : bytes -> bytes) : slib :=
  {| sl_node_hash := node_hash; sl_decode := decode; sl_decode_account := decode_account; sl_header := header; sl_cid := cid;
     sl_dec_item := state_dec_item |}.

(* StateValidator.ValidateContent *)
Definition state_validate (L : slib) (i : nat) (key content : bytes) : res unit :=
  key_dispatch_t (fun t body c => bind (sl_dec_item L t body c) (fun r =>
                    StateTrie.validate_content (sl_node_hash L) (sl_decode L) (sl_decode_account L) (sl_header L i) r))
                 true state_types key content.

(* state Storage.Put: the value written under the content id *)
Definition state_put_value (L : slib) (key content : bytes) : res bytes :=
  key_dispatch_t (fun t body c => bind (sl_dec_item L t body c) (fun r => StateTrie.put (sl_node_hash L) r))
                 true state_types key content.
Definition state_put (L : slib) (s : StateTrie.store) (key content : bytes) : res StateTrie.store :=
  bind (state_put_value L key content) (fun v => Ok (StateTrie.store_put s (sl_cid L key) v)).

Definition state_validate_contents (L : slib) (keys contents : list bytes) (s : StateTrie.store) : res unit * StateTrie.store :=
  offer_loop StateTrie.store (fun i _ k c => state_validate L i k c) (fun _ s k c => state_put L s k c) keys 0 contents s.

Definition state_offered_contents (L : slib) (keys : list bytes) (payload : bytes) (s : StateTrie.store)
  : res unit * StateTrie.store :=
  with_offered_contents keys payload (fun contents => state_validate_contents L keys contents s) (fun r => (r, s)).

(* ================================================================ BEACON *)
(* [content_info t content]: Deserialize of the content type of key type t and the checks on the decoded value alone; the
   number it yields is what ValidateContent compares with the key: number of updates (0x11), finalized slot (0x12),
   signature slot (0x13), epoch (0x14); unused for 0x10.  Library code (zrnt / ztyp), not modelled. *)
Definition beacon_validate_sub (content_info : N -> bytes -> res N) (t : N) (body content : bytes) : res unit :=
  if t =? T_LcUpdate then
    bind (content_info t content) (fun n =>
    bind (dec_LcUpdateKey body) (fun '(_, count) => if count =? n then Ok tt else Err E_MISMATCH))
  else if t =? T_LcBootstrap then bind (content_info t content) (fun _ => Ok tt)
  else if t =? T_LcFinalityUpdate then
    bind (dec_LcSlotKey body) (fun slot =>
    bind (content_info t content) (fun finalized => if finalized <? slot then Err E_MISMATCH else Ok tt))
  else if t =? T_LcOptimisticUpdate then
    bind (dec_LcSlotKey body) (fun slot =>
    bind (content_info t content) (fun sig => if slot =? sig then Ok tt else Err E_MISMATCH))
  else
    bind (dec_HistSummariesKey code_strict_state_fixed_keys body) (fun epoch =>
    bind (content_info t content) (fun e => if e =? epoch then Ok tt else Err E_MISMATCH)).

(* BeaconValidator.ValidateContent: an instance of Dispatch.key_dispatch *)
Definition beacon_validate (content_info : N -> bytes -> res N) (key content : bytes) : res unit :=
  Dispatch.key_dispatch (beacon_validate_sub content_info) true beacon_types key content.

(* beacon Storage.Put.  [st] = the record under historicalSummariesKey; [db_put t key[1:] content] = the database / cache
   work of the four light-client types (LightClientUpdate decodes its key first).  An unknown type falls out of the switch: nil. *)
Definition beacon_put (db_put : N -> bytes -> bytes -> res unit) (key content : bytes) (st : option bytes) : res (option bytes) :=
  if Nat.eqb (length key) 0 then Err Dispatch.E_BAD_KEY else
  bind (idx key 0) (fun tb =>
  let t := b2n tb in
  if t =? T_HistoricalSummaries then beacon_put_summaries true key content st
  else if t =? T_LcUpdate then
    bind (tail1 key) (fun body => bind (dec_LcUpdateKey body) (fun _ => bind (db_put t body content) (fun _ => Ok st)))
  else if existsb (N.eqb t) beacon_types then
    bind (tail1 key) (fun body => bind (db_put t body content) (fun _ => Ok st))
  else Ok st).

(* beacon Storage.Get (what FINDCONTENT and the local lookups read).  [db_get t key[1:]] = database / cache read of the four
   light-client types after their key decoded; an unknown type returns (nil, nil) *)
Definition beacon_get (db_get : N -> bytes -> res bytes) (key : bytes) (st : option bytes) : res bytes :=
  if Nat.eqb (length key) 0 then Err Dispatch.E_NOT_FOUND else
  bind (idx key 0) (fun tb =>
  let t := b2n tb in
  if t =? T_HistoricalSummaries then beacon_get_summaries true key st
  else if t =? T_LcBootstrap then bind (tail1 key) (db_get t)
  else if t =? T_LcUpdate then bind (tail1 key) (fun body => bind (dec_LcUpdateKey body) (fun _ => db_get t body))
  else if (t =? T_LcFinalityUpdate) || (t =? T_LcOptimisticUpdate) then
    bind (tail1 key) (fun body => bind (dec_LcSlotKey body) (fun _ => db_get t body))
  else Ok []).

Definition beacon_validate_contents (content_info : nat -> N -> bytes -> res N) (db_put : N -> bytes -> bytes -> res unit)
           (keys contents : list bytes) (st : option bytes) : res unit * option bytes :=
  offer_loop (option bytes) (fun i _ k c => beacon_validate (content_info i) k c) (fun _ st k c => beacon_put db_put k c st)
             keys 0 contents st.

Definition beacon_offered_contents (content_info : nat -> N -> bytes -> res N) (db_put : N -> bytes -> bytes -> res unit)
           (keys : list bytes) (payload : bytes) (st : option bytes) : res unit * option bytes :=
  with_offered_contents keys payload (fun contents => beacon_validate_contents content_info db_put keys contents st)
                        (fun r => (r, st)).
