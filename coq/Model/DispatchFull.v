(* Model/DispatchFull.v : the remote entry points of Model/Dispatch.v with the code BEHIND the dispatch filled in (C01).
   Dispatch.v leaves the SSZ decoders and the handlers as Section functions.  Here they are instantiated with
     the decoders of Model/Wire.v (C14)            X.UnmarshalSSZ(msg[1:]) / (resp[1:]) / (resp[2:]),
     handle_find_nodes / filter_nodes (C11),       handle_find_content (C08),   handle_offer + the offering side (C09),
     the ping / pong payload processing (C20),     get_or_store = getOrStoreHighestVersion (C19),   the stream framing (C15).
   Mirrors  portalwire/portal_protocol.go  handleTalkRequest, handlePing (+ handleClientInfo / handleBasicRadius /
            handleHistoryRadius / createPong), processPong + processPongPayload, processNodes, processContent, processOffer
            and portal_protocol_v1.go parseOfferResp, for WHICH decoder and WHICH handler a message reaches and what an error
            does to the reply (any error => nil reply => [Empty]).
   The node is an explicit record of what the handlers read ([node_state]); the remote peer is a record of the facts the
   code asks about it ([peer]); rand.Shuffle, sort.Slice and "ENR bytes -> node facts" are function arguments.
   How the handler models are plugged in (none of them is relational; all are functions, but of ABSTRACTED inputs):
     - C11 / C08 work on [nrec] (the facts of an ENR the code looks at) and take the outcome of storage.Get as a value of
       [stored]: the table snapshot and the store view are fields of [node_state]; on the asking side the decoded ENR byte
       strings are mapped through [enr_view : bytes -> nrec];
     - the nondeterministic steps (shuffle, sort) are witnesses in the correspondence drivers of C11 / C08 / C20; here they
       are arbitrary functions [shuf], [srt];
     - C09's handle_offer takes the version as a [res N]: it is fed [get_or_store] of C19 on the peer's "pv" entry; the
       per-key facts are the [nodeview] of C09;
     - C20's process_ping / process_pong are cache -> cache functions of an [event]: the event is built from the decoded
       message by [payload_event] (payload decoded with the decoder of its type);
     - C09's offering side (Model/Offer.v process_offer) has its own ACCEPT parser: [accept_body] uses dec_Accept /
       dec_AcceptV1 of Model/Wire.v and repeats the rest; Proofs/DispatchFull.v proves the two agree.
   No proofs in this file. *)
From Shisui Require Import Base.Bytes Base.Ssz Gen.K_wire Gen.K_table Gen.K_handlers.
From Shisui Require Import Model.Framing Model.Dispatch Model.Wire Model.Handlers Model.Gossip Model.Versions Model.Offer.
Require Coq.Strings.String.

Definition E_NIL_KEY : N := 40.          (* ErrNilContentKey *)
Definition E_PONG_PAYLOAD : N := 41.     (* ErrPayloadTypeIsNotSupported *)
Definition E_NOT_RADIUS : N := 42.       (* payload type without a DataRadius *)

(* ---------------------------------------------------------------- what the handlers read *)
Record node_state : Type := {
  ns_self : nrec;                        (* p.Self(): the local record *)
  ns_seq : N;                            (* p.Self().Seq() *)
  ns_tab : table;                        (* tab.buckets at the time of the call: entries with their liveness flag *)
  ns_init_done : bool;                   (* tab.isInitDone() (nodeList() is nil before) *)
  ns_radius : N;                         (* p.Radius() = p.storage.Radius(), a uint256 *)
  ns_client_info : bytes;                (* version.ClientInfo() *)
  ns_supported : list N;                 (* p.PingExtensions: IsSupported / Extensions() *)
  ns_cache : cache;                      (* p.radiusCache *)
  ns_content : bytes -> option stored;   (* key -> None when toContentId(key) == nil, else the outcome of storage.Get(key, id) *)
  ns_offer_view : nodeview;              (* what filterContentKeysV0 / V1 consult per offered key *)
  ns_versions : list N;                  (* p.currentVersions *)
  ns_vcache : vcache;                    (* p.versionsCache *)
  ns_permit_free : bool;                 (* p.Utp.GetInboundPermit() would succeed *)
  ns_next_cid : N                        (* connectionId.Send handed out by p.Utp.CidWithAddr *)
}.

Record peer : Type := {
  pr_rec : nrec;                         (* node *enode.Node: id and the address predicates of node.IP() *)
  pr_addr : N;                           (* address predicates of addr.IP (the UDP source), same bits as rflags *)
  pr_pv : pv_entry;                      (* the "pv" entry of its ENR *)
  pr_present : bool                      (* table.getNodeOrReplacement(id) != nil when the payload is processed *)
}.

(* table.nodeList() *)
Definition tab_node_list (st : node_state) : list nrec :=
  if ns_init_done st then flat_map (fun b : list entry => map fst b) (ns_tab st) else [].

(* getOrStoreHighestVersion(node) *)
Definition peer_version (st : node_state) (p : peer) : res N :=
  fst (get_or_store (ns_versions st) (ns_vcache st) (rid (pr_rec p)) (pr_pv p)).

(* handler error / decode error => `return nil` *)
Definition to_reply {A} (r : res A) : res reply :=
  match r with Ok _ => Ok Reply | Err _ => Ok Empty | Panic => Panic end.
Definition nil_on_err {A} (r : res A) : res (option A) :=
  match r with Ok a => Ok (Some a) | Err _ => Ok None | Panic => Panic end.
Definition erase {A} (k : bytes -> res A) (b : bytes) : res unit := bind (k b) (fun _ => Ok tt).

(* ---------------------------------------------------------------- PING *)
(* the four messages of pingext.errPayloadMap (String is imported inside the module only: it shadows list names) *)
Module ErrMsg.
  Import Coq.Strings.String.
  Definition not_supported : bytes := list_byte_of_string "extension is not supported".
  Definition not_found : bytes := list_byte_of_string "requested data not found".
  Definition decode_failed : bytes := list_byte_of_string "failed to decode payload".
  Definition system_error : bytes := list_byte_of_string "system error".
End ErrMsg.

(* pingext.GetErrorPayloadBytes: errPayloadMap, written out as ErrorPayload{code, message}.MarshalSSZ() *)
Definition err_payload (code : N) : bytes :=
  if code =? 0 then u16_enc 0 ++ u32_enc 6 ++ ErrMsg.not_supported
  else if code =? 1 then u16_enc 1 ++ u32_enc 6 ++ ErrMsg.not_found
  else if code =? 2 then u16_enc 2 ++ u32_enc 6 ++ ErrMsg.decode_failed
  else if code =? 3 then u16_enc 3 ++ u32_enc 6 ++ ErrMsg.system_error
  else [].

(* the DataRadius of a ping / pong payload, by the decoder of its type (the number uint256 reads from the 32 bytes) *)
Definition dec_payload_radius (pt : N) (payload : bytes) : res N :=
  if pt =? K_ext_ClientInfo then bind (dec_ClientInfo payload) (fun '(_, r, _) => Ok (le_dec r))
  else if pt =? K_ext_BasicRadius then bind (dec_BasicRadius code_strict_fixed_scope payload) (fun r => Ok (le_dec r))
  else if pt =? K_ext_HistoryRadius then bind (dec_HistoryRadius code_strict_fixed_scope payload) (fun '(r, _) => Ok (le_dec r))
  else Err E_NOT_RADIUS.

(* Pong has the fields of Ping (Model/Wire.v: enc_Pong = enc_Ping) *)
Definition Pong : Type := Ping.
(* createPong *)
Definition create_pong (st : node_state) (pt : N) (payload : bytes) : Pong := (ns_seq st, pt, payload).
(* uint256.Int.MarshalSSZ: 32 bytes, little-endian *)
Definition radius_bytes (st : node_state) : bytes := u256_enc (ns_radius st).

(* on a payload that does not decode: pong(Error, ErrorDecodePayload); on one that does: the pong built by [own] *)
Definition answer_decoded {A} (st : node_state) (dec : res A) (own : res Pong) : res Pong :=
  match dec with
  | Panic => Panic
  | Err _ => Ok (create_pong st K_ext_Error (err_payload 2))
  | Ok _ => own
  end.

(* handlePing: the Pong value that is marshalled (`var pong Pong` stays the zero value for a supported type outside the switch) *)
Definition handle_ping (st : node_state) (ping : Ping) : res Pong :=
  let '(_, pt, payload) := ping in
  if negb (existsb (N.eqb pt) (ns_supported st)) then Ok (create_pong st K_ext_Error (err_payload 0))
  else if pt =? K_ext_ClientInfo then
    answer_decoded st (dec_ClientInfo payload)
      (* handleClientInfo *)
      (bind (enc_ClientInfo (ns_client_info st, radius_bytes st, ns_supported st)) (fun b =>
       Ok (create_pong st K_ext_ClientInfo b)))
  else if pt =? K_ext_BasicRadius then
    answer_decoded st (dec_BasicRadius code_strict_fixed_scope payload)
      (* handleBasicRadius *)
      (Ok (create_pong st K_ext_BasicRadius (radius_bytes st)))
  else if pt =? K_ext_HistoryRadius then
    answer_decoded st (dec_HistoryRadius code_strict_fixed_scope payload)
      (* handleHistoryRadius *)
      (bind (enc_HistoryRadius (radius_bytes st, 0)) (fun b => Ok (create_pong st K_ext_HistoryRadius b)))
  else if pt =? K_ext_Error then Ok (create_pong st pt (err_payload 3))
  else Ok (0, 0, []).

(* the event Model/Gossip.v's process_ping / process_pong consume *)
Definition payload_event (is_pong : bool) (p : peer) (m : Ping) : event :=
  let '(_, pt, payload) := m in
  mkEvent is_pong (rid (pr_rec p)) (pr_present p) pt
          (match dec_payload_radius pt payload with Ok r => Some r | _ => None end).

(* case PING of handleTalkRequest: the TALKRESP bytes, and the radius cache after `go p.processPing(...)` has run *)
Definition full_ping (st : node_state) (p : peer) (body : bytes) : res (bytes * cache) :=
  bind (dec_Ping body) (fun ping =>
  bind (handle_ping st ping) (fun pong =>
  bind (enc_Pong pong) (fun b =>
  Ok (n2b K_msg_PONG :: b, Gossip.process_ping (ns_supported st) (ns_cache st) (payload_event false p ping))))).
(* the goroutine is started before handleClientInfo can fail: the cache effect whatever the reply is *)
Definition full_ping_cache (st : node_state) (p : peer) (body : bytes) : cache :=
  match dec_Ping body with
  | Ok ping => Gossip.process_ping (ns_supported st) (ns_cache st) (payload_event false p ping)
  | _ => ns_cache st
  end.

(* ---------------------------------------------------------------- FINDNODES / FINDCONTENT / OFFER *)
(* case FINDNODES: distances[i] = uint(ssz.UnmarshallUint16(distance[:])); [shuf d] = rand.Shuffle at distance d *)
Definition full_findnodes (st : node_state) (p : peer) (shuf : N -> list nrec -> list nrec) (body : bytes) : res (list nrec) :=
  bind (dec_FindNodes body) (fun ds =>
  handle_find_nodes (ns_tab st) (ns_self st) (pr_addr p) shuf (map le_dec ds)).

(* case FINDCONTENT: [srt key] = sort.Slice by log distance to the content id of that key *)
Definition full_findcontent (st : node_state) (p : peer) (srt : bytes -> list nrec -> list nrec) (body : bytes) : res fc_reply :=
  bind (dec_FindContent body) (fun key =>
  match ns_content st key with
  | None => Err E_NIL_KEY
  | Some found => handle_find_content (tab_node_list st) (srt key) (rid (pr_rec p)) found
  end).

(* case OFFER *)
Definition full_offer (st : node_state) (p : peer) (body : bytes) : res offer_result :=
  bind (dec_Offer code_strict_zero_offset body) (fun keys =>
  handle_offer (peer_version st p) (ns_offer_view st) (ns_permit_free st) (ns_next_cid st) keys).

(* ---------------------------------------------------------------- handleTalkRequest, composed *)
(* Dispatch.handle_talk_request with its four Section functions instantiated; g = true is the current code *)
Definition full_talk_request (st : node_state) (p : peer) (shuf : N -> list nrec -> list nrec)
           (srt : bytes -> list nrec -> list nrec) (g : bool) (msg : bytes) : res reply :=
  handle_talk_request K_msg_PING K_msg_FINDNODES K_msg_FINDCONTENT K_msg_OFFER
    (fun b => to_reply (full_ping st p b))
    (fun b => to_reply (full_findnodes st p shuf b))
    (fun b => to_reply (full_findcontent st p srt b))
    (fun b => to_reply (full_offer st p b))
    g msg.

(* the same with the reply kept: None = nil reply *)
Inductive talk_out : Type :=
| T_Pong (reply : bytes) (c : cache)
| T_Nodes (enrs : list nrec)
| T_Content (r : fc_reply)
| T_Accept (r : offer_result).

Definition full_talk_request_t (st : node_state) (p : peer) (shuf : N -> list nrec -> list nrec)
           (srt : bytes -> list nrec -> list nrec) (g : bool) (msg : bytes) : res (option talk_out) :=
  if g && Nat.eqb (length msg) 0 then Ok None else
  bind (idx msg 0) (fun code =>
  let c := b2n code in
  if c =? K_msg_PING then bind (tail1 msg) (fun b => nil_on_err (bind (full_ping st p b) (fun '(r, ch) => Ok (T_Pong r ch))))
  else if c =? K_msg_FINDNODES then bind (tail1 msg) (fun b => nil_on_err (bind (full_findnodes st p shuf b) (fun e => Ok (T_Nodes e))))
  else if c =? K_msg_FINDCONTENT then bind (tail1 msg) (fun b => nil_on_err (bind (full_findcontent st p srt b) (fun r => Ok (T_Content r))))
  else if c =? K_msg_OFFER then bind (tail1 msg) (fun b => nil_on_err (bind (full_offer st p b) (fun r => Ok (T_Accept r))))
  else Ok None).

(* ---------------------------------------------------------------- TALKRESP processors *)
(* Dispatch.process_resp / Dispatch.process_content with the continuation's value kept *)
Definition process_resp_t {A} (code : N) (k : bytes -> res A) (resp : bytes) : res A :=
  if Nat.eqb (length resp) 0 then Err Dispatch.E_EMPTY_RESP else
  bind (idx resp 0) (fun c =>
  if negb (b2n c =? code) then Err E_BAD_CODE else bind (tail1 resp) k).

Definition process_content_t {A} (k_raw k_connid k_enrs : bytes -> res A) (g : bool) (resp : bytes) : res A :=
  if Nat.eqb (length resp) 0 then Err Dispatch.E_EMPTY_RESP else
  bind (idx resp 0) (fun c =>
  if negb (b2n c =? K_msg_CONTENT) then Err E_BAD_CODE else
  if g && Nat.ltb (length resp) 2 then Err E_BAD_CODE else
  bind (idx resp 1) (fun s =>
  let sel := b2n s in
  if sel =? K_sel_Raw then bind (slice resp 2 (length resp)) k_raw
  else if sel =? K_sel_ConnId then bind (slice resp 2 (length resp)) k_connid
  else if sel =? K_sel_Enrs then bind (slice resp 2 (length resp)) k_enrs
  else Err E_BAD_CODE)).

(* processPong after the code check: Pong.UnmarshalSSZ(resp[1:]), then processPongPayload *)
Definition pong_body (st : node_state) (p : peer) (body : bytes) : res (Pong * cache) :=
  bind (dec_Pong body) (fun pong =>
  let '(_, pt, payload) := pong in
  if pr_present p then
    if negb (existsb (N.eqb pt) (ns_supported st)) then Err E_PONG_PAYLOAD
    else if carries_radius pt then
      bind (dec_payload_radius pt payload) (fun r =>
      Ok (pong, update_radius_cache (ns_cache st) (rid (pr_rec p)) r))
    else Err E_PONG_PAYLOAD                                                  (* default: *)
  else Ok (pong, ns_cache st)).

(* processNodes after the code check: Nodes.UnmarshalSSZ(resp[1:]), then filterNodes.
   [enr_view] = rlp.DecodeBytes + enode.New + the address predicates, per record (library code) *)
Definition nodes_body (enr_view : bytes -> nrec) (sender : nrec) (dists : option (list N)) (body : bytes) : res (list nrec) :=
  bind (dec_Nodes code_strict_zero_offset body) (fun '(_, enrs) =>
  Ok (filter_nodes sender (map enr_view enrs) dists)).

(* processContent, per selector: Content / ConnectionId / Enrs .UnmarshalSSZ(resp[2:]) *)
Definition content_raw_body (body : bytes) : res pc_result := bind (dec_Content body) (fun c => Ok (PC_Raw c)).
Definition content_connid_body (body : bytes) : res pc_result := bind (dec_ConnectionId body) (fun id => Ok (PC_ConnId id)).
Definition content_enrs_body (enr_view : bytes -> nrec) (sender : nrec) (body : bytes) : res pc_result :=
  bind (dec_Enrs code_strict_zero_offset body) (fun enrs => Ok (PC_Enrs (filter_nodes sender (map enr_view enrs) None))).

(* processOffer after parseOfferResp: key-count check, accepted indices, the payload the transfer goroutine writes
   (the same text as the tail of Model/Offer.v process_offer) *)
Definition accept_tail (lookup : bytes -> option bytes) (req : offer_req) (connid keys : bytes) (klen : nat) (ixs : list nat)
  : res (bytes * option (N * bytes)) :=
  if negb (Nat.eqb klen (req_key_count req)) then Err E_KEY_COUNT
  else match ixs with
  | [] => Ok (keys, None)
  | _ =>
      bind (be16_dec connid) (fun cid =>
      bind (match req with
            | ReqTransient items => gather (map snd items) ixs
            | ReqTrace _ content => Ok [content]
            | ReqPersist ks =>
                bind (gather ks ixs) (fun sel =>
                Ok (map (fun k => match lookup k with Some c => c | None => [] end) sel))
            end) (fun contents =>
      Ok (keys, Some (cid, encode_contents contents))))
  end.

(* parseOfferResp with the decoders of Model/Wire.v: Accept (bitlist) for version 0, AcceptV1 (codes) for version 1 *)
Definition accept_body (ver : res N) (lookup : bytes -> option bytes) (req : offer_req) (body : bytes)
  : res (bytes * option (N * bytes)) :=
  match ver with
  | Err e => Err e
  | Panic => Panic
  | Ok v =>
      match accept_kind_of v with
      | Err e => Err e
      | Panic => Panic
      | Ok AcceptBitlist =>
          bind (dec_Accept body) (fun '(connid, keys) => accept_tail lookup req connid keys (bl_len keys) (bit_indices keys))
      | Ok AcceptCodes =>
          bind (dec_AcceptV1 body) (fun '(connid, keys) => accept_tail lookup req connid keys (length keys) (code_indices 0 keys))
      end
  end.

(* toContentId + storage.Get of the OFFERING node, from the same store view the FINDCONTENT handler reads *)
Definition offer_lookup (st : node_state) (k : bytes) : option bytes :=
  match ns_content st k with Some (St_Found c) => Some c | _ => None end.

(* the four processors with their value ... *)
Definition full_process_pong_t (st : node_state) (p : peer) : bytes -> res (Pong * cache) :=
  process_resp_t K_msg_PONG (pong_body st p).
Definition full_process_nodes_t (enr_view : bytes -> nrec) (sender : nrec) (dists : option (list N)) : bytes -> res (list nrec) :=
  process_resp_t K_msg_NODES (nodes_body enr_view sender dists).
Definition full_process_content_t (enr_view : bytes -> nrec) (sender : nrec) (g : bool) : bytes -> res pc_result :=
  process_content_t content_raw_body content_connid_body (content_enrs_body enr_view sender) g.
Definition full_process_offer_t (st : node_state) (p : peer) (req : offer_req) : bytes -> res (bytes * option (N * bytes)) :=
  process_resp_t K_msg_ACCEPT (accept_body (peer_version st p) (offer_lookup st) req).

(* ... and as instances of the entry points of Model/Dispatch.v (the functions C01's conditional theorems are about) *)
Definition full_process_pong (st : node_state) (p : peer) : bytes -> res unit :=
  Dispatch.process_resp K_msg_PONG (erase (pong_body st p)).
Definition full_process_nodes (enr_view : bytes -> nrec) (sender : nrec) (dists : option (list N)) : bytes -> res unit :=
  Dispatch.process_resp K_msg_NODES (erase (nodes_body enr_view sender dists)).
Definition full_process_content (enr_view : bytes -> nrec) (sender : nrec) (g : bool) : bytes -> res unit :=
  Dispatch.process_content K_msg_CONTENT K_sel_ConnId K_sel_Raw K_sel_Enrs
    (erase content_raw_body) (erase content_connid_body) (erase (content_enrs_body enr_view sender)) g.
Definition full_process_offer (st : node_state) (p : peer) (req : offer_req) : bytes -> res unit :=
  Dispatch.process_resp K_msg_ACCEPT (erase (accept_body (peer_version st p) (offer_lookup st) req)).

(* processContent, connection-id case, after the uTP read: decodeUtpContent(target, data) *)
Definition full_content_stream (st : node_state) (p : peer) (data : bytes) : res bytes :=
  match peer_version st p with
  | Ok v => decode_utp_content v data
  | Err e => Err e
  | Panic => Panic
  end.

(* ---------------------------------------------------------------- agreement with the processors of C11 / C08 / C09 *)
(* same outcome up to the (informative) error class *)
Definition same_class {A} (a b : res A) : Prop :=
  match a, b with
  | Ok x, Ok y => x = y
  | Err _, Err _ => True
  | Panic, Panic => True
  | _, _ => False
  end.

(* what Model/Handlers.v process_nodes / process_content take as "the decoded records" *)
Definition decoded_nodes (enr_view : bytes -> nrec) (resp : bytes) : res (list nrec) :=
  match slice resp 1 (length resp) with
  | Ok body => bind (dec_Nodes code_strict_zero_offset body) (fun '(_, enrs) => Ok (map enr_view enrs))
  | _ => Err E_SSZ
  end.
Definition decoded_enrs (enr_view : bytes -> nrec) (resp : bytes) : res (list nrec) :=
  match slice resp 2 (length resp) with
  | Ok body => bind (dec_Enrs code_strict_zero_offset body) (fun enrs => Ok (map enr_view enrs))
  | _ => Err E_SSZ
  end.
