(* Properties/C04.v : Stored content is returned intact and nothing else is.
   Only statements, closed by lemmas of Proofs/Storage.v, each followed by Print Assumptions.
   V/vlen/vhead8/dec are universally quantified (any value type, any key decoder).
   Quantifier of the property: 32-byte content ids other than the node id (valid_id / valid_op); the excluded
   cases are stated as C04_excluded_*.
   Not a theorem (outside a Gallina model): "the bytes handed back stay unchanged whatever the store is asked to do
   afterwards" is a statement about the lifetime of Go memory; it is covered only by the retained-slice run of the
   harness (monitor get-returned-slice-changed-later), which found and now guards the fix C04-get-copy-before-close. *)
From Shisui Require Import Base.Bytes Gen.K_storage Model.Storage Model.Hybrid Proofs.Storage Proofs.Hybrid.

(* Every history (puts, gets, restarts, crashes at any cut) runs without error or panic, and everything the store
   holds afterwards - in memory and in every crash image - was put under that id by some OPut of the history. *)
Theorem C04_only_what_was_put : forall (V : Type) (vlen : V -> N) (vhead8 : V -> res N) (dec : bytes -> N) cm pp nd ops,
  length nd = 32%nat -> Forall (valid_op nd) ops ->
  exists y, run vlen vhead8 dec (init cm pp nd) ops = Ok y /\
    Inv vlen (was_put nd ops) (mem y) /\
    replay (disk y) = sdb (mem y) /\
    (forall c, (synced y <= c <= length (disk y))%nat -> DInv vlen (was_put nd ops) (replay (firstn c (disk y)))) /\
    cfg_eq (mem (init cm pp nd)) (mem y).
Proof. exact @history_consistent. Qed.
Print Assumptions C04_only_what_was_put.

(* Get on a valid id reads exactly the entry under xor(id, node) *)
Theorem C04_get_reads_key : forall (V : Type) (dec : bytes -> N) (s : st (V:=V)) id,
  length (node s) = 32%nat -> valid_id (node s) id ->
  get s id = Ok (option_map Item (lookup (xor_bytes id (node s)) (kv (sdb s)))) /\
  length (xor_bytes id (node s)) = 32%nat /\ xor_bytes id (node s) <> sizekey.
Proof. exact @get_valid. Qed.
Print Assumptions C04_get_reads_key.

(* A refused put changes nothing; an accepted put makes exactly these bytes readable under this id and leaves every
   other id as it was - except for items removed by the pruning pass of the same call, which only runs when the counter
   went over capacity.  (Empty values, overwrites and single-bit neighbours are instances.) *)
Theorem C04_put_then_get : forall (V : Type) (vlen : V -> N) (vhead8 : V -> res N) (dec : bytes -> N) Q (s : st (V:=V)) id v s' r bs,
  Inv vlen Q s -> valid_id (node s) id -> put vlen dec s id v = Ok (s', r, bs) ->
  (r = Refused /\ s' = s /\ bs = []) \/
  (r = Stored /\ forall id', valid_id (node s) id' ->
     get s' id' = (if bytes_eqb id' id then Ok (Some (Item v)) else get s id') \/
     (get s' id' = Ok None /\ cap s < cnt s + 32 + vlen v)).
Proof. exact @put_get. Qed.
Print Assumptions C04_put_then_get.

(* close and reopen preserves every get, except for what the prune-on-open removes (only when over capacity) *)
Theorem C04_reopen_preserves_gets : forall (V : Type) (vlen : V -> N) (vhead8 : V -> res N) (dec : bytes -> N) Q (s : st (V:=V)) s' bs,
  Inv vlen Q s -> open vlen vhead8 dec (capMB s) (ppm s) (node s) (sdb s) = Ok (s', bs) ->
  forall id', valid_id (node s) id' -> get s' id' = get s id' \/ (get s' id' = Ok None /\ cap s < cnt s).
Proof. exact @reopen_get. Qed.
Print Assumptions C04_reopen_preserves_gets.

(* ids differing in a single bit (or in any way) never alias: the key derivation is injective on 32-byte ids ... *)
Theorem C04_no_alias : forall id1 id2 node k,
  length id1 = 32%nat -> length id2 = 32%nat -> length node = 32%nat ->
  xor_key id1 node = Ok k -> xor_key id2 node = Ok k -> id1 = id2.
Proof. exact xor_key_inj. Qed.
Print Assumptions C04_no_alias.

Theorem C04_single_bit_neighbour_differs : forall id i bit, (i < length id)%nat -> bit < 8 -> flip_bit id i bit <> id.
Proof. exact flip_bit_neq. Qed.
Print Assumptions C04_single_bit_neighbour_differs.

(* ... and only the node id itself maps to the reserved size-record key *)
Theorem C04_size_key_reserved : forall id node, length id = 32%nat -> length node = 32%nat ->
  xor_key id node = Ok sizekey <-> id = node.
Proof. exact xor_key_sizekey_iff. Qed.
Print Assumptions C04_size_key_reserved.

(* with a 32-byte node id the key derivation never panics, whatever the length of the content id *)
Theorem C04_key_total : forall id node, length node = 32%nat -> exists k, xor_key id node = Ok k /\ length k = 32%nat.
Proof. exact xor_key_total. Qed.
Print Assumptions C04_key_total.

(* ---- the routing layers in front of the store (history hybrid store, state wrapper).
   The ephemeral store is opaque (any state type E, any get/put functions). *)

(* routing depends on the content key only, never on the content id, and Get and Put agree on it *)
Theorem C04_hybrid_get_routes_by_key : forall (V E : Type) (eph_get : E -> bytes -> bytes -> res (option V))
    (h : hstore (V:=V) (E:=E)) key id,
  is_ephemeral key = false -> hget eph_get h key id = bind (get (eternal h) id) (fun r => Ok (FromEternal r)).
Proof. exact @hget_eternal. Qed.
Print Assumptions C04_hybrid_get_routes_by_key.

Theorem C04_hybrid_put_routes_by_key : forall (V E : Type) (vlen : V -> N) (dec : bytes -> N)
    (eph_put : E -> bytes -> bytes -> V -> res E) (h : hstore (V:=V) (E:=E)) key id v,
  is_ephemeral key = false ->
  hput vlen dec eph_put h key id v = bind (put vlen dec (eternal h) id v) (fun r =>
      let '(s', pr, bs) := r in Ok ({| eternal := s'; eph := eph h |}, pr, bs)).
Proof. exact @hput_eternal. Qed.
Print Assumptions C04_hybrid_put_routes_by_key.

(* C04_put_then_get through the hybrid store: for every non-ephemeral content key and every valid id a refused put
   changes nothing; an accepted put makes exactly these bytes readable under this id - through ANY non-ephemeral
   key - and leaves every other id alone, except for what the prune of the same call removed *)
Theorem C04_hybrid_put_then_get : forall (V E : Type) (vlen : V -> N) (vhead8 : V -> res N) (dec : bytes -> N)
    (eph_get : E -> bytes -> bytes -> res (option V)) (eph_put : E -> bytes -> bytes -> V -> res E)
    Q (h h' : hstore (V:=V) (E:=E)) key id v r bs,
  Inv vlen Q (eternal h) -> valid_id (node (eternal h)) id -> is_ephemeral key = false ->
  hput vlen dec eph_put h key id v = Ok (h', r, bs) ->
  eph h' = eph h /\
  ((r = Refused /\ h' = h /\ bs = []) \/
   (r = Stored /\ forall key' id', is_ephemeral key' = false -> valid_id (node (eternal h)) id' ->
      hget eph_get h' key' id' = (if bytes_eqb id' id then Ok (FromEternal (Some (Item v))) else hget eph_get h key' id') \/
      (hget eph_get h' key' id' = Ok (FromEternal None) /\ cap (eternal h) < cnt (eternal h) + 32 + vlen v))).
Proof. exact @hybrid_put_get. Qed.
Print Assumptions C04_hybrid_put_then_get.

(* a put under an ephemeral key never touches the eternal store *)
Theorem C04_hybrid_ephemeral_put_frame : forall (V E : Type) (vlen : V -> N) (dec : bytes -> N)
    (eph_get : E -> bytes -> bytes -> res (option V)) (eph_put : E -> bytes -> bytes -> V -> res E)
    (h h' : hstore (V:=V) (E:=E)) key id v r bs,
  is_ephemeral key = true -> hput vlen dec eph_put h key id v = Ok (h', r, bs) ->
  eternal h' = eternal h /\ bs = [] /\
  forall key' id', is_ephemeral key' = false -> hget eph_get h' key' id' = hget eph_get h key' id'.
Proof. exact @hput_ephemeral_frame. Qed.
Print Assumptions C04_hybrid_ephemeral_put_frame.

(* every hybrid put keeps the invariant of the eternal store, so the history theorems above compose through the layer *)
Theorem C04_hybrid_put_keeps_invariant : forall (V E : Type) (vlen : V -> N) (vhead8 : V -> res N) (dec : bytes -> N)
    (eph_get : E -> bytes -> bytes -> res (option V)) (eph_put : E -> bytes -> bytes -> V -> res E) Q (h h' : hstore (V:=V) (E:=E)) key id v r bs,
  Inv vlen Q (eternal h) -> valid_id (node (eternal h)) id -> hput vlen dec eph_put h key id v = Ok (h', r, bs) ->
  exists Q' : bytes -> V -> Prop, (forall k x, Q k x -> Q' k x) /\ Inv vlen Q' (eternal h').
Proof. exact @hybrid_put_inv. Qed.
Print Assumptions C04_hybrid_put_keeps_invariant.

(* which keys are routed where: a test of the first key byte against the compiled OfferEphemeralType *)
Theorem C04_history_key_types_route : forall rest,
  is_ephemeral (x00 :: rest) = false /\ is_ephemeral (x01 :: rest) = false /\ is_ephemeral (x02 :: rest) = false /\
  is_ephemeral (x03 :: rest) = false /\ is_ephemeral (x04 :: rest) = false /\ is_ephemeral (x05 :: rest) = true /\
  is_ephemeral [] = false.
Proof. exact history_key_types_route. Qed.
Print Assumptions C04_history_key_types_route.

(* the state wrapper's Get is the wrapped store's Get *)
Theorem C04_state_get_passthrough : forall (V : Type) (s : st (V:=V)) key id, state_get s key id = get s id.
Proof. exact @state_get_passthrough. Qed.
Print Assumptions C04_state_get_passthrough.


(* the excluded cases, stated not hidden *)
Theorem C04_excluded_node_id_collides : 
  exists y, run bv_len bv_head le_to_N (init 1 K_contentDeletionPPM zero32) [OPut zero32 [x01]; OPut (key32 x01 x01) [x02]] = Ok y /\
    get (mem y) zero32 = Ok (Some (SizeRec 66)).
Proof. exact node_id_collides_with_size_record. Qed.
Print Assumptions C04_excluded_node_id_collides.

Theorem C04_excluded_other_lengths_alias :
  xor_key [x07] zero32 = xor_key (x07 :: repeat x00 31) zero32 /\
  xor_key (x07 :: repeat x00 31 ++ [x09]) zero32 = xor_key (x07 :: repeat x00 31) zero32.
Proof. exact short_ids_alias. Qed.
Print Assumptions C04_excluded_other_lengths_alias.

(* premises are satisfiable: a history with a prune, a restart, an overwrite and a crash that loses the last put *)
Example C04_nonvacuous :
  Forall (valid_op zero32) demo_ops /\
  exists y, run nv_len nv_head be_to_N (init 1 K_contentDeletionPPM zero32) demo_ops = Ok y /\
    map fst (kv (sdb (mem y))) = [key32 x00 x01; key32 x00 x02] /\ cnt (mem y) = 940064 /\ length (disk y) = 6%nat.
Proof. exact demo_history. Qed.
