(* Properties/C17.v : Restart and crash leave a consistent store.
   Disk model: the list of committed batches and the index up to which they are durable (a synced prune batch makes
   everything before it durable); a crash keeps ANY prefix containing the durable part (OCrash c, every c), reopening
   replays the prefix and runs NewStorage.  This is pebble's contract for atomic batches and WAL-prefix recovery; the
   contract itself is validated by the correspondence run, not proved: clean reopen at every point, crash images after
   every put, and crash images just before file-system operations of pebble (write, sync, create, rename, remove ...;
   unsynced writes dropped and kept) must all equal NewStorage on some allowed prefix of whole batches.
   Histories contain restarts and crashes at arbitrary positions with arbitrary cuts, so "every prefix of every
   history, every cut, every continuation" is one universally quantified op list. *)
From Shisui Require Import Base.Bytes Gen.K_storage Model.Storage Model.StorageConc Proofs.Storage Proofs.StorageConc.

(* reopening always succeeds; every item held afterwards (and in every further crash image) was put under that id;
   the persisted usage figure is not below the bytes present (DInv/Inv, see C17_inv_meaning) *)
Theorem C17_crash_consistent : forall (V : Type) (vlen : V -> N) (vhead8 : V -> res N) (dec : bytes -> N) cm pp nd ops,
  length nd = 32%nat -> Forall (valid_op nd) ops ->
  exists y, run vlen vhead8 dec (init cm pp nd) ops = Ok y /\
    Inv vlen (was_put nd ops) (mem y) /\
    replay (disk y) = sdb (mem y) /\
    (forall c, (synced y <= c <= length (disk y))%nat -> DInv vlen (was_put nd ops) (replay (firstn c (disk y)))) /\
    cfg_eq (mem (init cm pp nd)) (mem y).
Proof. exact @history_consistent. Qed.
Print Assumptions C17_crash_consistent.

Theorem C17_inv_meaning : forall (V : Type) (vlen : V -> N) Q (d : db (V:=V)), DInv vlen Q d ->
  (forall k v, In (k, v) (kv d) -> Q k v) /\
  (rec d = None /\ kv d = [] \/ exists n, rec d = Some (SizeRec n) /\ held_kv vlen (kv d) <= n).
Proof. exact dinv_meaning. Qed.
Print Assumptions C17_inv_meaning.

(* NewStorage on any consistent database: invariants re-established (so C04-C06 compose across restarts), an
   over-capacity store is pruned, the radius is the farthest retained key above 95 percent and the maximum otherwise
   (also when nothing is retained: the repaired size-record case) *)
Theorem C17_open : forall (V : Type) (vlen : V -> N) (vhead8 : V -> res N) (dec : bytes -> N) Q cm pp nd (d : db (V:=V)) s' bs,
  DInv vlen Q d -> length nd = 32%nat -> open vlen vhead8 dec cm pp nd d = Ok (s', bs) ->
  Inv vlen Q s' /\ capMB s' = cm /\ ppm s' = pp /\ node s' = nd /\
  (forall n, rec d = Some (SizeRec n) -> cap s' < n ->
      exists dropped, kv d = kv (sdb s') ++ dropped /\ (expect s' <= held_kv vlen dropped \/ kv (sdb s') = [])) /\
  (forall n, rec d = Some (SizeRec n) -> n <= cap s' -> sdb s' = d /\ cnt s' = n) /\
  (forall n p k v, rec d = Some (SizeRec n) -> thr s' < n -> kv (sdb s') = p ++ [(k, v)] -> rad s' = dec k) /\
  (forall n, rec d = Some (SizeRec n) -> n <= thr s' -> rad s' = MAXD) /\
  (kv (sdb s') = [] -> rad s' = MAXD) /\
  (rec d = None -> rad s' = MAXD /\ sdb s' = d /\ cnt s' = 0).
Proof. exact @open_facts. Qed.
Print Assumptions C17_open.

(* after a restart or crash the retained items are again within the radius (monotone decoder) *)
Theorem C17_radius_after_open : forall (V : Type) (vlen : V -> N) (vhead8 : V -> res N) (dec : bytes -> N) Q cm pp nd (d : db (V:=V)) s' bs,
  good dec -> DInv vlen Q d -> length nd = 32%nat -> open vlen vhead8 dec cm pp nd d = Ok (s', bs) -> RInv dec s'.
Proof. exact @open_rinv. Qed.
Print Assumptions C17_radius_after_open.

(* "the persisted usage figure is not below the bytes actually present" while several goroutines write: over the
   small-step machine of Model/StorageConc.v with Put holding its lock across the prune (the code as it is), after every
   schedule, whenever nobody is inside Put, the record on disk is the counter and covers the bytes held *)
Theorem C17_conc_record_covers_bytes : forall (V : Type) (vlen : V -> N) (vhead8 : V -> res N) (dec : bytes -> N) Q
    (y0 : sys (V:=V)) work sched,
  SInv vlen Q y0 -> Forall (fun p => valid_id (node (mem y0)) (fst p)) (concat work) ->
  let c := exec vlen dec true false (start (mem y0) work) sched in
  lock c = None ->
  held vlen (sh c) <= cnt (sh c) /\
  (rec (sdb (sh c)) = None /\ cnt (sh c) = 0 \/ rec (sdb (sh c)) = Some (SizeRec (cnt (sh c)))).
Proof. exact @conc_record_covers_bytes. Qed.
Print Assumptions C17_conc_record_covers_bytes.

(* with the prune outside the writers' lock a put can land between the prune's counter load and its counter store:
   the counter and every later size record - also after a restart - miss that item *)
Theorem C17_conc_put_during_prune_refuted :
  let c := exec nv_len le_to_N false false (start pdp_s0 pdp_work) pdp_sched in
  quiescent c = true /\
  match rec (sdb (sh c)) with Some (SizeRec n) => n <? held nv_len (sh c) = true | _ => False end /\
  cnt (sh c) <? held nv_len (sh c) = true.
Proof. exact put_during_prune_refuted. Qed.
Print Assumptions C17_conc_put_during_prune_refuted.

(* the repaired corner: an emptied, over-counted store reopens with the maximum radius *)
Theorem C17_emptied_store_reopens_open :
  exists y, run nv_len nv_head le_to_N (init 1 K_contentDeletionPPM zero32) overwrite_ops = Ok y /\
    kv (sdb (mem y)) = [] /\ cnt (mem y) = 960768 /\ thr (mem y) < cnt (mem y) /\ rad (mem y) = MAXD.
Proof. exact overwrite_reopen_witness. Qed.
Print Assumptions C17_emptied_store_reopens_open.

Example C17_nonvacuous :
  Forall (valid_op zero32) demo_ops /\
  exists y, run nv_len nv_head be_to_N (init 1 K_contentDeletionPPM zero32) demo_ops = Ok y /\
    map fst (kv (sdb (mem y))) = [key32 x00 x01; key32 x00 x02] /\ cnt (mem y) = 940064 /\ length (disk y) = 6%nat.
Proof. exact demo_history. Qed.
