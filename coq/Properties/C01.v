(* Properties/C01.v : No remote input can crash the node - totality of the modelled dispatch and indexing.
   PARTIAL BY NATURE (see DESIGN.md, C01): what is proved is that no index / slice expression on the modelled
   entry points can panic, for every byte string, given that the code behind the dispatch (SSZ decoders, handlers,
   validators - the subject of C02, C03, C08, C09, C11, C13, C14, C15) does not; panics inside libraries and
   "the call returns" (channel / lock waits, uTP timeouts) are covered only by the recover / watchdog run of the
   correspondence harness.  Message codes are the regenerated constants of Gen/K_wire.v.
   The last section ("composed with ...") instantiates the Section functions of the TALKREQ / TALKRESP entry points with
   the decoders of C14 and the handler models of C08 / C09 / C11 / C19 / C20 and proves them UNCONDITIONALLY total. *)
From Shisui Require Import Base.Bytes Gen.K_wire Model.Framing Model.Dispatch Proofs.Dispatch.

Section C01.
  Variable h_ping h_findnodes h_findcontent h_offer : bytes -> res reply.
  Variable p_pong p_nodes p_accept p_raw p_connid p_enrs : bytes -> res unit.

  (* TALKREQ payload on a portal sub-protocol *)
  Theorem C01_talk_request_total :
    (forall b, h_ping b <> Panic) -> (forall b, h_findnodes b <> Panic) ->
    (forall b, h_findcontent b <> Panic) -> (forall b, h_offer b <> Panic) ->
    forall msg, handle_talk_request K_msg_PING K_msg_FINDNODES K_msg_FINDCONTENT K_msg_OFFER
                  h_ping h_findnodes h_findcontent h_offer true msg <> Panic.
  Proof. exact (handle_talk_request_total _ _ _ _ _ _ _ _). Qed.

  (* TALKRESP to one of our own requests *)
  Theorem C01_pong_nodes_accept_total : forall code k,
    (forall b, k b <> Panic) -> forall resp, process_resp code k resp <> Panic.
  Proof. exact process_resp_total. Qed.

  Theorem C01_content_response_total :
    (forall b, p_raw b <> Panic) -> (forall b, p_connid b <> Panic) -> (forall b, p_enrs b <> Panic) ->
    forall resp, process_content K_msg_CONTENT K_sel_ConnId K_sel_Raw K_sel_Enrs p_raw p_connid p_enrs true resp <> Panic.
  Proof. exact (process_content_total _ _ _ _ _ _ _). Qed.
End C01.
Print Assumptions C01_talk_request_total.
Print Assumptions C01_pong_nodes_accept_total.
Print Assumptions C01_content_response_total.

(* uTP stream body of an accepted offer: unconditional (the framing decoder is fully modelled, C15) *)
Theorem C01_offered_contents_total : forall nkeys payload, handle_offered_contents nkeys payload <> Panic.
Proof. exact handle_offered_contents_total. Qed.
Print Assumptions C01_offered_contents_total.

(* content key supplied by a peer: storage adapters and validators of the three networks dispatch on key[0] *)
Theorem C01_key_dispatch_total : forall k_sub types,
  (forall t body content, k_sub t body content <> Panic) ->
  forall key content, key_dispatch k_sub true types key content <> Panic.
Proof. exact key_dispatch_total. Qed.
Print Assumptions C01_key_dispatch_total.

Theorem C01_history_ephemeral_test_total : forall oe key, history_is_ephemeral true oe key <> Panic.
Proof. exact history_is_ephemeral_total. Qed.
Print Assumptions C01_history_ephemeral_test_total.

(* beacon historical-summaries record: any key, any stored record, any order of gets and puts *)
Theorem C01_beacon_summaries_get_total : forall key stored, beacon_get_summaries true key stored <> Panic.
Proof. exact beacon_get_summaries_total. Qed.
Print Assumptions C01_beacon_summaries_get_total.
Theorem C01_beacon_summaries_put_total : forall key content stored, beacon_put_summaries true key content stored <> Panic.
Proof. exact beacon_put_summaries_total. Qed.
Print Assumptions C01_beacon_summaries_put_total.
Theorem C01_beacon_summaries_record_invariant : forall key content st st',
  record_ok st -> beacon_put_summaries true key content st = Ok st' -> record_ok st'.
Proof. exact beacon_put_summaries_record. Qed.
Print Assumptions C01_beacon_summaries_record_invariant.

(* the code as found (before the fix: commits) violated each of these; witnesses are replayed by the harness *)
Theorem C01_empty_talkreq_refuted : forall h1 h2 h3 h4,
  handle_talk_request K_msg_PING K_msg_FINDNODES K_msg_FINDCONTENT K_msg_OFFER h1 h2 h3 h4 false [] = Panic.
Proof. exact (handle_talk_request_empty_refuted _ _ _ _). Qed.
Print Assumptions C01_empty_talkreq_refuted.
Theorem C01_one_byte_content_refuted : forall p1 p2 p3,
  process_content K_msg_CONTENT K_sel_ConnId K_sel_Raw K_sel_Enrs p1 p2 p3 false [x05] = Panic.
Proof. intros. apply process_content_one_byte_refuted. reflexivity. Qed.
Print Assumptions C01_one_byte_content_refuted.
Theorem C01_empty_key_refuted : forall k_sub types content, key_dispatch k_sub false types [] content = Panic.
Proof. exact key_dispatch_empty_refuted. Qed.
Print Assumptions C01_empty_key_refuted.
Theorem C01_beacon_short_key_refuted :
  beacon_get_summaries false [x14] (Some [x01; x00; x00; x00; x00; x00; x00; x00; xaa]) = Panic.
Proof. exact beacon_get_summaries_short_key_refuted. Qed.
Print Assumptions C01_beacon_short_key_refuted.

(* non-vacuity: handlers that never panic exist, and the guarded functions do real work on non-trivial inputs *)
Example C01_nonvacuous :
  handle_talk_request K_msg_PING K_msg_FINDNODES K_msg_FINDCONTENT K_msg_OFFER
     (fun _ => Ok Reply) (fun _ => Ok Reply) (fun _ => Ok Reply) (fun _ => Ok Reply) true [x04; x04; x00] = Ok Reply /\
  beacon_get_summaries true [x14; x01; x00; x00; x00; x00; x00; x00; x00]
     (Some [x02; x00; x00; x00; x00; x00; x00; x00; xaa; xbb]) = Ok [xaa; xbb] /\
  handle_offered_contents 2 [x01; xaa; x00] = Ok (Some [[xaa]; []]).
Proof. split; [|split]; vm_compute; reflexivity. Qed.

(* ======================================================================================================================
   composed with the decoders and handlers of C08 / C09 / C11 / C14 / C20 (Model/DispatchFull.v, Proofs/DispatchFull.v)

   The entry points above take what lies behind the dispatch as arbitrary functions with a no-panic hypothesis.  Here these
   functions are the real models: the body is decoded by the decoder of Model/Wire.v for that message (an error gives a nil
   reply / an error return, as in the Go code), the decoded request is handed to the handler model of that message, over an
   explicit node state [node_state] (local record, bucket snapshot, radius, client string, ping extensions, radius cache,
   store view, OFFER filter view, versions + versions cache, inbound permit, next connection id) and the facts about the
   remote peer [peer]; rand.Shuffle ([shuf]), sort.Slice ([srt]) and "ENR bytes -> node facts" ([enr_view]: rlp decoding,
   signature check, address predicates) are arbitrary functions.  All of it is universally quantified.

   STILL ABSTRACT after the composition (exercised by the recover / watchdog run, not proved):
     - uTP: dialling / accepting a stream, reading it to EOF, timeouts; the permit and connection-id bookkeeping of the
       socket (here: one boolean and one number of the state);
     - goroutines and locks: `go p.processPing`, the transfer goroutines of handleFindContent / handleOffer / processOffer
       are modelled by their effect function at most (process_ping; handle_offered_contents; the stream payload), not
       their scheduling; "the call returns" is not a theorem;
     - table mutation: addInboundNode / addFoundNode and RequestENR (only their outcome "sender is in the table": pr_present);
     - the storage adapters behind storage.Get / toContentId (here: the function ns_content; their key dispatch is
       C01_key_dispatch_total above, their contents C04);
     - content validation of what arrives (C02 / C03 / C13) and ENR decoding / signature checks (library);
     - library panics in general (fastssz, ztyp, go-bitfield, rlp are re-implemented in the models, not verified).
   ====================================================================================================================== *)
From Shisui Require Import Base.Ssz Gen.K_table Gen.K_handlers Model.Wire Model.Handlers Model.Gossip Model.Versions Model.Offer
     Model.DispatchFull Proofs.Handlers Proofs.DispatchFull.

(* TALKREQ: for every node state with the compiled number of buckets, at least one protocol version and a client string
   below 4 GiB (ztyp's WriteOffset panics beyond), every peer, every shuffle and sort function, and EVERY byte string *)
Theorem C01_full_talk_request_total : forall st p shuf srt,
  length (ns_tab st) = N.to_nat K_nBuckets -> ns_versions st <> [] -> nlen (ns_client_info st) + 40 < 4294967296 ->
  forall msg, full_talk_request st p shuf srt true msg <> Panic.
Proof. exact (fun st p shuf srt H1 H2 H3 => full_talk_request_total st p shuf srt (conj H1 (conj H2 H3))). Qed.
Print Assumptions C01_full_talk_request_total.

(* full_talk_request is the instance of handle_talk_request (the function of C01_talk_request_total) ... *)
Theorem C01_full_talk_request_is_instance : forall st p shuf srt g msg,
  full_talk_request st p shuf srt g msg =
  handle_talk_request K_msg_PING K_msg_FINDNODES K_msg_FINDCONTENT K_msg_OFFER
    (fun b => to_reply (full_ping st p b)) (fun b => to_reply (full_findnodes st p shuf b))
    (fun b => to_reply (full_findcontent st p srt b)) (fun b => to_reply (full_offer st p b)) g msg.
Proof. reflexivity. Qed.
Print Assumptions C01_full_talk_request_is_instance.
(* ... and forgets the reply of full_talk_request_t, which returns the PONG bytes + radius cache / the NODES records /
   the CONTENT reply / the ACCEPT bytes + listener; that one never panics either *)
Theorem C01_full_talk_request_reply : forall st p shuf srt g msg,
  full_talk_request st p shuf srt g msg =
  bind (full_talk_request_t st p shuf srt g msg) (fun o => Ok (match o with Some _ => Reply | None => Empty end)).
Proof. exact full_talk_request_erases. Qed.
Print Assumptions C01_full_talk_request_reply.
Theorem C01_full_talk_request_t_total : forall st p shuf srt,
  length (ns_tab st) = N.to_nat K_nBuckets -> ns_versions st <> [] -> nlen (ns_client_info st) + 40 < 4294967296 ->
  forall msg, full_talk_request_t st p shuf srt true msg <> Panic.
Proof. exact (fun st p shuf srt H1 H2 H3 => full_talk_request_t_total st p shuf srt (conj H1 (conj H2 H3))). Qed.
Print Assumptions C01_full_talk_request_t_total.

(* with rand.Shuffle a permutation (C11_handler_total), a FINDNODES that decodes is always answered with records *)
Theorem C01_full_findnodes_answered : forall st p shuf body ds,
  is_shuffle shuf -> length (ns_tab st) = N.to_nat K_nBuckets -> dec_FindNodes body = Ok ds ->
  exists enrs, full_findnodes st p shuf body = Ok enrs.
Proof. exact full_findnodes_answers. Qed.
Print Assumptions C01_full_findnodes_answered.

(* TALKRESP: the four processors with the decoders of C14 and the payload processing behind them; for EVERY byte string.
   full_process_X is the instance of process_resp / process_content above (C01_pong_nodes_accept_total,
   C01_content_response_total); full_process_X_t is the same function with its result kept. *)
Theorem C01_full_process_pong_total : forall st p resp,
  full_process_pong st p resp <> Panic /\ full_process_pong_t st p resp <> Panic.
Proof. exact (fun st p resp => conj (full_process_pong_total st p resp) (full_process_pong_t_total st p resp)). Qed.
Print Assumptions C01_full_process_pong_total.
Theorem C01_full_process_nodes_total : forall enr_view sender dists resp,
  full_process_nodes enr_view sender dists resp <> Panic /\ full_process_nodes_t enr_view sender dists resp <> Panic.
Proof.
  exact (fun v s d resp => conj (full_process_nodes_total v s d resp) (full_process_nodes_t_total v s d resp)).
Qed.
Print Assumptions C01_full_process_nodes_total.
(* guard = true: the current code (`len(resp) < 2` check) *)
Theorem C01_full_process_content_total : forall enr_view sender resp,
  full_process_content enr_view sender true resp <> Panic /\ full_process_content_t enr_view sender true resp <> Panic.
Proof. exact (fun v s resp => conj (full_process_content_total v s resp) (full_process_content_t_total v s resp)). Qed.
Print Assumptions C01_full_process_content_total.
(* ACCEPT: parsed by the negotiated version (dec_Accept / dec_AcceptV1), then the offering side of C09.  That the accepted
   indices stay inside the offered keys rests on the decoder: ValidateBitlist refuses a zero last byte (go-bitfield's
   BitIndices would otherwise exceed Len) and the code compares the key count first. *)
Theorem C01_full_process_offer_total : forall st p req resp, ns_versions st <> [] ->
  full_process_offer st p req resp <> Panic /\ full_process_offer_t st p req resp <> Panic.
Proof. exact (fun st p req resp H => conj (full_process_offer_total st p req resp H) (full_process_offer_t_total st p req resp H)). Qed.
Print Assumptions C01_full_process_offer_total.
(* the uTP stream body that follows a connection-id CONTENT reply (decodeUtpContent with the negotiated version, C15 / C19) *)
Theorem C01_full_content_stream_total : forall st p data, ns_versions st <> [] -> full_content_stream st p data <> Panic.
Proof. exact full_content_stream_total. Qed.
Print Assumptions C01_full_content_stream_total.

(* the processor MODELS of C11 / C08 / C09 carry their own copy of the dispatch (and C08 / C09 of the small decoders).  Fed
   with what the decoders of C14 return they agree with the composed processors on every response, up to the error class;
   the radius cache a PONG leaves behind is the one of C20's process_pong *)
Theorem C01_full_process_nodes_is_C11 : forall enr_view sender dists resp,
  same_class (full_process_nodes_t enr_view sender dists resp)
             (Handlers.process_nodes resp (decoded_nodes enr_view resp) sender dists).
Proof. exact full_process_nodes_agrees. Qed.
Print Assumptions C01_full_process_nodes_is_C11.
Theorem C01_full_process_content_is_C08 : forall enr_view sender resp,
  same_class (full_process_content_t enr_view sender (K_processContent_short_panics =? 0) resp)
             (Handlers.process_content resp (decoded_enrs enr_view resp) sender).
Proof. exact full_process_content_agrees. Qed.
Print Assumptions C01_full_process_content_is_C08.
Theorem C01_full_process_offer_is_C09 : forall st p req resp,
  same_class (full_process_offer_t st p req resp) (Offer.process_offer (peer_version st p) (offer_lookup st) resp req).
Proof. exact full_process_offer_agrees. Qed.
Print Assumptions C01_full_process_offer_is_C09.
Theorem C01_C09_process_offer_total : forall st p req resp, ns_versions st <> [] ->
  Offer.process_offer (peer_version st p) (offer_lookup st) resp req <> Panic.
Proof. exact process_offer_total. Qed.
Print Assumptions C01_C09_process_offer_total.
Theorem C01_full_process_pong_cache_is_C20 : forall st p body pong c',
  pong_body st p body = Ok (pong, c') ->
  c' = Gossip.process_pong (ns_supported st) (ns_cache st) (payload_event true p pong).
Proof. exact pong_body_cache. Qed.
Print Assumptions C01_full_process_pong_cache_is_C20.

(* totality of the handler models that had no such theorem: handleOffer for any version outcome, getOrStoreHighestVersion *)
Theorem C01_handle_offer_total : forall ver nv pf cid keys, ver <> Panic -> handle_offer ver nv pf cid keys <> Panic.
Proof. exact (handle_offer_gen_total true). Qed.
Print Assumptions C01_handle_offer_total.
Theorem C01_get_or_store_total : forall own c node e, own <> [] -> fst (get_or_store own c node e) <> Panic.
Proof. exact get_or_store_no_panic. Qed.
Print Assumptions C01_get_or_store_total.
(* without that side condition the model does panic: currentVersions[0] on an empty list, peer without a "pv" entry *)
Theorem C01_get_or_store_empty_versions_refuted : fst (get_or_store [] empty_cache 0 PvMissing) = Panic.
Proof. reflexivity. Qed.
Print Assumptions C01_get_or_store_empty_versions_refuted.

(* the code as found, composed: the same two witnesses, whatever the state *)
Theorem C01_full_empty_talkreq_refuted : forall st p shuf srt, full_talk_request st p shuf srt false [] = Panic.
Proof. exact full_talk_request_empty_refuted. Qed.
Print Assumptions C01_full_empty_talkreq_refuted.
Theorem C01_full_one_byte_content_refuted : forall enr_view sender, full_process_content enr_view sender false [x05] = Panic.
Proof. exact full_process_content_one_byte_refuted. Qed.
Print Assumptions C01_full_one_byte_content_refuted.

(* the PONG error payloads of the model are the byte strings of pingext.errPayloadMap *)
Theorem C01_err_payloads : err_payload 0 = [x00; x00; x06; x00; x00; x00; x65; x78; x74; x65; x6e; x73; x69; x6f; x6e; x20; x69;
                                            x73; x20; x6e; x6f; x74; x20; x73; x75; x70; x70; x6f; x72; x74; x65; x64] /\
  err_payload 1 = [x01; x00; x06; x00; x00; x00; x72; x65; x71; x75; x65; x73; x74; x65; x64; x20; x64; x61; x74; x61; x20; x6e;
                   x6f; x74; x20; x66; x6f; x75; x6e; x64] /\
  err_payload 2 = [x02; x00; x06; x00; x00; x00; x66; x61; x69; x6c; x65; x64; x20; x74; x6f; x20; x64; x65; x63; x6f; x64; x65;
                   x20; x70; x61; x79; x6c; x6f; x61; x64] /\
  err_payload 3 = [x03; x00; x06; x00; x00; x00; x73; x79; x73; x74; x65; x6d; x20; x65; x72; x72; x6f; x72].
Proof. exact err_payload_bytes. Qed.
Print Assumptions C01_err_payloads.

(* non-vacuity: concrete messages go through decoder AND handler.  A history-network node (id 5, loopback address) with three
   entries in its last bucket (a public, l loopback, dead not yet validated), content under key 00aa, the OFFER view of
   C09's example; the peer (loopback, in the table, advertises versions [0; 1]). *)
Definition ex_a := mkRec 1 (2^255 + 5) 1 30303 300 true.
Definition ex_l := mkRec 2 (2^255 + 9) 25 30303 120 true.
Definition ex_dead := mkRec 3 (2^255 + 17) 1 30303 120 true.
Definition ex_self := mkRec 0 5 25 9009 110 true.
Definition ex_state : node_state := {|
  ns_self := ex_self; ns_seq := 7;
  ns_tab := repeat [] 16 ++ [[(ex_a, true); (ex_l, true); (ex_dead, false)]]; ns_init_done := true;
  ns_radius := 2^256 - 1; ns_client_info := [x73; x68]; ns_supported := K_ext_history; ns_cache := [];
  ns_content := fun k => match k with [] => None | [x00; xaa] => Some (St_Found [x01; x02; x03]) | _ => Some St_NotFound end;
  ns_offer_view := {| nv_nilid := fun _ => false; nv_inrange := fun k => negb (bytes_eqb k [x03]);
                      nv_stored := fun k => bytes_eqb k [x02]; nv_inflight := fun _ => false; nv_queue_room := true |};
  ns_versions := K_Versions; ns_vcache := empty_cache; ns_permit_free := true; ns_next_cid := 770 |}.
Definition ex_peer : peer :=
  {| pr_rec := mkRec 9 (2^255 + 33) 25 30303 120 true; pr_addr := 25; pr_pv := PvList [0; 1]; pr_present := true |}.
Definition ex_talk := full_talk_request_t ex_state ex_peer (fun _ g => g) (fun _ => isort_by 1000) true.
Definition ex_view (b : bytes) : nrec := match b with [x01] => ex_a | [x02] => ex_l | _ => ex_dead end.
Definition ex_msg (code : N) (body : res bytes) : bytes := n2b code :: match body with Ok b => b | _ => [] end.

Example C01_full_nonvacuous :
  length (ns_tab ex_state) = N.to_nat K_nBuckets /\ ns_versions ex_state <> [] /\
  (* FINDNODES for distances [0; 256]: own record, then the live entries of the last bucket (loopback asker: all of them) *)
  ex_talk [x02; x04; x00; x00; x00; x00; x00; x00; x01] = Ok (Some (T_Nodes [ex_self; ex_a; ex_l])) /\
  full_talk_request ex_state ex_peer (fun _ g => g) (fun _ => isort_by 1000) true
    [x02; x04; x00; x00; x00; x00; x00; x00; x01] = Ok Reply /\
  (* truncated FINDNODES, FINDCONTENT without a key, unknown code: the decoder refuses, nil reply *)
  ex_talk [x02; x04; x00; x00] = Ok None /\ ex_talk [x04; x04; x00; x00; x00] = Ok None /\ ex_talk [x09; x00] = Ok None /\
  (* FINDCONTENT for the held key 00aa: the stored bytes inline; for another key: the nearest records, never the asker *)
  ex_talk [x04; x04; x00; x00; x00; x00; xaa] = Ok (Some (T_Content (FC_Raw [x01; x02; x03]))) /\
  ex_talk [x04; x04; x00; x00; x00; x00; xab] = Ok (Some (T_Content (FC_Enrs [ex_dead; ex_l; ex_a]))) /\
  (* PING with a HistoryRadius payload: PONG seq 7 with our radius, and the sender's radius is cached *)
  (exists reply, ex_talk (ex_msg 0 (enc_Ping (3, 2, repeat xff 32 ++ [x05; x00]))) =
                   Ok (Some (T_Pong reply [(2^255 + 33, RGood (2^256 - 1))])) /\
                 dec_Pong (tl reply) = Ok (7, 2, repeat xff 32 ++ [x00; x00])) /\
  (* PING with a BasicRadius payload, which the history network does not support: PONG Error / "extension is not supported" *)
  (exists reply, ex_talk (ex_msg 0 (enc_Ping (3, 1, repeat xff 32))) = Ok (Some (T_Pong reply [])) /\
                 dec_Pong (tl reply) = Ok (7, 65535, err_payload 0)) /\
  (* OFFER of four keys, negotiated version 1: codes accepted / stored / not in radius / accepted, listener on 770 ... *)
  ex_talk (ex_msg 6 (enc_Offer [[x01]; [x02]; [x03]; [x04]])) =
    Ok (Some (T_Accept {| or_reply := [x07; x03; x02; x06; x00; x00; x00; x00; x02; x03; x00];
                          or_listen := Some (770, [[x01]; [x04]]); or_permit_taken := true |})) /\
  (* ... and the offering side on that very reply: the stream payload for connection 770 holds items 0 and 3 *)
  full_process_offer_t ex_state ex_peer (ReqTransient [([x01], [xaa]); ([x02], [xbb]); ([x03], [xcc]); ([x04], [xdd; xdd])])
    [x07; x03; x02; x06; x00; x00; x00; x00; x02; x03; x00] = Ok ([x00; x02; x03; x00], Some (770, [x01; xaa; x02; xdd; xdd])) /\
  (* NODES with three records, the third a repeat: two accepted at distance 256 from the asker *)
  full_process_nodes_t ex_view ex_self (Some [256]) (ex_msg 3 (enc_Nodes (1, [[x01]; [x02]; [x01]]))) = Ok [ex_a; ex_l] /\
  (* CONTENT: raw bytes, a connection id, the one-byte response (an error with the guard) *)
  full_process_content_t ex_view ex_self true [x05; x01; xaa; xbb] = Ok (PC_Raw [xaa; xbb]) /\
  full_process_content_t ex_view ex_self true [x05; x00; xaa; xbb] = Ok (PC_ConnId [xaa; xbb]) /\
  full_process_content_t ex_view ex_self true [x05] = Err E_BAD_CODE /\
  (* PONG with a HistoryRadius payload: the sender's radius is cached *)
  (exists pong, full_process_pong_t ex_state ex_peer (ex_msg 1 (enc_Pong (9, 2, repeat x11 32 ++ [x00; x00]))) =
                  Ok (pong, [(2^255 + 33, RGood (le_dec (repeat x11 32)))])).
Proof.
  split; [reflexivity|]. split; [discriminate|].
  repeat match goal with
  | |- _ /\ _ => split
  | |- exists _, _ => eexists
  end; vm_compute; reflexivity.
Qed.

(* ======================================================================================================================
   the content path, composed (Model/ContentFull.v, Proofs/ContentFull.v): "an offered or looked-up content item together
   with its content key never panics"

   What the uTP stream of an accepted OFFER delivers goes through handle_offered_contents (C15: stream decoding, one item per
   awaited key or nothing), then per (key, content) pair through the network's validator and the storage adapter:
     history  validateContents of C02 (Model/History.v, variant repaired) whose header proof check is C03's
              validate_header_and_proof ... true (Model/HeaderProof.v) over ANY pair hash: C02_never_panics' hypothesis
              "the proof check does not panic" is discharged by C03_never_panics.  [hlib] = the library functions (keccak of
              a header, the RLP / SSZ decoders, DeriveSha, CalcUncleHash), all universally quantified; [hacc] = pair hash,
              embedded accumulators, and per call the summaries cache and the oracle's answer (arbitrary functions of the call);
              the header source [src] and the network [lookup] are arbitrary functions.
     state    key-type switch, the two Deserialize calls of the pair ([sl_dec_item]), C13's validate_content, then Put
              (key-type switch, the same decoding, C13's put) under the content id; [slib] = keccak, node decoder, FullAccount,
              the header source per step, the content id function.
     beacon   key-type switch with the key decoders of C14; the content side of beacon/validation.go is DECODING ONLY
              (Forked* Deserialize, fork digest / age / count comparisons; the light-client checks proper are C12's and are
              not made here) and is the function [content_info]; the storage adapter's switch and the historical-summaries
              record handling of Model/Dispatch.v.
   STILL ABSTRACT: the library functions named above (hypothesis: they return - for state also that the node decoder yields
   nodes of its own shape, as in C13_total).  The two ztyp Deserialize calls of the state network are NOT abstract any more:
   the theorems over an arbitrary [sl_dec_item] keep its no-panic hypothesis, the _concrete variants fix it to the decoders
   of Model/WireState.v ([state_dec_item], [slib_concrete]) and discharge it with C14_decoders_total_state's lemmas, leaving
   exactly the hypotheses of C13_total.  Further abstract: pebble (Put / Get behind the adapters: C04 / C05 / C17); the ephemeral-header path of the history
   network (keys 0x04 / 0x05: the validator refuses them, C02_other_selectors_rejected; the ephemeral store is not modelled);
   the content queue, the ants pool and the Gossip call that follows a successful validateContents (C20); the oracle RPC.
   ====================================================================================================================== *)
From Shisui Require Import Gen.K_header Model.History Model.HeaderProof Model.StateTrie Model.ContentFull
     Proofs.History Proofs.HeaderProof Proofs.StateTrie Proofs.ContentFull.

(* ---- history *)
(* one (key, content) pair: C02_never_panics with its hypothesis discharged by C03_never_panics; C03's only hypotheses remain *)
Theorem C01_history_content_total : forall B A src key content,
  K_PreMergeEpochs <= nlen (ha_epochs A) -> (forall h p, ha_oracle A h p <> Some Panic) ->
  history_validate B A src key content <> Panic.
Proof. exact (fun B A src key content H1 H2 => history_validate_total B A src key content (conj H1 H2)). Qed.
Print Assumptions C01_history_content_total.

(* history_validate is C02's validator (vc ... repaired) for the library [lib_of B A], whose proof check is C03's validator *)
Theorem C01_history_validate_is_C02_over_C03 : forall B A,
  history_validate B A = vc (lib_of B A) repaired /\
  forall h proof, l_proof_check (lib_of B A) h proof =
    validate_header_and_proof (ha_H A) true (ha_epochs A) (ha_roots A) (ha_sums A h proof) (ha_oracle A h proof)
      (h_number h mod History.two64) (hl_hdr_hash B h) proof.
Proof. intros B A. split; reflexivity. Qed.
Print Assumptions C01_history_validate_is_C02_over_C03.

(* every stream payload, every list of awaited keys, every header source, every library instantiation, every store *)
Theorem C01_history_offered_content_total : forall B A src keys payload s,
  K_PreMergeEpochs <= nlen (ha_epochs A) -> (forall h p, ha_oracle A h p <> Some Panic) ->
  fst (fst (history_offered_contents B A src keys payload s)) <> Panic.
Proof. exact (fun B A src keys payload s H1 H2 => history_offered_total B A src keys payload s (conj H1 H2)). Qed.
Print Assumptions C01_history_offered_content_total.

(* C02_offer_gates_put through the composition: only content bound to its key (genuine: for a header, one that C03's validator
   accepted) reaches Put, the store stays bound, and every Put goes to the eternal store (never the ephemeral one) *)
Theorem C01_history_offered_gates_put : forall B A src keys payload s r s' puts,
  history_offered_contents B A src keys payload s = (r, s', puts) -> store_ok (lib_of B A) s ->
  store_ok (lib_of B A) s' /\ Forall (gp (lib_of B A)) puts /\
  Forall (fun p => history_storage_route (fst p) = Ok false) puts.
Proof. exact history_offered_gates_put. Qed.
Print Assumptions C01_history_offered_gates_put.

(* an accepted header item passed the C03 validator for its own hash = the key's *)
Theorem C01_history_header_accepted_by_C03 : forall B A src kh content,
  history_validate B A src (x00 :: kh) content = Ok tt ->
  exists hb proof h, hl_dec_hwp B content = Some (hb, proof) /\ hl_dec_header B hb = Some h /\ hl_hdr_hash B h = kh /\
    validate_header_and_proof (ha_H A) true (ha_epochs A) (ha_roots A) (ha_sums A h proof) (ha_oracle A h proof)
      (h_number h mod History.two64) kh proof = Ok tt.
Proof. exact history_header_accept_is_c03. Qed.
Print Assumptions C01_history_header_accepted_by_C03.

(* looked-up content: the three getters (local store, else an arbitrary network answer, validated), C02_getter_never_panics
   composed the same way ... *)
Theorem C01_history_lookup_total : forall B A src lookup s hash,
  K_PreMergeEpochs <= nlen (ha_epochs A) -> (forall h p, ha_oracle A h p <> Some Panic) ->
  fst (fst (history_get_header B A src lookup s hash)) <> Panic /\
  fst (fst (history_get_body B A src lookup s hash)) <> Panic /\
  fst (fst (history_get_receipts B A src lookup s hash)) <> Panic.
Proof. exact (fun B A src lookup s hash H1 H2 => history_getters_total B A src lookup s hash (conj H1 H2)). Qed.
Print Assumptions C01_history_lookup_total.
(* ... and C02_getter_returns_bound: what they return and store is the decoding of content bound to the requested hash *)
Theorem C01_history_lookup_bound : forall B A src lookup s hash, store_ok (lib_of B A) s ->
  (forall r s' p, history_get_header B A src lookup s hash = (r, s', p) ->
     store_ok (lib_of B A) s' /\ Forall (gp (lib_of B A)) p /\
     forall h, r = Ok h -> exists c, genuine (lib_of B A) (x00 :: hash) c /\ hdr_of (lib_of B A) c = Some h) /\
  (forall r s' p, history_get_body B A src lookup s hash = (r, s', p) ->
     store_ok (lib_of B A) s' /\ Forall (gp (lib_of B A)) p /\
     forall b, r = Ok b -> exists c, genuine (lib_of B A) (x01 :: hash) c /\ hl_dec_body B c = Some b) /\
  (forall r s' p, history_get_receipts B A src lookup s hash = (r, s', p) ->
     store_ok (lib_of B A) s' /\ Forall (gp (lib_of B A)) p /\
     forall x, r = Ok x -> exists c, genuine (lib_of B A) (x02 :: hash) c /\ hl_dec_receipts B c = Some x).
Proof.
  intros B A src lookup s hash Hs. split; [|split]; intros r s' p H.
  - exact (history_get_header_bound B A src lookup s hash r s' p H Hs).
  - exact (history_get_body_bound B A src lookup s hash r s' p H Hs).
  - exact (history_get_receipts_bound B A src lookup s hash r s' p H Hs).
Qed.
Print Assumptions C01_history_lookup_bound.

(* ---- state: the hypotheses are those of C13_total plus "the two Deserialize calls return" *)
Theorem C01_state_content_total : forall L i key content,
  (forall b n, sl_decode L b = Ok n -> wf_node n = true) ->
  (forall b, sl_decode L b <> Panic) -> (forall b, sl_decode_account L b <> Panic) ->
  (forall j b, sl_header L j b <> Panic) -> (forall t b c, sl_dec_item L t b c <> Panic) ->
  state_validate L i key content <> Panic.
Proof. exact (fun L i key content H1 H2 H3 H4 H5 => state_validate_total L i key content (conj H1 (conj H2 (conj H3 (conj H4 H5))))). Qed.
Print Assumptions C01_state_content_total.

(* every stream payload, every key list, every store: validate, then Put (which indexes proof[len-1]: safe because it runs
   only after the validator accepted the same decoded pair, C13_put_after_accept) *)
Theorem C01_state_offered_content_total : forall L keys payload s,
  (forall b n, sl_decode L b = Ok n -> wf_node n = true) ->
  (forall b, sl_decode L b <> Panic) -> (forall b, sl_decode_account L b <> Panic) ->
  (forall j b, sl_header L j b <> Panic) -> (forall t b c, sl_dec_item L t b c <> Panic) ->
  fst (state_offered_contents L keys payload s) <> Panic.
Proof. exact (fun L keys payload s H1 H2 H3 H4 H5 => state_offered_total L keys payload s (conj H1 (conj H2 (conj H3 (conj H4 H5))))). Qed.
Print Assumptions C01_state_offered_content_total.

(* the same with the two Deserialize calls being the ztyp decoders of Model/WireState.v (AccountTrieNodeKey /
   ContractStorageTrieNodeKey / ContractBytecodeKey and the three ...WithProof containers): their totality is C14's
   (C14_decoders_total_state), so only the hypotheses of C13_total remain - for every key and content byte string *)
Theorem C01_state_dec_item_total : forall t body content, state_dec_item t body content <> Panic.
Proof. exact state_dec_item_total. Qed.
Print Assumptions C01_state_dec_item_total.
Theorem C01_state_content_total_concrete : forall node_hash decode decode_account header cid i key content,
  (forall b n, decode b = Ok n -> wf_node n = true) ->
  (forall b, decode b <> Panic) -> (forall b, decode_account b <> Panic) -> (forall j b, header j b <> Panic) ->
  state_validate (slib_concrete node_hash decode decode_account header cid) i key content <> Panic.
Proof.
  exact (fun nh d da h cid i key content H1 H2 H3 H4 =>
           state_validate_total (slib_concrete nh d da h cid) i key content (slib_concrete_ok nh d da h cid H1 H2 H3 H4)).
Qed.
Print Assumptions C01_state_content_total_concrete.
Theorem C01_state_offered_content_total_concrete : forall node_hash decode decode_account header cid keys payload s,
  (forall b n, decode b = Ok n -> wf_node n = true) ->
  (forall b, decode b <> Panic) -> (forall b, decode_account b <> Panic) -> (forall j b, header j b <> Panic) ->
  fst (state_offered_contents (slib_concrete node_hash decode decode_account header cid) keys payload s) <> Panic.
Proof.
  exact (fun nh d da h cid keys payload s H1 H2 H3 H4 =>
           state_offered_total (slib_concrete nh d da h cid) keys payload s (slib_concrete_ok nh d da h cid H1 H2 H3 H4)).
Qed.
Print Assumptions C01_state_offered_content_total_concrete.

(* C13_history_store through the composition (no hypothesis): whatever is under a content id afterwards was there before, or
   is the final node / the code of a pair of a known key type whose decoded form satisfied C13's chain predicate against the
   header answer of its step *)
Theorem C01_state_offered_store_bound : forall L keys payload s id v,
  StateTrie.store_get (snd (state_offered_contents L keys payload s)) id = Some v ->
  StateTrie.store_get s id = Some v \/
  exists i t body content r, sl_cid L (t :: body) = id /\ In (b2n t) state_types /\
    sl_dec_item L (b2n t) body content = Ok r /\
    content_ok (sl_node_hash L) (sl_decode L) (sl_decode_account L) (sl_header L i) r /\
    StateTrie.put (sl_node_hash L) r = Ok v /\ expected_stored r = Some v.
Proof. exact (fun L keys payload s => state_offered_bound L keys payload s). Qed.
Print Assumptions C01_state_offered_store_bound.

(* ---- beacon: key dispatch of validator and storage adapter, key decoders, the historical-summaries record *)
Theorem C01_beacon_key_dispatch_total : forall content_info db_put db_get key content st,
  (forall t c, content_info t c <> Panic) -> (forall t b c, db_put t b c <> Panic) -> (forall t b, db_get t b <> Panic) ->
  beacon_validate content_info key content <> Panic /\
  beacon_put db_put key content st <> Panic /\
  beacon_get db_get key st <> Panic.
Proof.
  exact (fun ci dp dg key content st H1 H2 H3 =>
           conj (beacon_validate_total ci key content H1) (conj (beacon_put_total dp key content st H2) (beacon_get_total dg key st H3))).
Qed.
Print Assumptions C01_beacon_key_dispatch_total.

(* every stream payload and key list; and the summaries record keeps its 8-byte epoch prefix through any offered contents *)
Theorem C01_beacon_offered_content_total : forall content_info db_put keys payload st,
  (forall i t c, content_info i t c <> Panic) -> (forall t b c, db_put t b c <> Panic) ->
  fst (beacon_offered_contents content_info db_put keys payload st) <> Panic /\
  (record_ok st -> record_ok (snd (beacon_offered_contents content_info db_put keys payload st))).
Proof. exact beacon_offered_total. Qed.
Print Assumptions C01_beacon_offered_content_total.

(* non-vacuity: streams go through decode + validate + Put.
   history: a pre-merge header (block 8197) with a REAL SHA-256 proof of 15 siblings against the second epoch root, then a
   post-Shanghai body; state: an account-trie node of a two-node proof, key and content through the ztyp decoders of
   Model/WireState.v; beacon: two historical-summaries items, the older one does not replace the newer record. *)
Example C01_content_nonvacuous :
  history_validate ex_hlib ex_hacc ex_src ex_header_key ex_header_content = Ok tt /\
  history_offered_contents ex_hlib ex_hacc ex_src [ex_header_key; ex_body_key]
      (encode_contents [ex_header_content; ex_body_content]) [] =
    (Ok tt, [(ex_body_key, ex_body_content); (ex_header_key, ex_header_content)],
            [(ex_header_key, ex_header_content); (ex_body_key, ex_body_content)]) /\
  (* one item for two awaited keys: nothing is validated *)
  history_offered_contents ex_hlib ex_hacc ex_src [ex_header_key; ex_body_key] (encode_contents [ex_header_content]) [] =
    (Err E_COUNT, [], []) /\
  (* the same header claiming to be block 8198: the body before it is stored, the header fails the Merkle check *)
  history_offered_contents ex_hlib ex_hacc ex_src [ex_body_key; ex_header_key]
      (encode_contents [ex_body_content; w_hash ++ [x06; x20] ++ concat (rev ex_sibs)]) [] =
    (Err HeaderProof.E_MERKLE, [(ex_body_key, ex_body_content)], [(ex_body_key, ex_body_content)]) /\
  state_dec_item T_AccountTrieNode (tl ex_state_key) (ex_state_content [[x02]; [x03]]) =
    Ok (RAccountNode [x07] (pad32 [x03]) [[x02]; [x03]] (repeat x11 32)) /\
  state_offered_contents ex_slib [ex_state_key] (encode_contents [ex_state_content [[x02]; [x03]]]) [] =
    (Ok tt, [(firstn 3 ex_state_key, [x04; x00; x00; x00; x03])]) /\
  state_offered_contents ex_slib [ex_state_key] (encode_contents [ex_state_content [[x02]]]) [] = (Err E_PATH_TOO_LONG, []) /\
  beacon_offered_contents (fun _ _ c => Ok (le_dec (firstn 8 c))) (fun _ _ _ => Ok tt)
      [[x14; x02; x00; x00; x00; x00; x00; x00; x00]; [x14; x01; x00; x00; x00; x00; x00; x00; x00]]
      (encode_contents [[x02; x00; x00; x00; x00; x00; x00; x00; xaa]; [x01; x00; x00; x00; x00; x00; x00; x00; xbb]]) None =
    (Ok tt, Some [x02; x00; x00; x00; x00; x00; x00; x00; x02; x00; x00; x00; x00; x00; x00; x00; xaa]) /\
  beacon_offered_contents (fun _ _ c => Ok (le_dec (firstn 8 c))) (fun _ _ _ => Ok tt)
      [[x14; x02]] (encode_contents [[x03]]) None = (Err E_STRICT, None).
Proof. repeat match goal with |- _ /\ _ => split end; vm_compute; reflexivity. Qed.
