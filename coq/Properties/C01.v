(* Properties/C01.v : No remote input can crash the node - totality of the modelled dispatch and indexing.
   PARTIAL BY NATURE (see DESIGN.md, C01): what is proved is that no index / slice expression on the modelled
   entry points can panic, for every byte string, given that the code behind the dispatch (SSZ decoders, handlers,
   validators - the subject of C02, C03, C08, C09, C11, C13, C14, C15) does not; panics inside libraries and
   "the call returns" (channel / lock waits, uTP timeouts) are covered only by the recover / watchdog run of the
   correspondence harness.  Message codes are the regenerated constants of Gen/K_wire.v. *)
From Shisui Require Import Base.Bytes Gen.K_wire Model.Framing Model.Dispatch Proofs.Dispatch.

Section C01.
  Variable h_ping h_findnodes h_findcontent h_offer : bytes -> res reply.
  Variable p_pong p_nodes p_accept p_raw p_connid p_enrs : bytes -> res unit.

  (* TALKREQ payload on a portal sub-protocol *)
  Theorem C01_talk_request_total :
    (forall b, h_ping b <> Panic) -> (forall b, h_findnodes b <> Panic) ->
    (forall b, h_findcontent b <> Panic) -> (forall b, h_offer b <> Panic) ->
    forall msg, handle_talk_request K_msg_PING K_msg_FINDNODES K_msg_FINDCONTENT K_msg_OFFER
                  h_ping h_findnodes h_findcontent h_offer true msg <> Panic.
  Proof. exact (handle_talk_request_total _ _ _ _ _ _ _ _). Qed.

  (* TALKRESP to one of our own requests *)
  Theorem C01_pong_nodes_accept_total : forall code k,
    (forall b, k b <> Panic) -> forall resp, process_resp code k resp <> Panic.
  Proof. exact process_resp_total. Qed.

  Theorem C01_content_response_total :
    (forall b, p_raw b <> Panic) -> (forall b, p_connid b <> Panic) -> (forall b, p_enrs b <> Panic) ->
    forall resp, process_content K_msg_CONTENT K_sel_ConnId K_sel_Raw K_sel_Enrs p_raw p_connid p_enrs true resp <> Panic.
  Proof. exact (process_content_total _ _ _ _ _ _ _). Qed.
End C01.
Print Assumptions C01_talk_request_total.
Print Assumptions C01_pong_nodes_accept_total.
Print Assumptions C01_content_response_total.

(* uTP stream body of an accepted offer: unconditional (the framing decoder is fully modelled, C15) *)
Theorem C01_offered_contents_total : forall nkeys payload, handle_offered_contents nkeys payload <> Panic.
Proof. exact handle_offered_contents_total. Qed.
Print Assumptions C01_offered_contents_total.

(* content key supplied by a peer: storage adapters and validators of the three networks dispatch on key[0] *)
Theorem C01_key_dispatch_total : forall k_sub types,
  (forall t body content, k_sub t body content <> Panic) ->
  forall key content, key_dispatch k_sub true types key content <> Panic.
Proof. exact key_dispatch_total. Qed.
Print Assumptions C01_key_dispatch_total.

Theorem C01_history_ephemeral_test_total : forall oe key, history_is_ephemeral true oe key <> Panic.
Proof. exact history_is_ephemeral_total. Qed.
Print Assumptions C01_history_ephemeral_test_total.

(* beacon historical-summaries record: any key, any stored record, any order of gets and puts *)
Theorem C01_beacon_summaries_get_total : forall key stored, beacon_get_summaries true key stored <> Panic.
Proof. exact beacon_get_summaries_total. Qed.
Print Assumptions C01_beacon_summaries_get_total.
Theorem C01_beacon_summaries_put_total : forall key content stored, beacon_put_summaries true key content stored <> Panic.
Proof. exact beacon_put_summaries_total. Qed.
Print Assumptions C01_beacon_summaries_put_total.
Theorem C01_beacon_summaries_record_invariant : forall key content st st',
  record_ok st -> beacon_put_summaries true key content st = Ok st' -> record_ok st'.
Proof. exact beacon_put_summaries_record. Qed.
Print Assumptions C01_beacon_summaries_record_invariant.

(* the code as found (before the fix: commits) violated each of these; witnesses are replayed by the harness *)
Theorem C01_empty_talkreq_refuted : forall h1 h2 h3 h4,
  handle_talk_request K_msg_PING K_msg_FINDNODES K_msg_FINDCONTENT K_msg_OFFER h1 h2 h3 h4 false [] = Panic.
Proof. exact (handle_talk_request_empty_refuted _ _ _ _). Qed.
Print Assumptions C01_empty_talkreq_refuted.
Theorem C01_one_byte_content_refuted : forall p1 p2 p3,
  process_content K_msg_CONTENT K_sel_ConnId K_sel_Raw K_sel_Enrs p1 p2 p3 false [x05] = Panic.
Proof. intros. apply process_content_one_byte_refuted. reflexivity. Qed.
Print Assumptions C01_one_byte_content_refuted.
Theorem C01_empty_key_refuted : forall k_sub types content, key_dispatch k_sub false types [] content = Panic.
Proof. exact key_dispatch_empty_refuted. Qed.
Print Assumptions C01_empty_key_refuted.
Theorem C01_beacon_short_key_refuted :
  beacon_get_summaries false [x14] (Some [x01; x00; x00; x00; x00; x00; x00; x00; xaa]) = Panic.
Proof. exact beacon_get_summaries_short_key_refuted. Qed.
Print Assumptions C01_beacon_short_key_refuted.

(* non-vacuity: handlers that never panic exist, and the guarded functions do real work on non-trivial inputs *)
Example C01_nonvacuous :
  handle_talk_request K_msg_PING K_msg_FINDNODES K_msg_FINDCONTENT K_msg_OFFER
     (fun _ => Ok Reply) (fun _ => Ok Reply) (fun _ => Ok Reply) (fun _ => Ok Reply) true [x04; x04; x00] = Ok Reply /\
  beacon_get_summaries true [x14; x01; x00; x00; x00; x00; x00; x00; x00]
     (Some [x02; x00; x00; x00; x00; x00; x00; x00; xaa; xbb]) = Ok [xaa; xbb] /\
  handle_offered_contents 2 [x01; xaa; x00] = Ok (Some [[xaa]; []]).
Proof. split; [|split]; vm_compute; reflexivity. Qed.
