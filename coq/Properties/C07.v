(* Properties/C07.v : Routing table structural invariants hold after every operation.
   Only statements, closed by lemmas of Proofs/Table.v, each followed by Print Assumptions.
   Model: Model/Table.v (step : table -> op -> option table, None = one of the code's panics).
   The numeric limits are the constants regenerated from the Go source (Gen/K_table.v); the statements below
   carry the literal values 16 / 10 / 17 / 239 / 2 / 10, so editing a Go constant re-checks them. *)
From Coq Require Import NArith List.
From Shisui Require Import Gen.K_table Model.Table Proofs.Table.
Import ListNotations.
Open Scope N_scope.

(* the invariant holds initially, is preserved by every operation for every random pick, and no operation panics *)
Theorem C07_init : forall s, s < two_hash -> Inv (init s).
Proof. exact Inv_init. Qed.
Print Assumptions C07_init.

Theorem C07_step : forall t o, Inv t -> op_wf o -> exists t', step t o = Some t' /\ Inv t'.
Proof. exact step_inv. Qed.
Print Assumptions C07_step.

(* all finite histories from the empty table (op_wf: node ids are 32-byte values) *)
Theorem C07_histories : forall s os, s < two_hash -> Forall op_wf os -> exists t, steps (init s) os = Some t /\ Inv t.
Proof. exact reachable_inv. Qed.
Print Assumptions C07_histories.

Theorem C07_no_panic : forall s os, s < two_hash -> Forall op_wf os -> steps (init s) os <> None.
Proof. intros s os Hs Hw. destruct (reachable_inv s os Hs Hw) as (t & E & _). congruence. Qed.
Print Assumptions C07_no_panic.

(* what the invariant says, clause by clause of the property *)
Theorem C07_bucket_count : forall t, Inv t -> length (bks t) = 17%nat.
Proof. exact Inv_bucket_count. Qed.
Print Assumptions C07_bucket_count.

Theorem C07_sizes : forall t b, Inv t -> In b (bks t) -> (length (ents b) <= 16)%nat /\ (length (reps b) <= 10)%nat.
Proof. exact Inv_sizes. Qed.
Print Assumptions C07_sizes.

Theorem C07_unique : forall t, Inv t -> NoDup (all_ids t).
Proof. exact Inv_unique. Qed.
Print Assumptions C07_unique.

Theorem C07_self_absent : forall t, Inv t -> ~ In (self t) (all_ids t).
Proof. exact Inv_self_absent. Qed.
Print Assumptions C07_self_absent.

Theorem C07_placement : forall t j b e, Inv t -> nth_error (bks t) j = Some b -> In e (ents b ++ reps b) ->
  bucket_of (self t) (eid e) = j /\ eid e <> self t.
Proof. exact Inv_place. Qed.
Print Assumptions C07_placement.

Theorem C07_bucket_index : forall d, bucket_index d = if d <=? 239 then 0%nat else N.to_nat (d - 240).
Proof. exact bucket_index_spec. Qed.
Print Assumptions C07_bucket_index.

(* true number of non-LAN nodes per /24 (key k), per bucket and in the table *)
Theorem C07_ip_limit_bucket : forall t b k, Inv t -> In b (bks t) -> true_count (ents b ++ reps b) k <= 2.
Proof. exact Inv_iplimit_bucket. Qed.
Print Assumptions C07_ip_limit_bucket.

Theorem C07_ip_limit_table : forall t k, Inv t -> true_count (all_nodes t) k <= 10.
Proof. exact Inv_iplimit_table. Qed.
Print Assumptions C07_ip_limit_table.

(* the executable invariant used by the monitors is the invariant of the theorems *)
Theorem C07_inv_b_reflects : forall t, inv_b t = true <-> Inv t.
Proof. exact inv_b_reflects. Qed.
Print Assumptions C07_inv_b_reflects.

(* the per-clause checks the driver evaluates on implementation snapshots are consequences of Inv *)
Theorem C07_checks : forall t, Inv t ->
  chk_sizes_ents t = true /\ chk_sizes_reps t = true /\ chk_unique t = true /\ chk_self t = true /\
  chk_place t = true /\ chk_iplimit_bucket t = true /\ chk_iplimit_table t = true.
Proof.
  intros t H. destruct (chk_sizes_holds t H). destruct (chk_iplimit_holds t H).
  repeat split; auto using chk_unique_holds, chk_self_holds, chk_place_holds.
Qed.
Print Assumptions C07_checks.

(* premises are satisfiable by a non-trivial table: a short history that fills entries, a replacement,
   an IP-limit rejection, a revalidation round and a removal *)
Example C07_nonvacuous :
  let n (i ip : N) := mkNode (2 ^ 255 + i) 1 ip 30303 in
  let os := [SetInit; AddFound (n 1 134744072) false; AddFound (n 2 134744073) true; AddFound (n 3 134744074) false;
             AddInbound (n 4 167772161); RevalRun true true [0%nat; 1%nat]; RevalResp (2 ^ 255 + 1) false None 0;
             Track (n 2 134744073) false [n 5 167772162] 0] in
  Forall op_wf os /\
  match steps (init 5) os with
  | Some t => inv_b t = true /\ length (all_ids t) = 3%nat
  | None => False
  end.
Proof.
  split; [repeat constructor; vm_compute; reflexivity|]. vm_compute. split; reflexivity.
Qed.
