(* Properties/C18.v : Table entries are displaced only by failed liveness, never by newcomers.
   Only statements, closed by lemmas of Proofs/Table.v, each followed by Print Assumptions.
   All statements are per step of the model (Model/Table.v) from a state satisfying the C07 invariant, for
   every operation and every random pick. *)
From Coq Require Import NArith List.
From Shisui Require Import Gen.K_table Model.Table Proofs.Table.
Import ListNotations.
Open Scope N_scope.

(* (1) full bucket (16 entries) + node that is not an entry: no entry list of the table changes; the node goes to
       the front of the bucket's replacement list, which keeps the 10 most recent - or the table does not change
       (already a replacement / address limit / inbound contact before initialisation) *)
Theorem C18_full_bucket_only_replacement : forall t o n t' b,
  Inv t -> is_add o n -> step t o = Some t' ->
  nbucket t (nid n) = Some b -> 16 <= nlen (ents b) -> (forall e, In e (ents b) -> eid e <> nid n) ->
  map ents (bks t') = map ents (bks t) /\
  (forall k, k <> bucket_of (self t) (nid n) -> nth_error (bks t') k = nth_error (bks t) k) /\
  exists b', nbucket t' (nid n) = Some b' /\
             (reps b' = reps b \/ reps b' = firstn 10 (new_rep n :: reps b)).
Proof. exact full_bucket_only_replacement. Qed.
Print Assumptions C18_full_bucket_only_replacement.

(* (2) an entry leaves only by: a failed liveness check that exhausts its credit (checks / 3 = 0), the fifth
       consecutive failed node query while the bucket has at least bucketSize/4 = 4 entries, or explicit
       deletion.  cause_b (Model/Table.v) is exactly that disjunction. *)
Theorem C18_entry_leaves_only_if : forall t o t' x,
  Inv t -> step t o = Some t' -> In x (entry_ids t) -> In x (entry_ids t') \/ cause_b t o x = true.
Proof. exact entry_leaves_only_if. Qed.
Print Assumptions C18_entry_leaves_only_if.

Theorem C18_cause_constants : K_maxFindnodeFailures = 5 /\ K_bucketSize / 4 = 4.
Proof. split; reflexivity. Qed.
Print Assumptions C18_cause_constants.

Theorem C18_leave_monitor : forall t o t', Inv t -> step t o = Some t' -> pol_leave_b t o t' = true.
Proof. exact pol_leave_holds. Qed.
Print Assumptions C18_leave_monitor.

(* (2, converse) the 5-failures rule must fire: a failed track request with fails+1 >= 5 against a node that is an
       entry of a bucket with at least 4 entries removes that entry.  The id can be present afterwards only as a
       NEW entry re-added from the found nodes of the same request (fresh_from: record among the found nodes, not
       validated, fast list); if no found node carries the id, the id is gone. *)
Theorem C18_entry_leaves_if : forall t n found pick t' b,
  Inv t -> node_wf n -> Forall node_wf found ->
  step t (Track n false found pick) = Some t' -> nbucket t (nid n) = Some b ->
  5 <= fails_read (fails t) (nid n) (nip n) + 1 -> 4 <= nlen (ents b) ->
  (exists e, In e (ents b) /\ eid e = nid n) ->
  forall e', In e' (all_ents t') -> eid e' = nid n -> fresh_from found e'.
Proof. exact entry_leaves_if. Qed.
Print Assumptions C18_entry_leaves_if.

Theorem C18_entry_leaves_if_gone : forall t n found pick t' b,
  Inv t -> node_wf n -> Forall node_wf found ->
  step t (Track n false found pick) = Some t' -> nbucket t (nid n) = Some b ->
  5 <= fails_read (fails t) (nid n) (nip n) + 1 -> 4 <= nlen (ents b) ->
  (exists e, In e (ents b) /\ eid e = nid n) -> Forall (fun x => nid x <> nid n) found ->
  ~ In (nid n) (entry_ids t').
Proof. exact entry_leaves_if_gone. Qed.
Print Assumptions C18_entry_leaves_if_gone.

Theorem C18_kept_monitor : forall t o t', Inv t -> op_wf o -> step t o = Some t' -> pol_kept_b t o t' = true.
Proof. exact pol_kept_holds. Qed.
Print Assumptions C18_kept_monitor.

(* (2, converse for liveness) a failed revalidation answer for an attached in-flight request divides the entry's
       credit by three (and puts it on the fast list); when that is 0 the entry is gone.  That the leaver is then
       succeeded by a replacement iff one exists is C18_leaver_is_succeeded / pol_succ_b (C18_monitors). *)
Theorem C18_failed_check_divides_credit : forall t id nr pick t' e aid,
  Inv t -> step t (RevalResp id false nr pick) = Some t' ->
  find (fun a : N * bool => fst a =? id) (active (gl t)) = Some (aid, true) ->
  In e (all_ents t) -> eid e = id ->
  (checks e / 3 = 0 -> ~ In id (entry_ids t')) /\
  (checks e / 3 <> 0 -> exists e', In e' (all_ents t') /\ eid e' = id /\ checks e' = checks e / 3 /\ nd e' = nd e /\ rl e' = Some Fast).
Proof. exact failed_check_divides_credit. Qed.
Print Assumptions C18_failed_check_divides_credit.

Theorem C18_failed_check_monitors : forall t o t', Inv t -> step t o = Some t' ->
  pol_failed_credit_b t o t' = true /\ pol_failed_gone_b t o t' = true.
Proof. exact pol_failed_holds. Qed.
Print Assumptions C18_failed_check_monitors.

(* the failure counter in cause_b is the number of CONSECUTIVE failed track requests of (id, ip) since the last
   successful one (consec), a function of the operation history alone (hist_fails): no other operation touches it,
   and it survives removal and re-adding of the node, as the node database does *)
Theorem C18_fail_counter_is_consecutive : forall s os t id ip,
  steps (init s) os = Some t ->
  fails t = hist_fails os /\ (ip_valid ip = true -> fails_read (fails t) id ip = consec os id ip 0).
Proof. exact fail_counter_is_consecutive. Qed.
Print Assumptions C18_fail_counter_is_consecutive.

(* hence the leave-cause predicate may be evaluated with the counter derived from the executed operations
   (this is what the driver does on implementation snapshots - not with the implementation's own counter) *)
Theorem C18_leave_monitor_hist : forall s os t o t',
  s < two_hash -> Forall op_wf os -> steps (init s) os = Some t -> step t o = Some t' ->
  pol_leave_b (with_fails t (hist_fails os)) o t' = true.
Proof. exact leave_monitor_hist. Qed.
Print Assumptions C18_leave_monitor_hist.

(* (3) the leaver is succeeded by a replacement iff one existed: deleteInBucket is the only place where an entry
       is removed (all three causes go through it); the promoted replacement is appended and flagged fast *)
Theorem C18_leaver_is_succeeded : forall id pick g b g' b',
  delete_in_bucket id pick g b = Some (g', b') -> (exists e, In e (ents b) /\ eid e = id) ->
  exists i n, nth_error (ents b) i = Some n /\ eid n = id /\
    ((reps b = [] /\ ents b' = remove_at i (ents b) /\ reps b' = []) \/
     (exists ri rep, nth_error (reps b) ri = Some rep /\
        ents b' = remove_at i (ents b) ++ [set_rl rep (Some Fast)] /\ reps b' = remove_at ri (reps b))).
Proof. exact leaver_is_succeeded. Qed.
Print Assumptions C18_leaver_is_succeeded.

Theorem C18_delete_succession : forall t id pick t' b,
  step t (Delete id pick) = Some t' -> nbucket t id = Some b -> (exists e, In e (ents b) /\ eid e = id) ->
  exists b' i n, nbucket t' id = Some b' /\ nth_error (ents b) i = Some n /\ eid n = id /\
    ((reps b = [] /\ ents b' = remove_at i (ents b) /\ reps b' = []) \/
     (exists ri rep, nth_error (reps b) ri = Some rep /\
        ents b' = remove_at i (ents b) ++ [set_rl rep (Some Fast)] /\ reps b' = remove_at ri (reps b))).
Proof. exact delete_op_succession. Qed.
Print Assumptions C18_delete_succession.

(* (4) a stored record changes only to a higher seq, or arbitrarily on inbound contact.  Third disjunct: not a
       change of a stored record - the entry was dropped by the 5-failures rule in this very step (cause_b) and
       the id re-entered as a NEW entry (not validated, fast list) whose record is one of the found nodes of the
       same request. *)
Theorem C18_record_changes_only_up : forall t o t' e e',
  Inv t -> op_wf o -> step t o = Some t' -> In e (all_ents t) -> In e' (all_ents t') -> eid e = eid e' -> nd e' <> nd e ->
  nseq (nd e) < nseq (nd e') \/ o = AddInbound (nd e') \/
  (exists n f p, o = Track n false f p /\ eid e = nid n /\ cause_b t o (eid e) = true /\ fresh_from f e').
Proof. exact record_changes_only_up. Qed.
Print Assumptions C18_record_changes_only_up.

(* (5) an endpoint change clears the verified status (and puts the node on the fast list) - no exception *)
Theorem C18_endpoint_change_clears_live : forall t o t' e e',
  Inv t -> op_wf o -> step t o = Some t' -> In e (all_ents t) -> In e' (all_ents t') -> eid e = eid e' -> ~ ep_same e e' ->
  live e' = false /\ rl e' = Some Fast.
Proof. exact endpoint_change_clears_live. Qed.
Print Assumptions C18_endpoint_change_clears_live.

(* (4)+(5) in one relation between the entry before and after the step *)
Theorem C18_step_rel : forall t o t',
  Inv t -> op_wf o -> step t o = Some t' ->
  forall e e', In e (all_ents t) -> In e' (all_ents t') -> eid e = eid e' ->
  wrel (op_al o) e e' \/
  (exists n f p, o = Track n false f p /\ eid e = nid n /\ cause_b t o (eid e) = true /\ fresh_from f e').
Proof. exact step_rel. Qed.
Print Assumptions C18_step_rel.

(* the boolean step-policy predicates that the driver evaluates on implementation snapshots hold on every step of
   the model from an Inv state: a monitor failure on a transition of the implementation is a transition the
   proved model cannot make *)
Theorem C18_monitors : forall t o t', Inv t -> op_wf o -> step t o = Some t' ->
  pol_full_b t o t' = true /\ pol_leave_b t o t' = true /\ pol_succ_b t o t' = true /\
  pol_record_b t o t' = true /\ pol_endpoint_b t o t' = true.
Proof.
  intros t o t' HI Hw Hs. repeat split;
    auto using pol_full_holds, pol_leave_holds, pol_succ_holds, pol_record_holds, pol_endpoint_holds.
Qed.
Print Assumptions C18_monitors.

(* ---- doRevalidate between startRequest and handleResponse (xstep / RevalPing: the remote node's PONG, announced
   seq and ENR answer are the inputs; started = the record seq captured by startRequest) *)
Theorem C18_reval_outcome : forall s0 ok sq enr,
  fst (reval_outcome s0 ok sq enr) = ok /\
  (forall r, snd (reval_outcome s0 ok sq enr) = Some r -> s0 < sq /\ enr = Some r).
Proof. exact reval_outcome_spec. Qed.
Print Assumptions C18_reval_outcome.

Theorem C18_xstep_inv : forall x o, Inv (core x) -> xop_wf o -> exists x', xstep x o = Some x' /\ Inv (core x').
Proof. exact xstep_inv. Qed.
Print Assumptions C18_xstep_inv.

(* a node that ANSWERED the ping - whatever became of the ENR request - costs no entry its place or credit *)
Theorem C18_answered_ping_keeps_credit : forall x id sq enr pick x' e,
  Inv (core x) -> xstep x (RevalPing id true sq enr pick) = Some x' -> In e (all_ents (core x)) ->
  exists e', In e' (all_ents (core x')) /\ eid e' = eid e /\ checks e <= checks e'.
Proof. exact answered_ping_keeps_credit. Qed.
Print Assumptions C18_answered_ping_keeps_credit.

(* credit is lost (an entry disappears or its livenessChecks go down) only when the PING failed *)
Theorem C18_credit_lost_only_if_ping_failed : forall x id ok sq enr pick x' e,
  Inv (core x) -> xstep x (RevalPing id ok sq enr pick) = Some x' -> In e (all_ents (core x)) ->
  (~ In (eid e) (entry_ids (core x')) \/
   exists e', In e' (all_ents (core x')) /\ eid e' = eid e /\ checks e' < checks e) ->
  ok = false.
Proof. exact credit_lost_only_if_ping_failed. Qed.
Print Assumptions C18_credit_lost_only_if_ping_failed.

Theorem C18_credit_monitor : forall t o t', Inv t -> step t o = Some t' -> pol_credit_b t o t' = true.
Proof. exact pol_credit_holds. Qed.
Print Assumptions C18_credit_monitor.

(* (7) activeReq = the requests started and not yet answered (aids = its ids): an answer removes its id - also when
   the node was removed from the table meanwhile; a revalidation run only adds ids of the two lists; no other
   operation changes the set.  Hence an entry without a request in flight is never excluded by get. *)
Theorem C18_active_is_in_flight : forall t o t', step t o = Some t' ->
  match o with
  | RevalResp id _ _ _ => aids (gl t') = filter (fun x => negb (x =? id)) (aids (gl t))
  | RevalRun _ _ _ =>
      (forall x, In x (aids (gl t)) -> In x (aids (gl t'))) /\
      (forall x, In x (aids (gl t')) -> In x (aids (gl t)) \/ In x (fast (gl t) ++ slow (gl t)))
  | _ => aids (gl t') = aids (gl t)
  end.
Proof. exact active_is_in_flight. Qed.
Print Assumptions C18_active_is_in_flight.

Theorem C18_active_monitor : forall t o t', step t o = Some t' -> pol_active_b t o t' = true.
Proof. exact pol_active_holds. Qed.
Print Assumptions C18_active_monitor.

(* the premises are satisfiable: a full bucket is reached, a newcomer only becomes a replacement, the executable
   policy predicates hold on that step, and a later dead answer promotes the replacement *)
Example C18_nonvacuous :
  let n (i : N) := mkNode (2 ^ 255 + i) 1 (167772160 + i) 30303 in
  let fill := map (fun i => AddFound (n (N.of_nat i)) false) (seq 1 16) in
  match steps (init 5) fill with
  | Some t =>
      inv_b t = true /\
      match nbucket t (nid (n 20)) with Some b => nlen (ents b) = 16 | None => False end /\
      match step t (AddFound (n 20) false) with
      | Some t' =>
          map ents (bks t') = map ents (bks t) /\
          pol_full_b t (AddFound (n 20) false) t' = true /\
          match nbucket t' (nid (n 20)) with Some b' => map eid (reps b') = [2 ^ 255 + 20] | None => False end /\
          match step t' (RevalRun true false [0%nat]) with
          | Some t2 =>
              match step t2 (RevalResp (2 ^ 255 + 1) false None 0) with
              | Some t3 => pol_leave_b t2 (RevalResp (2 ^ 255 + 1) false None 0) t3 = true /\
                           pol_succ_b t2 (RevalResp (2 ^ 255 + 1) false None 0) t3 = true /\
                           In (2 ^ 255 + 20) (entry_ids t3) /\ ~ In (2 ^ 255 + 1) (entry_ids t3)
              | None => False
              end
          | None => False
          end
      | None => False
      end
  | None => False
  end.
Proof.
  vm_compute. repeat split; try reflexivity.
  - right. right. right. right. right. right. right. right. right. right. right. right. right. right. right. left. reflexivity.
  - intros H. repeat (destruct H as [H|H]; [discriminate|]). exact H.
Qed.
