(* Properties/C20.v : Gossip goes to at most eight covered peers and never back to the source; the radius used for a
   peer is the one it most recently reported.  Only statements, closed by lemmas of Proofs/Gossip.v.
   [srt] is sort.Slice by log distance to the content id (any sorted permutation, [is_sort]), [shuf] is rand.Shuffle of
   the farther candidates (any permutation, [is_shuffle1]).  "Covers" is the in-range test AS THE CODE HAS IT ([in_range]):
   which of the two rules (radius > log distance, the original; radius > XOR distance, the repaired one - property C06's
   subject) the compiled code applies is probed on every run as K_inRange_xor; C20_covers_means spells both out. *)
From Shisui Require Import Base.Bytes Gen.K_handlers Model.Handlers Model.Gossip Proofs.Handlers Proofs.Gossip.
From Shisui Require Import Proofs.GossipExtra.
From Coq Require Import Permutation.

(* at most 8 targets; each is among the 32 table nodes nearest the content id (nothing outside the 32 is strictly closer),
   has a cached radius that covers the content, and is not the source; a node with no cached radius is never a target *)
Theorem C20_targets : forall shuf, is_shuffle1 shuf -> forall cid srt, is_sort cid srt ->
  forall nodelist c src nc nk res,
  gossip_select nodelist srt shuf c src cid nc nk = Ok res ->
  (length res <= 8)%nat /\
  forall r, In r res ->
    In r (firstn 32 (srt nodelist)) /\ In r nodelist /\
    (forall y, In y nodelist -> ~ In y (firstn 32 (srt nodelist)) -> logdist (rid r) cid <= logdist (rid y) cid) /\
    exists radius, cache_get c (rid r) = Some (RGood radius) /\ in_range (rid r) radius cid = true /\ src <> Some (rid r).
Proof. exact gossip_targets. Qed.
Print Assumptions C20_targets.

Theorem C20_covers_means_xor : forall id radius cid, K_inRange_xor = 1 -> (in_range id radius cid = true <-> N.lxor id cid < radius).
Proof. exact in_range_xor_rule. Qed.
Print Assumptions C20_covers_means_xor.
Theorem C20_covers_means_log : forall id radius cid, K_inRange_xor = 0 -> (in_range id radius cid = true <-> logdist id cid < radius).
Proof. exact in_range_log_rule. Qed.
Print Assumptions C20_covers_means_log.

(* the first min(4, n) targets are the closest covered ones, in order; with at most four covered nodes all of them are targets *)
Theorem C20_closest_first : forall shuf, is_shuffle1 shuf -> forall cid srt, is_sort cid srt ->
  forall nodelist c src nc nk res,
  gossip_select nodelist srt shuf c src cid nc nk = Ok res ->
  let covered := filter (covered_b c src cid) (firstn 32 (srt nodelist)) in
  sorted_by_b cid covered = true /\
  firstn 4 res = firstn 4 covered /\
  ((length covered <= 4)%nat -> res = covered) /\
  ((4 < length covered)%nat -> (4 < length res)%nat).
Proof. exact gossip_closest_first. Qed.
Print Assumptions C20_closest_first.

(* offers go only to returned targets, at most one per target (so at most 8) and at most one per available permit *)
Theorem C20_offers_subset : forall final permits n, In n (gossip_offers final permits) -> In n final.
Proof. exact gossip_offers_incl. Qed.
Print Assumptions C20_offers_subset.
Theorem C20_offers_bounded : forall final permits,
  (length (gossip_offers final permits) <= length final)%nat /\ (length (gossip_offers final permits) <= permits)%nat.
Proof. exact gossip_offers_length. Qed.
Print Assumptions C20_offers_bounded.

(* no node is chosen twice: with pairwise distinct table nodes the targets are pairwise distinct, and so are the offers
   actually enqueued ("the whole batch to at most 8 OF the 32 nearest") *)
Theorem C20_targets_distinct : forall shuf, is_shuffle1 shuf -> forall cid srt, is_sort cid srt ->
  forall nodelist c src nc nk res,
  NoDup nodelist -> gossip_select nodelist srt shuf c src cid nc nk = Ok res -> NoDup res.
Proof. exact gossip_targets_nodup. Qed.
Print Assumptions C20_targets_distinct.
Theorem C20_offers_distinct : forall final permits, NoDup final -> NoDup (gossip_offers final permits).
Proof. exact gossip_offers_nodup. Qed.
Print Assumptions C20_offers_distinct.

(* with a free outbound slot for every target each of them gets the batch, in order *)
Theorem C20_offers_all_when_slots_suffice : forall final permits,
  (length final <= permits)%nat -> gossip_offers final permits = final.
Proof. exact gossip_offers_all. Qed.
Print Assumptions C20_offers_all_when_slots_suffice.

(* the call succeeds whenever there is content, a key per content item and no malformed cache entry among the 32 nearest *)
Theorem C20_select_total : forall shuf cid srt nodelist c src nc nk,
  nc <> 0 -> nc <= nk -> no_bad_entries c (firstn 32 (srt nodelist)) = true ->
  exists res, gossip_select nodelist srt shuf c src cid nc nk = Ok res.
Proof. exact gossip_select_total. Qed.
Print Assumptions C20_select_total.

(* radius bookkeeping: after ANY interleaving of ping and pong events (of any payload types, decodable or not, from nodes
   in or out of the table) the cached radius of every id is the one it last reported while it was in the table *)
Theorem C20_cache_is_last_report : forall sup evs id,
  cache_get (run_events sup evs []) id =
  match last_reported sup evs id with Some r => Some (RGood r) | None => None end.
Proof. exact cache_after_events. Qed.
Print Assumptions C20_cache_is_last_report.

Theorem C20_last_report_wins : forall sup evs e rest r,
  reported sup e = Some r -> (forall e', In e' rest -> ev_id e' = ev_id e -> reported sup e' = None) ->
  cache_get (run_events sup (evs ++ e :: rest) []) (ev_id e) = Some (RGood r).
Proof. exact last_report_wins. Qed.
Print Assumptions C20_last_report_wins.

(* an event that is not a report (sender not in the table, unsupported or radius-less type, undecodable payload) changes no entry *)
Theorem C20_non_report_ignored : forall sup c e id,
  reported sup e = None -> cache_get (process_event sup c e) id = cache_get c id.
Proof. exact process_event_no_report. Qed.
Print Assumptions C20_non_report_ignored.

(* AddEnr of a node that is already in the table (same record again, or a newer record) leaves its reported radius alone;
   only a node that newly enters the table gets the assumed maximum *)
Theorem C20_add_enr_keeps_report : forall c id, process_add_enr c id false = c.
Proof. exact add_enr_keeps_report. Qed.
Print Assumptions C20_add_enr_keeps_report.
Theorem C20_add_enr_cache : forall c id added id',
  cache_get (process_add_enr c id added) id' = if added && (id =? id') then Some (RGood max_distance) else cache_get c id'.
Proof. exact add_enr_get. Qed.
Print Assumptions C20_add_enr_cache.

(* the radius this node announces in a PONG is the storage's radius at the time of the request, for every supported
   radius-carrying payload type *)
Theorem C20_announced_radius_is_current : forall sup t d r t' r',
  pong_of_ping sup t d r = (t', Some r') -> r' = r /\ t' = t.
Proof. exact pong_announces_current_radius. Qed.
Print Assumptions C20_announced_radius_is_current.
Theorem C20_radius_types_announce : forall sup t r,
  existsb (N.eqb t) sup = true -> carries_radius t = true -> pong_of_ping sup t true r = (t, Some r).
Proof. exact pong_for_radius_type. Qed.
Print Assumptions C20_radius_types_announce.

(* the witnesses the correspondence driver hands to the model are legal behaviours of sort.Slice / rand.Shuffle *)
Theorem C20_witness_sort_legal : forall cid w, is_sort cid (pick_sorted cid w).
Proof. exact pick_sorted_is_sort. Qed.
Print Assumptions C20_witness_sort_legal.
Theorem C20_witness_shuffle_legal : forall w g, Permutation (pick_perm w g) g.
Proof. exact pick_perm_perm. Qed.
Print Assumptions C20_witness_shuffle_legal.

(* premises are satisfiable by a non-trivial state *)
Example C20_nonvacuous :
  let nd i := mkRec i (1000 + i) 1 30303 100 true in
  let nodes := map nd [1; 2; 3; 4; 5; 6; 7] in
  let evs := [mkEvent false 1001 true 0 (Some 300); mkEvent true 1002 true 2 (Some 300); mkEvent false 1003 true 0 (Some 5);
              mkEvent false 1004 false 0 (Some 300); mkEvent true 1005 true 1 (Some 300); mkEvent true 1006 true 0 None;
              mkEvent false 1003 true 2 (Some 300); mkEvent false 1007 true 0 (Some 300); mkEvent true 1001 true 0 (Some 301)] in
  let c := run_events K_ext_history evs [] in
  cache_get c 1001 = Some (RGood 301) /\ cache_get c 1003 = Some (RGood 300) /\ cache_get c 1004 = None /\
  cache_get c 1005 = None /\ cache_get c 1006 = None /\
  gossip_select nodes (isort_by 1000) (fun l => l) c (Some 1002) 1000 1 1 = Ok [nd 1; nd 3; nd 7].
Proof. vm_compute. repeat split; reflexivity. Qed.
