(* Properties/C08.v : FINDCONTENT yields exactly the stored bytes, else closer peers, in one packet.
   Only statements, closed by lemmas of Proofs/FindContent.v (and C15's framing round trip), each followed by Print Assumptions.
   [srt] is sort.Slice by log distance to the content id: any sorted permutation ([is_sort]). *)
From Shisui Require Import Base.Bytes Gen.K_wire Gen.K_table Gen.K_handlers Model.Handlers Model.Framing
     Model.Versions Proofs.Handlers Proofs.Gossip Proofs.Framing Proofs.FindContent.

(* every reply (inline bytes, connection id, records) fits one discv5 packet, for request ids of at most 8 bytes *)
Theorem C08_reply_fits_one_packet : forall nodelist srt requester st r reqid s1 s2,
  handle_find_content nodelist srt requester st = Ok r -> reqid <= 8 ->
  talkresp_datagram reqid s1 (fc_reply_len r) s2 <= K_maxPacketSize.
Proof. exact handle_find_content_fits. Qed.
Print Assumptions C08_reply_fits_one_packet.

(* the inline threshold is what is left of the packet after the TALKRESP overhead and the two bytes of message id and selector *)
Theorem C08_threshold : findcontent_max_payload + K_talkRespOverhead + content_overhead = K_maxPacketSize /\ findcontent_max_payload <= 2048.
Proof. exact max_payload_value. Qed.
Print Assumptions C08_threshold.

(* held content: inline iff it is at most the threshold, otherwise a connection id *)
Theorem C08_held_content : forall nodelist srt requester c,
  handle_find_content nodelist srt requester (St_Found c) =
  if nlen c <=? findcontent_max_payload then Ok (FC_Raw c) else Ok FC_ConnId.
Proof. exact handle_find_content_found. Qed.
Print Assumptions C08_held_content.

(* inline: the bytes the asker extracts from the reply [CONTENT; selector raw; bytes] are the stored bytes *)
Theorem C08_inline_delivered : forall nodelist srt requester content c s dec sender,
  nlen content <= findcontent_max_payload -> b2n c = K_msg_CONTENT -> b2n s = K_sel_Raw ->
  handle_find_content nodelist srt requester (St_Found content) = Ok (FC_Raw content) /\
  process_content (c :: s :: content) dec sender = Ok (PC_Raw content).
Proof. exact inline_content_delivered. Qed.
Print Assumptions C08_inline_delivered.

(* larger content is announced by a 2-byte connection id (reply of 4 bytes) which the asker accepts as such ... *)
Theorem C08_large_announced : forall nodelist srt requester content,
  findcontent_max_payload < nlen content ->
  handle_find_content nodelist srt requester (St_Found content) = Ok FC_ConnId /\ fc_reply_len FC_ConnId = 4.
Proof. exact large_content_announced. Qed.
Print Assumptions C08_large_announced.
Theorem C08_connid_accepted : forall c s body dec sender,
  b2n c = K_msg_CONTENT -> b2n s = K_sel_ConnId -> nlen body = 2 ->
  process_content (c :: s :: body) dec sender = Ok (PC_ConnId body).
Proof. exact process_content_connid. Qed.
Print Assumptions C08_connid_accepted.
(* ... and what travels over the uTP stream decodes back to the stored bytes for the version both sides use (C15) *)
Theorem C08_stream_roundtrip : forall v d, short d -> decode_utp_content v (encode_utp_content v d) = Ok d.
Proof. exact utp_roundtrip. Qed.
Print Assumptions C08_stream_roundtrip.

(* a legacy peer (no pv entry in its record) is served and read in version 0 by any node whose version list starts with 0:
   stored bytes go onto the stream, and come off it, unframed *)
Theorem C08_legacy_peer_unframed : forall rest (c : vcache) node d,
  c node = None ->
  node_encode_utp (0 :: rest) c node PvMissing d = Ok d /\ node_decode_utp (0 :: rest) c node PvMissing d = Ok d.
Proof. exact legacy_peer_unframed. Qed.
Print Assumptions C08_legacy_peer_unframed.

(* FULL STATEMENT of the multi-packet clause (NOT proved as a whole):
     for content above the threshold, the bytes the asker's findContent returns equal the stored bytes, for either
     protocol version on either side, also with packet loss / reordering on the link.
   What is proved ([_partial]): the responder announces a connection id, the asker accepts the 4-byte reply as a connection
   id, and decode(encode(content)) = content for the stream framing of the version in use.
   What is missing: that the uTP stream hands the asker exactly the bytes the responder wrote (library behaviour of
   zen-eth/utp-go over discv5 talk requests, including retransmission under loss), and that both sides derive the same
   version (C19).  These links are exercised on every run by real transfers between two instances over loopback UDP
   (both versions on either side, sizes up to 60 kB quick / 1 MB thorough, bytes compared by SHA-256); loss and
   reordering are not injected. *)
Theorem C08_large_content_partial : forall nodelist srt requester content c s id1 id2 dec sender v,
  findcontent_max_payload < nlen content -> short content ->
  b2n c = K_msg_CONTENT -> b2n s = K_sel_ConnId ->
  handle_find_content nodelist srt requester (St_Found content) = Ok FC_ConnId /\
  process_content [c; s; id1; id2] dec sender = Ok (PC_ConnId [id1; id2]) /\
  decode_utp_content v (encode_utp_content v content) = Ok content.
Proof. exact large_content_path. Qed.
Print Assumptions C08_large_content_partial.

(* not held: only table records (ids unique in the table), at most 32, in non-decreasing log distance to the content id,
   all among the 32 nearest, never the asker *)
Theorem C08_not_held : forall cid srt, is_sort cid srt -> forall nodelist requester,
  NoDup (map rid nodelist) ->
  exists enrs, handle_find_content nodelist srt requester St_NotFound = Ok (FC_Enrs enrs) /\
    nlen enrs <= 32 /\
    sorted_by_b cid enrs = true /\
    forall r, In r enrs ->
      In r nodelist /\ rid r <> requester /\ In r (firstn 32 (srt nodelist)) /\
      (forall y, In y nodelist -> ~ In y (firstn 32 (srt nodelist)) -> logdist (rid r) cid <= logdist (rid y) cid).
Proof. exact handle_find_content_not_found. Qed.
Print Assumptions C08_not_held.

(* records are left out at the end only for lack of room (same truncation as C11) *)
Theorem C08_truncation_only_when_full : forall nodes total maxSize,
  truncate_aux nodes total maxSize 4 = nodes \/
  exists n rest, nodes = truncate_aux nodes total maxSize 4 ++ n :: rest /\
                 maxSize < total + enrs_size (truncate_aux nodes total maxSize 4) + rsize n + 4.
Proof. exact truncate_aux_maximal. Qed.
Print Assumptions C08_truncation_only_when_full.

(* the ENRs the asker takes from a reply are filtered like a NODES response without a distance requirement *)
Theorem C08_enrs_accepted : forall c s body enrs sender,
  b2n c = K_msg_CONTENT -> b2n s = K_sel_Enrs ->
  process_content (c :: s :: body) (Ok enrs) sender = Ok (PC_Enrs (filter_nodes sender enrs None)).
Proof. exact process_content_enrs. Qed.
Print Assumptions C08_enrs_accepted.

Theorem C08_handler_total : forall nodelist srt requester st, handle_find_content nodelist srt requester st <> Panic.
Proof. exact handle_find_content_total. Qed.
Print Assumptions C08_handler_total.

(* processContent: with the length guard (probed constant 0) it never panics; without it exactly the one-byte CONTENT response does (C01) *)
Theorem C08_process_content_total : forall resp dec sender,
  K_processContent_short_panics = 0 -> dec <> Panic -> process_content resp dec sender <> Panic.
Proof. exact process_content_no_panic. Qed.
Print Assumptions C08_process_content_total.
Theorem C08_process_content_one_byte : forall c dec sender,
  K_processContent_short_panics = 1 -> b2n c = K_msg_CONTENT -> process_content [c] dec sender = Panic.
Proof. exact process_content_one_byte_panics. Qed.
Print Assumptions C08_process_content_one_byte.

(* premises are satisfiable by a non-trivial state *)
Example C08_nonvacuous :
  let nd i sz := mkRec i (1000 + i) 1 30303 sz true in
  let nodes := [nd 9 300; nd 2 300; nd 5 300; nd 3 300; nd 1 300] in
  handle_find_content nodes (isort_by 1000) 1002 St_NotFound = Ok (FC_Enrs [nd 1 300; nd 3 300; nd 5 300]) /\
  handle_find_content nodes (isort_by 1000) 7 (St_Found [x01; x02]) = Ok (FC_Raw [x01; x02]) /\
  handle_find_content nodes (isort_by 1000) 7 (St_Found (repeat x00 1176)) = Ok FC_ConnId /\
  handle_find_content nodes (isort_by 1000) 7 (St_Found (repeat x00 1175)) = Ok (FC_Raw (repeat x00 1175)) /\
  process_content [x05; x01; xaa] (Err 3) (nd 1 100) = Ok (PC_Raw [xaa]) /\
  process_content [x05; x00; xaa] (Err 3) (nd 1 100) = Err E_SSZ.
Proof. vm_compute. repeat split; reflexivity. Qed.
