(* Properties/C08.v : FINDCONTENT yields exactly the stored bytes, else closer peers, in one packet.
   Only statements, closed by lemmas of Proofs/FindContent.v (and C15's framing round trip), each followed by Print Assumptions.
   [srt] is sort.Slice by log distance to the content id: any sorted permutation ([is_sort]). *)
From Shisui Require Import Base.Bytes Gen.K_wire Gen.K_table Gen.K_handlers Model.Handlers Model.Framing
     Model.Versions Proofs.Handlers Proofs.Gossip Proofs.Framing Proofs.FindContent.

(* every reply (inline bytes, connection id, records) fits one discv5 packet, for request ids of at most 8 bytes *)
Theorem C08_reply_fits_one_packet : forall nodelist srt requester st r reqid s1 s2,
  handle_find_content nodelist srt requester st = Ok r -> reqid <= 8 ->
  talkresp_datagram reqid s1 (fc_reply_len r) s2 <= K_maxPacketSize.
Proof. exact handle_find_content_fits. Qed.
Print Assumptions C08_reply_fits_one_packet.

(* the inline threshold is what is left of the packet after the TALKRESP overhead and the two bytes of message id and selector *)
Theorem C08_threshold : findcontent_max_payload + K_talkRespOverhead + content_overhead = K_maxPacketSize /\ findcontent_max_payload <= 2048.
Proof. exact max_payload_value. Qed.
Print Assumptions C08_threshold.

(* held content: inline iff it is at most the threshold, otherwise a connection id *)
Theorem C08_held_content : forall nodelist srt requester c,
  handle_find_content nodelist srt requester (St_Found c) =
  if nlen c <=? findcontent_max_payload then Ok (FC_Raw c) else Ok FC_ConnId.
Proof. exact handle_find_content_found. Qed.
Print Assumptions C08_held_content.

(* inline: the bytes the asker extracts from the reply [CONTENT; selector raw; bytes] are the stored bytes *)
Theorem C08_inline_delivered : forall nodelist srt requester content c s dec sender,
  nlen content <= findcontent_max_payload -> b2n c = K_msg_CONTENT -> b2n s = K_sel_Raw ->
  handle_find_content nodelist srt requester (St_Found content) = Ok (FC_Raw content) /\
  process_content (c :: s :: content) dec sender = Ok (PC_Raw content).
Proof. exact inline_content_delivered. Qed.
Print Assumptions C08_inline_delivered.

(* larger content is announced by a 2-byte connection id (reply of 4 bytes) which the asker accepts as such ... *)
Theorem C08_large_announced : forall nodelist srt requester content,
  findcontent_max_payload < nlen content ->
  handle_find_content nodelist srt requester (St_Found content) = Ok FC_ConnId /\ fc_reply_len FC_ConnId = 4.
Proof. exact large_content_announced. Qed.
Print Assumptions C08_large_announced.
Theorem C08_connid_accepted : forall c s body dec sender,
  b2n c = K_msg_CONTENT -> b2n s = K_sel_ConnId -> nlen body = 2 ->
  process_content (c :: s :: body) dec sender = Ok (PC_ConnId body).
Proof. exact process_content_connid. Qed.
Print Assumptions C08_connid_accepted.
(* ... and what travels over the uTP stream decodes back to the stored bytes for the version both sides use (C15) *)
Theorem C08_stream_roundtrip : forall v d, short d -> decode_utp_content v (encode_utp_content v d) = Ok d.
Proof. exact utp_roundtrip. Qed.
Print Assumptions C08_stream_roundtrip.

(* a legacy peer (no pv entry in its record) is served and read in version 0 by any node whose version list starts with 0:
   stored bytes go onto the stream, and come off it, unframed *)
Theorem C08_legacy_peer_unframed : forall rest (c : vcache) node d,
  c node = None ->
  node_encode_utp (0 :: rest) c node PvMissing d = Ok d /\ node_decode_utp (0 :: rest) c node PvMissing d = Ok d.
Proof. exact legacy_peer_unframed. Qed.
Print Assumptions C08_legacy_peer_unframed.

(* FULL STATEMENT of the multi-packet clause (NOT proved as a whole):
     for content above the threshold, the bytes the asker's findContent returns equal the stored bytes, for either
     protocol version on either side, also with packet loss / reordering on the link.
   What is proved ([_partial]): the responder announces a connection id, the asker accepts the 4-byte reply as a connection
   id, and decode(encode(content)) = content for the stream framing of the version in use.
   What is missing: that the uTP stream hands the asker exactly the bytes the responder wrote (library behaviour of
   zen-eth/utp-go over discv5 talk requests, including retransmission under loss), and that both sides derive the same
   version (C19).  These links are exercised on every run by real transfers between two instances over loopback UDP
   (both versions on either side, sizes up to 60 kB quick / 1 MB thorough, bytes compared by SHA-256); loss and
   reordering are not injected. *)
Theorem C08_large_content_partial : forall nodelist srt requester content c s id1 id2 dec sender v,
  findcontent_max_payload < nlen content -> short content ->
  b2n c = K_msg_CONTENT -> b2n s = K_sel_ConnId ->
  handle_find_content nodelist srt requester (St_Found content) = Ok FC_ConnId /\
  process_content [c; s; id1; id2] dec sender = Ok (PC_ConnId [id1; id2]) /\
  decode_utp_content v (encode_utp_content v content) = Ok content.
Proof. exact large_content_path. Qed.
Print Assumptions C08_large_content_partial.

(* not held: only table records (ids unique in the table), at most 32, in non-decreasing log distance to the content id,
   all among the 32 nearest, never the asker *)
Theorem C08_not_held : forall cid srt, is_sort cid srt -> forall nodelist requester,
  NoDup (map rid nodelist) ->
  exists enrs, handle_find_content nodelist srt requester St_NotFound = Ok (FC_Enrs enrs) /\
    nlen enrs <= 32 /\
    sorted_by_b cid enrs = true /\
    forall r, In r enrs ->
      In r nodelist /\ rid r <> requester /\ In r (firstn 32 (srt nodelist)) /\
      (forall y, In y nodelist -> ~ In y (firstn 32 (srt nodelist)) -> logdist (rid r) cid <= logdist (rid y) cid).
Proof. exact handle_find_content_not_found. Qed.
Print Assumptions C08_not_held.

(* records are left out at the end only for lack of room (same truncation as C11) *)
Theorem C08_truncation_only_when_full : forall nodes total maxSize,
  truncate_aux nodes total maxSize 4 = nodes \/
  exists n rest, nodes = truncate_aux nodes total maxSize 4 ++ n :: rest /\
                 maxSize < total + enrs_size (truncate_aux nodes total maxSize 4) + rsize n + 4.
Proof. exact truncate_aux_maximal. Qed.
Print Assumptions C08_truncation_only_when_full.

(* the ENRs the asker takes from a reply are filtered like a NODES response without a distance requirement *)
Theorem C08_enrs_accepted : forall c s body enrs sender,
  b2n c = K_msg_CONTENT -> b2n s = K_sel_Enrs ->
  process_content (c :: s :: body) (Ok enrs) sender = Ok (PC_Enrs (filter_nodes sender enrs None)).
Proof. exact process_content_enrs. Qed.
Print Assumptions C08_enrs_accepted.

Theorem C08_handler_total : forall nodelist srt requester st, handle_find_content nodelist srt requester st <> Panic.
Proof. exact handle_find_content_total. Qed.
Print Assumptions C08_handler_total.

(* processContent: with the length guard (probed constant 0) it never panics; without it exactly the one-byte CONTENT response does (C01) *)
Theorem C08_process_content_total : forall resp dec sender,
  K_processContent_short_panics = 0 -> dec <> Panic -> process_content resp dec sender <> Panic.
Proof. exact process_content_no_panic. Qed.
Print Assumptions C08_process_content_total.
Theorem C08_process_content_one_byte : forall c dec sender,
  K_processContent_short_panics = 1 -> b2n c = K_msg_CONTENT -> process_content [c] dec sender = Panic.
Proof. exact process_content_one_byte_panics. Qed.
Print Assumptions C08_process_content_one_byte.

(* premises are satisfiable by a non-trivial state *)
Example C08_nonvacuous :
  let nd i sz := mkRec i (1000 + i) 1 30303 sz true in
  let nodes := [nd 9 300; nd 2 300; nd 5 300; nd 3 300; nd 1 300] in
  handle_find_content nodes (isort_by 1000) 1002 St_NotFound = Ok (FC_Enrs [nd 1 300; nd 3 300; nd 5 300]) /\
  handle_find_content nodes (isort_by 1000) 7 (St_Found [x01; x02]) = Ok (FC_Raw [x01; x02]) /\
  handle_find_content nodes (isort_by 1000) 7 (St_Found (repeat x00 1176)) = Ok FC_ConnId /\
  handle_find_content nodes (isort_by 1000) 7 (St_Found (repeat x00 1175)) = Ok (FC_Raw (repeat x00 1175)) /\
  process_content [x05; x01; xaa] (Err 3) (nd 1 100) = Ok (PC_Raw [xaa]) /\
  process_content [x05; x00; xaa] (Err 3) (nd 1 100) = Err E_SSZ.
Proof. vm_compute. repeat split; reflexivity. Qed.

(* ======================================================================================================================
   FINDCONTENT END TO END ACROSS BOTH NODES, AND THE CONTENT LOOKUP (Model/EndToEnd.v second part, Proofs/EndToEnd.v).
   [find_content_exchange] chains: the serving node's handle_find_content (above) and, for a connection-id reply, what its
   goroutine writes to the uTP stream (encode_utp_content with the version the SERVER derives, C15 / C19); an ARBITRARY
   transport [deliver] on those bytes; the requester's processContent (process_content above) and, on the connection-id branch,
   decode_utp_content with the version the REQUESTER derives.  On top of it: ContentLookup (Model/Lookup.v, C10) with
   [peer_answer] = the requester-side processing of whatever a peer sent, and the callers of ContentLookup.
   WHERE VALIDATION SITS (portalwire/portal_protocol.go ContentLookup / contentLookupWorker, history/history_network.go,
   portalwire/api.go, beacon/beacon_network.go, beacon/portal_api.go):
     - ContentLookup itself does NOT validate: the first content answer wins (CAS + cancel), C10_content_first_wins;
     - history GetBlockHeader / GetBlockBody / GetReceipts call ValidateContent on the lookup's result BEFORE decoding, Put and
       return: C08_network_getters_validate (any peers, any transport, any schedule).  Consequence of "first answer, then
       validate": one peer answering first with bad content makes the getter fail although other peers hold the content
       (C08_getter_fails_on_bad_first_answer) - there is no retry with the remaining peers;
     - JSON-RPC portal_*GetContent (RecursiveFindContent), portal_*TraceGetContent (TraceContentLookup) and the beacon network's
       getContent return the lookup's result UNVALIDATED: C08_api_get_content_unvalidated / _not_genuine_refuted.
       (The state network has no network getter; its ValidationOracle reads headers through portal_historyGetContent and
       re-binds them to the requested hash itself, C02_oracle_bound; the beacon light client verifies what it reads, C12.)
   Purely compositional over models that are each tied to the code by their own correspondence runs (C08, C10, C02, C15,
   C19); no new harness lines.  STILL ABSTRACT: uTP (the function deliver; honest transport = identity), discv5 delivery of
   the TALKREQ / TALKRESP pair, ENR encoding of the records (reply_records hands the requester the server's records), the
   libraries of C02 / C03, goroutines (the lookup's schedule is universally quantified in C10). *)
From Shisui Require Import Model.Versions Model.Lookup Model.History Model.ContentFull Model.EndToEnd
     Proofs.Lookup Proofs.History Proofs.ContentFull Proofs.EndToEnd.

(* (a) held content, honest transport: exactly the stored bytes arrive, inline iff they fit one packet, else over uTP; for
   every version value the two sides share (0: unframed; 1: varint-framed) *)
Theorem C08_findcontent_end_to_end : forall nodelist srt server requester content v connid enrs_ssz deliver,
  nlen connid = 2 -> short content ->
  deliver (encode_utp_content v content) = encode_utp_content v content ->
  find_content_exchange nodelist srt server requester (St_Found content) (Ok v) (Ok v) connid enrs_ssz deliver =
    Ok (FR_Content content (negb (nlen content <=? findcontent_max_payload))).
Proof. exact findcontent_end_to_end. Qed.
Print Assumptions C08_findcontent_end_to_end.

(* ... with the versions each side derives from the other's ENR on first contact (C19_two_nodes_compose: they agree) *)
Theorem C08_findcontent_end_to_end_negotiated :
  forall va vb cx cy nx ny nodelist srt server requester content connid enrs_ssz deliver v,
  cx ny = None -> cy nx = None -> version_at_receiver va vb cy nx = Ok v ->
  nlen connid = 2 -> short content -> (forall w, deliver w = w) ->
  find_content_exchange nodelist srt server requester (St_Found content)
      (version_at_offerer va vb cx ny) (version_at_receiver va vb cy nx) connid enrs_ssz deliver =
    Ok (FR_Content content (negb (nlen content <=? findcontent_max_payload))).
Proof. exact findcontent_end_to_end_negotiated. Qed.
Print Assumptions C08_findcontent_end_to_end_negotiated.

(* the inline branch involves neither the transport nor the versions *)
Theorem C08_findcontent_inline_any_transport : forall nodelist srt server requester content vs vr connid enrs_ssz deliver,
  nlen content <= findcontent_max_payload ->
  find_content_exchange nodelist srt server requester (St_Found content) vs vr connid enrs_ssz deliver = Ok (FR_Content content false).
Proof. exact findcontent_inline_any_transport. Qed.
Print Assumptions C08_findcontent_inline_any_transport.

(* (c) not held: what the requester keeps (C11 acceptance) of the server's reply (C08 list) is a sub-list, in the server's
   order = closest first, of the server's 32 table entries nearest the content; no repeated ids; never the requester (the
   server removes it - the requester's own filter has no such test); valid, relay-safe, port above 1024 *)
Theorem C08_findcontent_enrs_end_to_end : forall cid srt, is_sort cid srt ->
  forall nodelist server requester vs vr connid enrs_ssz deliver, NoDup (map rid nodelist) ->
  exists enrs accepted,
    handle_find_content nodelist srt (rid requester) St_NotFound = Ok (FC_Enrs enrs) /\
    find_content_exchange nodelist srt server requester St_NotFound vs vr connid enrs_ssz deliver = Ok (FR_Nodes accepted) /\
    accepted = filter_nodes server enrs None /\
    subseq accepted enrs /\ nlen enrs <= 32 /\
    sorted_by_b cid accepted = true /\
    NoDup (map rid accepted) /\
    forall r, In r accepted ->
      In r nodelist /\ In r (firstn 32 (srt nodelist)) /\ rid r <> rid requester /\
      rvalid r = true /\ relay_ok (rflags server) (rflags r) = true /\ 1024 < rport r.
Proof. exact findcontent_enrs_end_to_end. Qed.
Print Assumptions C08_findcontent_enrs_end_to_end.

(* (b) ARBITRARY peers and transport.  What ContentLookup returns is the processed answer of ONE queried peer (resp, records,
   stream of every peer: arbitrary functions) - nothing is checked there *)
Theorem C08_lookup_result_is_a_peer_answer : forall target self tbl U ver resp dec_enrs sender stream s c,
  let cans := fun p => peer_answer ver (resp p) (dec_enrs p) (sender p) (stream p) in
  incl tbl U -> (forall p x, In (Some x) (cnodes cans p) -> In x U) ->
  creachable (xkey target) cans tbl self s -> finished (xkey target) tbl (base s) ->
  content_result s = Some c ->
  exists p utp, In p (qlog (base s)) /\
    request_find_content ver (resp p) (dec_enrs p) (sender p) (stream p) = Ok (FR_Content c utp).
Proof. exact lookup_result_is_a_peer_answer. Qed.
Print Assumptions C08_lookup_result_is_a_peer_answer.

(* the history network's getters over ANY lookup state (hence any set of lying peers, any transport, any schedule): what they
   return and what they store is the decoding of content bound to the requested hash (C02 genuine, header proofs by C03) *)
Theorem C08_network_getters_validate : forall B A src s0 hash (s : cl), store_ok (lib_of B A) s0 ->
  (forall r s' p, history_get_header B A src (lookup_of s) s0 hash = (r, s', p) ->
     store_ok (lib_of B A) s' /\ Forall (gp (lib_of B A)) p /\
     forall h, r = Ok h -> exists c, genuine (lib_of B A) (x00 :: hash) c /\ hdr_of (lib_of B A) c = Some h) /\
  (forall r s' p, history_get_body B A src (lookup_of s) s0 hash = (r, s', p) ->
     store_ok (lib_of B A) s' /\ Forall (gp (lib_of B A)) p /\
     forall b, r = Ok b -> exists c, genuine (lib_of B A) (x01 :: hash) c /\ hl_dec_body B c = Some b) /\
  (forall r s' p, history_get_receipts B A src (lookup_of s) s0 hash = (r, s', p) ->
     store_ok (lib_of B A) s' /\ Forall (gp (lib_of B A)) p /\
     forall x, r = Ok x -> exists c, genuine (lib_of B A) (x02 :: hash) c /\ hl_dec_receipts B c = Some x).
Proof. exact getters_over_lookup_bound. Qed.
Print Assumptions C08_network_getters_validate.

(* first answer wins, validated or not: a lookup result that fails validation makes the getter fail (ErrInternalError),
   whatever the other peers hold *)
Theorem C08_getter_fails_on_bad_first_answer : forall B A src s0 hash (s : cl) c,
  History.store_get s0 (x00 :: hash) = None -> content_result s = Some c ->
  history_validate B A src (x00 :: hash) c <> Ok tt -> hacc_ok A ->
  history_get_header B A src (lookup_of s) s0 hash = (Err E_LOOKUP, s0, []).
Proof. exact getter_fails_on_bad_first_answer. Qed.
Print Assumptions C08_getter_fails_on_bad_first_answer.

(* the JSON-RPC GetContent path and the beacon network's getContent: the lookup's result as it is.  For EVERY byte string c
   there is a drained lookup (one queried peer answering c suffices) on which it returns c ... *)
Theorem C08_api_get_content_unvalidated : forall c,
  exists cans tbl self s, creachable (xkey 0) cans tbl self s /\ finished (xkey 0) tbl (base s) /\
                          api_get_content None s = Some c.
Proof. exact api_get_content_unvalidated. Qed.
Print Assumptions C08_api_get_content_unvalidated.
(* ... in particular content that is not bound to the key, which the network getter refuses on the same lookup *)
Theorem C08_api_get_content_not_genuine_refuted :
  exists cans tbl self s c, creachable (xkey 0) cans tbl self s /\ finished (xkey 0) tbl (base s) /\
    api_get_content None s = Some c /\ ~ genuine (lib_of ex_hlib ex_hacc) ex_header_key c /\
    fst (fst (history_get_header ex_hlib ex_hacc ex_src (lookup_of s) [] (tl ex_header_key))) = Err E_LOOKUP.
Proof. exact api_get_content_not_genuine_refuted. Qed.
Print Assumptions C08_api_get_content_not_genuine_refuted.

(* non-vacuity: 3 bytes inline; 1500 bytes over uTP under versions 0 and 1 (identity transport); a transport that drops the
   last byte is detected under version 1 and NOT under version 0 (unframed: the requester gets 1499 bytes - validation is the
   caller's business); mismatching versions; the ENR branch with the requester removed *)
Example C08_end_to_end_nonvacuous :
  let nd i sz := mkRec i (1000 + i) 1 30303 sz true in
  let nodes := [nd 9 300; nd 2 300; nd 5 300; nd 3 300; nd 1 300] in
  let big := repeat x07 1500 in
  let fce := find_content_exchange nodes (isort_by 1000) (nd 7 100) (nd 2 100) in
  fce (St_Found [x01; x02; x03]) (Ok 1) (Ok 1) [xab; xcd] [] (fun w => w) = Ok (FR_Content [x01; x02; x03] false) /\
  fce (St_Found big) (Ok 1) (Ok 1) [xab; xcd] [] (fun w => w) = Ok (FR_Content big true) /\
  fce (St_Found big) (Ok 0) (Ok 0) [xab; xcd] [] (fun w => w) = Ok (FR_Content big true) /\
  fce (St_Found big) (Ok 1) (Ok 1) [xab; xcd] [] (fun w => removelast w) = Err E_INSUFFICIENT /\
  fce (St_Found big) (Ok 0) (Ok 0) [xab; xcd] [] (fun w => removelast w) = Ok (FR_Content (repeat x07 1499) true) /\
  fce (St_Found big) (Ok 0) (Ok 1) [xab; xcd] [] (fun w => w) = Err E_LEN_MISMATCH /\
  fce St_NotFound (Ok 1) (Ok 1) [xab; xcd] [] (fun w => w) = Ok (FR_Nodes [nd 1 300; nd 3 300; nd 5 300]).
Proof. cbv zeta. repeat match goal with |- _ /\ _ => split end; vm_compute; reflexivity. Qed.
