(* Properties/C12.v : The light client only advances on verified, sufficiently signed updates.
   Only statements, closed by lemmas of Proofs/LightClient.v, each followed by Print Assumptions.
   BLS is symbolic in the model (idealised unforgeability, trusted base); SHA-256 is the real function and every
   Merkle statement is "the leaf is at the position, or here is an explicit collision of the pair hash". *)
From Shisui Require Import Base.Bytes Base.Sha256 Base.Merkle Proofs.Merkle Model.LightClient Proofs.LightClient Gen.K_lightclient.
From Coq Require Import Permutation.

(* ---------------- (b) all sequences of updates, each applied only after a successful verification.
   A step carries its own clock value, genesis root and fork version: they are ARBITRARY per step
   (in particular the clock need not be monotone). *)

(* finalized and optimistic slots never decrease, between any two points of any sequence *)
Theorem C12_slots_never_decrease : forall s0 l1 l2,
  h_slot (s_fin (run s0 l1)) <= h_slot (s_fin (run s0 (l1 ++ l2))) /\
  h_slot (s_opt (run s0 l1)) <= h_slot (s_opt (run s0 (l1 ++ l2))).
Proof. exact run_mono_between. Qed.
Print Assumptions C12_slots_never_decrease.

(* the optimistic header stays at or ahead of the finalized one (bootstrap establishes equality) *)
Theorem C12_optimistic_at_or_ahead : forall l s0,
  h_slot (s_fin s0) <= h_slot (s_opt s0) -> h_slot (s_fin (run s0 l)) <= h_slot (s_opt (run s0 l)).
Proof. exact run_opt_ge_fin. Qed.
Print Assumptions C12_optimistic_at_or_ahead.

(* finalized header and committees change only for a verified update with 3*bits >= 2*512, as the code writes the test *)
Theorem C12_change_needs_two_thirds : forall s0 l x,
  let s := run s0 l in let s' := process s x in
  (s_fin s' = s_fin s /\ s_cur s' = s_cur s /\ s_next s' = s_next s) \/
  (step_verified s x /\ exists bits, get_bits (u_bits (st_update x)) = Ok bits /\ 512 * 2 <= bits * 3).
Proof. exact step_needs_majority. Qed.
Print Assumptions C12_change_needs_two_thirds.

(* the current committee only ever becomes the previously stored next committee *)
Theorem C12_rotation_to_stored_next : forall s0 l x,
  let s := run s0 l in let s' := process s x in
  s_cur s' = s_cur s \/ s_next s = Some (s_cur s').
Proof. exact step_rotation. Qed.
Print Assumptions C12_rotation_to_stored_next.

(* ... and exactly what happens to the pair of committees in one step: nothing; or a missing next committee is taken
   from the update; or a rotation, after which the next committee is what the update carries - NOTHING for a finality or
   optimistic update, so that the store never keeps the committee it has just rotated to as its "next" one *)
Theorem C12_committees_step : forall s0 l x,
  let s := run s0 l in let s' := process s x in let u := st_update x in
  (s_cur s' = s_cur s /\ s_next s' = s_next s) \/
  (s_cur s' = s_cur s /\ s_next s = None /\ s_next s' = u_next u) \/
  (s_next s = Some (s_cur s') /\ s_next s' = u_next u).
Proof. exact step_committees. Qed.
Print Assumptions C12_committees_step.

Theorem C12_current_committee_origin : forall l s0,
  s_cur (run s0 l) = s_cur s0 \/
  exists l1 l2, l = l1 ++ l2 /\ s_next (run s0 l1) = Some (s_cur (run s0 l)).
Proof. exact run_current_committee_origin. Qed.
Print Assumptions C12_current_committee_origin.

(* every finalized header a reached store holds is the bootstrap one or was carried by a verified two-thirds update *)
Theorem C12_finalized_origin : forall l s0,
  s_fin (run s0 l) = s_fin s0 \/
  exists l1 x l2 bits, l = l1 ++ x :: l2 /\ step_verified (run s0 l1) x /\
    u_fin (st_update x) = Some (s_fin (run s0 l)) /\
    get_bits (u_bits (st_update x)) = Ok bits /\ 512 * 2 <= bits * 3.
Proof. exact run_finalized_origin. Qed.
Print Assumptions C12_finalized_origin.

(* where new values come from: next committee = the update's, finalized = the update's strictly newer header,
   optimistic = attested or finalized header of the update *)
Theorem C12_store_fields_come_from_the_update : forall s0 l x,
  let s := run s0 l in let s' := process s x in let u := st_update x in
  (s_next s' = s_next s \/ s_next s' = u_next u) /\
  (s_fin s' = s_fin s \/ (u_fin u = Some (s_fin s') /\ h_slot (s_fin s) < h_slot (s_fin s'))) /\
  (s_opt s' = s_opt s \/ s_opt s' = u_attested u \/ u_fin u = Some (s_opt s')).
Proof. exact step_sources. Qed.
Print Assumptions C12_store_fields_come_from_the_update.

(* constants: the literals of light_client.go against the values compiled from the tree (Gen/K_lightclient.v) *)
Theorem C12_constants :
  2 ^ FIN_DEPTH + FIN_INDEX = K_LC_FINALIZED_ROOT_GINDEX /\
  2 ^ NEXT_DEPTH + NEXT_INDEX = K_LC_NEXT_SYNC_COMM_GINDEX /\
  FIN_DEPTH = K_LC_FINALITY_BRANCH_LEN /\ NEXT_DEPTH = K_LC_SYNC_BRANCH_LEN /\
  K_LC_SYNC_COMMITTEE_SIZE = 512 /\
  (forall slot, calc_sync_period slot = slot / (K_LC_SLOTS_PER_EPOCH * K_LC_EPOCHS_PER_PERIOD) /\
                calc_sync_period slot = slot / K_LC_SLOTS_PER_PERIOD_PROBED).
Proof.
  exact (conj finality_position_is_gindex (conj next_committee_position_is_gindex
        (conj (proj1 branch_lengths_cover_depths) (conj (proj1 (proj2 branch_lengths_cover_depths))
        (conj committee_size_is_512 calc_sync_period_spec))))).
Qed.
Print Assumptions C12_constants.

(* ---------------- (a) what a successful verification establishes.
   The record verify_post (Proofs/LightClient.v) lists: at least one participant; signature slot not in the future,
   attested slot before it, finalized slot not after the attested slot; the signature period is the store period, or
   the next one when the store knows the next committee; the update is relevant; the finalized header root is the
   leaf at depth 6 index 41 and the next committee root the leaf at depth 5 index 23 of ANY tree whose root is the
   attested state root, or SHA-256 has an explicit pair collision; the signature is the aggregate of EXACTLY (as a
   multiset) the participating keys of the committee the store holds for the signature period over the signing
   root of the attested header under the given genesis root and fork version. *)
Theorem C12_verify_sound : forall s u now genesis fork_version,
  verify s u now genesis fork_version = Ok tt -> verify_post s u now genesis fork_version.
Proof. exact verify_sound. Qed.
Print Assumptions C12_verify_sound.

(* the listed conditions are also sufficient (branches stated through the verification procedure): together with
   C12_verify_sound this characterises acceptance, which is what entitles the run-time monitors to call an
   implementation acceptance/rejection that differs from the model a violation of the property *)
Theorem C12_verify_complete : forall s u now genesis fv bits c pks ids signers,
  get_bits (u_bits u) = Ok bits -> 1 <= bits ->
  u_sigslot u <= now -> h_slot (u_attested u) < u_sigslot u -> fin_slot_or_0 u <= h_slot (u_attested u) ->
  period_fits s u -> relevant s u ->
  (forall fh br, u_fin u = Some fh -> u_fin_branch u = Some br -> is_finality_proof_valid (u_attested u) fh br = Ok true) ->
  (forall nc br, u_next u = Some nc -> u_next_branch u = Some br -> is_next_committee_proof_valid (u_attested u) nc br = Ok true) ->
  committee_for s u = Some c -> participating_keys c (u_bits u) = Ok pks ->
  pks = map PkValid ids -> ids <> [] ->
  u_sig u = SigOf signers (committee_sign_root genesis (htr_header (u_attested u)) fv) -> Permutation signers ids ->
  verify s u now genesis fv = Ok tt.
Proof. exact verify_complete. Qed.
Print Assumptions C12_verify_complete.

(* GenericUpdate has four independent pointers; the branch clauses above are conditional on the branch being
   present.  Every update made from a wire object carries header and branch together, and then they are unconditional *)
Theorem C12_wire_updates_are_paired : forall att next nbr fin fbr bits sg slot,
  paired (from_update att next nbr fin fbr bits sg slot) /\
  paired (from_finality_update att fin fbr bits sg slot) /\
  paired (from_optimistic_update att bits sg slot).
Proof. exact converters_paired. Qed.
Print Assumptions C12_wire_updates_are_paired.

(* the wire entry points for EVERY fork container type the type switches accept (deneb, capella, altair; anything
   else is an error): each case yields exactly the intended shape, and a successful VerifyUpdate /
   VerifyFinalityUpdate proves the wire object's own finalized header (and next committee) against the attested state root *)
Theorem C12_wire_converters_exact : forall f att next nbr fin fbr bits sg slot,
  (forall u, from_light_client_update f att next nbr fin fbr bits sg slot = Ok u ->
             u = from_update att next nbr fin fbr bits sg slot) /\
  (forall u, from_light_client_finality_update f att fin fbr bits sg slot = Ok u ->
             u = from_finality_update att fin fbr bits sg slot) /\
  (forall u, from_light_client_optimistic_update f att bits sg slot = Ok u ->
             u = from_optimistic_update att bits sg slot) /\
  (f <> WOther -> f <> WElectra ->
     from_light_client_update f att next nbr fin fbr bits sg slot <> Err E_UNKNOWN_TYPE /\
     from_light_client_finality_update f att fin fbr bits sg slot <> Err E_UNKNOWN_TYPE /\
     from_light_client_optimistic_update f att bits sg slot <> Err E_UNKNOWN_TYPE).
Proof. exact wire_converters_exact. Qed.
Print Assumptions C12_wire_converters_exact.

Theorem C12_verify_update_wire_sound : forall f s att next nbr fin fbr bits sg slot now genesis fv,
  verify_wire s (from_light_client_update f att next nbr fin fbr bits sg slot) now genesis fv = Ok tt ->
  branch_holds (htr_header fin) FIN_DEPTH FIN_INDEX (h_state att) /\
  branch_holds (c_root next) NEXT_DEPTH NEXT_INDEX (h_state att) /\
  verify_post s (from_update att next nbr fin fbr bits sg slot) now genesis fv.
Proof. exact verify_wire_update_sound. Qed.
Print Assumptions C12_verify_update_wire_sound.

Theorem C12_verify_finality_update_wire_sound : forall f s att fin fbr bits sg slot now genesis fv,
  verify_wire s (from_light_client_finality_update f att fin fbr bits sg slot) now genesis fv = Ok tt ->
  branch_holds (htr_header fin) FIN_DEPTH FIN_INDEX (h_state att) /\
  verify_post s (from_finality_update att fin fbr bits sg slot) now genesis fv.
Proof. exact verify_wire_finality_sound. Qed.
Print Assumptions C12_verify_finality_update_wire_sound.

Theorem C12_verify_sound_branches : forall s u now genesis fork_version,
  paired u -> verify s u now genesis fork_version = Ok tt ->
  (forall fh, u_fin u = Some fh -> branch_holds (htr_header fh) FIN_DEPTH FIN_INDEX (h_state (u_attested u))) /\
  (forall nc, u_next u = Some nc -> branch_holds (c_root nc) NEXT_DEPTH NEXT_INDEX (h_state (u_attested u))).
Proof. exact verify_sound_paired. Qed.
Print Assumptions C12_verify_sound_branches.

(* the participating keys are as many as the set bits *)
Theorem C12_participants_count : forall c bits n pks,
  get_bits bits = Ok n -> participating_keys c bits = Ok pks -> N.of_nat (length pks) = n.
Proof. exact participating_keys_count. Qed.
Print Assumptions C12_participants_count.

(* ... and they are exactly the committee's keys at the positions whose bit is set, in committee order *)
Theorem C12_participants_are_the_selected_keys : forall c bits pks,
  length (c_keys c) = 512%nat -> participating_keys c bits = Ok pks -> pks = selected (c_keys c) bits.
Proof. exact participating_keys_selected. Qed.
Print Assumptions C12_participants_are_the_selected_keys.

(* checked index expressions (bits[i>>3], Pubkeys[i], branch[i], nil committee): never out of range on SSZ-typed data,
   typedness is preserved along every sequence, and a verified update is always applied *)
Theorem C12_verify_never_panics : forall s u now genesis fork_version,
  wt_store s -> wt_update u -> verify s u now genesis fork_version <> Panic.
Proof. exact verify_no_panic. Qed.
Print Assumptions C12_verify_never_panics.

Theorem C12_apply_never_panics : forall s u, length (u_bits u) = 64%nat -> apply s u <> Panic.
Proof. exact apply_no_panic. Qed.
Print Assumptions C12_apply_never_panics.

Theorem C12_typed_store_preserved : forall s x, wt_store s -> wt_update (st_update x) -> wt_store (process s x).
Proof. exact process_wt. Qed.
Print Assumptions C12_typed_store_preserved.

Theorem C12_verified_is_applied : forall s x, step_verified s x -> apply s (st_update x) = Ok (process s x).
Proof. exact verified_is_applied. Qed.
Print Assumptions C12_verified_is_applied.

(* bootstrap: the store is exactly the bootstrap header and committee, the header container root is the trusted
   checkpoint, the committee root is the leaf at depth 5 index 22 under the header's state root (or collision) *)
Theorem C12_bootstrap_binds_checkpoint : forall checkpoint b now max_age strict s,
  bootstrap checkpoint b now max_age strict = Ok s ->
  htr_lc_header b = checkpoint /\
  s = mkStore (b_beacon b) (b_beacon b) (b_committee b) None 0 0 /\
  branch_holds (c_root (b_committee b)) CUR_DEPTH CUR_INDEX (h_state (b_beacon b)) /\
  (strict = true -> is_valid_checkpoint now (h_slot (b_beacon b)) max_age = true).
Proof. exact bootstrap_sound. Qed.
Print Assumptions C12_bootstrap_binds_checkpoint.

(* ---------------- premises are satisfiable: a concrete store and a concrete finality update over a 512-member
   committee, real SHA-256 roots.  With all 512 bits the update verifies and moves the finalized header; the same
   update signed by 341 members verifies too, moves only the optimistic header (341*3 < 1024); a flipped branch node,
   a foreign signer and a future signature slot are rejected. *)
Definition ex_ids (n : nat) : list N := map N.of_nat (seq 0 n).
Definition ex_committee : committee := mkCommittee (map PkValid (ex_ids 512)) (repeat x11 32).
Definition ex_hdr (slot : N) (state : bytes) : header := mkHeader slot 7 (repeat x22 32) state (repeat x33 32).
Definition ex_store : store := mkStore (ex_hdr 10 zero32) (ex_hdr 10 zero32) ex_committee None 0 0.
Definition ex_fin : header := ex_hdr 64 (repeat x44 32).
Definition ex_state_root : bytes :=
  fold_left (fun v (bit : bool) => if bit then Hp zero32 v else Hp v zero32) [true; false; false; true; false; true] (htr_header ex_fin).
Definition ex_att : header := ex_hdr 99 ex_state_root.
Definition ex_genesis : bytes := repeat x55 32.
Definition ex_fork : bytes := [x03; x00; x00; x00].
Definition ex_msg : bytes := committee_sign_root ex_genesis (htr_header ex_att) ex_fork.
Definition ex_bits (full : bool) : bytes := if full then repeat xff 64 else repeat xff 42 ++ [x1f] ++ repeat x00 21.
Definition ex_update (full : bool) (branch : list bytes) (signers : list N) (sigslot : N) : update :=
  from_finality_update ex_att ex_fin branch (ex_bits full) (SigOf signers ex_msg) sigslot.
Definition ex_step (u : update) : step := mkStep u 100 ex_genesis ex_fork.

Example C12_nonvacuous :
  let good := ex_update true (repeat zero32 6) (ex_ids 512) 100 in
  let third := ex_update false (repeat zero32 6) (ex_ids 341) 100 in
  wt_store ex_store /\ wt_update good /\ paired good /\
  step_verified ex_store (ex_step good) /\
  (exists s', apply ex_store good = Ok s' /\ s_fin s' = ex_fin /\ s_opt s' = ex_att) /\
  step_verified ex_store (ex_step third) /\
  (exists s', apply ex_store third = Ok s' /\ s_fin s' = s_fin ex_store /\ s_opt s' = ex_att) /\
  verify ex_store (ex_update true ((repeat x00 31 ++ [x01]) :: repeat zero32 5) (ex_ids 512) 100) 100 ex_genesis ex_fork = Err E_FINALITY /\
  verify ex_store (ex_update true (repeat zero32 6) (600 :: ex_ids 511) 100) 100 ex_genesis ex_fork = Err E_SIGNATURE /\
  verify ex_store (ex_update true (repeat zero32 6) (ex_ids 512) 101) 100 ex_genesis ex_fork = Err E_TIMESTAMP.
Proof.
  cbv zeta. unfold step_verified.
  split; [split; [vm_compute; reflexivity | intros c E; discriminate E]|].
  split; [split; [vm_compute; reflexivity|]; split; [intros ? E; inversion E; reflexivity|]; split; intros ? E; discriminate E|].
  split; [split; vm_compute; reflexivity|].
  split; [vm_compute; reflexivity|].
  split; [eexists; split; [vm_compute; reflexivity|]; split; vm_compute; reflexivity|].
  split; [vm_compute; reflexivity|].
  split; [eexists; split; [vm_compute; reflexivity|]; split; vm_compute; reflexivity|].
  split; [vm_compute; reflexivity|].
  split; vm_compute; reflexivity.
Qed.

(* ================================================================== histories: a forged chain cannot be adopted
   without a two-thirds signature of a trusted committee.
   `trusted g s0 c p`  (Proofs/LightClient.v): c is the initial store's current committee (p = the store's period), its next
   committee (p + 1), or was HANDED OVER by a trusted committee c' of period p - 1: more than two thirds (3*bits >= 2*512)
   of c' signed, with a signature slot in period p - 1, a header of period p - 1 whose state root has c at the
   next-sync-committee position (or SHA-256 collides).  `finalized_by g c p h`: more than two thirds of c signed, in period
   p, a header at or after h whose state root has h at the finalized-checkpoint position (or collision).
   The theorem quantifies over EVERY list of wire messages - LightClientUpdate / FinalityUpdate / OptimisticUpdate in any fork
   container, honest or not, any slots, any clock value and fork version per step - run through convert, verify, apply. The
   code has no force-update (no timeout path): process is the only transition. *)
Theorem C12_history_safety : forall g s0 l,
  let s := run_wire g s0 l in
  trusted g s0 (s_cur s) (calc_sync_period (h_slot (s_fin s))) /\
  (forall n, s_next s = Some n -> trusted g s0 n (calc_sync_period (h_slot (s_fin s)) + 1)) /\
  (s_fin s = s_fin s0 \/
   exists c p, trusted g s0 c p /\ finalized_by g c p (s_fin s) /\ calc_sync_period (h_slot (s_fin s)) <= p).
Proof. intros g s0 l. destruct (history_safety g s0 l) as [A B C]. exact (conj A (conj B C)). Qed.
Print Assumptions C12_history_safety.

Theorem C12_history_safety_from_bootstrap : forall g checkpoint b now max_age strict s0,
  bootstrap checkpoint b now max_age strict = Ok s0 ->
  htr_lc_header b = checkpoint /\ s_cur s0 = b_committee b /\ s_next s0 = None /\ s_fin s0 = b_beacon b /\
  forall l, trust_inv g s0 (run_wire g s0 l).
Proof. exact history_safety_from_bootstrap. Qed.
Print Assumptions C12_history_safety_from_bootstrap.

(* trusted committees cannot be conjured: each one is an initial committee or has a hand-over behind it *)
Theorem C12_trusted_has_origin : forall g s0 c p,
  trusted g s0 c p ->
  (c = s_cur s0 /\ p = calc_sync_period (h_slot (s_fin s0))) \/
  (s_next s0 = Some c /\ p = calc_sync_period (h_slot (s_fin s0)) + 1) \/
  (exists c' p', trusted g s0 c' p' /\ hands_over g c' p' c /\ p = p' + 1).
Proof. exact trusted_inversion. Qed.
Print Assumptions C12_trusted_has_origin.

(* the four kinds of step of ApplyGenericUpdate (nothing; fill a missing next committee; advance within the period;
   rotate), with the period condition that selects the rotation *)
Theorem C12_apply_kinds : forall s u s' bits,
  apply s u = Ok s' -> get_bits (u_bits u) = Ok bits ->
  (s_fin s' = s_fin s /\ s_cur s' = s_cur s /\ s_next s' = s_next s) \/
  (512 * 2 <= bits * 3 /\ fin_part s u s' /\
   ((s_next s = None /\ s_cur s' = s_cur s /\ s_next s' = u_next u) \/
    (exists nx, s_next s = Some nx /\
        calc_sync_period (fin_slot_or_0 u) <> calc_sync_period (h_slot (s_fin s)) + 1 /\
        s_cur s' = s_cur s /\ s_next s' = s_next s) \/
    (exists nx, s_next s = Some nx /\
        calc_sync_period (fin_slot_or_0 u) = calc_sync_period (h_slot (s_fin s)) + 1 /\
        s_cur s' = nx /\ s_next s' = u_next u))).
Proof. exact apply_kinds. Qed.
Print Assumptions C12_apply_kinds.

(* ================================================================== clock and period arithmetic, all values *)
Theorem C12_bad_time_is_rejected : forall s u now genesis fv bits,
  get_bits (u_bits u) = Ok bits -> bits <> 0 ->
  (now < u_sigslot u \/ u_sigslot u <= h_slot (u_attested u) \/ h_slot (u_attested u) < fin_slot_or_0 u) ->
  verify s u now genesis fv = Err E_TIMESTAMP.
Proof. exact verify_rejects_bad_time. Qed.
Print Assumptions C12_bad_time_is_rejected.

(* with the clock the node actually reads (expectedCurrentSlot = TimeToSlot(time.Now(), GenesisTime)) *)
Theorem C12_future_signature_rejected_at_clock : forall s u now_time genesis_time genesis fv,
  now_time < genesis_time + u_sigslot u * K_LC_SECONDS_PER_SLOT -> 0 < u_sigslot u ->
  verify_at s u now_time genesis_time genesis fv <> Ok tt.
Proof. exact verify_at_rejects_future. Qed.
Print Assumptions C12_future_signature_rejected_at_clock.

Theorem C12_clock_arithmetic :
  (forall now_time genesis_time slot,
     expected_current_slot now_time genesis_time < slot <->
     (0 < slot /\ now_time < genesis_time + slot * K_LC_SECONDS_PER_SLOT)) /\
  (forall slot genesis_time t, genesis_time <= two64m1 -> time_at_slot slot genesis_time = Ok t ->
     t = slot * K_LC_SECONDS_PER_SLOT + genesis_time /\ t <= two64m1).
Proof. exact (conj expected_current_slot_spec time_at_slot_no_wrap). Qed.
Print Assumptions C12_clock_arithmetic.

(* the one uint64 subtraction (isValidCheckpoint): a bootstrap header in the future of the clock wraps to an enormous age *)
Theorem C12_checkpoint_age_wraps : forall now_slot slot max_age,
  (now_slot < slot -> slot * K_LC_SECONDS_PER_SLOT < two64 ->
   (slot - now_slot) * K_LC_SECONDS_PER_SLOT + max_age <= two64 -> is_valid_checkpoint now_slot slot max_age = false) /\
  (slot <= now_slot -> now_slot * K_LC_SECONDS_PER_SLOT < two64 ->
   is_valid_checkpoint now_slot slot max_age = ((now_slot - slot) * K_LC_SECONDS_PER_SLOT <? max_age)).
Proof. intros. split; [apply checkpoint_in_future_is_invalid | apply checkpoint_age_spec]. Qed.
Print Assumptions C12_checkpoint_age_wraps.

(* ================================================================== Electra (see the comment in Proofs/LightClient.v):
   the bootstrap check is membership at generalized index 54; on an Electra-shaped state (64 leaves) that node is the parent
   of the non-existent fields 44 and 45, so acceptance would need a committee whose root is H(0,0) *)
Theorem C12_bootstrap_on_electra_state : forall checkpoint b now max_age strict s t,
  bootstrap checkpoint b now max_age strict = Ok s ->
  troot Hp t = h_state (b_beacon b) ->
  subtree t (path_of 5 22) = Some (Node (Leaf zero32) (Leaf zero32)) ->
  c_root (b_committee b) = Hp zero32 zero32 \/ Collision Hp.
Proof. exact bootstrap_on_electra_state. Qed.
Print Assumptions C12_bootstrap_on_electra_state.

Theorem C12_electra_positions :
  path_of 6 44 = path_of 5 22 ++ [false] /\ path_of 6 45 = path_of 5 22 ++ [true] /\
  firstn 5 (path_of 6 22) <> path_of 5 22.
Proof. exact electra_leaves_under_the_checked_position. Qed.
Print Assumptions C12_electra_positions.

(* ================================================================== bootstrap as an operation of the history
   (Start() retries Sync() - which begins with bootstrap() - on the same client object) *)
Theorem C12_rebootstrap_forgets : forall g s cp b now max_age strict,
  is_ok (bootstrap cp b now max_age strict) = true ->
  process_op g s (HBootstrap cp b now max_age strict) = store_of_bootstrap b /\
  s_next (process_op g s (HBootstrap cp b now max_age strict)) = None.
Proof. exact rebootstrap_forgets. Qed.
Print Assumptions C12_rebootstrap_forgets.

Theorem C12_history_after_rebootstrap : forall g s0 before cp b now max_age strict msgs,
  is_ok (bootstrap cp b now max_age strict) = true ->
  run_ops g s0 (before ++ HBootstrap cp b now max_age strict :: map HMsg msgs) = run_wire g (store_of_bootstrap b) msgs /\
  trust_inv g (store_of_bootstrap b) (run_wire g (store_of_bootstrap b) msgs).
Proof. exact history_after_rebootstrap. Qed.
Print Assumptions C12_history_after_rebootstrap.

(* ================================================================== relevance, for all values *)
Theorem C12_irrelevant_update_is_rejected : forall s u now genesis fv bits,
  get_bits (u_bits u) = Ok bits -> bits <> 0 ->
  u_sigslot u <= now -> h_slot (u_attested u) < u_sigslot u -> fin_slot_or_0 u <= h_slot (u_attested u) ->
  period_fits s u ->
  h_slot (u_attested u) <= h_slot (s_fin s) ->
  ~ (s_next s = None /\ u_next u <> None /\
     calc_sync_period (h_slot (u_attested u)) = calc_sync_period (h_slot (s_fin s))) ->
  verify s u now genesis fv = Err E_NOT_RELEVANT.
Proof. exact verify_rejects_irrelevant. Qed.
Print Assumptions C12_irrelevant_update_is_rejected.

(* the honest closing update of the previous period (attested in its last slot, signed in the first slot of the store's
   period): never relevant for a store finalized in the current period, whatever it carries *)
Theorem C12_closing_update_of_previous_period_rejected : forall s u now genesis fv bits,
  get_bits (u_bits u) = Ok bits -> bits <> 0 -> u_sigslot u <= now ->
  fin_slot_or_0 u <= h_slot (u_attested u) ->
  let p := calc_sync_period (h_slot (s_fin s)) in
  1 <= p -> u_sigslot u = p * 8192 -> h_slot (u_attested u) = p * 8192 - 1 ->
  verify s u now genesis fv = Err E_NOT_RELEVANT.
Proof. exact closing_update_of_previous_period_rejected. Qed.
Print Assumptions C12_closing_update_of_previous_period_rejected.
