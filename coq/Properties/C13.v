(* Properties/C13.v : State content is accepted only with a hash-linked proof down to the state root.
   Only statements, closed by lemmas of Proofs/StateTrie.v, each followed by Print Assumptions.
   keccak (node_hash), the RLP node decoder (decode), types.FullAccount (decode_account) and the header source (header) are
   universally quantified functions: nothing is assumed of the hash (no injectivity); where two different proofs are
   compared the conclusion is "equal, or here are two different byte strings with the same hash".
   The model is the code AFTER the two C13 fixes (fixes/C13-*.diff); the facts about the code before are C13_original_*. *)
From Shisui Require Import Base.Bytes Model.StateTrie Proofs.StateTrie.

(* ---- accept <=> hash-linked chain -------------------------------------------------------------
   chain root path proof last p' :  proof = first :: tl, node_hash first = root, and every next node is the child that the
   previous one REFERENCES (ref_along: branch slot / extension key, never a leaf value) along the path; p' is what is left
   of the path at the last node.  node_proof_ok adds: p' = [] (path fully consumed) and node_hash last = the key's hash. *)
Theorem C13_node_accept_iff : forall node_hash decode root key_hash path proof,
  validate_node_trie_proof node_hash decode root key_hash path proof = Ok tt <->
  node_proof_ok node_hash decode root key_hash path proof.
Proof. exact validate_node_iff. Qed.
Print Assumptions C13_node_accept_iff.

(* the account lookup used by storage-node and bytecode items: chain along the 64 nibbles of the address hash, ending in a
   LEAF whose key is exactly the rest of the path, holding the account *)
Theorem C13_account_accept_iff : forall node_hash decode decode_account root addr_hash proof acct,
  validate_account_state node_hash decode decode_account root addr_hash proof = Ok acct <->
  account_ok node_hash decode decode_account root addr_hash proof acct.
Proof. exact validate_account_iff. Qed.
Print Assumptions C13_account_accept_iff.

(* the three content kinds: header source gives the root for the block hash named in the content; account trie node:
   chain from that root; storage trie node: account chain, then chain from the account's storage root; bytecode: account
   chain and the account's code hash equals the key's *)
Theorem C13_content_accept_iff : forall node_hash decode decode_account header r,
  validate_content node_hash decode decode_account header r = Ok tt <->
  content_ok node_hash decode decode_account header r.
Proof. exact validate_content_iff. Qed.
Print Assumptions C13_content_accept_iff.

(* wrong root: rejected with the hash error *)
Theorem C13_wrong_root_rejected : forall node_hash decode root key_hash path first tl,
  node_hash first <> root ->
  validate_node_trie_proof node_hash decode root key_hash path (first :: tl) = Err E_HASH.
Proof.
  intros node_hash decode root kh path first tl H.
  unfold validate_node_trie_proof, validate_node_trie_proof_gen, validate_trie_proof_gen, check_node_hash.
  apply bytes_eqb_neq in H. now rewrite H.
Qed.
Print Assumptions C13_wrong_root_rejected.

(* broken link: in an accepted proof EVERY adjacent pair (a, b) is linked: a decodes to a node that references node_hash b *)
Theorem C13_every_link_holds : forall node_hash decode root key_hash path proof pre a b post,
  validate_node_trie_proof node_hash decode root key_hash path proof = Ok tt ->
  proof = pre ++ a :: b :: post ->
  exists n q h q', decode a = Ok n /\ ref_along n q = Some (h, q') /\ node_hash b = h.
Proof.
  intros node_hash decode root kh path proof pre a b post H E.
  apply validate_node_iff in H. destruct H as (last & (first & tl & -> & _ & Hl) & _).
  eapply linked_adjacent; eauto.
Qed.
Print Assumptions C13_every_link_holds.

(* for one root and one path the accepted proof (hence the accepted final node and key hash) is unique - or the two
   proofs exhibit a hash collision.  Needs only that the decoder returns a branch or a short node at top level. *)
Theorem C13_unique_or_collision : forall node_hash decode,
  (forall b n, decode b = Ok n -> is_top n = true) ->
  forall root path kh1 kh2 proof1 proof2,
  validate_node_trie_proof node_hash decode root kh1 path proof1 = Ok tt ->
  validate_node_trie_proof node_hash decode root kh2 path proof2 = Ok tt ->
  (proof1 = proof2 /\ kh1 = kh2) \/ (exists x y : bytes, x <> y /\ node_hash x = node_hash y).
Proof.
  intros node_hash decode Htop root path kh1 kh2 p1 p2 H1 H2.
  apply validate_node_iff in H1, H2. exact (node_proof_unique node_hash decode Htop _ _ _ _ _ _ H1 H2).
Qed.
Print Assumptions C13_unique_or_collision.

(* the proven account (storage root, code hash) is unique per (state root, address hash) - or a collision is exhibited *)
Theorem C13_account_unique_or_collision : forall node_hash decode decode_account root addr proof1 proof2 acct1 acct2,
  validate_account_state node_hash decode decode_account root addr proof1 = Ok acct1 ->
  validate_account_state node_hash decode decode_account root addr proof2 = Ok acct2 ->
  (proof1 = proof2 /\ acct1 = acct2) \/ (exists x y : bytes, x <> y /\ node_hash x = node_hash y).
Proof.
  intros node_hash decode decode_account root addr p1 p2 a1 a2 H1 H2.
  apply validate_account_iff in H1, H2. exact (account_unique node_hash decode decode_account _ _ _ _ _ _ H1 H2).
Qed.
Print Assumptions C13_account_unique_or_collision.

(* surplus / missing nodes: if a proof is accepted, no proper extension of it is (for any key hash), and vice versa *)
Theorem C13_surplus_or_missing_nodes_rejected : forall node_hash decode,
  (forall b n, decode b = Ok n -> is_top n = true) ->
  forall root path kh kh' proof extra more,
  validate_node_trie_proof node_hash decode root kh path proof = Ok tt ->
  validate_node_trie_proof node_hash decode root kh' path (proof ++ extra :: more) = Ok tt ->
  exists x y : bytes, x <> y /\ node_hash x = node_hash y.
Proof.
  intros node_hash decode Htop root path kh kh' proof extra more H1 H2.
  apply validate_node_iff in H1, H2. exact (surplus_rejected node_hash decode Htop _ _ _ _ _ _ _ H1 H2).
Qed.
Print Assumptions C13_surplus_or_missing_nodes_rejected.

(* wrong path length: the same proof is not accepted for a path with extra (or, read right to left, missing) nibbles *)
Theorem C13_path_consumed_exactly : forall node_hash decode root kh kh' path e proof,
  validate_node_trie_proof node_hash decode root kh path proof = Ok tt ->
  validate_node_trie_proof node_hash decode root kh' (path ++ e) proof = Ok tt -> e = [].
Proof.
  intros node_hash decode root kh kh' path e proof H1 H2.
  apply validate_node_iff in H1, H2. exact (wrong_path_length_rejected node_hash decode _ _ _ _ _ _ H1 H2).
Qed.
Print Assumptions C13_path_consumed_exactly.

(* what Put stores: the final node of the (storage) proof, or the code, SSZ-wrapped, and nothing else; and only after
   re-checking its hash against the key *)
Theorem C13_put_stores_only_final : forall node_hash r s,
  put node_hash r = Ok s -> expected_stored r = Some s.
Proof. exact put_stores_final. Qed.
Print Assumptions C13_put_stores_only_final.

Theorem C13_put_rechecks_hash : forall node_hash r s,
  put node_hash r = Ok s ->
  match r with
  | RAccountNode _ nh proof _ => exists pre l, proof = pre ++ [l] /\ node_hash l = nh
  | RStorageNode _ _ nh sproof _ _ => exists pre l, sproof = pre ++ [l] /\ node_hash l = nh
  | RBytecode _ ch code _ _ => node_hash code = ch
  end.
Proof. exact put_hash_checked. Qed.
Print Assumptions C13_put_rechecks_hash.

(* validator and Put together (state/network.go validateContents runs Put only after ValidateContent returned nil):
   an accepted trie node item is stored as its final node; an accepted bytecode item is stored iff the code hashes to the
   key's code hash (the validator itself only compares the proven account's code hash with the key) *)
Theorem C13_put_after_accept : forall node_hash decode decode_account header r,
  validate_content node_hash decode decode_account header r = Ok tt ->
  match r with
  | RBytecode _ ch code _ _ =>
      if bytes_eqb (node_hash code) ch then put node_hash r = Ok (ssz_single_bytelist code)
      else put node_hash r = Err E_CODE_HASH
  | _ => exists s, put node_hash r = Ok s /\ expected_stored r = Some s
  end.
Proof. exact put_after_accept. Qed.
Print Assumptions C13_put_after_accept.

(* totality: no request makes the (repaired) validator panic; "rejected" is a returned error.
   Hypotheses = what the model does not contain: the three library functions return, and the node decoder returns nodes
   of its own shape (17 children; a terminated key holds a value) - the driver checks wf_node on every decoded node. *)
Theorem C13_total : forall node_hash decode decode_account header,
  (forall b n, decode b = Ok n -> wf_node n = true) ->
  (forall b, decode b <> Panic) -> (forall b, decode_account b <> Panic) -> (forall b, header b <> Panic) ->
  forall r, validate_content node_hash decode decode_account header r <> Panic.
Proof. exact validate_content_no_panic. Qed.
Print Assumptions C13_total.

Theorem C13_rejected_is_error : forall node_hash decode decode_account header,
  (forall b n, decode b = Ok n -> wf_node n = true) ->
  (forall b, decode b <> Panic) -> (forall b, decode_account b <> Panic) -> (forall b, header b <> Panic) ->
  forall r, ~ content_ok node_hash decode decode_account header r ->
  exists e, validate_content node_hash decode decode_account header r = Err e.
Proof. exact rejected_is_error. Qed.
Print Assumptions C13_rejected_is_error.

(* the monitors' executable verdict is the theorem's predicate *)
Theorem C13_monitor_reflects : forall node_hash decode decode_account header r,
  snd (content_verdict node_hash decode decode_account header r) = V_OK <->
  content_ok node_hash decode decode_account header r.
Proof. exact content_verdict_iff. Qed.
Print Assumptions C13_monitor_reflects.

(* ---- histories: ONE validator instance, ONE storage, any sequence of items, any sequence of header-source answers ----
   An event = (what the header source does during this step: a function block hash -> root | error, so "serve by hash",
   "fail this lookup" and "serve a wrong header" are all instances; the content id; the item).
   The verdict of the step that follows ANY prefix of earlier steps is the verdict of that item alone ... *)
Theorem C13_history_step_independent : forall node_hash decode decode_account pre ev post st,
  nth_error (map fst (snd (run_history node_hash decode decode_account st (pre ++ ev :: post)))) (length pre)
  = Some (validate_content node_hash decode decode_account (ev_header ev) (ev_req ev)).
Proof. exact history_step_independent. Qed.
Print Assumptions C13_history_step_independent.

(* ... hence the accept-iff characterisation holds at every step of every history, against the header answer of THAT step *)
Theorem C13_history_accept_iff : forall node_hash decode decode_account evs st,
  Forall2 (fun ev o => fst o = Ok tt <-> content_ok node_hash decode decode_account (ev_header ev) (ev_req ev))
          evs (snd (run_history node_hash decode decode_account st evs)).
Proof. exact history_accept_iff. Qed.
Print Assumptions C13_history_accept_iff.

(* ... and whatever the storage holds after the history was either there before or is the final node / code of an item
   that satisfied the chain predicate in the step that stored it *)
Theorem C13_history_store : forall node_hash decode decode_account evs vs s st' os,
  run_history node_hash decode decode_account (vs, s) evs = (st', os) ->
  forall id v, store_get (snd st') id = Some v ->
    store_get s id = Some v \/
    exists ev, In ev evs /\ ev_id ev = id /\
               content_ok node_hash decode decode_account (ev_header ev) (ev_req ev) /\
               put node_hash (ev_req ev) = Ok v /\ expected_stored (ev_req ev) = Some v.
Proof. exact history_store. Qed.
Print Assumptions C13_history_store.

(* what "references along the path" means, case by case (ref_along is the definition used in chain / node_proof_ok):
   a hash references itself; a branch passes the path's first nibble to that child; an extension strips its key from the
   path; a leaf (key ending in the terminator 16), a value, nil and an empty-key short node reference nothing *)
Theorem C13_reference_semantics :
  (forall h p, ref_along (Hash h) p = Some (h, p)) /\
  (forall cs, ref_along (Full cs) [] = None) /\
  (forall cs i p, ref_along (Full cs) (i :: p) =
                  match nth_error cs (N.to_nat (b2n i)) with Some c => ref_along c p | None => None end) /\
  (forall pre l v r, l <> x16 -> ref_along (Short (pre ++ [l]) v) ((pre ++ [l]) ++ r) = ref_along v r) /\
  (forall pre l v p, l <> x16 -> (forall r, p <> (pre ++ [l]) ++ r) -> ref_along (Short (pre ++ [l]) v) p = None) /\
  (forall pre v p, ref_along (Short (pre ++ [x16]) v) p = None) /\
  (forall v p, ref_along (Short [] v) p = None) /\
  (forall v p, ref_along (Value v) p = None) /\
  (forall p, ref_along Nil p = None).
Proof. exact ref_along_semantics. Qed.
Print Assumptions C13_reference_semantics.

(* key paths: Nibbles.Deserialize yields at most 64 nibbles, each below 16 *)
Theorem C13_nibbles_range : forall b p,
  nibbles_deserialize b = Ok p -> Forall (fun x => b2n x <= 15) p /\ (length p <= 64)%nat.
Proof. exact nibbles_deserialize_range. Qed.
Print Assumptions C13_nibbles_range.

(* ---- the code before the fixes (kept as a record; the harness reproduced each on the real code first) ---- *)
Theorem C13_original_traverse_panics_refuted :
  traverse_orig (Short [] (Hash [x01])) [x01; x02] = Panic /\
  traverse_orig (Short [x01; x02; x03; x04] (Hash [x01])) [x01; x02] = Panic.
Proof. split; [exact traverse_orig_panics_on_empty_short_key | exact traverse_orig_panics_on_key_longer_than_path]. Qed.
Print Assumptions C13_original_traverse_panics_refuted.

Theorem C13_original_accepts_through_leaf_refuted :
  exists (node_hash : bytes -> bytes) (decode : bytes -> res node) root kh path proof,
    validate_node_trie_proof_orig node_hash decode root kh path proof = Ok tt /\
    ~ node_proof_ok node_hash decode root kh path proof.
Proof. exact orig_accepts_proof_through_leaf. Qed.
Print Assumptions C13_original_accepts_through_leaf_refuted.

(* premises are satisfiable: a two-node chain (branch-free toy: extension [7] -> leaf) is accepted, its mutations are not *)
Example C13_nonvacuous :
  let h := fun b : bytes => b in
  validate_node_trie_proof h toy_decode [x02] [x03] [x07] [[x02]; [x03]] = Ok tt /\
  node_proof_ok h toy_decode [x02] [x03] [x07] [[x02]; [x03]] /\
  validate_node_trie_proof h toy_decode [x02] [x03] [x07; x01] [[x02]; [x03]] = Err E_PATH_TOO_LONG /\
  validate_node_trie_proof h toy_decode [x02] [x03] [x08] [[x02]; [x03]] = Err E_DIFF_EXT /\
  validate_node_trie_proof h toy_decode [x02] [x01] [x07] [[x02]; [x03]] = Err E_HASH /\
  validate_node_trie_proof h toy_decode [x02] [x03] [x07] [[x02]; [x03]; [x03]] <> Ok tt /\
  validate_node_trie_proof h toy_decode [x02] [x03] [x07] [[x02]] = Err E_PATH_TOO_LONG /\
  put h (RAccountNode [x07] [x03] [[x02]; [x03]] []) = Ok [x04; x00; x00; x00; x03].
Proof.
  cbv zeta. split; [reflexivity|]. split; [apply validate_node_iff; reflexivity|].
  repeat split; try reflexivity. vm_compute. discriminate.
Qed.
