(* Properties/C14.v : wire messages round-trip and decode canonically within their limits.
   Only statements, closed by lemmas of Proofs/Wire.v, each followed by Print Assumptions.

   For a codec (enc, dec) with Go-type well-formedness wf and declared limits lim (Proofs/Wire.v):
     roundtrips          (a)  wf v -> lim v -> exists b, enc v = Ok b /\ dec b = Ok v
     overlimit_rejected  (b)  wf v -> ~ lim v -> enc v <> Panic /\ forall b, enc v = Ok b -> forall v', dec b <> Ok v'
     decodes_within      (c)  dec b = Ok v -> wf v /\ lim v
     canonical           (d)  dec b = Ok v -> enc v = Ok b
     codec_ok     = (a) /\ (b) /\ (c) /\ (d)          codec_lax_ok = (a) /\ (b) /\ (c)
   dec_T is a FUNCTION of the byte string (the Go decoders are modelled on a fresh receiver; for the decoders that are
   receiver-independent today the `redec` lines of the correspondence compare a second decode into a used object with
   dec_T of the bytes alone) and enc_T v is a value: later encodes may not change bytes handed out earlier (`hold` lines).
   dec_T false = the decoder as the code was found, dec_T true = with the missing check (repaired tree);
   Model/Wire.v code_strict_zero_offset / code_strict_fixed_scope / code_rejects_empty_list say which one the tree has. *)
From Shisui Require Import Base.Bytes Base.Ssz Model.Wire Model.WireState Proofs.Ssz Proofs.Ztyp Proofs.Wire Proofs.WireState Gen.K_wire.

(* ---- portalwire messages whose decoder is already strict: all four clauses *)
Theorem C14_Ping : codec_ok enc_Ping dec_Ping Ping_wf Ping_lim.
Proof. exact Ping_codec. Qed.
Print Assumptions C14_Ping.
Theorem C14_Pong : codec_ok enc_Pong dec_Pong Ping_wf Ping_lim.
Proof. exact Pong_codec. Qed.
Print Assumptions C14_Pong.
Theorem C14_FindNodes : codec_ok enc_FindNodes dec_FindNodes FindNodes_wf FindNodes_lim.
Proof. exact FindNodes_codec. Qed.
Print Assumptions C14_FindNodes.
Theorem C14_FindContent : codec_ok enc_FindContent dec_FindContent (fun _ => True) FindContent_lim.
Proof. exact FindContent_codec. Qed.
Print Assumptions C14_FindContent.
Theorem C14_ConnectionId : codec_ok enc_ConnectionId dec_ConnectionId (fun _ => True) ConnectionId_lim.
Proof. exact ConnectionId_codec. Qed.
Print Assumptions C14_ConnectionId.
Theorem C14_Content : codec_ok enc_Content dec_Content (fun _ => True) Content_lim.
Proof. exact Content_codec. Qed.
Print Assumptions C14_Content.
Theorem C14_Accept : codec_ok enc_Accept dec_Accept (fun _ => True) Accept_lim.
Proof. exact Accept_codec. Qed.
Print Assumptions C14_Accept.
Theorem C14_AcceptV1 : codec_ok enc_AcceptV1 dec_AcceptV1 (fun _ => True) AcceptV1_lim.
Proof. exact AcceptV1_codec. Qed.
Print Assumptions C14_AcceptV1.

(* ---- lists of variable-size items (Offer, Nodes, Enrs).  As found the decoders accepted a zero first offset
        (00000000) as the empty list; repaired by fixes/C14-zero-offset-empty-list.diff.  The theorems for the code are
        stated against the flag code_strict_zero_offset of Model/Wire.v (= true for the repaired tree): all four clauses.
        The _as_found variants (flag = false) keep (a)(b)(c) and the refutation of canonicity. *)
Theorem C14_Offer : codec_ok enc_Offer (dec_Offer code_strict_zero_offset) (fun _ => True) Offer_lim.
Proof. exact Offer_codec_strict. Qed.
Print Assumptions C14_Offer.
Theorem C14_Offer_as_found : codec_lax_ok enc_Offer (dec_Offer false) (fun _ => True) Offer_lim.
Proof. exact Offer_codec_lax. Qed.
Print Assumptions C14_Offer_as_found.
Theorem C14_Offer_as_found_canonicity_refuted : ~ canonical (dec_Offer false) enc_Offer.
Proof. exact Offer_canonicity_refuted. Qed.
Print Assumptions C14_Offer_as_found_canonicity_refuted.

Theorem C14_Nodes : codec_ok enc_Nodes (dec_Nodes code_strict_zero_offset) Nodes_wf Nodes_lim.
Proof. exact Nodes_codec_strict. Qed.
Print Assumptions C14_Nodes.
Theorem C14_Nodes_as_found : codec_lax_ok enc_Nodes (dec_Nodes false) Nodes_wf Nodes_lim.
Proof. exact Nodes_codec_lax. Qed.
Print Assumptions C14_Nodes_as_found.
Theorem C14_Nodes_as_found_canonicity_refuted : ~ canonical (dec_Nodes false) enc_Nodes.
Proof. exact Nodes_canonicity_refuted. Qed.
Print Assumptions C14_Nodes_as_found_canonicity_refuted.

Theorem C14_Enrs : codec_ok enc_Enrs (dec_Enrs code_strict_zero_offset) (fun _ => True) Enrs_lim.
Proof. exact Enrs_codec_strict. Qed.
Print Assumptions C14_Enrs.
Theorem C14_Enrs_as_found : codec_lax_ok enc_Enrs (dec_Enrs false) (fun _ => True) Enrs_lim.
Proof. exact Enrs_codec_lax. Qed.
Print Assumptions C14_Enrs_as_found.
Theorem C14_Enrs_as_found_canonicity_refuted : ~ canonical (dec_Enrs false) enc_Enrs.
Proof. exact Enrs_canonicity_refuted. Qed.
Print Assumptions C14_Enrs_as_found_canonicity_refuted.

(* the only string the lax list decoder accepts beyond the strict one is 00000000 (as the empty list) *)
Theorem C14_zero_offset_is_the_only_extra : forall A mxn (f : bytes -> res A) buf vs,
  dec_dyn_list false buf mxn f = Ok vs ->
  dec_dyn_list true buf mxn f = Ok vs \/ (buf = [x00; x00; x00; x00] /\ vs = []).
Proof. exact (@dec_dyn_list_lax_strict). Qed.
Print Assumptions C14_zero_offset_is_the_only_extra.

(* ---- the declared limits in numbers, for the decoders as they are (either strictness) *)
Theorem C14_declared_limits :
  (forall s b keys, dec_Offer s b = Ok keys -> nlen keys <= K_ContentKeysLimit /\ Forall (fun k => nlen k <= 2048) keys) /\
  (forall b key, dec_FindContent b = Ok key -> nlen key <= 2048) /\
  (forall s b total enrs, dec_Nodes s b = Ok (total, enrs) -> nlen enrs <= 32 /\ Forall (fun e => nlen e <= 2048) enrs) /\
  (forall s b enrs, dec_Enrs s b = Ok enrs -> nlen enrs <= 32 /\ Forall (fun e => nlen e <= 2048) enrs) /\
  (forall b ds, dec_FindNodes b = Ok ds -> nlen ds <= 256 /\ Forall (fun d => length d = 2%nat) ds) /\
  (forall b seq pt payload, dec_Ping b = Ok (seq, pt, payload) -> nlen payload <= 1100) /\
  (forall b seq pt payload, dec_Pong b = Ok (seq, pt, payload) -> nlen payload <= 1100) /\
  (forall b id, dec_ConnectionId b = Ok id -> nlen id = 2) /\
  (forall b cid keys, dec_Accept b = Ok (cid, keys) -> nlen cid = 2 /\ nlen keys <= 9) /\
  (forall b cid keys, dec_AcceptV1 b = Ok (cid, keys) -> nlen cid = 2 /\ nlen keys <= 64) /\
  (forall b c, dec_Content b = Ok c -> nlen c <= 2048).
Proof. exact declared_limits_enforced. Qed.
Print Assumptions C14_declared_limits.

(* ---- ping extensions (ztyp).  As found the two fixed-size payloads ignored trailing bytes; repaired by
        fixes/C14-fixed-ping-payload-length.diff (flag code_strict_fixed_scope = true for the repaired tree). *)
Theorem C14_BasicRadius : codec_ok enc_BasicRadius (dec_BasicRadius code_strict_fixed_scope) BasicRadius_wf (fun _ => True).
Proof. exact BasicRadius_codec_strict. Qed.
Print Assumptions C14_BasicRadius.
Theorem C14_BasicRadius_as_found : codec_lax_ok enc_BasicRadius (dec_BasicRadius false) BasicRadius_wf (fun _ => True).
Proof. exact BasicRadius_codec_lax. Qed.
Print Assumptions C14_BasicRadius_as_found.
Theorem C14_BasicRadius_as_found_canonicity_refuted : ~ canonical (dec_BasicRadius false) enc_BasicRadius.
Proof. exact BasicRadius_canonicity_refuted. Qed.
Print Assumptions C14_BasicRadius_as_found_canonicity_refuted.

Theorem C14_HistoryRadius : codec_ok enc_HistoryRadius (dec_HistoryRadius code_strict_fixed_scope) HistoryRadius_wf (fun _ => True).
Proof. exact HistoryRadius_codec_strict. Qed.
Print Assumptions C14_HistoryRadius.
Theorem C14_HistoryRadius_as_found : codec_lax_ok enc_HistoryRadius (dec_HistoryRadius false) HistoryRadius_wf (fun _ => True).
Proof. exact HistoryRadius_codec_lax. Qed.
Print Assumptions C14_HistoryRadius_as_found.
Theorem C14_HistoryRadius_as_found_canonicity_refuted : ~ canonical (dec_HistoryRadius false) enc_HistoryRadius.
Proof. exact HistoryRadius_canonicity_refuted. Qed.
Print Assumptions C14_HistoryRadius_as_found_canonicity_refuted.

(* the three ping payloads that end in a dynamic field: strict as found, all four clauses.
   (ClientInfo_wf also asks that ClientInfo is shorter than 2^32 - 40 bytes: ztyp's WriteOffset panics beyond that.) *)
Theorem C14_ErrorPayload : codec_ok enc_ErrorPayload dec_ErrorPayload ErrorPayload_wf ErrorPayload_lim.
Proof. exact ErrorPayload_codec. Qed.
Print Assumptions C14_ErrorPayload.
Theorem C14_ClientInfo : codec_ok enc_ClientInfo dec_ClientInfo ClientInfo_wf ClientInfo_lim.
Proof. exact ClientInfo_codec. Qed.
Print Assumptions C14_ClientInfo.
Theorem C14_Capabilities : codec_ok enc_Capabilities dec_Capabilities Capabilities_wf Capabilities_lim.
Proof. exact Capabilities_codec. Qed.
Print Assumptions C14_Capabilities.

(* ---- the two hand-written list containers of the history network.  As found they rejected the empty string (the
        encoding of the empty list: round trip failed) and accepted 00000000; repaired by
        fixes/C14-empty-list-roundtrip.diff and fixes/C14-zero-offset-empty-list.diff. *)
Theorem C14_EphPayload :
  codec_ok enc_EphPayload (dec_EphPayload code_rejects_empty_list code_strict_zero_offset) (fun _ => True) EphPayload_lim.
Proof. exact EphPayload_codec. Qed.
Print Assumptions C14_EphPayload.
(* PortalReceipts: the tag limits (16384 x 2^27) exceed what uint32 offsets address, so the round trip carries the
   hypothesis fits_u32 (4 * count + total size < 2^32); the other three clauses are unconditional *)
Theorem C14_Receipts :
  roundtrips enc_Receipts (dec_Receipts code_rejects_empty_list code_strict_zero_offset) fits_u32 Receipts_lim /\
  overlimit_rejected enc_Receipts (dec_Receipts code_rejects_empty_list code_strict_zero_offset) (fun _ => True) Receipts_lim /\
  decodes_within (dec_Receipts code_rejects_empty_list code_strict_zero_offset) (fun _ => True) Receipts_lim /\
  canonical (dec_Receipts code_rejects_empty_list code_strict_zero_offset) enc_Receipts.
Proof. exact Receipts_codec. Qed.
Print Assumptions C14_Receipts.
Theorem C14_EphPayload_as_found_roundtrip_refuted : forall s,
  ~ roundtrips enc_EphPayload (dec_EphPayload true s) (fun _ => True) EphPayload_lim.
Proof. exact EphPayload_as_found_roundtrip_refuted. Qed.
Print Assumptions C14_EphPayload_as_found_roundtrip_refuted.
Theorem C14_Receipts_as_found_roundtrip_refuted : forall s,
  ~ roundtrips enc_Receipts (dec_Receipts true s) fits_u32 Receipts_lim.
Proof. exact Receipts_as_found_roundtrip_refuted. Qed.
Print Assumptions C14_Receipts_as_found_roundtrip_refuted.
Theorem C14_EphPayload_as_found_canonicity_refuted : ~ canonical (dec_EphPayload true false) enc_EphPayload.
Proof. exact EphPayload_as_found_canonicity_refuted. Qed.
Print Assumptions C14_EphPayload_as_found_canonicity_refuted.
Theorem C14_Receipts_as_found_canonicity_refuted : ~ canonical (dec_Receipts true false) enc_Receipts.
Proof. exact Receipts_as_found_canonicity_refuted. Qed.
Print Assumptions C14_Receipts_as_found_canonicity_refuted.

(* ---- the other history-network containers (fastssz generated code, strict as found): all four clauses.
        vec_lim n l = exactly n items of 32 bytes. *)
Theorem C14_HashesAcc : codec_ok enc_HashesAcc dec_HashesAcc (fun _ => True) (vec_lim 15).
Proof. exact HashesAcc_codec. Qed.
Print Assumptions C14_HashesAcc.
Theorem C14_ProofRoots : codec_ok (enc_Proof4 14 11) (dec_Proof4 14 11) Proof4_wf (Proof4_lim 14 11).
Proof. exact (Proof4_codec 14 11). Qed.
Print Assumptions C14_ProofRoots.
Theorem C14_ProofCapella : codec_ok (enc_Proof4 13 11) (dec_Proof4 13 11) Proof4_wf (Proof4_lim 13 11).
Proof. exact (Proof4_codec 13 11). Qed.
Print Assumptions C14_ProofCapella.
Theorem C14_ProofDeneb : codec_ok (enc_Proof4 13 12) (dec_Proof4 13 12) Proof4_wf (Proof4_lim 13 12).
Proof. exact (Proof4_codec 13 12). Qed.
Print Assumptions C14_ProofDeneb.
Theorem C14_HeaderWithProof : codec_ok enc_HeaderWithProof dec_HeaderWithProof (fun _ => True) HeaderWithProof_lim.
Proof. exact HeaderWithProof_codec. Qed.
Print Assumptions C14_HeaderWithProof.
Theorem C14_FindEphKey : codec_ok enc_FindEphKey dec_FindEphKey FindEphKey_wf FindEphKey_lim.
Proof. exact FindEphKey_codec. Qed.
Print Assumptions C14_FindEphKey.
Theorem C14_OfferEphKey : codec_ok enc_OfferEphKey dec_OfferEphKey (fun _ => True) OfferEphKey_lim.
Proof. exact OfferEphKey_codec. Qed.
Print Assumptions C14_OfferEphKey.
Theorem C14_OfferEphHeader : codec_ok enc_OfferEphHeader dec_OfferEphHeader (fun _ => True) OfferEphHeader_lim.
Proof. exact OfferEphHeader_codec. Qed.
Print Assumptions C14_OfferEphHeader.
Theorem C14_HeaderRecord : codec_ok enc_HeaderRecord dec_HeaderRecord (fun _ => True) HeaderRecord_lim.
Proof. exact HeaderRecord_codec. Qed.
Print Assumptions C14_HeaderRecord.

(* ---- history block bodies (two / three variable-size fields, two of them lists) and the epoch accumulator.
        The bodies got the zero-offset repair too (flag code_strict_zero_offset); well-formedness = the field offsets fit
        uint32 (the tag limits 16384 x 16 MiB exceed 4 GiB and WriteOffset truncates). *)
Theorem C14_BodyLegacy : codec_ok enc_BodyLegacy (dec_BodyLegacy code_strict_zero_offset) BodyLegacy_wf BodyLegacy_lim.
Proof. exact BodyLegacy_codec. Qed.
Print Assumptions C14_BodyLegacy.
Theorem C14_BodyLegacy_as_found_canonicity_refuted : ~ canonical (dec_BodyLegacy false) enc_BodyLegacy.
Proof. exact BodyLegacy_as_found_canonicity_refuted. Qed.
Print Assumptions C14_BodyLegacy_as_found_canonicity_refuted.
Theorem C14_BodyShanghai : codec_ok enc_BodyShanghai (dec_BodyShanghai code_strict_zero_offset) BodyShanghai_wf BodyShanghai_lim.
Proof. exact BodyShanghai_codec. Qed.
Print Assumptions C14_BodyShanghai.
Theorem C14_BodyShanghai_as_found_canonicity_refuted : ~ canonical (dec_BodyShanghai false) enc_BodyShanghai.
Proof. exact BodyShanghai_as_found_canonicity_refuted. Qed.
Print Assumptions C14_BodyShanghai_as_found_canonicity_refuted.
Theorem C14_EpochAcc : codec_ok enc_EpochAcc dec_EpochAcc (fun _ => True) EpochAcc_lim.
Proof. exact EpochAcc_codec. Qed.
Print Assumptions C14_EpochAcc.

(* ---- the prover-side containers of package history (used by BuildHeaderWithProof / Accumulator.Finish):
        BlockHeaderWithProof (the same generated code as types/history.BlockHeaderWithProof), SSZProof, MasterAccumulator.
        All three decoders are strict as found: all four clauses. *)
Theorem C14_HeaderWithProofH : codec_ok enc_HeaderWithProof dec_HeaderWithProof (fun _ => True) HeaderWithProof_lim.
Proof. exact HeaderWithProofH_codec. Qed.
Print Assumptions C14_HeaderWithProofH.
Theorem C14_SSZProof : codec_ok enc_SSZProof dec_SSZProof (fun _ => True) SSZProof_lim.
Proof. exact SSZProof_codec. Qed.
Print Assumptions C14_SSZProof.
Theorem C14_MasterAcc : codec_ok enc_MasterAcc dec_MasterAcc (fun _ => True) MasterAcc_lim.
Proof. exact MasterAcc_codec. Qed.
Print Assumptions C14_MasterAcc.

(* ---- beacon content keys (fastssz generated code, strict as found): all four clauses.
        LightClientFinalityUpdateKey and LightClientOptimisticUpdateKey are the same code (one uint64). *)
Theorem C14_LcUpdateKey : codec_ok enc_LcUpdateKey dec_LcUpdateKey LcUpdateKey_wf (fun _ => True).
Proof. exact LcUpdateKey_codec. Qed.
Print Assumptions C14_LcUpdateKey.
Theorem C14_LcBootstrapKey : codec_ok enc_LcBootstrapKey dec_LcBootstrapKey (fun _ => True) OfferEphKey_lim.
Proof. exact LcBootstrapKey_codec. Qed.
Print Assumptions C14_LcBootstrapKey.
Theorem C14_LcSlotKey : codec_ok enc_LcSlotKey dec_LcSlotKey LcSlotKey_wf (fun _ => True).
Proof. exact LcSlotKey_codec. Qed.
Print Assumptions C14_LcSlotKey.

(* ---- the two fixed-size ztyp content keys.  As found they ignored trailing bytes (one logical key under many content ids);
        repaired by fixes/C14-fixed-size-content-keys-length.diff (Model/WireState.v code_strict_state_fixed_keys = true). *)
Theorem C14_BytecodeKey : codec_ok enc_BytecodeKey (dec_BytecodeKey code_strict_state_fixed_keys) BytecodeKey_wf (fun _ => True).
Proof. exact BytecodeKey_codec_strict. Qed.
Print Assumptions C14_BytecodeKey.
Theorem C14_BytecodeKey_as_found : codec_lax_ok enc_BytecodeKey (dec_BytecodeKey false) BytecodeKey_wf (fun _ => True).
Proof. exact BytecodeKey_codec_lax. Qed.
Print Assumptions C14_BytecodeKey_as_found.
Theorem C14_BytecodeKey_as_found_canonicity_refuted : ~ canonical (dec_BytecodeKey false) enc_BytecodeKey.
Proof. exact BytecodeKey_canonicity_refuted. Qed.
Print Assumptions C14_BytecodeKey_as_found_canonicity_refuted.
Theorem C14_HistSummariesKey :
  codec_ok enc_HistSummariesKey (dec_HistSummariesKey code_strict_state_fixed_keys) LcSlotKey_wf (fun _ => True).
Proof. exact HistSummariesKey_codec_strict. Qed.
Print Assumptions C14_HistSummariesKey.
Theorem C14_HistSummariesKey_as_found : codec_lax_ok enc_HistSummariesKey (dec_HistSummariesKey false) LcSlotKey_wf (fun _ => True).
Proof. exact HistSummariesKey_codec_lax. Qed.
Print Assumptions C14_HistSummariesKey_as_found.
Theorem C14_HistSummariesKey_as_found_canonicity_refuted : ~ canonical (dec_HistSummariesKey false) enc_HistSummariesKey.
Proof. exact HistSummariesKey_canonicity_refuted. Qed.
Print Assumptions C14_HistSummariesKey_as_found_canonicity_refuted.
Theorem C14_fixed_keys_total : forall s b, dec_BytecodeKey s b <> Panic /\ dec_HistSummariesKey s b <> Panic.
Proof. exact (fun s b => conj (dec_BytecodeKey_total s b) (dec_HistSummariesKey_total s b)). Qed.
Print Assumptions C14_fixed_keys_total.

(* ---- the state-network types built from ztyp's Container / dynamic List / the hand-written Nibbles codec.
        Derived from the generic invariants of Proofs/Ztyp.v (container_fwd / container_inv / container_total, exactness of
        every field decoder, the dynamic-list lemmas) through the TypedContainer section of Proofs/WireState.v.
        Limits: at most 64 nibbles (each < 16), trie nodes of at most 1024 bytes, proofs of at most 65 nodes, code of at most
        32768 bytes.  Well-formedness asks Bytes32 fields to have 32 bytes and the value to fit 32-bit offsets (bl_fits,
        40 + size < 2^32: ztyp's WriteOffset panics beyond). *)
Theorem C14_AccountTrieNodeKey :
  codec_ok enc_AccountTrieNodeKey dec_AccountTrieNodeKey AccountTrieNodeKey_wf AccountTrieNodeKey_lim.
Proof. exact (proj1 AccountTrieNodeKey_codec_total). Qed.
Print Assumptions C14_AccountTrieNodeKey.
Theorem C14_StorageTrieNodeKey :
  codec_ok enc_StorageTrieNodeKey dec_StorageTrieNodeKey StorageTrieNodeKey_wf StorageTrieNodeKey_lim.
Proof. exact (proj1 StorageTrieNodeKey_codec_total). Qed.
Print Assumptions C14_StorageTrieNodeKey.
Theorem C14_TrieNode : codec_ok enc_TrieNode dec_TrieNode (fun _ => True) TrieNode_lim.
Proof. exact TrieNode_codec. Qed.
Print Assumptions C14_TrieNode.
Theorem C14_TrieProof : codec_ok enc_TrieProof dec_TrieProof bl_fits proof_lim.
Proof. exact TrieProof_codec. Qed.
Print Assumptions C14_TrieProof.
Theorem C14_BytecodeContainer : codec_ok enc_BytecodeContainer dec_BytecodeContainer (fun _ => True) BytecodeContainer_lim.
Proof. exact BytecodeContainer_codec. Qed.
Print Assumptions C14_BytecodeContainer.
Theorem C14_AccountTrieNodeWithProof :
  codec_ok enc_AccountTrieNodeWithProof dec_AccountTrieNodeWithProof AccountTrieNodeWithProof_wf AccountTrieNodeWithProof_lim.
Proof. exact (proj1 AccountTrieNodeWithProof_codec_total). Qed.
Print Assumptions C14_AccountTrieNodeWithProof.
Theorem C14_StorageTrieNodeWithProof :
  codec_ok enc_StorageTrieNodeWithProof dec_StorageTrieNodeWithProof StorageTrieNodeWithProof_wf StorageTrieNodeWithProof_lim.
Proof. exact (proj1 StorageTrieNodeWithProof_codec_total). Qed.
Print Assumptions C14_StorageTrieNodeWithProof.
Theorem C14_BytecodeWithProof :
  codec_ok enc_BytecodeWithProof dec_BytecodeWithProof BytecodeWithProof_wf BytecodeWithProof_lim.
Proof. exact (proj1 BytecodeWithProof_codec_total). Qed.
Print Assumptions C14_BytecodeWithProof.
Theorem C14_CustomPayload : codec_ok enc_CustomPayload dec_CustomPayload (fun _ => True) CustomPayload_lim.
Proof. exact CustomPayload_codec. Qed.
Print Assumptions C14_CustomPayload.
(* no decoder of the second table (Model/WireState.v) ever panics, in either variant *)
Theorem C14_decoders_total_state : forall fs t b, dec_any2 fs t b <> Panic.
Proof. exact dec_any2_total. Qed.
Print Assumptions C14_decoders_total_state.

(* the generic Container theorems themselves (any field list whose decoders are exact) *)
Theorem C14_ztyp_container_reads_what_it_writes : forall fs cs vs data,
  Forall exact fs -> fo3 fs cs vs -> zs_container (sers fs cs) = Ok data ->
  exists r', z_container fs (rd_new data) = Ok (vs, r') /\ rd_inp r' = [].
Proof. exact container_fwd. Qed.
Print Assumptions C14_ztyp_container_reads_what_it_writes.
Theorem C14_ztyp_container_accepts_only_what_it_writes : forall fs data vs r',
  Forall exact fs -> has_dyn fs -> z_container fs (rd_new data) = Ok (vs, r') ->
  exists cs, fo3 fs cs vs /\ zs_container (sers fs cs) = Ok data.
Proof. exact container_inv. Qed.
Print Assumptions C14_ztyp_container_accepts_only_what_it_writes.
Theorem C14_ztyp_container_total : forall fs r, Forall total fs -> z_container fs r <> Panic.
Proof. exact container_total. Qed.
Print Assumptions C14_ztyp_container_total.

(* ---- the fork-digest dispatch of the beacon Forked* wrappers (payload codec = the zrnt library, a Section variable here:
        pdec k / penc k are Deserialize / Serialize of the k-th payload type; the correspondence run supplies the library's
        own verdict per input).  As found, bytes after a fixed-size (altair) payload were ignored; repaired by
        fixes/C14-forked-wrapper-scope.diff (Model/WireState.v code_strict_forked_scope = true). *)
Theorem C14_fork_digest_switch : forall w,
  fork_select w D_Bellatrix = Some 0 /\ fork_select w D_Capella = Some (match w with WHistSummaries => 0 | _ => 1 end) /\
  fork_select w D_Deneb = Some (match w with WHistSummaries => 0 | _ => 2 end) /\
  fork_select w D_Electra = Some (match w with WHistSummaries => 0 | WOptimistic => 2 | _ => 3 end).
Proof. exact fork_select_known. Qed.
Print Assumptions C14_fork_digest_switch.
Theorem C14_Forked_unknown_digest_rejected : forall P pdec penc s w d rest,
  w <> WHistSummaries -> nlen d = 4 -> ~ known_digest d -> dec_Forked P pdec penc s w (d ++ rest) = Err E_SELECTOR.
Proof. exact Forked_unknown_rejected. Qed.
Print Assumptions C14_Forked_unknown_digest_rejected.
Theorem C14_Forked_accepts_only_known : forall P pdec penc s w data d k p,
  dec_Forked P pdec penc s w data = Ok (d, k, p) -> nlen d = 4 /\ fork_select w d = Some k /\ (w = WHistSummaries \/ known_digest d).
Proof. exact Forked_accepts_known. Qed.
Print Assumptions C14_Forked_accepts_only_known.
Theorem C14_Forked_roundtrip : forall P pdec penc, (forall k p, pdec k (penc k p) = Ok p) ->
  forall s w d k p, nlen d = 4 -> fork_select w d = Some k -> dec_Forked P pdec penc s w (d ++ penc k p) = Ok (d, k, p).
Proof. exact Forked_roundtrip. Qed.
Print Assumptions C14_Forked_roundtrip.
Theorem C14_Forked_canonical : forall P pdec penc, (forall k r p, pdec k r = Ok p -> exists t, r = penc k p ++ t) ->
  forall w, w <> WHistSummaries -> canonical (dec_Forked P pdec penc code_strict_forked_scope w) (enc_Forked P penc).
Proof. exact Forked_canonical. Qed.
Print Assumptions C14_Forked_canonical.
Theorem C14_Forked_total : forall P pdec penc s w data, (forall k r, pdec k r <> Panic) -> dec_Forked P pdec penc s w data <> Panic.
Proof. exact Forked_total. Qed.
Print Assumptions C14_Forked_total.
Theorem C14_Forked_as_found_canonicity_refuted :
  exists (pdec : N -> bytes -> res bytes) (penc : N -> bytes -> bytes),
    (forall k p, nlen p = 1 -> pdec k (penc k p) = Ok p) /\ (forall k r p, pdec k r = Ok p -> exists t, r = penc k p ++ t) /\
    ~ canonical (dec_Forked bytes pdec penc false WBootstrap) (enc_Forked bytes penc).
Proof. exact Forked_as_found_canonicity_refuted. Qed.
Print Assumptions C14_Forked_as_found_canonicity_refuted.

(* ---- totality: no modelled decoder ever panics (Go: index / slice out of range), in any variant (as found or
        repaired), for any byte string.  dec_any dispatches to the 27 typed decoders; the typed statements follow. *)
Theorem C14_decoders_total : forall zs fs rej t b, dec_any zs fs rej t b <> Panic.
Proof. exact dec_any_total. Qed.
Print Assumptions C14_decoders_total.
Theorem C14_portalwire_decoders_total : forall s b,
  dec_Ping b <> Panic /\ dec_Pong b <> Panic /\ dec_FindNodes b <> Panic /\ dec_FindContent b <> Panic /\
  dec_Offer s b <> Panic /\ dec_Nodes s b <> Panic /\ dec_ConnectionId b <> Panic /\ dec_Content b <> Panic /\
  dec_Enrs s b <> Panic /\ dec_Accept b <> Panic /\ dec_AcceptV1 b <> Panic /\
  dec_ClientInfo b <> Panic /\ dec_BasicRadius s b <> Panic /\ dec_HistoryRadius s b <> Panic /\
  dec_ErrorPayload b <> Panic /\ dec_Capabilities b <> Panic.
Proof. exact portalwire_decoders_total. Qed.
Print Assumptions C14_portalwire_decoders_total.

(* premises are satisfiable by non-trivial values *)
Example C14_nonvacuous :
  Offer_lim [[x01; x02]; []; [xff]] /\
  (exists b, enc_Offer [[x01; x02]; []; [xff]] = Ok b /\ dec_Offer false b = Ok [[x01; x02]; []; [xff]]) /\
  dec_Offer false [x04; x00; x00; x00; x00; x00; x00; x00] = Ok [] /\
  dec_Offer code_strict_zero_offset [x04; x00; x00; x00; x00; x00; x00; x00] = Err E_STRICT /\
  enc_Offer [] = Ok [x04; x00; x00; x00] /\
  Ping_wf (7, 1, [xaa]) /\ Ping_lim (7, 1, [xaa]) /\
  bind (enc_Ping (7, 1, [xaa])) dec_Ping = Ok (7, 1, [xaa]).
Proof.
  split; [split; [vm_compute; discriminate | repeat constructor; vm_compute; discriminate]|].
  split; [eexists; split; vm_compute; reflexivity|].
  split; [vm_compute; reflexivity|]. split; [vm_compute; reflexivity|]. split; [vm_compute; reflexivity|].
  split; [split; vm_compute; reflexivity|]. split; [vm_compute; discriminate|]. vm_compute; reflexivity.
Qed.
