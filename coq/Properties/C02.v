(* Properties/C02.v : History content is accepted only when bound to its key and the trusted roots.
   Only statements, closed by lemmas of Proofs/History.v, each followed by Print Assumptions.
   L : lib bundles the library functions (header hash, decoders, root derivations, the C03 header proof check,
   the empty-receipts constant): every theorem holds for ALL of them.  src is the header source (arbitrary: it may
   lie), lookup the network (arbitrary).  `repaired` is the code of the current tree (fixes/C02-*.diff applied),
   `as_found` and the single-flag variants are the code before the fixes. *)
From Shisui Require Import Base.Bytes Model.History Proofs.History.

(* acceptance is exactly "bound to the key" (relative to what the source answered, which must itself hash to the key) *)
Theorem C02_accept_iff : forall L src key content,
  vc L repaired src key content = Ok tt <-> accepts L src key content.
Proof. intros. apply accept_iff; reflexivity. Qed.
Print Assumptions C02_accept_iff.

(* ... and in the source-independent words of the property *)
Theorem C02_accept_sound : forall L src key content,
  vc L repaired src key content = Ok tt -> genuine L key content.
Proof. intros L src key content. apply accept_sound; reflexivity. Qed.
Print Assumptions C02_accept_sound.

(* header by hash: the header's hash equals the key's and the proof verifies *)
Theorem C02_header_by_hash : forall L src kh content,
  vc L repaired src (x00 :: kh) content = Ok tt ->
  exists hb proof h, l_dec_hwp L content = Some (hb, proof) /\ l_dec_header L hb = Some h /\
                     l_hdr_hash L h = kh /\ l_proof_check L h proof = Ok tt.
Proof. exact header_by_hash_sound. Qed.
Print Assumptions C02_header_by_hash.

(* header by number: as in the code the comparison is on header.Number.Uint64(), i.e. modulo 2^64 (a header whose
   number exceeds 2^64 is only excluded by the proof check, C03) *)
Theorem C02_header_by_number : forall L src kh content,
  vc L repaired src (x03 :: kh) content = Ok tt ->
  length kh = 8%nat /\
  exists hb proof h n, l_dec_hwp L content = Some (hb, proof) /\ l_dec_header L hb = Some h /\
                       key_number kh = Some n /\ h_number h mod two64 = n /\ l_proof_check L h proof = Ok tt.
Proof. exact header_by_number_sound. Qed.
Print Assumptions C02_header_by_number.

(* body: uncle hash, transaction root and withdrawals root (presence included) are those of a header whose hash is
   the key's block hash - whatever the source answered *)
Theorem C02_body_bound : forall L src kh content,
  vc L repaired src (x01 :: kh) content = Ok tt ->
  exists h b, l_hdr_hash L h = kh /\ l_dec_body L content = Some b /\ body_matches L b h.
Proof. exact body_sound. Qed.
Print Assumptions C02_body_bound.

(* ... and of EVERY header with that hash, or the two headers are an explicit keccak collision *)
Theorem C02_body_the_header_or_collision : forall L src kh content,
  vc L repaired src (x01 :: kh) content = Ok tt ->
  forall h', l_hdr_hash L h' = kh ->
    (exists b, l_dec_body L content = Some b /\ body_matches L b h') \/ collision L.
Proof. intros L src kh content H. apply body_any_header_or_collision. eapply C02_accept_sound. exact H. Qed.
Print Assumptions C02_body_the_header_or_collision.

Theorem C02_receipts_bound : forall L src kh content,
  vc L repaired src (x02 :: kh) content = Ok tt ->
  exists h, l_hdr_hash L h = kh /\ receipts_match L content h.
Proof. exact receipts_sound. Qed.
Print Assumptions C02_receipts_bound.

Theorem C02_receipts_the_header_or_collision : forall L src kh content,
  vc L repaired src (x02 :: kh) content = Ok tt ->
  forall h', l_hdr_hash L h' = kh -> receipts_match L content h' \/ collision L.
Proof. intros L src kh content H. apply receipts_any_header_or_collision. eapply C02_accept_sound. exact H. Qed.
Print Assumptions C02_receipts_the_header_or_collision.

(* any other byte string under that key is rejected with an error, never a panic
   (hypothesis: the header proof check itself does not panic - C03's totality theorem) *)
Theorem C02_unbound_rejected_with_error : forall L src key content,
  (forall h p, l_proof_check L h p <> Panic) ->
  ~ accepts L src key content -> exists e, vc L repaired src key content = Err e.
Proof. exact unbound_rejected. Qed.
Print Assumptions C02_unbound_rejected_with_error.

Theorem C02_never_panics : forall L src key content,
  (forall h p, l_proof_check L h p <> Panic) -> vc L repaired src key content <> Panic.
Proof. intros. apply no_panic; auto. Qed.
Print Assumptions C02_never_panics.

(* the key itself: an accepted key is exactly selector ++ 32 bytes (0x00, 0x01, 0x02) or selector ++ 8 bytes (0x03);
   over-long, truncated and left/right-extended keys are rejected (hash values are 32 bytes long) *)
Theorem C02_key_length : forall L src key content,
  (forall h, length (l_hdr_hash L h) = 32%nat) ->
  vc L repaired src key content = Ok tt -> key_exact key.
Proof. exact key_length. Qed.
Print Assumptions C02_key_length.

(* ephemeral and unknown selectors are not validated: always an error *)
Theorem C02_other_selectors_rejected : forall L src s kh content,
  Byte.eqb s x00 = false -> Byte.eqb s x01 = false -> Byte.eqb s x02 = false -> Byte.eqb s x03 = false ->
  vc L repaired src (s :: kh) content = Err E_UNKNOWN.
Proof. exact other_selector_rejected. Qed.
Print Assumptions C02_other_selectors_rejected.

(* validateContents gates Put: whatever is offered, with whatever source, only bound content is stored *)
Theorem C02_offer_gates_put : forall L src keys contents s r s' puts,
  vcs L repaired src keys contents s = (r, s', puts) -> store_ok L s ->
  store_ok L s' /\ Forall (gp L) puts.
Proof. intros L src keys contents s r s' puts. apply vcs_sound; reflexivity. Qed.
Print Assumptions C02_offer_gates_put.

(* the getters return (and store) only the decoding of content bound to the requested key *)
Theorem C02_getter_returns_bound : forall L A sel (decode : bytes -> option A) src lookup s hash r s' p,
  gett L repaired sel decode src lookup s hash = (r, s', p) -> store_ok L s ->
  store_ok L s' /\ Forall (gp L) p /\
  (forall a, r = Ok a -> exists c, genuine L (sel :: hash) c /\ decode c = Some a).
Proof. intros L A sel decode src lookup s hash r s' p. apply getter_sound; reflexivity. Qed.
Print Assumptions C02_getter_returns_bound.

(* the glue on its own: for ANY validator whose acceptances are bound (Network.validator is an interface) and under
   scripted storage faults (every Get of the call fails / every Put fails), validateContents and the getters store
   and return only bound content, and do not panic when the validator does not *)
Theorem C02_glue_offer_any_validator : forall L validate gfail pfail keys contents i s puts r s' puts',
  (forall k c, validate k c = Ok tt -> genuine L k c) ->
  validate_contents_loop_g validate gfail pfail keys i contents s puts = (r, s', puts') ->
  store_ok L s -> Forall (gp L) puts -> store_ok L s' /\ Forall (gp L) puts'.
Proof. intros L validate gfail pfail keys contents i s puts r s' puts' Hv. now apply loop_g_sound. Qed.
Print Assumptions C02_glue_offer_any_validator.

Theorem C02_glue_getter_any_validator : forall L A validate gfail pfail sel (decode : bytes -> option A) lookup s hash r s' p,
  (forall k c, validate k c = Ok tt -> genuine L k c) ->
  getter_g validate gfail pfail sel decode lookup s hash = (r, s', p) -> store_ok L s ->
  store_ok L s' /\ Forall (gp L) p /\
  (forall a, r = Ok a -> exists c, genuine L (sel :: hash) c /\ decode c = Some a).
Proof. intros L A validate gfail pfail sel decode lookup s hash r s' p. apply getter_g_sound. Qed.
Print Assumptions C02_glue_getter_any_validator.

Theorem C02_glue_never_panics : forall A validate gfail pfail sel (decode : bytes -> option A) lookup s hash keys contents puts,
  (forall k c, validate k c <> Panic) ->
  fst (fst (getter_g validate gfail pfail sel decode lookup s hash)) <> Panic /\
  (length keys = length contents -> fst (fst (validate_contents_loop_g validate gfail pfail keys 0 contents s puts)) <> Panic).
Proof.
  intros A validate gfail pfail sel decode lookup s hash keys contents puts Hv. split.
  - now apply getter_g_no_panic.
  - intros Hl. apply loop_g_no_panic; [exact Hv | simpl; lia].
Qed.
Print Assumptions C02_glue_never_panics.

(* the written-out validateContents / getters of the model are the fault-free instances of that generic glue *)
Theorem C02_glue_instances : forall L v src,
  (forall keys contents i s puts,
     vcs_loop L v src keys i contents s puts = validate_contents_loop_g (vc L v src) false false keys i contents s puts) /\
  (forall A sel (decode : bytes -> option A) lookup s hash,
     gett L v sel decode src lookup s hash = getter_g (vc L v src) false false sel decode lookup s hash).
Proof. intros L v src. split; [intros; apply loop_is_instance | intros; apply getter_is_instance]. Qed.
Print Assumptions C02_glue_instances.

(* all histories of offers and getter calls from the empty store, every step with its own arbitrary source and
   network answer: every Put and every returned value is bound to its key, and the store stays bound *)
Theorem C02_history_sound : forall L ops obs s',
  run L repaired ops [] = (obs, s') -> store_ok L s' /\ Forall2 (op_obs_ok L) ops obs.
Proof. exact history_sound. Qed.
Print Assumptions C02_history_sound.

Theorem C02_offer_never_panics : forall L src keys contents s,
  (forall h p, l_proof_check L h p <> Panic) -> length keys = length contents ->
  fst (fst (vcs L repaired src keys contents s)) <> Panic.
Proof. exact offer_no_panic. Qed.
Print Assumptions C02_offer_never_panics.

Theorem C02_getter_never_panics : forall L A sel (decode : bytes -> option A) src lookup s hash,
  (forall h p, l_proof_check L h p <> Panic) ->
  fst (fst (gett L repaired sel decode src lookup s hash)) <> Panic.
Proof. intros. apply getter_no_panic; auto. Qed.
Print Assumptions C02_getter_never_panics.

(* the header the ValidationOracle hands out hashes to the requested hash *)
Theorem C02_oracle_bound : forall L serve hash h,
  oracle L repaired serve hash = Some h -> l_hdr_hash L h = hash.
Proof. intros L serve hash h. apply oracle_bound. reflexivity. Qed.
Print Assumptions C02_oracle_bound.

(* ---- the code as found (before fixes/C02-*.diff), one flag at a time; witnesses replayed on the real code ---- *)

(* (i) no comparison of the obtained header's hash with the key: a lying source gets a foreign body / receipt list accepted *)
Theorem C02_lying_source_body_refuted :
  exists src key content, vc wl (mkVariant false true true true true) src key content = Ok tt /\ ~ genuine wl key content.
Proof. exact lying_source_body_refuted. Qed.
Print Assumptions C02_lying_source_body_refuted.

Theorem C02_lying_source_receipts_refuted :
  exists src key content, vc wl (mkVariant false true true true true) src key content = Ok tt /\ ~ genuine wl key content.
Proof. exact lying_source_receipts_refuted. Qed.
Print Assumptions C02_lying_source_receipts_refuted.

(* (ii) legacy body accepted for a header with a withdrawals root (honest source) *)
Theorem C02_legacy_body_refuted :
  exists src key content h b,
    vc wl (mkVariant true false true true true) src key content = Ok tt /\
    src (tl key) = Some h /\ l_hdr_hash wl h = tl key /\ l_dec_body wl content = Some b /\
    l_wd_root wl b = None /\ h_wd h <> None /\ ~ body_matches wl b h.
Proof. exact legacy_body_refuted. Qed.
Print Assumptions C02_legacy_body_refuted.

(* (iii) nil WithdrawalsHash dereference (honest source) *)
Theorem C02_nil_withdrawals_hash_refuted :
  exists src key content h,
    src (tl key) = Some h /\ l_hdr_hash wl h = tl key /\
    vc wl (mkVariant true false true true true) src key content = Panic.
Proof. exact nil_withdrawals_hash_refuted. Qed.
Print Assumptions C02_nil_withdrawals_hash_refuted.

(* contentKey[0] on an empty key (repaired by the coordinator's commit "return an error for an empty content key") *)
Theorem C02_empty_key_refuted : exists src content, vc wl (mkVariant true true false true true) src [] content = Panic.
Proof. exact empty_key_refuted. Qed.
Print Assumptions C02_empty_key_refuted.

(* 0x03 keys: bytes after the 8-byte number were ignored (fixes/C02-number-key-exact-length.diff) *)
Theorem C02_number_key_trailing_refuted :
  exists src key content,
    vc wl (mkVariant true true true true false) src key content = Ok tt /\ ~ key_exact key.
Proof. exact number_key_trailing_refuted. Qed.
Print Assumptions C02_number_key_trailing_refuted.

Theorem C02_oracle_refuted :
  exists serve hash h, oracle wl (mkVariant true true true false true) serve hash = Some h /\ l_hdr_hash wl h <> hash.
Proof. exact oracle_refuted. Qed.
Print Assumptions C02_oracle_refuted.

Theorem C02_as_found_refuted :
  (exists src key content, vc wl as_found src key content = Ok tt /\ ~ genuine wl key content) /\
  (exists src key content, vc wl as_found src key content = Panic).
Proof. exact as_found_refuted. Qed.
Print Assumptions C02_as_found_refuted.

(* premises are satisfiable: a genuine body is accepted, the refutation witnesses are rejected by the repaired model *)
Example C02_nonvacuous :
  vc wl repaired (fun _ => Some wS) [x01; xbb; x01; x07] [x01; x09] = Ok tt /\
  genuine wl [x01; xbb; x01; x07] [x01; x09] /\
  vc wl repaired (fun _ => Some wA) [x01; xbb; x02; x05] [x01] = Err E_HASH /\
  vc wl repaired (fun _ => Some wA) [x02; xbb; x02; x05] [x07] = Err E_HASH /\
  vc wl repaired (fun _ => Some wS) [x01; xbb; x01; x07] [x01] = Err E_WD /\
  vc wl repaired (fun _ => Some wA) [x01; xaa; x01; x07] [x01; x09] = Err E_WD /\
  vc wl repaired (fun _ => None) [] [] = Err E_KEY /\
  oracle wl repaired (fun _ => Some [xaa]) [xbb] = None.
Proof. exact repaired_example. Qed.
